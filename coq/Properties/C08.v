(* C08 Valid configurations run to the end; shipped schedulers decide admissibly.
   Statements only; every proof is [exact <lemma of Proofs/SafetyFacts.v>]. What is proved:
   - naive/starter with single-operator containers: the closed loop never raises (full theorem);
   - naive/starter in any mode, overbook with overcommit: a run can only stop with an error raised inside a
     container tick ([inner_err]: dependency/transition/stop-iteration/empty script), never by overselling a
     pool, naming a wrong pool, a bad suspension or the operator-count assertion (partial);
   - per round admissibility for naive/starter/overbook; for priority see C12_admissible, for priority-pool
     C16_no_internal_assertion;
   - the statistics epilogue is total.
   - naive with multi-operator containers (a whole pipeline per container) and overbook with memory
     overcommit: the closed loop never raises (full theorems, Proofs/ClosedLoopFacts.v); hence naive and the
     starter template run to the end in every container mode;
   The closed-loop claim for priority and priority-pool is proved further down (C08_priority_runs_to_end,
   C08_priority_pool_runs_to_end).
   NOTE (audit A/P1, A/P2, B/P2): the theorems C08_*_runs_to_end / *_run_errors* are statements about the LOOP
   [sim_run] started from [init_sim]: the loop without the scheduler's init assertion (priority-pool: exactly two
   pools) and without the utilisation-percentage statement at the end of tick 0 (simulator.py:364-370, which
   divides by the total RAM of all pools). They hold for every pool count and size as stated, but the code only
   starts / gets past tick 0 with 0 < np, ram <> 0 (and np = 2 for priority-pool). The last section restates them
   for the entry point [sim_main] (Model/Simulator.v), which contains both statements, with those hypotheses.
   Likewise C08_final_stats_total says nothing about the code for duration = 0 or ticks_per_second = 0 (Coq's
   x / 0 = 0; Python raises): see C08_final_stats_total_pos and C08_zero_duration_is_totalised. *)
From Coq Require Import List ZArith QArith.
Import ListNotations.
From Eudoxia Require Import Model.Types Model.Dag Model.Lifecycle Model.Container Model.Pool Model.Executor
  Model.Sched Model.Simulator Proofs.ExecLifeFacts Proofs.SafetyFacts Proofs.ClosedLoopFacts.
Close Scope Q_scope.
Close Scope Z_scope.

(* naive in single-operator mode and the starter template (any mode): every workload of well-formed DAG
   pipelines with fresh ids, every pool count and size, every tick rate, every non-empty timing script:
   the run reaches its last tick *)
Theorem C08_single_mode_runs_to_end : forall C l (starter : bool) np cpu ram arrivals,
  cf_static C = mk_static l -> dags_wf l ->
  (forall op c, cf_script C op c <> []) ->
  (if starter then true else negb (cf_multi C)) = true ->
  NoDup (concat arrivals) ->
  exists sf logs,
    sim_run C (if starter then AStarter else ANaive) 0%Z (init_sim C np cpu ram) arrivals
    = (sf, logs, None) /\ length logs = length arrivals.
Proof. exact single_mode_runs_to_end_mk_static. Qed.
Print Assumptions C08_single_mode_runs_to_end.

(* naive/starter, any mode (partial): a run that stops, stops with an error from inside a container tick *)
Theorem C08_naive_run_errors_partial : forall C (starter : bool) np cpu ram arrivals sf logs er,
  orders_nodup (cf_static C) ->
  sim_run C (if starter then AStarter else ANaive) 0%Z (init_sim C np cpu ram) arrivals
    = (sf, logs, Some er) ->
  inner_err er.
Proof. exact naive_run_errors_partial. Qed.
Print Assumptions C08_naive_run_errors_partial.

(* overbook with overcommit (partial) *)
Theorem C08_overbook_run_errors_partial : forall C np cpu ram arrivals sf logs er,
  cf_overcommit C = true -> Qleb ram 0%Q = false ->
  sim_run C AOverbook 0%Z (init_sim C np cpu ram) arrivals = (sf, logs, Some er) ->
  inner_err er \/ er = ESchedAssert.
Proof. exact overbook_run_errors_partial. Qed.
Print Assumptions C08_overbook_run_errors_partial.

(* per round: the decisions of naive/starter pass every executor check *)
Theorem C08_naive_round_admissible : forall C starter s e results newp s' w' susps asgs n er,
  naive_step C starter s e results newp = Ok (s', w', susps, asgs) ->
  orders_nodup (cf_static C) ->
  map p_id (e_pools e) = seq 0 n ->
  exec_tick C {| e_world := w'; e_pools := e_pools e; e_next := e_next e |} susps asgs = Err er ->
  inner_err er /\
  er <> EBadPool /\ er <> EOversellCpu /\ er <> EOversellRam /\ er <> EBadSuspend /\ er <> EOpCount.
Proof. exact naive_round_admissible. Qed.
Print Assumptions C08_naive_round_admissible.

Theorem C08_overbook_round_admissible : forall C s e results newp s' w' susps asgs n er,
  overbook_step C s e results newp = Ok (s', w', susps, asgs) ->
  cf_overcommit C = true ->
  map p_id (e_pools e) = seq 0 n ->
  exec_tick C {| e_world := w'; e_pools := e_pools e; e_next := e_next e |} susps asgs = Err er ->
  inner_err er /\
  er <> EBadPool /\ er <> EOversellCpu /\ er <> EOversellRam /\ er <> EBadSuspend /\ er <> EOpCount.
Proof. exact overbook_round_admissible. Qed.
Print Assumptions C08_overbook_round_admissible.

(* the naive policy function itself never raises *)
Theorem C08_naive_step_never_raises : forall C starter s e results newp er,
  orders_nodup (cf_static C) -> naive_step C starter s e results newp <> Err er.
Proof. exact naive_step_never_raises. Qed.
Print Assumptions C08_naive_step_never_raises.

(* the statistics epilogue is total: nan (None) exactly for empty samples (fix b15455f) *)
Theorem C08_final_stats_total : forall C dur s,
  exists st, final_stats C dur s = st /\
    st_throughput st = (inject_Z (st_completed st) / dur)%Q /\
    (flat_map p_tick_times (e_pools (sm_exec s)) = [] -> st_p99 st = None) /\
    (flat_map p_tick_times (e_pools (sm_exec s)) <> [] -> exists q, st_p99 st = Some q) /\
    Forall (fun ps => (pst_completions ps = 0%Z -> pst_mean ps = None /\ pst_p99 ps = None) /\
                      (pst_completions ps <> 0%Z -> exists m p, pst_mean ps = Some m /\ pst_p99 ps = Some p))
           [st_all st; st_query st; st_interactive st; st_batch st].
Proof. exact final_stats_total. Qed.
Print Assumptions C08_final_stats_total.

Theorem C08_percentile_bounds : forall l lo hi,
  l <> [] -> (forall x, In x l -> (lo <= x <= hi)%Z) ->
  exists q, percentile99 l = Some q /\ (inject_Z lo <= q <= inject_Z hi)%Q.
Proof. exact percentile99_bounds. Qed.
Print Assumptions C08_percentile_bounds.

(* naive with multi-operator containers: a container receives all operators of an untouched pipeline in
   the order of operator_states (topological), starts each one only after the previous one completed, and
   a failed pipeline is never assigned again: every workload of well-formed DAG pipelines with fresh ids,
   every pool count and size, every tick rate, every non-empty timing script: the run reaches its last
   tick. This removes the "partial" of C08_naive_run_errors_partial *)
Theorem C08_naive_multi_runs_to_end : forall C l np cpu ram arrivals,
  cf_static C = mk_static l -> dags_wf l ->
  (forall op c, cf_script C op c <> []) ->
  cf_multi C = true ->
  NoDup (concat arrivals) ->
  exists sf logs,
    sim_run C ANaive 0%Z (init_sim C np cpu ram) arrivals = (sf, logs, None) /\
    length logs = length arrivals.
Proof. exact naive_multi_runs_to_end_mk_static. Qed.
Print Assumptions C08_naive_multi_runs_to_end.

(* naive and the starter template in every container mode *)
Theorem C08_naive_runs_to_end : forall C l (starter : bool) np cpu ram arrivals,
  cf_static C = mk_static l -> dags_wf l ->
  (forall op c, cf_script C op c <> []) ->
  NoDup (concat arrivals) ->
  exists sf logs,
    sim_run C (if starter then AStarter else ANaive) 0%Z (init_sim C np cpu ram) arrivals
    = (sf, logs, None) /\ length logs = length arrivals.
Proof. exact naive_any_mode_runs_to_end_mk_static. Qed.
Print Assumptions C08_naive_runs_to_end.

(* overbook with memory overcommit and pools with positive RAM: every queued operator stays assignable
   with completed parents until it is taken, so neither the scheduler's assertion nor `only(r.ops)` nor any
   executor check or container tick raises: the run reaches its last tick. This removes the "partial" of
   C08_overbook_run_errors_partial (without overcommit the first tick oversells RAM, see
   SafetyFacts.Examples.overbook_without_overcommit_refuted) *)
Theorem C08_overbook_runs_to_end : forall C l np cpu ram arrivals,
  cf_static C = mk_static l -> dags_wf l ->
  (forall op c, cf_script C op c <> []) ->
  cf_overcommit C = true -> Qleb ram 0%Q = false ->
  NoDup (concat arrivals) ->
  exists sf logs,
    sim_run C AOverbook 0%Z (init_sim C np cpu ram) arrivals = (sf, logs, None) /\
    length logs = length arrivals.
Proof. exact overbook_runs_to_end_mk_static. Qed.
Print Assumptions C08_overbook_runs_to_end.

(* the executor half, for any scheduler: from a state in which every active container's remaining
   operators are distinct, ASSIGNED (the first one possibly RUNNING) and dependency-closed in order, a
   batch of checked assignments of ASSIGNED, dependency-closed operator lists is executed without raising,
   the invariant is re-established, and operator states only move to RUNNING/COMPLETED/FAILED *)
Theorem C08_exec_round_total : forall C, (forall op cpu, cf_script C op cpu <> []) ->
  forall (Qo : list nat -> Prop) np e w' asgs,
  mloop_inv C Qo np e ->
  wlen (cf_static C) w' -> mono_w (e_world e) w' -> mk_assignments C (e_world e) asgs = Ok w' ->
  Forall (masg_ready C w') asgs -> Forall (fun a => Qo (a_ops a)) asgs ->
  (forall x, assignable (st_of (e_world e) x) = false -> st_of w' x = st_of (e_world e) x) ->
  checks_pass C (e_pools e) asgs ->
  exists e2 res,
    exec_tick C {| e_world := w'; e_pools := e_pools e; e_next := e_next e |} [] asgs = Ok (e2, res) /\
    mloop_inv C Qo np e2 /\ xsteps C w' (e_world e2) /\ Forall (fun r => Qo (r_ops r)) res.
Proof. exact exec_round_ok. Qed.
Print Assumptions C08_exec_round_total.

(* non-vacuity of the two closed-loop theorems: a three-operator pipeline with a join completes inside one
   container under naive (and a second container is OOM-killed and not retried); under overbook on a single
   CPU operators queue up and a failing operator is retried three times; both runs end with None *)
Example C08_witness_multi :
  (let '(sf, logs, er) := sim_run ClosedLoopExamples.exC ANaive 0%Z
                            (init_sim ClosedLoopExamples.exC 2 4%Z 8%Q) ClosedLoopExamples.ex_arrivals in
   er = None /\
   map r_ops (filter ClosedLoopExamples.good_multi (flat_map tl_results logs)) = [[0; 1; 2]] /\
   map r_ops (filter r_err (flat_map tl_results logs)) = [[3; 4]]) /\
  (let '(sf, logs, er) := sim_run ClosedLoopExamples.exC AOverbook 0%Z
                            (init_sim ClosedLoopExamples.exC 1 1%Z 8%Q) ClosedLoopExamples.ex_arrivals_ob in
   er = None /\ map r_ops (filter r_err (flat_map tl_results logs)) = [[3]; [3]; [3]]).
Proof. split; vm_compute; repeat split. Qed.

Example C08_witness : percentile99 [] = None /\ meanZ [] = None.
Proof. split; reflexivity. Qed.

(* ------------------------------------------------------------------------------------------ *)
(* priority in the closed loop (Proofs/PriorityRunFacts.v)                                      *)
(* ------------------------------------------------------------------------------------------ *)
From Eudoxia Require Import Proofs.PriorityRunFacts.

(* priority, any container mode (partial): a run that stops, stops with an error from inside a container
   tick or the lifecycle state machine -- no command of the scheduler is refused by the executor's checks
   and no assertion of the scheduler fires *)
Theorem C08_priority_run_errors_partial : forall C l np cpu ram arrivals sf logs er,
  cf_static C = mk_static l -> dags_wf l -> (0 <= cpu)%Z -> (0 <= ram)%Q ->
  sim_run C APriority 0%Z (init_sim C np cpu ram) arrivals = (sf, logs, Some er) ->
  inner_err er.
Proof. exact priority_run_errors_partial. Qed.
Print Assumptions C08_priority_run_errors_partial.

(* priority with single-operator containers: the closed loop never raises, and never suspends *)
Theorem C08_priority_single_runs_to_end : forall C l np cpu ram arrivals,
  cf_static C = mk_static l -> dags_wf l ->
  (forall op c, cf_script C op c <> []) -> cf_multi C = false ->
  (0 <= cpu)%Z -> (0 <= ram)%Q -> NoDup (concat arrivals) ->
  exists sf logs,
    sim_run C APriority 0%Z (init_sim C np cpu ram) arrivals = (sf, logs, None) /\
    length logs = length arrivals /\ Forall (fun lg => tl_susp lg = []) logs.
Proof. exact priority_single_runs_to_end. Qed.
Print Assumptions C08_priority_single_runs_to_end.

Example C08_priority_witness :
  exists sf logs,
    sim_run (RunExamples.exC false) APriority 0%Z (init_sim (RunExamples.exC false) 1 2%Z 2%Q)
            RunExamples.arr = (sf, logs, None) /\
    length logs = 8 /\ Forall (fun lg => tl_susp lg = []) logs.
Proof. exact RunExamples.ex_single_total. Qed.

(* ------------------------------------------------------------------------------------------ *)
(* priority-pool in the closed loop (Proofs/PriorityPoolRunFacts.v)                              *)
(* ------------------------------------------------------------------------------------------ *)
From Eudoxia Require Import Proofs.PriorityPoolRunFacts.

(* priority-pool with multi-operator containers (the configuration it supports, see F10 below), positive pool
   sizes, arriving pipelines with at least one operator (partial): whatever stops a run is raised inside a
   container tick or by an ASSIGNED request on an operator that is not assignable ([inner_err]); the scheduler's
   internal assertion never fires, the Assignment constructor never sees bad arguments and the executor never
   refuses the scheduler's commands (wrong pool, oversold CPU/RAM, bad suspension, operator count) *)
Theorem C08_priority_pool_run_errors : forall C np cpu ram arrivals sf logs er,
  cf_multi C = true -> (0 < cpu)%Z -> (0 < ram)%Q ->
  (forall k, In k (concat arrivals) -> pd_order (pipe_of (cf_static C) k) <> []) ->
  sim_run C APriorityPool 0%Z (init_sim C np cpu ram) arrivals = (sf, logs, Some er) ->
  inner_err er /\
  er <> EBadPool /\ er <> EOversellCpu /\ er <> EOversellRam /\ er <> EBadSuspend /\ er <> EOpCount /\
  er <> EBadAssignArgs /\ er <> ESchedAssert.
Proof. exact pp_run_errors_spelled. Qed.
Print Assumptions C08_priority_pool_run_errors.

(* priority-pool with multi-operator containers, the CLOSED LOOP: every workload of pipelines built from
   well-formed DAGs with at least one operator, fresh pipeline ids, every pool count, positive pool sizes, every
   tick rate, every non-empty timing script: the run reaches its last tick (no scheduler decision is refused, no
   assertion fires, no container tick raises, however many OOM kills and retries happen on the way).
   NOTE: a statement about the loop for every [np]; the code only starts with two pools (init assertion of the
   scheduler): see C08_priority_pool_main_runs_to_end / C08_priority_pool_main_refuses_other_pool_counts below *)
Theorem C08_priority_pool_runs_to_end : forall C l np cpu ram arrivals,
  cf_static C = mk_static l -> dags_wf l ->
  (forall op c, cf_script C op c <> []) -> cf_multi C = true ->
  (0 < cpu)%Z -> (0 < ram)%Q ->
  (forall k, In k (concat arrivals) -> pd_order (pipe_of (cf_static C) k) <> []) ->
  NoDup (concat arrivals) ->
  exists sf logs,
    sim_run C APriorityPool 0%Z (init_sim C np cpu ram) arrivals = (sf, logs, None) /\
    length logs = length arrivals.
Proof. exact pp_runs_to_end. Qed.
Print Assumptions C08_priority_pool_runs_to_end.

(* it applies: the workload of C16_retry_after_oom_run (one OOM kill, one retry), any number of ticks *)
Example C08_priority_pool_runs_to_end_applies : forall n,
  exists sf logs,
    sim_run RunExamples.C1 APriorityPool 0%Z (init_sim RunExamples.C1 2 10%Z 10%Q) ([0] :: repeat [] n)
      = (sf, logs, None) /\ length logs = S n.
Proof. exact RunExamples.ex_runs_to_end. Qed.

(* F10 (known finding): priority-pool with single-operator containers files whole pipelines as one job; a
   pipeline with two operators trips the pool's operator-count assertion in the first tick *)
Example C08_F10_priority_pool_single_operator_mode_refuted :
  sim_run RunExamples.C2 APriorityPool 0%Z (init_sim RunExamples.C2 2 10%Z 10%Q) [[0]; []; []]
  = (init_sim RunExamples.C2 2 10%Z 10%Q, [], Some EOpCount).
Proof. exact RunExamples.F10_single_operator_mode_refuted. Qed.

(* the hypothesis on arriving pipelines is needed: a pipeline without operators, or a pipeline number that
   does not exist, makes Assignment.__init__ raise on the empty operator list *)
Example C08_priority_pool_empty_pipeline_refuted :
  snd (sim_run RunExamples.C3 APriorityPool 0%Z (init_sim RunExamples.C3 2 10%Z 10%Q) [[0]; []; []])
    = Some EBadAssignArgs /\
  snd (sim_run RunExamples.C1 APriorityPool 0%Z (init_sim RunExamples.C1 2 10%Z 10%Q) [[5]; []; []])
    = Some EBadAssignArgs.
Proof. exact RunExamples.empty_pipeline_refuted. Qed.

(* ------------------------------------------------------------------------------------------ *)
(* priority: the full closed loop (Proofs/PriorityMultiFacts.v)                                 *)
(* ------------------------------------------------------------------------------------------ *)
From Eudoxia Require Import Proofs.PriorityMultiFacts.

(* priority with multi-operator containers: with preemption, suspension, release, re-queueing, OOM kills and
   doubled retries in play, the closed loop never raises *)
Theorem C08_priority_multi_runs_to_end : forall C l np cpu ram arrivals,
  cf_static C = mk_static l -> dags_wf l ->
  (forall op c, cf_script C op c <> []) -> cf_multi C = true ->
  (0 <= cpu)%Z -> (0 <= ram)%Q -> NoDup (concat arrivals) ->
  exists sf logs,
    sim_run C APriority 0%Z (init_sim C np cpu ram) arrivals = (sf, logs, None) /\
    length logs = length arrivals.
Proof. exact priority_multi_runs_to_end. Qed.
Print Assumptions C08_priority_multi_runs_to_end.

(* priority, either container mode: every workload of well-formed DAG pipelines with fresh ids, every pool
   count and non-negative size, every tick rate, every non-empty timing script: the run reaches its last tick *)
Theorem C08_priority_runs_to_end : forall C l np cpu ram arrivals,
  cf_static C = mk_static l -> dags_wf l ->
  (forall op c, cf_script C op c <> []) ->
  (0 <= cpu)%Z -> (0 <= ram)%Q -> NoDup (concat arrivals) ->
  exists sf logs,
    sim_run C APriority 0%Z (init_sim C np cpu ram) arrivals = (sf, logs, None) /\
    length logs = length arrivals.
Proof. exact priority_runs_to_end. Qed.
Print Assumptions C08_priority_runs_to_end.

(* non-vacuity: a multi-operator run in which a container is preempted, suspends for two ticks, is re-queued
   and its remaining operator runs again; and the theorem applied to that configuration *)
Example C08_priority_multi_witness :
  MultiExamples.show2 (sim_run (RunExamples.exC true) APriority 0%Z (init_sim (RunExamples.exC true) 1 2%Z 40%Q)
                               [[0; 1]; []; [2]; []; []; []; []; []; []; []]) =
  ([([], [(Batch, [0; 1], 1%Z, 4%Q); (Batch, [2; 3], 1%Z, 36%Q)], []);
    ([], [], []);
    ([0], [], []);
    ([], [], [(1, false)]);
    ([], [(Query, [4], 1%Z, 4%Q); (Batch, [1], 1%Z, 36%Q)], []);
    ([], [], [(2, false); (3, false)]);
    ([], [], []); ([], [], []); ([], [], []); ([], [], [])], None, 1%Z, [0]).
Proof. exact MultiExamples.ex_preempt_two_ticks. Qed.

Example C08_priority_multi_total_witness :
  exists sf logs,
    sim_run (RunExamples.exC true) APriority 0%Z (init_sim (RunExamples.exC true) 1 2%Z 40%Q)
            [[0; 1]; []; [2]; []; []; []; []; []; []; []] = (sf, logs, None) /\ length logs = 10.
Proof. exact MultiExamples.ex_multi_total. Qed.

(* ------------------------------------------------------------------------------------------ *)
(* the entry point [sim_main] (Proofs/SimMainFacts.v): run_simulator from the construction of the scheduler to   *)
(* the end of the loop, including `assert num_pools == 2` of priority-pool and the utilisation percentage        *)
(* `100.0 * allocated_ram / total_ram` at the end of tick 0. Hypotheses of a valid configuration: at least one   *)
(* pool, positive RAM, non-negative CPU count (two pools for priority-pool).                                     *)
(* ------------------------------------------------------------------------------------------ *)
From Eudoxia Require Import Proofs.SimMainFacts.

(* under these hypotheses the entry point is the loop, so every theorem above about
   [sim_run C a 0 (init_sim C np cpu ram) arrivals] is a theorem about [sim_main C a np cpu ram arrivals] *)
Theorem C08_main_is_loop : forall C a np cpu ram arrivals,
  (a = APriorityPool -> np = 2) -> 0 < np -> (0 < ram)%Q ->
  sim_main C a np cpu ram arrivals = sim_run C a 0%Z (init_sim C np cpu ram) arrivals.
Proof. exact sim_main_is_sim_run. Qed.
Print Assumptions C08_main_is_loop.

Theorem C08_naive_main_runs_to_end : forall C l (starter : bool) np cpu ram arrivals,
  cf_static C = mk_static l -> dags_wf l ->
  (forall op c, cf_script C op c <> []) ->
  0 < np -> (0 <= cpu)%Z -> (0 < ram)%Q ->
  NoDup (concat arrivals) ->
  exists sf logs,
    sim_main C (if starter then AStarter else ANaive) np cpu ram arrivals = (sf, logs, None) /\
    length logs = length arrivals.
Proof. exact naive_main_runs_to_end. Qed.
Print Assumptions C08_naive_main_runs_to_end.

Theorem C08_overbook_main_runs_to_end : forall C l np cpu ram arrivals,
  cf_static C = mk_static l -> dags_wf l ->
  (forall op c, cf_script C op c <> []) ->
  cf_overcommit C = true ->
  0 < np -> (0 <= cpu)%Z -> (0 < ram)%Q ->
  NoDup (concat arrivals) ->
  exists sf logs,
    sim_main C AOverbook np cpu ram arrivals = (sf, logs, None) /\ length logs = length arrivals.
Proof. exact overbook_main_runs_to_end. Qed.
Print Assumptions C08_overbook_main_runs_to_end.

Theorem C08_priority_main_runs_to_end : forall C l np cpu ram arrivals,
  cf_static C = mk_static l -> dags_wf l ->
  (forall op c, cf_script C op c <> []) ->
  0 < np -> (0 <= cpu)%Z -> (0 < ram)%Q ->
  NoDup (concat arrivals) ->
  exists sf logs,
    sim_main C APriority np cpu ram arrivals = (sf, logs, None) /\ length logs = length arrivals.
Proof. exact priority_main_runs_to_end. Qed.
Print Assumptions C08_priority_main_runs_to_end.

(* priority-pool: exactly two pools, multi-operator containers (F10), positive sizes *)
Theorem C08_priority_pool_main_runs_to_end : forall C l cpu ram arrivals,
  cf_static C = mk_static l -> dags_wf l ->
  (forall op c, cf_script C op c <> []) -> cf_multi C = true ->
  (0 < cpu)%Z -> (0 < ram)%Q ->
  (forall k, In k (concat arrivals) -> pd_order (pipe_of (cf_static C) k) <> []) ->
  NoDup (concat arrivals) ->
  exists sf logs,
    sim_main C APriorityPool 2 cpu ram arrivals = (sf, logs, None) /\ length logs = length arrivals.
Proof. exact pp_main_runs_to_end. Qed.
Print Assumptions C08_priority_pool_main_runs_to_end.

(* priority-pool with any other pool count: refused before the first tick *)
Theorem C08_priority_pool_main_refuses_other_pool_counts : forall C np cpu ram arrivals,
  np <> 2 -> sim_main C APriorityPool np cpu ram arrivals = (init_sim C np cpu ram, [], Some ESchedAssert).
Proof. exact sim_main_refuses_other_pool_counts. Qed.
Print Assumptions C08_priority_pool_main_refuses_other_pool_counts.

(* no pool, or pools without RAM, and at least one tick to simulate: the run does not get past its first tick.
   Either that tick raises by itself (then its error is the run's error: e.g. overbook gives a container the
   whole RAM of its pool, 0 GB, and Assignment.__init__ refuses), or it completes and the utilisation statement
   divides by zero (EOther = any exception that is not an assertion of the simulator) *)
Theorem C08_main_refuses_zero_ram : forall C a np cpu ram newp rest,
  (a = APriorityPool -> np = 2) -> np = 0 \/ (ram == 0)%Q ->
  (exists e, sim_tick C a 0%Z (init_sim C np cpu ram) newp = Err e /\
             sim_main C a np cpu ram (newp :: rest) = (init_sim C np cpu ram, [], Some e)) \/
  (exists s1 lg, sim_tick C a 0%Z (init_sim C np cpu ram) newp = Ok (s1, lg) /\
                 sim_main C a np cpu ram (newp :: rest) = (s1, [lg], Some EOther)).
Proof. exact sim_main_zero_total_ram. Qed.
Print Assumptions C08_main_refuses_zero_ram.

Theorem C08_main_zero_ram_raises : forall C a np cpu ram arrivals,
  (a = APriorityPool -> np = 2) -> np = 0 \/ (ram == 0)%Q -> arrivals <> [] ->
  exists sf logs e, sim_main C a np cpu ram arrivals = (sf, logs, Some e) /\ length logs <= 1.
Proof. exact sim_main_zero_total_ram_raises. Qed.
Print Assumptions C08_main_zero_ram_raises.

(* a run of no tick (duration * ticks_per_second < 1) never reaches the division *)
Theorem C08_main_no_ticks : forall C a np cpu ram,
  (a = APriorityPool -> np = 2) -> sim_main C a np cpu ram [] = (init_sim C np cpu ram, [], None).
Proof. exact sim_main_no_ticks. Qed.
Print Assumptions C08_main_no_ticks.

(* non-vacuity: (number of completed ticks, error) of [sim_main] for zero pools / zero RAM under every policy, and
   of the loop alone, which runs to the end there *)
Example C08_main_zero_total_ram_witness :
  MainExamples.show3 (sim_main RunExamples.C1 ANaive 0 10%Z 10%Q MainExamples.arr1) = (1, Some EOther) /\
  MainExamples.show3 (sim_main RunExamples.C1 ANaive 2 10%Z 0%Q MainExamples.arr1) = (1, Some EOther) /\
  MainExamples.show3 (sim_main RunExamples.C1 APriority 2 10%Z 0%Q MainExamples.arr1) = (1, Some EOther) /\
  MainExamples.show3 (sim_main RunExamples.C1 APriorityPool 2 10%Z 0%Q [[]; []]) = (1, Some EOther) /\
  MainExamples.show3 (sim_main RunExamples.C1 AOverbook 0 10%Z 10%Q MainExamples.arr1) = (1, Some EOther) /\
  MainExamples.show3 (sim_main RunExamples.C1 AOverbook 2 10%Z 0%Q MainExamples.arr1) = (0, Some EBadAssignArgs) /\
  MainExamples.show3 (sim_run RunExamples.C1 ANaive 0%Z (init_sim RunExamples.C1 0 10%Z 10%Q) MainExamples.arr1)
    = (4, None) /\
  MainExamples.show3 (sim_run RunExamples.C1 ANaive 0%Z (init_sim RunExamples.C1 2 10%Z 0%Q) MainExamples.arr1)
    = (4, None) /\
  MainExamples.show3 (sim_main RunExamples.C1 ANaive 0 10%Z 10%Q []) = (0, None).
Proof. exact MainExamples.ex_main_zero_total_ram. Qed.

Example C08_main_applies : forall n,
  exists sf logs,
    sim_main RunExamples.C1 APriorityPool 2 10%Z 10%Q ([0] :: repeat [] n) = (sf, logs, None) /\ length logs = S n.
Proof. exact MainExamples.ex_pp_main_applies. Qed.

(* the epilogue with the hypotheses under which the Python code does not divide by zero (audit A/P3) *)
Theorem C08_final_stats_total_pos : forall C dur s,
  (0 < dur)%Q -> (0 < cf_tps C)%Z ->
  exists st, final_stats C dur s = st /\
    st_throughput st = (inject_Z (st_completed st) / dur)%Q /\
    (flat_map p_tick_times (e_pools (sm_exec s)) = [] -> st_p99 st = None) /\
    (flat_map p_tick_times (e_pools (sm_exec s)) <> [] -> exists q, st_p99 st = Some q) /\
    Forall (fun ps => (pst_completions ps = 0%Z -> pst_mean ps = None /\ pst_p99 ps = None) /\
                      (pst_completions ps <> 0%Z -> exists m p, pst_mean ps = Some m /\ pst_p99 ps = Some p))
           [st_all st; st_query st; st_interactive st; st_batch st].
Proof. exact final_stats_total_pos. Qed.
Print Assumptions C08_final_stats_total_pos.

(* duration 0: Python raises ZeroDivisionError at `executor.num_completed() / params['duration']`; the model
   answers throughput 0 although one container completed ([ZeroExamples.sfin] is the final state of
   C16_retry_after_oom_run). So C08_final_stats_total is, for duration 0, a statement about the totalised
   function only; the harness generates positive durations only (props/C08.py ASSUMPTIONS) *)
Example C08_zero_duration_is_totalised :
  st_completed (final_stats RunExamples.C1 0%Q ZeroExamples.sfin) = 1%Z /\
  Qeq_bool (st_throughput (final_stats RunExamples.C1 0%Q ZeroExamples.sfin)) 0%Q = true /\
  Qeq_bool (st_throughput (final_stats RunExamples.C1 (2 # 5)%Q ZeroExamples.sfin)) (5 # 2)%Q = true.
Proof. exact ZeroExamples.ex_zero_duration_is_totalised. Qed.
