(* C09 Every accepted assignment becomes exactly one container with exactly one outcome.
   Statements only; every proof is [exact <lemma of Proofs/LedgerFacts.v>]. For every command sequence
   (legal or not), any number of pools, every timing/rounding function. [reach_hist C s0 s h]: s is
   reachable from s0 by executor ticks and h is the list of all results delivered so far;
   [reach_count] additionally counts the accepted assignments. *)
From Coq Require Import List ZArith QArith Permutation.
Import ListNotations.
From Eudoxia Require Import Model.Sched Model.Simulator Proofs.PriorityPoolRunFacts Proofs.SimReachFacts.
From Eudoxia Require Import Model.Types Model.Lifecycle Model.Container Model.Pool Model.Executor
  Proofs.LedgerFacts.
Close Scope Q_scope.
Close Scope Z_scope.

(* a command naming a pool that does not exist is rejected, not silently dropped (fix 38ad0c3) *)
Theorem C09_bad_pool_rejected : forall C st ss asgs,
  (exists s, In s ss /\ pool_in_range (length (e_pools st)) (su_pool s) = false) \/
  (exists a, In a asgs /\ pool_in_range (length (e_pools st)) (a_pool a) = false) ->
  exec_tick C st ss asgs = Err EBadPool.
Proof. exact bad_pool_rejected. Qed.
Print Assumptions C09_bad_pool_rejected.

(* every accepted assignment creates exactly one container; a container stays in the pool's lists
   (running, suspending, suspended) or yields exactly one result: the ids are conserved as a multiset *)
Theorem C09_one_container_one_outcome_per_tick : forall C w next p ss asgs w' next' p' res,
  NoDup (map c_id (p_active p)) ->
  pool_tick C w next p ss asgs = Ok (w', next', p', res) ->
  next' = next + length asgs /\
  p_id p' = p_id p /\
  Permutation (pool_ids p' ++ map r_cid res) (pool_ids p ++ seq next (length asgs)).
Proof. exact pool_tick_ids. Qed.
Print Assumptions C09_one_container_one_outcome_per_tick.

(* at any time: assignments = successes + failures + suspended + still live *)
Theorem C09_ledger : forall C n cpu ram s h k,
  reach_count C (init_estate C n cpu ram) s h k ->
  k = length (filter (fun r => negb (r_err r)) h) + length (filter r_err h)
      + live_count s + suspended_count s.
Proof. exact ledger_count. Qed.
Print Assumptions C09_ledger.

(* the result is delivered once *)
Theorem C09_results_once : forall C n cpu ram s h,
  reach_hist C (init_estate C n cpu ram) s h -> NoDup (map r_cid h).
Proof. exact results_once. Qed.
Print Assumptions C09_results_once.

(* every container created so far is either still in a pool list or has delivered its result, never both *)
Theorem C09_every_assignment_accounted : forall C n cpu ram s h i,
  reach_hist C (init_estate C n cpu ram) s h -> i < e_next s ->
  (In i (all_ids (e_pools s)) /\ ~ In i (map r_cid h)) \/
  (~ In i (all_ids (e_pools s)) /\ In i (map r_cid h)).
Proof. exact every_assignment_accounted. Qed.
Print Assumptions C09_every_assignment_accounted.

(* a finished suspension reports no result *)
Theorem C09_suspended_no_result : forall C n cpu ram s h p c,
  reach_hist C (init_estate C n cpu ram) s h ->
  In p (e_pools s) -> In c (p_suspended p) -> ~ In (c_id c) (map r_cid h).
Proof. exact suspended_not_in_results. Qed.
Print Assumptions C09_suspended_no_result.

(* a success has all operators Completed; a failure leaves a completed prefix followed by failed operators
   (at least one). [active_ok w c]: the container invariant (operators before c_opidx Completed, c_opidx in
   range, not completed, operators known), re-established for the running containers after the tick. *)
Theorem C09_result_shape : forall C w next p ss asgs w' next' p' res,
  (forall c, In c (p_active p) -> active_ok w c /\ NoDup (c_ops c)) ->
  (forall a, In a asgs -> NoDup (a_ops a) /\ forall o, In o (a_ops a) -> o < length (w_st w)) ->
  pool_tick C w next p ss asgs = Ok (w', next', p', res) ->
  (forall r, In r res ->
     (r_err r = false -> forall o, In o (r_ops r) -> st_of w' o = Completed) /\
     (r_err r = true ->
      exists k, k < length (r_ops r) /\
                (forall o, In o (firstn k (r_ops r)) -> st_of w' o = Completed) /\
                (forall o, In o (skipn k (r_ops r)) -> st_of w' o = Failed))) /\
  (forall c, In c (p_active p') -> active_ok w' c /\ NoDup (c_ops c)).
Proof. exact result_shape. Qed.
Print Assumptions C09_result_shape.

Theorem C09_success_iff_all_completed : forall C w next p ss asgs w' next' p' res r,
  (forall c, In c (p_active p) -> active_ok w c /\ NoDup (c_ops c)) ->
  (forall a, In a asgs -> NoDup (a_ops a) /\ forall o, In o (a_ops a) -> o < length (w_st w)) ->
  pool_tick C w next p ss asgs = Ok (w', next', p', res) ->
  In r res ->
  (r_err r = false <-> forall o, In o (r_ops r) -> st_of w' o = Completed).
Proof. exact success_iff_all_completed. Qed.
Print Assumptions C09_success_iff_all_completed.

(* non-vacuity: the initial state is reachable with an empty history and an empty ledger *)
Example C09_witness : forall C, reach_count C (init_estate C 2 4%Z 8%Q) (init_estate C 2 4%Z 8%Q) [] 0.
Proof. intros. constructor. Qed.

(* Simulator level, every shipped scheduler [a]: in every state of every run the loop's own counters obey
   the ledger. There is a history [h] of delivered results with which the executor state is
   [reach_hist]-reachable (so C09_results_once, C09_every_assignment_accounted, C09_suspended_no_result
   apply to it); the failure counter is the number of failed results in [h]; the assignment counter is
   successes + failures + live + suspended. *)
Theorem C09_sim_ledger : forall C a np cpu ram t s,
  sim_reach C a 0%Z (init_sim C np cpu ram) t s ->
  exists h,
    reach_hist C (init_estate C np cpu ram) (sm_exec s) h /\
    sm_nfail s = Z.of_nat (length (filter r_err h)) /\
    sm_nasg s = Z.of_nat (length (filter (fun r => negb (r_err r)) h) + length (filter r_err h)
                          + live_count (sm_exec s) + suspended_count (sm_exec s)).
Proof. exact sim_ledger_count. Qed.
Print Assumptions C09_sim_ledger.

(* for a whole run the history is what the tick logs recorded: the assignments of the logs are accounted
   for by the results of the logs and the containers still in the pools; every container reported once *)
Theorem C09_sim_run_ledger : forall C a np cpu ram arrivals sf logs oe,
  sim_run C a 0%Z (init_sim C np cpu ram) arrivals = (sf, logs, oe) ->
  let h := flat_map tl_results logs in
  length (flat_map tl_asgs logs) =
    length (filter (fun r => negb (r_err r)) h) + length (filter r_err h)
    + live_count (sm_exec sf) + suspended_count (sm_exec sf) /\
  NoDup (map r_cid h).
Proof. exact sim_run_ledger. Qed.
Print Assumptions C09_sim_run_ledger.

(* non-vacuity: the run of SimReachExamples under each scheduler (2 to 7 assignments, 1 to 3 failures) *)
Example C09_sim_witness : forall a,
  reach_count SimReachExamples.Cx (init_estate SimReachExamples.Cx 2 10%Z 10%Q)
              (sm_exec (SimReachExamples.final a))
              (flat_map tl_results (SimReachExamples.logs_of a))
              (length (flat_map tl_asgs (SimReachExamples.logs_of a))) /\
  Nat.leb 2 (length (flat_map tl_asgs (SimReachExamples.logs_of a))) = true.
Proof. intros a. split; [apply SimReachExamples.final_reach_count | destruct a; vm_compute; reflexivity]. Qed.
