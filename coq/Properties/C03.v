(* C03 Pool CPU and RAM are conserved: never lost, never double-freed, never oversold.
   Statements only; every proof is [exact <lemma of Proofs/ConserveFacts.v>]. They hold for every
   command sequence (legal or not: an illegal one ends the run with [Err]), every capacity, tick rate,
   run length, every timing script function and every rounding function. RAM arithmetic is exact in
   the model (integers / dyadic rationals in the implementation; see DESIGN.md trusted base). *)
From Coq Require Import List ZArith QArith.
Import ListNotations.
From Eudoxia Require Import Model.Sched Model.Simulator Proofs.PriorityPoolRunFacts Proofs.SimReachFacts.
From Eudoxia Require Import Model.Types Model.Lifecycle Model.Container Model.Pool Model.Executor
  Proofs.ConserveFacts.

(* At every tick boundary of every reachable state, in every pool: free + allocated = capacity for CPU
   and RAM; free CPU is never negative; free RAM is never negative unless overcommit is enabled. *)
Theorem C03_conserved_every_reachable_state : forall C n cpu ram s p,
  (0 <= cpu)%Z -> (0 <= ram)%Q ->
  reach_exec C (init_estate C n cpu ram) s -> In p (e_pools s) ->
  (p_avail_cpu p + sumZ (map c_cpu (p_active p ++ p_suspending p)) = cpu)%Z /\
  (p_avail_ram p + sumQ (map c_ram (p_active p ++ p_suspending p)) == ram)%Q /\
  (0 <= p_avail_cpu p <= cpu)%Z /\
  (cf_overcommit C = false -> (0 <= p_avail_ram p <= ram)%Q).
Proof. exact C03_reachable. Qed.
Print Assumptions C03_conserved_every_reachable_state.

(* A batch that would oversell the pool is rejected as a whole: the pool tick is an error (no state is
   returned, so no container of the batch exists), with the CPU error when nothing else is wrong. *)
Theorem C03_oversell_rejected_cpu : forall C w next p ss asgs,
  asgs <> [] -> (p_avail_cpu p < sumZ (map a_cpu asgs))%Z ->
  (exists e, pool_tick C w next p ss asgs = Err e) /\
  pool_tick C w next p [] asgs = Err EOversellCpu.
Proof. exact oversell_rejected_cpu. Qed.
Print Assumptions C03_oversell_rejected_cpu.

Theorem C03_oversell_rejected_ram : forall C w next p ss asgs,
  asgs <> [] -> cf_overcommit C = false -> (p_avail_ram p < sumQ (map a_ram asgs))%Q ->
  (exists e, pool_tick C w next p ss asgs = Err e) /\
  ((sumZ (map a_cpu asgs) <= p_avail_cpu p)%Z ->
   pool_tick C w next p [] asgs = Err EOversellRam).
Proof. exact oversell_rejected_ram. Qed.
Print Assumptions C03_oversell_rejected_ram.

(* A container's allocation is returned exactly once, in the tick it leaves: free resources move by
   exactly (- the accepted batch + the containers that reported a result + the suspensions that
   finished) in every pool tick. *)
Theorem C03_returned_in_the_tick_it_leaves : forall C w next p ss asgs w' next' p' res,
  pool_tick C w next p ss asgs = Ok (w', next', p', res) ->
  exists done,
    p_suspended p' = p_suspended p ++ done /\
    Forall (fun c => is_suspended c = true) done /\
    Forall (fun c => is_suspended c = false) (p_suspending p') /\
    Forall (fun c => c_completed c = false) (p_active p') /\
    p_avail_cpu p' = (p_avail_cpu p - sumZ (map a_cpu asgs)
                      + sumZ (map r_cpu res) + sumZ (map c_cpu done))%Z /\
    (p_avail_ram p' == p_avail_ram p - sumQ (map a_ram asgs)
                       + sumQ (map r_ram res) + sumQ (map c_ram done))%Q.
Proof. exact pool_tick_returned. Qed.
Print Assumptions C03_returned_in_the_tick_it_leaves.

(* ... and a container that reported a result is no longer live, each at most once per tick *)
Theorem C03_results_leave : forall C w next p ss asgs w' next' p' res,
  pool_tick C w next p ss asgs = Ok (w', next', p', res) ->
  ids_ok next p ->
  ids_ok next' p' /\ next' = next + length asgs /\
  NoDup (map r_cid res) /\
  (forall r, In r res -> ~ In (r_cid r) (map c_id (live p'))) /\
  (forall r, In r res ->
     In (r_cid r) (map c_id (p_active p)) \/ next <= r_cid r < next').
Proof. exact pool_tick_ids. Qed.
Print Assumptions C03_results_leave.

(* non-vacuity: a concrete pool tick with a suspension, an assignment, a completion and a finished
   suspension, and a two-step reachable history *)
Example C03_witness_reach :
  reach_exec Examples.ex_cfg Examples.ex_s0 Examples.ex_s2 /\ e_next Examples.ex_s2 = 2
  /\ length Examples.ex_res2 = 1.
Proof. exact Examples.ex_reach. Qed.

(* Simulator level: conservation at every tick boundary of every full simulation under every shipped
   scheduler [a] (naive, starter, overbook, priority, priority-pool), any number of pools, any arrivals,
   any static data: the executor state of every simulator state is [reach_exec]-reachable
   (Proofs/SimReachFacts.v: one simulator tick is one [exec_step]) *)
Theorem C03_sim_conservation : forall C a np cpu ram t s p,
  (0 <= cpu)%Z -> (0 <= ram)%Q ->
  sim_reach C a 0%Z (init_sim C np cpu ram) t s -> In p (e_pools (sm_exec s)) ->
  (p_avail_cpu p + sumZ (map c_cpu (p_active p ++ p_suspending p)) = cpu)%Z /\
  (p_avail_ram p + sumQ (map c_ram (p_active p ++ p_suspending p)) == ram)%Q /\
  (0 <= p_avail_cpu p <= cpu)%Z /\
  (cf_overcommit C = false -> (0 <= p_avail_ram p <= ram)%Q).
Proof. exact sim_conservation. Qed.
Print Assumptions C03_sim_conservation.

(* the link itself, also for the state [sim_run] ends in *)
Theorem C03_sim_states_reachable : forall C a np cpu ram arrivals sf logs oe,
  sim_run C a 0%Z (init_sim C np cpu ram) arrivals = (sf, logs, oe) ->
  reach_exec C (init_estate C np cpu ram) (sm_exec sf).
Proof. exact sim_run_conserve. Qed.
Print Assumptions C03_sim_states_reachable.

(* non-vacuity: two pools of 10 CPUs / 10 GB under each scheduler, state after three ticks (one live
   container under naive, priority and priority-pool) *)
Example C03_sim_witness : forall a p,
  In p (e_pools (sm_exec (SimReachExamples.mid a))) ->
  (p_avail_cpu p + sumZ (map c_cpu (p_active p ++ p_suspending p)) = 10)%Z /\
  (p_avail_ram p + sumQ (map c_ram (p_active p ++ p_suspending p)) == 10)%Q.
Proof. exact SimReachExamples.mid_conservation. Qed.
