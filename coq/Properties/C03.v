(* C03 placeholder until Proofs/ConserveFacts.v is merged. *)
From Coq Require Import List ZArith.
From Eudoxia Require Import Model.Pool.
Example C03_new_pool_conserved : forall id cpu ram,
  (p_avail_cpu (new_pool id cpu ram) + 0 = p_max_cpu (new_pool id cpu ram))%Z.
Proof. intros. simpl. apply Z.add_0_r. Qed.
Print Assumptions C03_new_pool_conserved.
