(* C05 Container execution follows the documented time and memory model.
   Statements only; every proof is [exact <lemma of Proofs/ContainerRunFacts.v, Proofs/TimingFacts.v>].

   Part 1 is about the container state machine [ctick] for an ARBITRARY timing function (cf_script):
   [cticks C n] is n successive ticks; [scr k] the script (per-tick demand) of the k-th operator,
   [L k] its length, [off k] = L 0 + .. + L (k-1), [total] the sum of all lengths.
   Part 2 is about the tick arithmetic: float-faithful counts against floor(x * tps), for rnd64. *)
From Coq Require Import List ZArith QArith Qabs Arith.
Import ListNotations.
From Eudoxia Require Import Num.Rnd64 Model.Types Model.Lifecycle Model.Timing Model.Container
  Proofs.ContainerRunFacts Proofs.TimingFacts.
Close Scope Q_scope.
Close Scope Z_scope.

Section Run.
Variables (C : cfg) (id : nat) (ops : list nat) (cpu : Z) (ram : Q) (pr : prio) (w0 : world) (cons0 : Q).
(* the container was accepted: its operators are Assigned, distinct, known, and listed in an order that
   respects dependencies; every operator occupies at least one tick *)
Hypothesis Hassigned : forall o, In o ops -> st_of w0 o = Assigned.
Hypothesis Hnodup : NoDup ops.
Hypothesis Hrange : forall o, In o ops -> o < length (w_st w0).
Hypothesis Hdeps : forall k, k < length ops -> forall p, In p (op_parents (cf_static C) (nth k ops 0)) ->
  st_of w0 p = Completed \/ exists i, i < k /\ nth i ops 0 = p.
Hypothesis Hne : forall k, k < length ops -> scr C ops cpu k <> [].

(* (a) no demand exceeds the allocation: tick t = off k + (j+1) is tick j of operator k; the container
   uses the script value, operators before k are Completed, k is Running (Completed exactly at its last
   tick), later ones still Assigned; it can be suspended exactly after the last tick of a non-final
   operator; it completes (successfully, memory back to 0) exactly at t = total. *)
Theorem C05_run_success : forall k j,
  all_fit C ops cpu ram -> k < length ops -> j < L C ops cpu k ->
  let t := off C ops cpu k + S j in
  exists w cons c,
    cticks C t w0 cons0 (c0 id ops cpu ram pr) = Ok (w, cons, c) /\
    c_ticks c = Z.of_nat t /\ c_frozen c = false /\ c_error c = false /\
    (c_completed c = true <-> t = total C ops cpu) /\
    (c_can_suspend c = true <-> S j = L C ops cpu k /\ S k < length ops) /\
    (t <> total C ops cpu -> c_mem c = nth j (scr C ops cpu k) 0%Q) /\
    (t = total C ops cpu -> c_mem c = 0%Q) /\
    (forall i, i < k -> st_of w (nth i ops 0) = Completed) /\
    st_of w (nth k ops 0) = (if Nat.eqb (S j) (L C ops cpu k) then Completed else Running) /\
    (forall i, k < i -> i < length ops -> st_of w (nth i ops 0) = Assigned) /\
    (forall o, ~ In o ops -> st_of w o = st_of w0 o) /\
    acct C cons0 cons (c_mem c).
Proof. exact (run_success_fields C id ops cpu ram pr w0 cons0 Hassigned Hnodup Hrange Hdeps Hne). Qed.

(* ... and it stays completed: after total + n ticks all operators are Completed *)
Theorem C05_run_success_total : forall n,
  all_fit C ops cpu ram -> 0 < length ops ->
  exists w cons c,
    cticks C (total C ops cpu + n) w0 cons0 (c0 id ops cpu ram pr) = Ok (w, cons, c) /\
    c_completed c = true /\ c_error c = false /\ c_mem c = 0%Q /\
    c_ticks c = Z.of_nat (total C ops cpu) /\
    (forall i, i < length ops -> st_of w (nth i ops 0) = Completed) /\
    acct C cons0 cons 0%Q.
Proof. exact (run_success_total C id ops cpu ram pr w0 cons0 Hassigned Hnodup Hrange Hdeps Hne). Qed.

(* (b) OOM in exactly the first tick whose demand exceeds the allocation: the container freezes there
   (further ticks change nothing but the tick counter), and the kill leaves the earlier operators
   Completed and the current and later ones Failed. *)
Theorem C05_oom : forall k j,
  k < length ops -> j < L C ops cpu k ->
  (ram < nth j (scr C ops cpu k) 0)%Q ->
  (forall k' j', before C ops cpu k j k' j' -> (nth j' (scr C ops cpu k') 0 <= ram)%Q) ->
  let T := off C ops cpu k + S j in
  exists w cons cF,
    cticks C T w0 cons0 (c0 id ops cpu ram pr) = Ok (w, cons, cF) /\
    c_frozen cF = true /\ c_completed cF = false /\ c_error cF = false /\
    c_mem cF = nth j (scr C ops cpu k) 0%Q /\ c_opidx cF = k /\ c_ticks cF = Z.of_nat T /\
    (forall i, i < k -> st_of w (nth i ops 0) = Completed) /\
    st_of w (nth k ops 0) = Running /\
    (forall i, k < i -> i < length ops -> st_of w (nth i ops 0) = Assigned) /\
    acct C cons0 cons (c_mem cF) /\
    (forall n, exists cn,
       cticks C (T + n) w0 cons0 (c0 id ops cpu ram pr) = Ok (w, cons, cn) /\
       c_ticks cn = Z.of_nat (T + n) /\
       cn = mk id ops cpu ram pr (c_opidx cF) (c_rest cF) (c_frozen cF) (c_mem cF) (c_can_suspend cF)
               (c_completed cF) (c_error cF) (c_ticks cn)) /\
    (forall n cn,
       cticks C (T + n) w0 cons0 (c0 id ops cpu ram pr) = Ok (w, cons, cn) ->
       exists w' cons' c',
         ckill C w cons cn = Ok (w', cons', c') /\
         (forall i, i < k -> st_of w' (nth i ops 0) = Completed) /\
         (forall i, k <= i -> i < length ops -> st_of w' (nth i ops 0) = Failed) /\
         c_completed c' = true /\ c_error c' = true /\ c_mem c' = 0%Q /\
         acct C cons0 cons' 0%Q).
Proof. exact (oom_theorem C id ops cpu ram pr w0 cons0 Hassigned Hnodup Hrange Hdeps Hne). Qed.
End Run.
Print Assumptions C05_run_success.
Print Assumptions C05_run_success_total.
Print Assumptions C05_oom.

(* Part 2: tick arithmetic. x = secs * tps is the exact quantity the property text floors. *)

(* the float quotient is within 4 * 2^-53 (relative) of x *)
Theorem C05_ticks_close : forall tps secs, (0 <= secs)%Q -> (0 < tps)%Z ->
  (Qabs (rnd64 (secs / rnd64 (1 / inject_Z tps)) - secs * inject_Z tps)
   <= secs * inject_Z tps * (4 # 9007199254740992))%Q.
Proof. exact ticks_of_close_rnd64. Qed.
Print Assumptions C05_ticks_close.

(* "quantities within float rounding of a boundary may fall on either side": the float-faithful count
   equals floor(x) unless an integer lies within 4 * 2^-53 * x of x *)
Theorem C05_ticks_exact_away : forall tps secs, (0 <= secs)%Q -> (0 < tps)%Z ->
  (forall k : Z, ~ (Qabs (inject_Z k - secs * inject_Z tps) <= secs * inject_Z tps * (4 # 9007199254740992))%Q) ->
  ticks_of rnd64 tps secs = floorQ (secs * inject_Z tps).
Proof. exact ticks_of_exact_away_rnd64. Qed.
Print Assumptions C05_ticks_exact_away.

(* I/O ticks against floor(read/20 * tps), three roundings *)
Theorem C05_io_ticks_exact_away : forall tps s, (0 <= sg_read s)%Q -> (0 < tps)%Z ->
  (forall k : Z, ~ (Qabs (inject_Z k - sg_read s / 20 * inject_Z tps)
                    <= sg_read s / 20 * inject_Z tps * (6 # 9007199254740992))%Q) ->
  ticks_of rnd64 tps (io_secs rnd64 s) = spec_io_ticks tps s.
Proof. exact io_ticks_exact_away_rnd64. Qed.
Print Assumptions C05_io_ticks_exact_away.

(* growing memory: 20 GB per simulated second, up to rounding *)
Theorem C05_io_mem_close : forall tps s i, (0 <= i)%Z -> (0 < tps)%Z -> sg_mem s = None ->
  (Qabs (io_mem rnd64 tps s i - spec_io_mem tps s i) <= spec_io_mem tps s i * (4 # 9007199254740992))%Q.
Proof. exact io_mem_close_rnd64. Qed.
Print Assumptions C05_io_mem_close.

(* with exact arithmetic the tick count is the documented floor *)
Theorem C05_ticks_exact_id : forall tps secs, (0 <= secs)%Q -> (0 < tps)%Z ->
  ticks_of (fun x => x) tps secs = floorQ (secs * inject_Z tps).
Proof. exact ticks_of_exact_id. Qed.
Print Assumptions C05_ticks_exact_id.

(* an operator occupies at least one tick *)
Theorem C05_min_one_tick : forall rnd mt tps cpus segs, segs <> [] ->
  Forall (fun p => (0 <= fst p)%Z /\ (0 <= snd p)%Z) (map (seg_ticks rnd mt tps cpus) segs) ->
  (1 <= sumZ (map (fun p => (fst p + snd p)%Z) (op_seg_ticks rnd mt tps cpus segs)))%Z.
Proof. exact op_seg_ticks_min_one. Qed.
Print Assumptions C05_min_one_tick.

(* the float boundary case: 0.57 s (as a double) at 100 ticks/s gives 56 ticks, the exact quantity 57 *)
Example C05_boundary_witness :
  ticks_of rnd64 100 (rnd64 (57 # 100)) = 56%Z /\ floorQ ((57 # 100) * 100) = 57%Z.
Proof. split; vm_compute; reflexivity. Qed.

(* Part 3: simulator level (Proofs/SimCorollaryFacts.v). In every tick of every run of every shipped
   scheduler ([sim_reach C a 0 (init_sim ..) t s]: [s] is a state the run passes through), a running
   container [c] that no suspension command of the tick names is advanced by exactly one step of the state
   machine of Part 1 ([ctick], giving [c1]); the OOM killer then leaves it alone or kills it ([c5]); if it is
   still unfinished it is in the running list of its pool after the tick, otherwise it is reported in the
   results of this very tick (successful iff [c5 = c1] finished by itself, C04_kill_justified).
   Hence the timeline of Part 1 (C05_run_success: success exactly at tick [total]) is the timeline of a
   container in a run for as long as it is neither suspended nor killed; the composition over a whole run
   (the [total]-th simulator tick after the creation reports the success) is Part 4 below, for arbitrary
   schedulers (for uncontended naive runs see also C06_uncontended_latency_sim). *)
From Eudoxia Require Import Model.Pool Model.Executor Model.Sched Model.Simulator Proofs.OomFacts
  Proofs.PriorityPoolRunFacts Proofs.SimCorollaryFacts.

Theorem C05_sim_container_tick : forall C a np cpu ram t s newp s' lg i p c,
  sim_reach C a 0%Z (init_sim C np cpu ram) t s ->
  sim_tick C a t s newp = Ok (s', lg) ->
  nth_error (e_pools (sm_exec s)) i = Some p -> In c (p_active p) ->
  (forall su, In su (tl_susp lg) -> su_cid su <> c_id c) ->
  exists p' wa consa wb consb c1 c5,
    nth_error (e_pools (sm_exec s')) i = Some p' /\
    ctick C wa consa c = Ok (wb, consb, c1) /\
    (c5 = c1 \/ c5 = dead c1 /\ c_completed c1 = false) /\
    (c_completed c5 = false -> In c5 (p_active p')) /\
    (c_completed c5 = true -> In (result_of (p_id p) c5) (tl_results lg)).
Proof. exact SimCorollaryFacts.C05_sim_container_tick. Qed.
Print Assumptions C05_sim_container_tick.

(* non-vacuity: tick 1 of the overbook run of C04_sim_witness; container 1 (one tick old) runs in pool 0, the
   tick has no suspension; it is ticked a second time and then killed by the pool-level loop (result (1, OOM)) *)
Example C05_sim_witness :
  sim_reach SimCorExamples.Ck AOverbook 0%Z (init_sim SimCorExamples.Ck 1 10%Z 10%Q) 1%Z SimCorExamples.k1 /\
  sim_tick SimCorExamples.Ck AOverbook 1%Z SimCorExamples.k1 [] = Ok (SimCorExamples.k2, SimCorExamples.klg1) /\
  (exists p c, nth_error (e_pools (sm_exec SimCorExamples.k1)) 0 = Some p /\ In c (p_active p) /\ c_id c = 1 /\
     forall su, In su (tl_susp SimCorExamples.klg1) -> su_cid su <> c_id c) /\
  map (fun p => map (fun c => (c_id c, c_ticks c, c_completed c)) (p_active p))
      (e_pools (sm_exec SimCorExamples.k1)) = [[(1, 1%Z, false)]] /\
  map (fun p => map (fun c => (c_id c, c_ticks c, c_completed c)) (p_active p))
      (e_pools (sm_exec SimCorExamples.k2)) = [[(2, 1%Z, false)]] /\
  map (fun r => (r_cid r, r_err r)) (tl_results SimCorExamples.klg1) = [(1, true)].
Proof.
  split; [exact SimCorExamples.k_reach1|]. split; [exact SimCorExamples.k_tick1|].
  split; [exact SimCorExamples.k_active1|]. exact SimCorExamples.k_facts1.
Qed.

(* Part 4: the timeline of a container over a WHOLE simulation run (Proofs/SimTimelineFacts.v); this is the
   composition that Part 3 left open, for every shipped scheduler, every workload, every pool configuration,
   any rounding.

   (i)   [cstep C c]: the container that [ctick] returns does not depend on the world or on the pool counter
         (they only decide whether the tick raises); [csteps C n c] is n steps. The isolated run of Part 1,
         whenever it succeeds, ends in [csteps].
   (ii)  the pure timeline of a fresh container: as Part 1 (a), (b) but with no world and no hypothesis on
         dependencies.
   (iii) one simulator tick, exhaustively ([tick_outcome]): the container finished and is reported / is above
         its own allocation and is reported failed / is within its allocation and the pool-level loop of the
         killer took it / runs on (and then no result of the tick carries its id).
   (iv)  every running container of every state of every run is [csteps C (c_ticks c)] of its own fresh
         container: its state is a function of its assignment and its age.
   (v)   many ticks: the dichotomy over [sim_reach], and the state/outcome in tick m along [sim_run].
   (vi)  the predicted ticks: success in exactly tick t0 + total - 1, own-limit OOM in exactly tick
         t0 + off k + j (= t0 + T - 1 for the T of C05_oom), and nothing about the container is reported
         earlier, provided no suspension command names it and it is not reported as failed before (i.e. the
         pool-level loop of the killer does not take it). *)
From Eudoxia Require Import Proofs.SimTimelineFacts.

(* (i) *)
Theorem C05_ctick_world_independent : forall C w cons c w1 cons1 c1,
  ctick C w cons c = Ok (w1, cons1, c1) -> c1 = cstep C c.
Proof. exact SimTimelineFacts.ctick_cstep. Qed.
Print Assumptions C05_ctick_world_independent.

Theorem C05_isolated_run_is_csteps : forall C n w cons c w' cons' c',
  cticks C n w cons c = Ok (w', cons', c') -> c' = csteps C n c.
Proof. exact SimTimelineFacts.cticks_csteps. Qed.
Print Assumptions C05_isolated_run_is_csteps.

(* (ii) success: strictly between 0 and [total] ticks the container is unfinished and within its allocation;
   from [total] on it is the completed container, no error, memory 0, [total] ticks on its counter *)
Theorem C05_steps_success : forall C id ops cpu ram pr,
  (forall k, k < length ops -> scr C ops cpu k <> []) ->
  all_fit C ops cpu ram -> 0 < length ops ->
  (forall t, 0 < t < total C ops cpu ->
     c_completed (csteps C t (new_container id ops cpu ram pr)) = false /\
     (c_mem (csteps C t (new_container id ops cpu ram pr)) <= ram)%Q) /\
  (forall n, csteps C (total C ops cpu + n) (new_container id ops cpu ram pr)
             = mk id ops cpu ram pr (length ops) None false 0%Q false true false (Z.of_nat (total C ops cpu))).
Proof. exact SimTimelineFacts.csteps_success. Qed.
Print Assumptions C05_steps_success.

(* (ii) own-limit OOM: tick j of operator k is the first demand above the allocation *)
Theorem C05_steps_oom : forall C id ops cpu ram pr,
  (forall k, k < length ops -> scr C ops cpu k <> []) ->
  forall k j, k < length ops -> j < L C ops cpu k -> (ram < nth j (scr C ops cpu k) 0)%Q ->
  (forall k' j', before C ops cpu k j k' j' -> (nth j' (scr C ops cpu k') 0 <= ram)%Q) ->
  let T := off C ops cpu k + S j in
  let c0 := new_container id ops cpu ram pr in
  (forall t, 0 < t < T -> c_completed (csteps C t c0) = false /\ (c_mem (csteps C t c0) <= ram)%Q) /\
  (forall n, c_completed (csteps C (T + n) c0) = false /\ c_frozen (csteps C (T + n) c0) = true /\
             c_mem (csteps C (T + n) c0) = nth j (scr C ops cpu k) 0%Q /\ c_opidx (csteps C (T + n) c0) = k /\
             c_ticks (csteps C (T + n) c0) = Z.of_nat (T + n)).
Proof. exact SimTimelineFacts.csteps_oom_time. Qed.
Print Assumptions C05_steps_oom.

(* (iii) a running container that no command of the tick suspends (su_cid AND su_pool) *)
Theorem C05_sim_tick_outcome : forall C a np cpu ram t s newp s' lg i p c,
  sim_reach C a 0%Z (init_sim C np cpu ram) t s ->
  sim_tick C a t s newp = Ok (s', lg) ->
  nth_error (e_pools (sm_exec s)) i = Some p -> In c (p_active p) ->
  (forall su, In su (tl_susp lg) -> su_cid su = c_id c -> su_pool su <> Z.of_nat i) ->
  (exists wa ca wb cb, ctick C wa ca c = Ok (wb, cb, cstep C c)) /\
  let c1 := cstep C c in
  (c_completed c1 = true /\ In (result_of i c1) (tl_results lg))
  \/ (c_completed c1 = false /\ (c_ram c1 < c_mem c1)%Q /\ In (result_of i (dead c1)) (tl_results lg))
  \/ (c_completed c1 = false /\ (c_mem c1 <= c_ram c1)%Q /\ In (result_of i (dead c1)) (tl_results lg))
  \/ (c_completed c1 = false /\ (c_mem c1 <= c_ram c1)%Q /\
      (exists p', nth_error (e_pools (sm_exec s')) i = Some p' /\ In c1 (p_active p')) /\
      forall r, In r (tl_results lg) -> r_cid r <> c_id c1).
Proof. exact SimTimelineFacts.sim_tick_active_outcome. Qed.
Print Assumptions C05_sim_tick_outcome.

(* (iii) a container created by an assignment of the tick: fresh id, first [ctick] in the same tick *)
Theorem C05_sim_created : forall C a np cpu ram t s newp s' lg i x,
  sim_reach C a 0%Z (init_sim C np cpu ram) t s ->
  sim_tick C a t s newp = Ok (s', lg) ->
  In x (tl_asgs lg) -> a_pool x = Z.of_nat i ->
  exists id, e_next (sm_exec s) <= id /\
    let c0 := new_container id (a_ops x) (a_cpu x) (a_ram x) (a_prio x) in
    (exists wa ca wb cb, ctick C wa ca c0 = Ok (wb, cb, cstep C c0)) /\ tick_outcome s' lg i (cstep C c0).
Proof. exact SimTimelineFacts.sim_tick_created_outcome. Qed.
Print Assumptions C05_sim_created.

(* (iv) *)
Theorem C05_sim_age : forall C a np cpu ram t s,
  sim_reach C a 0%Z (init_sim C np cpu ram) t s ->
  forall p, In p (e_pools (sm_exec s)) -> forall c, In c (p_active p) ->
  c_completed c = false /\ (0 <= c_ticks c)%Z /\
  c = csteps C (Z.to_nat (c_ticks c)) (new_container (c_id c) (c_ops c) (c_cpu c) (c_ram c) (c_prio c)).
Proof. exact SimTimelineFacts.sim_reach_aged. Qed.
Print Assumptions C05_sim_age.

(* (v) the dichotomy: t' - t ticks after a state in which [c] runs in pool [i] it still runs there, in state
   [csteps C (t' - t) c], or there is a first tick t + m in which it left the running list -- until then it ran
   ([csteps C m c] before that tick) and that tick suspended it, finished it, or killed it ([leaves]) *)
Theorem C05_sim_timeline : forall C a np cpu ram t s t' s' i p c,
  sim_reach C a 0%Z (init_sim C np cpu ram) t s ->
  sim_reach C a t s t' s' ->
  nth_error (e_pools (sm_exec s)) i = Some p -> In c (p_active p) ->
  (exists p', nth_error (e_pools (sm_exec s')) i = Some p' /\ In (csteps C (Z.to_nat (t' - t)) c) (p_active p'))
  \/
  (exists m sa newp sb lg pa,
     (Z.of_nat m < t' - t)%Z /\
     sim_reach C a t s (t + Z.of_nat m)%Z sa /\ sim_tick C a (t + Z.of_nat m)%Z sa newp = Ok (sb, lg) /\
     sim_reach C a (t + Z.of_nat m + 1)%Z sb t' s' /\
     nth_error (e_pools (sm_exec sa)) i = Some pa /\ In (csteps C m c) (p_active pa) /\
     let c1 := cstep C (csteps C m c) in
     ((exists su, In su (tl_susp lg) /\ su_cid su = c_id (csteps C m c) /\ su_pool su = Z.of_nat i)
      \/ (c_completed c1 = true /\ In (result_of i c1) (tl_results lg))
      \/ (c_completed c1 = false /\ (c_ram c1 < c_mem c1)%Q /\ In (result_of i (dead c1)) (tl_results lg))
      \/ (c_completed c1 = false /\ (c_mem c1 <= c_ram c1)%Q /\ In (result_of i (dead c1)) (tl_results lg)))).
Proof. exact SimTimelineFacts.sim_timeline_reach. Qed.
Print Assumptions C05_sim_timeline.

(* (v) along [sim_run] (logs index the ticks of the continuation from [s]) *)
Theorem C05_sim_run_timeline : forall C a np cpu ram arrivals t s sf logs oe i p c,
  sim_reach C a 0%Z (init_sim C np cpu ram) t s ->
  sim_run C a t s arrivals = (sf, logs, oe) ->
  nth_error (e_pools (sm_exec s)) i = Some p -> In c (p_active p) ->
  forall m lg, nth_error logs m = Some lg ->
    (forall m' lg', m' < m -> nth_error logs m' = Some lg' ->
       forall r, In r (tl_results lg') -> r_cid r <> c_id c) ->
    (forall m' lg', m' <= m -> nth_error logs m' = Some lg' ->
       forall su, In su (tl_susp lg') -> su_cid su = c_id c -> su_pool su <> Z.of_nat i) ->
    exists sa newp sb pa,
      sim_reach C a t s (t + Z.of_nat m)%Z sa /\ sim_tick C a (t + Z.of_nat m)%Z sa newp = Ok (sb, lg) /\
      nth_error (e_pools (sm_exec sa)) i = Some pa /\ In (csteps C m c) (p_active pa) /\
      tick_outcome sb lg i (csteps C (S m) c).
Proof. exact SimTimelineFacts.sim_run_timeline. Qed.
Print Assumptions C05_sim_run_timeline.

(* (vi) SUCCESS, for any running container of any state of a run. age = c_ticks c; the success is in the results
   of tick number total - age - 1 of the continuation and nothing about the container is reported earlier *)
Theorem C05_sim_success_tick : forall C a np cpu ram arrivals t s sf logs oe i p c,
  sim_reach C a 0%Z (init_sim C np cpu ram) t s ->
  sim_run C a t s arrivals = (sf, logs, oe) ->
  nth_error (e_pools (sm_exec s)) i = Some p -> In c (p_active p) ->
  let ops := c_ops c in
  let n := total C ops (c_cpu c) in
  let age := Z.to_nat (c_ticks c) in
  (forall k, k < length ops -> scr C ops (c_cpu c) k <> []) ->
  all_fit C ops (c_cpu c) (c_ram c) ->
  forall lgn, nth_error logs (n - age - 1) = Some lgn ->
  (forall m lg, m <= n - age - 1 -> nth_error logs m = Some lg ->
     forall su, In su (tl_susp lg) -> su_cid su = c_id c -> su_pool su <> Z.of_nat i) ->
  (forall m lg, m < n - age - 1 -> nth_error logs m = Some lg ->
     forall r, In r (tl_results lg) -> r_cid r = c_id c -> r_err r = false) ->
  age < n /\
  In {| r_cid := c_id c; r_ops := ops; r_cpu := c_cpu c; r_ram := c_ram c; r_prio := c_prio c;
        r_pool := i; r_err := false |} (tl_results lgn) /\
  (forall m lg, m < n - age - 1 -> nth_error logs m = Some lg ->
     forall r, In r (tl_results lg) -> r_cid r <> c_id c).
Proof. exact SimTimelineFacts.sim_success_tick. Qed.
Print Assumptions C05_sim_success_tick.

(* (vi) OWN-LIMIT OOM: T = off k + S j is the tick count of C05_oom; the failure is in the results of tick
   number T - age - 1 of the continuation and nothing about the container is reported earlier *)
Theorem C05_sim_oom_tick : forall C a np cpu ram arrivals t s sf logs oe i p c k j,
  sim_reach C a 0%Z (init_sim C np cpu ram) t s ->
  sim_run C a t s arrivals = (sf, logs, oe) ->
  nth_error (e_pools (sm_exec s)) i = Some p -> In c (p_active p) ->
  let ops := c_ops c in
  let T := off C ops (c_cpu c) k + S j in
  let age := Z.to_nat (c_ticks c) in
  (forall k, k < length ops -> scr C ops (c_cpu c) k <> []) ->
  k < length ops -> j < L C ops (c_cpu c) k ->
  (c_ram c < nth j (scr C ops (c_cpu c) k) 0)%Q ->
  (forall k' j', before C ops (c_cpu c) k j k' j' -> (nth j' (scr C ops (c_cpu c) k') 0 <= c_ram c)%Q) ->
  forall lgn, nth_error logs (T - age - 1) = Some lgn ->
  (forall m lg, m <= T - age - 1 -> nth_error logs m = Some lg ->
     forall su, In su (tl_susp lg) -> su_cid su = c_id c -> su_pool su <> Z.of_nat i) ->
  (forall m lg, m < T - age - 1 -> nth_error logs m = Some lg ->
     forall r, In r (tl_results lg) -> r_cid r = c_id c -> r_err r = false) ->
  age < T /\
  In {| r_cid := c_id c; r_ops := ops; r_cpu := c_cpu c; r_ram := c_ram c; r_prio := c_prio c;
        r_pool := i; r_err := true |} (tl_results lgn) /\
  (forall m lg, m < T - age - 1 -> nth_error logs m = Some lg ->
     forall r, In r (tl_results lg) -> r_cid r <> c_id c).
Proof. exact SimTimelineFacts.sim_oom_tick. Qed.
Print Assumptions C05_sim_oom_tick.

(* (vi) from the assignment. [logs] are the logs of the continuation of a run from tick t0 on; its first tick
   carries the assignment [x] for pool [i]. The container of [x] gets a fresh id and its first [ctick] in tick t0
   (one of the four outcomes); its success is in the results of tick t0 + total - 1 (index total - 1 of [logs]),
   and no earlier tick reports anything about it *)
Theorem C05_sim_created_success_tick : forall C a np cpu ram arrivals t0 s sf logs oe lg0 x i,
  sim_reach C a 0%Z (init_sim C np cpu ram) t0 s ->
  sim_run C a t0 s arrivals = (sf, logs, oe) ->
  nth_error logs 0 = Some lg0 -> In x (tl_asgs lg0) -> a_pool x = Z.of_nat i ->
  let ops := a_ops x in
  let n := total C ops (a_cpu x) in
  (forall k, k < length ops -> scr C ops (a_cpu x) k <> []) ->
  all_fit C ops (a_cpu x) (a_ram x) ->
  exists id s1 newp,
    e_next (sm_exec s) <= id /\ sim_tick C a t0 s newp = Ok (s1, lg0) /\
    tick_outcome s1 lg0 i (cstep C (new_container id ops (a_cpu x) (a_ram x) (a_prio x))) /\
    0 < n /\
    forall lgn, nth_error logs (n - 1) = Some lgn ->
      (forall m lg, 0 < m <= n - 1 -> nth_error logs m = Some lg ->
         forall su, In su (tl_susp lg) -> su_cid su = id -> su_pool su <> Z.of_nat i) ->
      (forall m lg, m < n - 1 -> nth_error logs m = Some lg ->
         forall r, In r (tl_results lg) -> r_cid r = id -> r_err r = false) ->
      In {| r_cid := id; r_ops := ops; r_cpu := a_cpu x; r_ram := a_ram x; r_prio := a_prio x;
            r_pool := i; r_err := false |} (tl_results lgn) /\
      (forall m lg, m < n - 1 -> nth_error logs m = Some lg ->
         forall r, In r (tl_results lg) -> r_cid r <> id).
Proof. exact SimTimelineFacts.sim_created_success_tick. Qed.
Print Assumptions C05_sim_created_success_tick.

(* non-vacuity (SimTimelineExamples: naive, one pool of 4 CPUs / 8 GB, arrivals [[0]; [1]; []; ...]).
   Container 1 (operators [1; 2], scripts [1;1;1] and [1;100] GB, 8 GB, created in tick 2) runs in the state x3
   reached at tick 3, one tick old; the first demand above 8 GB is tick j = 1 of operator k = 1, T = 3 + 2 = 5.
   The hypotheses of C05_sim_oom_tick hold and the failure is in the results of continuation tick 5 - 1 - 1 = 3,
   i.e. simulator tick 6 = 2 + 5 - 1. *)
Example C05_sim_oom_witness :
  sim_reach SimTimelineExamples.xC ANaive 0%Z (init_sim SimTimelineExamples.xC 1 4%Z 8%Q) 3%Z SimTimelineExamples.x3 /\
  sim_run SimTimelineExamples.xC ANaive 3%Z SimTimelineExamples.x3 SimTimelineExamples.x_rest
    = (SimTimelineExamples.xf, SimTimelineExamples.xlogs, None) /\
  nth_error (e_pools (sm_exec SimTimelineExamples.x3)) 0 = Some SimTimelineExamples.xp3 /\
  In SimTimelineExamples.xc1 (p_active SimTimelineExamples.xp3) /\
  (c_id SimTimelineExamples.xc1, c_ops SimTimelineExamples.xc1, c_cpu SimTimelineExamples.xc1,
   Qred (c_ram SimTimelineExamples.xc1), c_ticks SimTimelineExamples.xc1) = (1, [1; 2], 4%Z, 8%Q, 1%Z) /\
  map (fun k => scr SimTimelineExamples.xC (c_ops SimTimelineExamples.xc1) (c_cpu SimTimelineExamples.xc1) k) [0; 1]
    = [[1%Q; 1%Q; 1%Q]; [1%Q; 100%Q]] /\
  map (fun lg => (tl_susp lg, map (fun r => (r_cid r, r_err r)) (tl_results lg))) SimTimelineExamples.xlogs
    = [([], []); ([], []); ([], []); ([], [(1, true)]); ([], []); ([], []); ([], [])] /\
  exists lgn, nth_error SimTimelineExamples.xlogs 3 = Some lgn /\
    In {| r_cid := c_id SimTimelineExamples.xc1; r_ops := c_ops SimTimelineExamples.xc1;
          r_cpu := c_cpu SimTimelineExamples.xc1; r_ram := c_ram SimTimelineExamples.xc1;
          r_prio := c_prio SimTimelineExamples.xc1; r_pool := 0; r_err := true |} (tl_results lgn) /\
    (forall m lg, m < 3 -> nth_error SimTimelineExamples.xlogs m = Some lg ->
       forall r, In r (tl_results lg) -> r_cid r <> c_id SimTimelineExamples.xc1).
Proof.
  split; [exact SimTimelineExamples.x_reach3|]. split; [exact SimTimelineExamples.x_cont_run|].
  split; [exact SimTimelineExamples.x_pool3|]. split; [exact SimTimelineExamples.x_active3|].
  split; [exact (proj1 SimTimelineExamples.x_c1_facts)|].
  split; [exact (proj1 (proj2 SimTimelineExamples.x_c1_facts))|].
  split; [exact SimTimelineExamples.x_cont_facts|]. exact SimTimelineExamples.x_oom_applies.
Qed.

(* the same run from its start: the assignment of tick 0 ([0], 4 CPUs, 8 GB, pool 0; total = 2) satisfies the
   hypotheses of C05_sim_created_success_tick and the success is in the results of tick 0 + 2 - 1 = 1 *)
Example C05_sim_success_witness :
  sim_run SimTimelineExamples.xC ANaive 0%Z (init_sim SimTimelineExamples.xC 1 4%Z 8%Q) SimTimelineExamples.x_arrivals
    = (SimTimelineExamples.x_s, SimTimelineExamples.x_logs, None) /\
  nth_error SimTimelineExamples.x_logs 0 = Some SimTimelineExamples.x_lg0 /\
  In SimTimelineExamples.x_asg0 (tl_asgs SimTimelineExamples.x_lg0) /\
  (a_ops SimTimelineExamples.x_asg0, a_cpu SimTimelineExamples.x_asg0, Qred (a_ram SimTimelineExamples.x_asg0),
   a_pool SimTimelineExamples.x_asg0) = ([0], 4%Z, 8%Q, 0%Z) /\
  total SimTimelineExamples.xC (a_ops SimTimelineExamples.x_asg0) (a_cpu SimTimelineExamples.x_asg0) = 2 /\
  all_fit SimTimelineExamples.xC (a_ops SimTimelineExamples.x_asg0) (a_cpu SimTimelineExamples.x_asg0)
          (a_ram SimTimelineExamples.x_asg0) /\
  map (fun lg => (tl_susp lg, map (fun r => (r_cid r, r_ops r, r_err r)) (tl_results lg)))
      (firstn 2 SimTimelineExamples.x_logs) = [([], []); ([], [(0, [0], false)])] /\
  exists id lgn, nth_error SimTimelineExamples.x_logs 1 = Some lgn /\
    In {| r_cid := id; r_ops := a_ops SimTimelineExamples.x_asg0; r_cpu := a_cpu SimTimelineExamples.x_asg0;
          r_ram := a_ram SimTimelineExamples.x_asg0; r_prio := a_prio SimTimelineExamples.x_asg0;
          r_pool := 0; r_err := false |} (tl_results lgn).
Proof.
  split; [exact SimTimelineExamples.x_run|]. split; [exact SimTimelineExamples.x_log0|].
  split; [exact SimTimelineExamples.x_asg0_in|].
  split; [exact (proj1 SimTimelineExamples.x_asg0_facts)|].
  split; [exact (proj1 (proj2 SimTimelineExamples.x_asg0_facts))|].
  split; [exact SimTimelineExamples.x_fit0|].
  split; [exact (proj2 (proj2 SimTimelineExamples.x_asg0_facts))|].
  exact SimTimelineExamples.x_success_applies.
Qed.
