(* C05 Container execution follows the documented time and memory model.
   Statements only; every proof is [exact <lemma of Proofs/ContainerRunFacts.v, Proofs/TimingFacts.v>].

   Part 1 is about the container state machine [ctick] for an ARBITRARY timing function (cf_script):
   [cticks C n] is n successive ticks; [scr k] the script (per-tick demand) of the k-th operator,
   [L k] its length, [off k] = L 0 + .. + L (k-1), [total] the sum of all lengths.
   Part 2 is about the tick arithmetic: float-faithful counts against floor(x * tps), for rnd64. *)
From Coq Require Import List ZArith QArith Qabs Arith.
Import ListNotations.
From Eudoxia Require Import Num.Rnd64 Model.Types Model.Lifecycle Model.Timing Model.Container
  Proofs.ContainerRunFacts Proofs.TimingFacts.
Close Scope Q_scope.
Close Scope Z_scope.

Section Run.
Variables (C : cfg) (id : nat) (ops : list nat) (cpu : Z) (ram : Q) (pr : prio) (w0 : world) (cons0 : Q).
(* the container was accepted: its operators are Assigned, distinct, known, and listed in an order that
   respects dependencies; every operator occupies at least one tick *)
Hypothesis Hassigned : forall o, In o ops -> st_of w0 o = Assigned.
Hypothesis Hnodup : NoDup ops.
Hypothesis Hrange : forall o, In o ops -> o < length (w_st w0).
Hypothesis Hdeps : forall k, k < length ops -> forall p, In p (op_parents (cf_static C) (nth k ops 0)) ->
  st_of w0 p = Completed \/ exists i, i < k /\ nth i ops 0 = p.
Hypothesis Hne : forall k, k < length ops -> scr C ops cpu k <> [].

(* (a) no demand exceeds the allocation: tick t = off k + (j+1) is tick j of operator k; the container
   uses the script value, operators before k are Completed, k is Running (Completed exactly at its last
   tick), later ones still Assigned; it can be suspended exactly after the last tick of a non-final
   operator; it completes (successfully, memory back to 0) exactly at t = total. *)
Theorem C05_run_success : forall k j,
  all_fit C ops cpu ram -> k < length ops -> j < L C ops cpu k ->
  let t := off C ops cpu k + S j in
  exists w cons c,
    cticks C t w0 cons0 (c0 id ops cpu ram pr) = Ok (w, cons, c) /\
    c_ticks c = Z.of_nat t /\ c_frozen c = false /\ c_error c = false /\
    (c_completed c = true <-> t = total C ops cpu) /\
    (c_can_suspend c = true <-> S j = L C ops cpu k /\ S k < length ops) /\
    (t <> total C ops cpu -> c_mem c = nth j (scr C ops cpu k) 0%Q) /\
    (t = total C ops cpu -> c_mem c = 0%Q) /\
    (forall i, i < k -> st_of w (nth i ops 0) = Completed) /\
    st_of w (nth k ops 0) = (if Nat.eqb (S j) (L C ops cpu k) then Completed else Running) /\
    (forall i, k < i -> i < length ops -> st_of w (nth i ops 0) = Assigned) /\
    (forall o, ~ In o ops -> st_of w o = st_of w0 o) /\
    acct C cons0 cons (c_mem c).
Proof. exact (run_success_fields C id ops cpu ram pr w0 cons0 Hassigned Hnodup Hrange Hdeps Hne). Qed.

(* ... and it stays completed: after total + n ticks all operators are Completed *)
Theorem C05_run_success_total : forall n,
  all_fit C ops cpu ram -> 0 < length ops ->
  exists w cons c,
    cticks C (total C ops cpu + n) w0 cons0 (c0 id ops cpu ram pr) = Ok (w, cons, c) /\
    c_completed c = true /\ c_error c = false /\ c_mem c = 0%Q /\
    c_ticks c = Z.of_nat (total C ops cpu) /\
    (forall i, i < length ops -> st_of w (nth i ops 0) = Completed) /\
    acct C cons0 cons 0%Q.
Proof. exact (run_success_total C id ops cpu ram pr w0 cons0 Hassigned Hnodup Hrange Hdeps Hne). Qed.

(* (b) OOM in exactly the first tick whose demand exceeds the allocation: the container freezes there
   (further ticks change nothing but the tick counter), and the kill leaves the earlier operators
   Completed and the current and later ones Failed. *)
Theorem C05_oom : forall k j,
  k < length ops -> j < L C ops cpu k ->
  (ram < nth j (scr C ops cpu k) 0)%Q ->
  (forall k' j', before C ops cpu k j k' j' -> (nth j' (scr C ops cpu k') 0 <= ram)%Q) ->
  let T := off C ops cpu k + S j in
  exists w cons cF,
    cticks C T w0 cons0 (c0 id ops cpu ram pr) = Ok (w, cons, cF) /\
    c_frozen cF = true /\ c_completed cF = false /\ c_error cF = false /\
    c_mem cF = nth j (scr C ops cpu k) 0%Q /\ c_opidx cF = k /\ c_ticks cF = Z.of_nat T /\
    (forall i, i < k -> st_of w (nth i ops 0) = Completed) /\
    st_of w (nth k ops 0) = Running /\
    (forall i, k < i -> i < length ops -> st_of w (nth i ops 0) = Assigned) /\
    acct C cons0 cons (c_mem cF) /\
    (forall n, exists cn,
       cticks C (T + n) w0 cons0 (c0 id ops cpu ram pr) = Ok (w, cons, cn) /\
       c_ticks cn = Z.of_nat (T + n) /\
       cn = mk id ops cpu ram pr (c_opidx cF) (c_rest cF) (c_frozen cF) (c_mem cF) (c_can_suspend cF)
               (c_completed cF) (c_error cF) (c_ticks cn)) /\
    (forall n cn,
       cticks C (T + n) w0 cons0 (c0 id ops cpu ram pr) = Ok (w, cons, cn) ->
       exists w' cons' c',
         ckill C w cons cn = Ok (w', cons', c') /\
         (forall i, i < k -> st_of w' (nth i ops 0) = Completed) /\
         (forall i, k <= i -> i < length ops -> st_of w' (nth i ops 0) = Failed) /\
         c_completed c' = true /\ c_error c' = true /\ c_mem c' = 0%Q /\
         acct C cons0 cons' 0%Q).
Proof. exact (oom_theorem C id ops cpu ram pr w0 cons0 Hassigned Hnodup Hrange Hdeps Hne). Qed.
End Run.
Print Assumptions C05_run_success.
Print Assumptions C05_run_success_total.
Print Assumptions C05_oom.

(* Part 2: tick arithmetic. x = secs * tps is the exact quantity the property text floors. *)

(* the float quotient is within 4 * 2^-53 (relative) of x *)
Theorem C05_ticks_close : forall tps secs, (0 <= secs)%Q -> (0 < tps)%Z ->
  (Qabs (rnd64 (secs / rnd64 (1 / inject_Z tps)) - secs * inject_Z tps)
   <= secs * inject_Z tps * (4 # 9007199254740992))%Q.
Proof. exact ticks_of_close_rnd64. Qed.
Print Assumptions C05_ticks_close.

(* "quantities within float rounding of a boundary may fall on either side": the float-faithful count
   equals floor(x) unless an integer lies within 4 * 2^-53 * x of x *)
Theorem C05_ticks_exact_away : forall tps secs, (0 <= secs)%Q -> (0 < tps)%Z ->
  (forall k : Z, ~ (Qabs (inject_Z k - secs * inject_Z tps) <= secs * inject_Z tps * (4 # 9007199254740992))%Q) ->
  ticks_of rnd64 tps secs = floorQ (secs * inject_Z tps).
Proof. exact ticks_of_exact_away_rnd64. Qed.
Print Assumptions C05_ticks_exact_away.

(* I/O ticks against floor(read/20 * tps), three roundings *)
Theorem C05_io_ticks_exact_away : forall tps s, (0 <= sg_read s)%Q -> (0 < tps)%Z ->
  (forall k : Z, ~ (Qabs (inject_Z k - sg_read s / 20 * inject_Z tps)
                    <= sg_read s / 20 * inject_Z tps * (6 # 9007199254740992))%Q) ->
  ticks_of rnd64 tps (io_secs rnd64 s) = spec_io_ticks tps s.
Proof. exact io_ticks_exact_away_rnd64. Qed.
Print Assumptions C05_io_ticks_exact_away.

(* growing memory: 20 GB per simulated second, up to rounding *)
Theorem C05_io_mem_close : forall tps s i, (0 <= i)%Z -> (0 < tps)%Z -> sg_mem s = None ->
  (Qabs (io_mem rnd64 tps s i - spec_io_mem tps s i) <= spec_io_mem tps s i * (4 # 9007199254740992))%Q.
Proof. exact io_mem_close_rnd64. Qed.
Print Assumptions C05_io_mem_close.

(* with exact arithmetic the tick count is the documented floor *)
Theorem C05_ticks_exact_id : forall tps secs, (0 <= secs)%Q -> (0 < tps)%Z ->
  ticks_of (fun x => x) tps secs = floorQ (secs * inject_Z tps).
Proof. exact ticks_of_exact_id. Qed.
Print Assumptions C05_ticks_exact_id.

(* an operator occupies at least one tick *)
Theorem C05_min_one_tick : forall rnd mt tps cpus segs, segs <> [] ->
  Forall (fun p => (0 <= fst p)%Z /\ (0 <= snd p)%Z) (map (seg_ticks rnd mt tps cpus) segs) ->
  (1 <= sumZ (map (fun p => (fst p + snd p)%Z) (op_seg_ticks rnd mt tps cpus segs)))%Z.
Proof. exact op_seg_ticks_min_one. Qed.
Print Assumptions C05_min_one_tick.

(* the float boundary case: 0.57 s (as a double) at 100 ticks/s gives 56 ticks, the exact quantity 57 *)
Example C05_boundary_witness :
  ticks_of rnd64 100 (rnd64 (57 # 100)) = 56%Z /\ floorQ ((57 # 100) * 100) = 57%Z.
Proof. split; vm_compute; reflexivity. Qed.

(* Part 3: simulator level (Proofs/SimCorollaryFacts.v). In every tick of every run of every shipped
   scheduler ([sim_reach C a 0 (init_sim ..) t s]: [s] is a state the run passes through), a running
   container [c] that no suspension command of the tick names is advanced by exactly one step of the state
   machine of Part 1 ([ctick], giving [c1]); the OOM killer then leaves it alone or kills it ([c5]); if it is
   still unfinished it is in the running list of its pool after the tick, otherwise it is reported in the
   results of this very tick (successful iff [c5 = c1] finished by itself, C04_kill_justified).
   Hence the timeline of Part 1 (C05_run_success: success exactly at tick [total]) is the timeline of a
   container in a run for as long as it is neither suspended nor killed; the composition over a whole run
   (the [total]-th simulator tick after the creation reports the success) is NOT stated here as one theorem
   for arbitrary schedulers: it is proved for uncontended naive runs in C06_uncontended_latency_sim. *)
From Eudoxia Require Import Model.Pool Model.Executor Model.Sched Model.Simulator Proofs.OomFacts
  Proofs.PriorityPoolRunFacts Proofs.SimCorollaryFacts.

Theorem C05_sim_container_tick : forall C a np cpu ram t s newp s' lg i p c,
  sim_reach C a 0%Z (init_sim C np cpu ram) t s ->
  sim_tick C a t s newp = Ok (s', lg) ->
  nth_error (e_pools (sm_exec s)) i = Some p -> In c (p_active p) ->
  (forall su, In su (tl_susp lg) -> su_cid su <> c_id c) ->
  exists p' wa consa wb consb c1 c5,
    nth_error (e_pools (sm_exec s')) i = Some p' /\
    ctick C wa consa c = Ok (wb, consb, c1) /\
    (c5 = c1 \/ c5 = dead c1 /\ c_completed c1 = false) /\
    (c_completed c5 = false -> In c5 (p_active p')) /\
    (c_completed c5 = true -> In (result_of (p_id p) c5) (tl_results lg)).
Proof. exact SimCorollaryFacts.C05_sim_container_tick. Qed.
Print Assumptions C05_sim_container_tick.

(* non-vacuity: tick 1 of the overbook run of C04_sim_witness; container 1 (one tick old) runs in pool 0, the
   tick has no suspension; it is ticked a second time and then killed by the pool-level loop (result (1, OOM)) *)
Example C05_sim_witness :
  sim_reach SimCorExamples.Ck AOverbook 0%Z (init_sim SimCorExamples.Ck 1 10%Z 10%Q) 1%Z SimCorExamples.k1 /\
  sim_tick SimCorExamples.Ck AOverbook 1%Z SimCorExamples.k1 [] = Ok (SimCorExamples.k2, SimCorExamples.klg1) /\
  (exists p c, nth_error (e_pools (sm_exec SimCorExamples.k1)) 0 = Some p /\ In c (p_active p) /\ c_id c = 1 /\
     forall su, In su (tl_susp SimCorExamples.klg1) -> su_cid su <> c_id c) /\
  map (fun p => map (fun c => (c_id c, c_ticks c, c_completed c)) (p_active p))
      (e_pools (sm_exec SimCorExamples.k1)) = [[(1, 1%Z, false)]] /\
  map (fun p => map (fun c => (c_id c, c_ticks c, c_completed c)) (p_active p))
      (e_pools (sm_exec SimCorExamples.k2)) = [[(2, 1%Z, false)]] /\
  map (fun r => (r_cid r, r_err r)) (tl_results SimCorExamples.klg1) = [(1, true)].
Proof.
  split; [exact SimCorExamples.k_reach1|]. split; [exact SimCorExamples.k_tick1|].
  split; [exact SimCorExamples.k_active1|]. exact SimCorExamples.k_facts1.
Qed.
