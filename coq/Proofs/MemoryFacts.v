(* C04: memory accounting of a pool (Model/Pool.v).
   1. Neumaier summation is exact when nothing is rounded;
   2. after a tick no running container is over its allocation (any rounding);
   3. the reported usage is the sum of the usages of the running containers (exact arithmetic);
   4. the usage does not exceed the capacity (exact arithmetic);
   5. every OOM kill is justified (exact arithmetic);
   6. without overcommit only containers over their own allocation are killed;
   7. closed examples. *)
From Coq Require Import ZArith QArith Qabs List Bool Arith Lia Lqa.
Import ListNotations.
Close Scope Q_scope.
From Eudoxia Require Import Num.Rnd64 Model.Types Model.Dag Model.Lifecycle Model.Container Model.Pool
  Model.Executor Proofs.ListFacts Proofs.LifecycleFacts Proofs.OomFacts.

(* ====================================================================== *)
(* 0. sums                                                                *)
(* ====================================================================== *)

Lemma sumQ_app l1 l2 : (sumQ (l1 ++ l2) == sumQ l1 + sumQ l2)%Q.
Proof.
  induction l1 as [|x t IH]; cbn [app sumQ]; [ring|]. rewrite IH. ring.
Qed.

Lemma sumQ_nonneg l : (forall x, In x l -> (0 <= x)%Q) -> (0 <= sumQ l)%Q.
Proof.
  induction l as [|x t IH]; intros H; cbn [sumQ]; [lra|].
  assert (H1 : (0 <= x)%Q) by (apply H; left; reflexivity).
  assert (H2 : (0 <= sumQ t)%Q) by (apply IH; intros y Hy; apply H; right; exact Hy).
  lra.
Qed.

Lemma sumQ_zero l : (forall x, In x l -> (x == 0)%Q) -> (sumQ l == 0)%Q.
Proof.
  induction l as [|x t IH]; intros H; cbn [sumQ]; [reflexivity|].
  rewrite (H x (or_introl eq_refl)). rewrite IH; [ring|]. intros y Hy. apply H. right. exact Hy.
Qed.

(* a list split by a predicate *)
Lemma sumQ_map_filter_split {A} (f : A -> Q) (p : A -> bool) l :
  (sumQ (map f l) == sumQ (map f (filter p l)) + sumQ (map f (filter (fun x => negb (p x)) l)))%Q.
Proof.
  induction l as [|x t IH]; cbn [map filter sumQ]; [ring|].
  destruct (p x); cbn [negb map sumQ]; rewrite IH; ring.
Qed.

Lemma sumQ_map_le {A} (f g : A -> Q) l :
  (forall x, In x l -> (f x <= g x)%Q) -> (sumQ (map f l) <= sumQ (map g l))%Q.
Proof.
  induction l as [|x t IH]; intros H; cbn [map sumQ]; [lra|].
  assert (H1 : (f x <= g x)%Q) by (apply H; left; reflexivity).
  assert (H2 : (sumQ (map f t) <= sumQ (map g t))%Q) by (apply IH; intros y Hy; apply H; right; exact Hy).
  lra.
Qed.

Lemma fold_left_add_ram l : forall a,
  (fold_left (fun a c => (a + c_ram c)%Q) l a == a + sumQ (map c_ram l))%Q.
Proof.
  induction l as [|x t IH]; intros a; cbn [fold_left map sumQ]; [ring|]. rewrite IH. ring.
Qed.

Lemma filter_nil_neg {A} (p : A -> bool) l :
  filter p l = [] -> filter (fun x => negb (p x)) l = l.
Proof.
  induction l as [|x t IH]; intros H; [reflexivity|].
  cbn [filter] in *. destruct (p x); [discriminate|]. cbn [negb]. rewrite IH by exact H. reflexivity.
Qed.

(* ====================================================================== *)
(* 1. Neumaier summation without rounding                                 *)
(* ====================================================================== *)

Lemma neumaier_exact (rnd : Q -> Q) :
  (forall x, (rnd x == x)%Q) ->
  forall t f c f' c',
    (c == 0)%Q -> fold_left (neumaier_step rnd) t (f, c) = (f', c') ->
    (f' == f + sumQ t)%Q /\ (c' == 0)%Q.
Proof.
  intros Ex. induction t as [|x t IH]; intros f c f' c' Hc H.
  - cbn in H. inversion H; subst. cbn [sumQ]. split; [ring | exact Hc].
  - cbn [fold_left] in H. unfold neumaier_step at 2 in H.
    apply IH in H.
    + destruct H as [H1 H2]. split; [|exact H2]. rewrite H1. cbn [sumQ]. rewrite Ex. ring.
    + destruct (Qleb (Qabs x) (Qabs f)).
      * rewrite Ex. rewrite Ex. rewrite Ex. rewrite Ex. rewrite Hc. ring.
      * rewrite Ex. rewrite Ex. rewrite Ex. rewrite Ex. rewrite Hc. ring.
Qed.

Theorem py_sum_exact (rnd : Q -> Q) :
  (forall x, (rnd x == x)%Q) -> forall l, (py_sum rnd l == sumQ l)%Q.
Proof.
  intros Ex l. destruct l as [|x t]; [reflexivity|].
  unfold py_sum. destruct (fold_left (neumaier_step rnd) t (x, 0%Q)) as [f c] eqn:F.
  apply (neumaier_exact rnd Ex) in F; [|reflexivity]. destruct F as [F1 F2].
  cbn [sumQ]. destruct (Qeqb c 0); [exact F1|]. rewrite Ex, F1, F2. ring.
Qed.

Corollary reconcile_exact C act :
  (forall x, (cf_rnd C x == x)%Q) -> (reconcile C act == sumQ (map c_mem act))%Q.
Proof. intros Ex. unfold reconcile. apply py_sum_exact. exact Ex. Qed.

(* ====================================================================== *)
(* 2. one container                                                       *)
(* ====================================================================== *)

(* what one resume of the generator does to the fields that matter for memory *)
Definition ctick_rel (C : cfg) (cons : Q) (c : container) (cons' : Q) (c' : container) : Prop :=
  c_id c' = c_id c /\ c_ram c' = c_ram c /\
  ((cons' = cons /\ c_mem c' = c_mem c /\ c_rest c' = c_rest c /\
    c_completed c' = c_completed c /\ c_error c' = c_error c)
   \/
   (c_completed c = false /\
    exists m rest,
      (c_rest c = Some (m :: rest) \/ exists op, cf_script C op (c_cpu c) = m :: rest) /\
      (c_rest c' = Some (m :: rest) \/ c_rest c' = Some rest \/ c_rest c' = None) /\
      ((c_mem c' = m /\ cons' = cf_rnd C (cons + cf_rnd C (m - c_mem c))%Q /\
        c_completed c' = false /\ c_error c' = c_error c)
       \/
       (c_mem c' = 0%Q /\
        cons' = cf_rnd C (cf_rnd C (cons + cf_rnd C (m - c_mem c)) + cf_rnd C (0 - m))%Q /\
        c_completed c' = true /\ c_error c' = false)))).

Lemma ctick_rel_ok C w cons c w' cons' c' :
  ctick C w cons c = Ok (w', cons', c') -> ctick_rel C cons c cons' c'.
Proof.
  unfold ctick. intros H.
  destruct (c_completed c) eqn:Hcomp.
  { inversion H; subst. unfold ctick_rel. split; [reflexivity|]. split; [reflexivity|].
    left. repeat split; reflexivity. }
  destruct (c_frozen c) eqn:Hfr.
  { inversion H; subst. unfold ctick_rel. split; [reflexivity|]. split; [reflexivity|].
    left. cbn. repeat split; try reflexivity. }
  destruct (nth_error (c_ops c) (c_opidx c)) as [op|]; [|discriminate].
  assert (Hsrc : exists w1 m rest,
            (c_rest c = Some (m :: rest) \/ cf_script C op (c_cpu c) = m :: rest) /\
            (let '(c1, cons1) := set_mem C c cons m in
             if Qltb (c_ram c) m
             then Ok (w1, cons1, tick_elapsed (with_pos c1 (c_opidx c) (Some (m :: rest)) true (c_can_suspend c)))
             else match rest with
                  | _ :: _ => Ok (w1, cons1, tick_elapsed (with_pos c1 (c_opidx c) (Some rest) false false))
                  | [] =>
                      do w2 <- transition (cf_static C) w1 op Completed;
                      let idx' := S (c_opidx c) in
                      if Nat.eqb idx' (length (c_ops c)) then
                        let '(c2, cons2) := mark_completed C (with_pos c1 idx' None false false) cons1 false in
                        Ok (w2, cons2, tick_elapsed c2)
                      else Ok (w2, cons1, tick_elapsed (with_pos c1 idx' None false true))
                  end) = Ok (w', cons', c')).
  { destruct (c_rest c) as [r|].
    - cbn [bind] in H. destruct r as [|m rest]; [discriminate|].
      exists w, m, rest. split; [left; reflexivity | exact H].
    - destruct (transition (cf_static C) w op Running) as [w1|e]; [|discriminate].
      cbn [bind] in H. destruct (cf_script C op (c_cpu c)) as [|m rest] eqn:S; [discriminate|].
      exists w1, m, rest. split; [right; reflexivity | exact H]. }
  clear H. destruct Hsrc as (w1 & m & rest & Hsrc & H).
  assert (Hsrc' : c_rest c = Some (m :: rest) \/ exists op, cf_script C op (c_cpu c) = m :: rest).
  { destruct Hsrc as [E|E]; [left; exact E | right; exists op; exact E]. }
  clear Hsrc. unfold set_mem in H.
  unfold ctick_rel.
  destruct (Qltb (c_ram c) m).
  { inversion H; subst. cbn. split; [reflexivity|]. split; [reflexivity|]. right.
    split; [exact Hcomp|]. exists m, rest. split; [exact Hsrc'|]. split; [left; reflexivity|].
    left. repeat split; reflexivity || exact Hcomp. }
  destruct rest as [|m2 rest2].
  2:{ inversion H; subst. cbn. split; [reflexivity|]. split; [reflexivity|]. right.
      split; [exact Hcomp|]. exists m, (m2 :: rest2). split; [exact Hsrc'|].
      split; [right; left; reflexivity|].
      left. repeat split; reflexivity || exact Hcomp. }
  destruct (transition (cf_static C) w1 op Completed) as [w2|e]; [|discriminate].
  cbn [bind] in H.
  destruct (Nat.eqb (S (c_opidx c)) (length (c_ops c))).
  - unfold mark_completed, set_mem in H. cbn in H. inversion H; subst. cbn.
    split; [reflexivity|]. split; [reflexivity|]. right.
    split; [exact Hcomp|]. exists m, []. split; [exact Hsrc'|].
    split; [right; right; reflexivity|].
    right. repeat split; reflexivity.
  - inversion H; subst. cbn. split; [reflexivity|]. split; [reflexivity|]. right.
    split; [exact Hcomp|]. exists m, []. split; [exact Hsrc'|].
    split; [right; right; reflexivity|].
    left. repeat split; reflexivity || exact Hcomp.
Qed.

Local Notation SM l := (sumQ (map c_mem l)).
Local Notation SR l := (sumQ (map c_ram l)).

Section Exact1.
Variable C : cfg.
Hypothesis Ex : forall x, (cf_rnd C x == x)%Q.

(* set_current_memory_usage moves the pool's counter by exactly the change of the container *)
Lemma set_mem_exact c cons m :
  (snd (set_mem C c cons m) - c_mem (fst (set_mem C c cons m)) == cons - c_mem c)%Q.
Proof. unfold set_mem. cbn [fst snd c_mem]. rewrite Ex. rewrite Ex. ring. Qed.

Lemma ctick_rel_usage cons c cons' c' :
  ctick_rel C cons c cons' c' -> (cons' - c_mem c' == cons - c_mem c)%Q.
Proof.
  intros (_ & _ & [H|H]).
  - destruct H as (-> & -> & _). reflexivity.
  - destruct H as (_ & m & rest & _ & _ & [H|H]).
    + destruct H as (-> & -> & _). rewrite Ex. rewrite Ex. ring.
    + destruct H as (-> & -> & _). rewrite Ex. rewrite Ex. rewrite Ex. rewrite Ex. ring.
Qed.

Lemma ctick_usage w cons c w' cons' c' :
  ctick C w cons c = Ok (w', cons', c') -> (cons' - c_mem c' == cons - c_mem c)%Q.
Proof. intros H. apply ctick_rel_usage. eapply ctick_rel_ok. exact H. Qed.

Lemma ckill_usage w cons c w' cons' c' :
  ckill C w cons c = Ok (w', cons', c') -> (cons' - c_mem c' == cons - c_mem c)%Q.
Proof.
  intros H. destruct (ckill_exact C _ _ _ _ _ _ Ex H) as [H1 H2]. rewrite H1, H2. ring.
Qed.

Lemma tick_active_usage : forall act w cons w' cons' act',
  tick_active C w cons act = Ok (w', cons', act') ->
  (cons' - SM act' == cons - SM act)%Q.
Proof.
  induction act as [|c t IH]; intros w cons w' cons' act' H.
  - cbn in H. inversion H; subst. reflexivity.
  - cbn [tick_active] in H.
    destruct (ctick C w cons c) as [[[w1 cons1] c1]|e] eqn:K; [|discriminate].
    cbn [bind] in H.
    destruct (tick_active C w1 cons1 t) as [[[w2 cons2] t']|e] eqn:R; [|discriminate].
    cbn [bind] in H. inversion H; subst.
    apply ctick_usage in K. apply IH in R. cbn [map sumQ]. lra.
Qed.

Lemma kill_over_limit_usage : forall act w cons w' cons' act',
  kill_over_limit C w cons act = Ok (w', cons', act') ->
  (cons' - SM act' == cons - SM act)%Q.
Proof.
  induction act as [|c t IH]; intros w cons w' cons' act' H.
  - cbn in H. inversion H; subst. reflexivity.
  - cbn [kill_over_limit] in H.
    destruct (if Qltb (c_ram c) (c_mem c) then ckill C w cons c else Ok (w, cons, c))
      as [[[w1 cons1] c1]|e] eqn:K; [|discriminate].
    cbn [bind] in H.
    destruct (kill_over_limit C w1 cons1 t) as [[[w2 cons2] t']|e] eqn:R; [|discriminate].
    cbn [bind] in H. inversion H; subst.
    apply IH in R. cbn [map sumQ].
    assert (K' : (cons1 - c_mem c1 == cons - c_mem c)%Q).
    { destruct (Qltb (c_ram c) (c_mem c)).
      - eapply ckill_usage. exact K.
      - inversion K; subst. reflexivity. }
    lra.
Qed.

Lemma replace_dead_usage cid c : forall act,
  find_container cid act = Some c ->
  (SM (replace_container (dead c) act) == SM act - c_mem c)%Q.
Proof.
  intros act F. pose proof (find_container_some _ _ _ F) as [_ Hid]. subst cid.
  revert F. unfold find_container. induction act as [|h t IH]; intros F; [discriminate|].
  cbn [find] in F. cbn [replace_container]. cbn [c_id dead].
  destruct (Nat.eqb (c_id h) (c_id c)).
  - inversion F; subst h. cbn [map sumQ c_mem dead]. ring.
  - cbn [map sumQ]. rewrite (IH F). ring.
Qed.

Lemma kill_until_fits_usage max : forall order w cons act w' cons' act',
  kill_until_fits C max w cons act order = Ok (w', cons', act') ->
  (cons' - SM act' == cons - SM act)%Q.
Proof.
  induction order as [|cid t IH]; intros w cons act w' cons' act' H.
  - cbn in H. inversion H; subst. reflexivity.
  - cbn [kill_until_fits] in H. destruct (Qleb cons max).
    + inversion H; subst. reflexivity.
    + destruct (find_container cid act) as [c|] eqn:F; [|discriminate].
      destruct (ckill C w cons c) as [[[w1 cons1] c1]|e] eqn:K; [|discriminate].
      cbn [bind] in H. apply IH in H.
      pose proof (ckill_exact C _ _ _ _ _ _ Ex K) as [K1 _].
      apply ckill_ok in K. destruct K as (_ & -> & _ & _).
      rewrite (replace_dead_usage _ _ _ F) in H. lra.
Qed.

Lemma oom_killer_usage max w cons act w' cons' act' :
  oom_killer C max w cons act = Ok (w', cons', act') ->
  (cons' - SM act' == cons - SM act)%Q.
Proof.
  intros H. apply oom_killer_inv in H. destruct H as (w1 & cons1 & act1 & K1 & K2).
  apply kill_over_limit_usage in K1. apply kill_until_fits_usage in K2. lra.
Qed.

End Exact1.

(* ====================================================================== *)
(* 3. the phases of a pool tick, any rounding                             *)
(* ====================================================================== *)

Lemma tick_active_rel C : forall act w cons w' cons' act',
  tick_active C w cons act = Ok (w', cons', act') ->
  Forall2 (fun c c' => exists q q', ctick_rel C q c q' c') act act'.
Proof.
  induction act as [|c t IH]; intros w cons w' cons' act' H.
  - cbn in H. inversion H; subst. constructor.
  - cbn [tick_active] in H.
    destruct (ctick C w cons c) as [[[w1 cons1] c1]|e] eqn:K; [|discriminate].
    cbn [bind] in H.
    destruct (tick_active C w1 cons1 t) as [[[w2 cons2] t']|e] eqn:R; [|discriminate].
    cbn [bind] in H. inversion H; subst.
    constructor; [|eapply IH; exact R].
    exists cons, cons1. eapply ctick_rel_ok. exact K.
Qed.

Lemma Forall2_in_r {A B} (R : A -> B -> Prop) l l' :
  Forall2 R l l' -> forall y, In y l' -> exists x, In x l /\ R x y.
Proof.
  induction 1 as [|x y l l' Hxy HF IH]; intros z Hz; [destruct Hz|].
  destruct Hz as [->|Hz].
  - exists x. split; [left; reflexivity | exact Hxy].
  - destruct (IH z Hz) as (x' & Hx' & Hr). exists x'. split; [right; exact Hx' | exact Hr].
Qed.

Lemma Forall2_map_eq {A B X} (R : A -> B -> Prop) (f : A -> X) (g : B -> X) l l' :
  Forall2 R l l' -> (forall x y, R x y -> g y = f x) -> map g l' = map f l.
Proof.
  induction 1 as [|x y l l' Hxy HF IH]; intros H; [reflexivity|].
  cbn [map]. rewrite (H _ _ Hxy), (IH H). reflexivity.
Qed.

Lemma tick_active_ids C act w cons w' cons' act' :
  tick_active C w cons act = Ok (w', cons', act') -> map c_id act' = map c_id act.
Proof.
  intros H. apply tick_active_rel in H. eapply Forall2_map_eq; [exact H|].
  intros x y (q & q' & Hi & _). exact Hi.
Qed.

Lemma tick_active_rams C act w cons w' cons' act' :
  tick_active C w cons act = Ok (w', cons', act') -> map c_ram act' = map c_ram act.
Proof.
  intros H. apply tick_active_rel in H. eapply Forall2_map_eq; [exact H|].
  intros x y (q & q' & _ & Hr & _). exact Hr.
Qed.

(* suspensions only take containers out of the active list *)
Lemma remove_container_incl cid act : incl (remove_container cid act) act.
Proof. intros x Hx. unfold remove_container in Hx. apply filter_In in Hx. tauto. Qed.

Lemma remove_container_ram cid c act :
  NoDup (map c_id act) -> find_container cid act = Some c ->
  (SR (remove_container cid act) + c_ram c == SR act)%Q.
Proof.
  intros ND F. pose proof (find_container_some _ _ _ F) as [_ Hid]. subst cid.
  revert ND F. unfold find_container, remove_container.
  induction act as [|h t IH]; intros ND F; [discriminate|].
  cbn in ND. inversion ND as [|x l Hn Ht]; subst.
  cbn [find filter] in *. destruct (Nat.eqb (c_id h) (c_id c)) eqn:E.
  - injection F as Eh; subst h. cbn [negb].
    assert (Hf : filter (fun c0 => negb (Nat.eqb (c_id c0) (c_id c))) t = t).
    { clear - Hn. induction t as [|y t IH]; [reflexivity|].
      cbn [filter]. destruct (Nat.eqb (c_id y) (c_id c)) eqn:E.
      - exfalso. apply Hn. left. apply Nat.eqb_eq in E. exact E.
      - cbn [negb]. rewrite IH; [reflexivity|]. intros Hi. apply Hn. right. exact Hi. }
    rewrite Hf. cbn [map sumQ]. ring.
  - cbn [negb map sumQ]. rewrite <- (IH Ht F). ring.
Qed.

Lemma apply_suspends_spec C : forall ss w act sing w' act' sing',
  apply_suspends C w act sing ss = Ok (w', act', sing') ->
  incl act' act /\
  (NoDup (map c_id act) -> NoDup (map c_id act')) /\
  exists moved,
    sing' = sing ++ moved /\
    Forall (fun c' => exists c, In c act /\ c_ram c' = c_ram c) moved /\
    (NoDup (map c_id act) -> (SR act' + SR moved == SR act)%Q).
Proof.
  induction ss as [|s t IH]; intros w act sing w' act' sing' H.
  - cbn in H. inversion H; subst. split; [apply incl_refl|]. split; [auto|].
    exists []. rewrite app_nil_r. split; [reflexivity|]. split; [constructor|].
    intros _. cbn. ring.
  - cbn [apply_suspends] in H.
    destruct (find_container (su_cid s) act) as [c|] eqn:F; [|discriminate].
    destruct (csuspend C w c) as [[w1 c1]|e] eqn:K; [|discriminate].
    cbn [bind] in H. apply IH in H. destruct H as (Hincl & Hnd & moved & Hs & Hm & Hsum).
    assert (Hc1 : c_ram c1 = c_ram c).
    { unfold csuspend in K.
      destruct (transition_all (cf_static C) w (skipn (c_opidx c) (c_ops c)) Suspending); [|discriminate].
      cbn [bind] in K. inversion K; subst. reflexivity. }
    pose proof (find_container_some _ _ _ F) as [Hin Hid].
    split; [intros x Hx; eapply remove_container_incl; apply Hincl; exact Hx|].
    split.
    { intros ND. apply Hnd. unfold remove_container. apply NoDup_map_filter. exact ND. }
    exists (c1 :: moved). split; [rewrite Hs, <- app_assoc; reflexivity|].
    split.
    { constructor; [exists c; auto|]. rewrite Forall_forall in Hm |- *.
      intros x Hx. destruct (Hm x Hx) as (y & Hy & Ey). exists y. split; [|exact Ey].
      eapply remove_container_incl. exact Hy. }
    intros ND.
    assert (ND' : NoDup (map c_id (remove_container (su_cid s) act))).
    { unfold remove_container. apply NoDup_map_filter. exact ND. }
    specialize (Hsum ND'). cbn [map sumQ]. rewrite Hc1.
    pose proof (remove_container_ram _ _ _ ND F) as Hrem.
    lra.
Qed.

Lemma apply_assignments_spec C : forall asgs next acpu aram act next' acpu' aram' act',
  apply_assignments C next acpu aram act asgs = Ok (next', acpu', aram', act') ->
  next' = next + length asgs /\
  (aram' == aram - sumQ (map a_ram asgs))%Q /\
  exists news,
    act' = act ++ news /\
    map c_id news = seq next (length asgs) /\
    map c_ram news = map a_ram asgs /\
    Forall (fun c => c_mem c = 0%Q /\ c_rest c = None /\ c_completed c = false) news.
Proof.
  induction asgs as [|a t IH]; intros next acpu aram act next' acpu' aram' act' H.
  - cbn in H. inversion H; subst. split; [cbn; lia|]. split; [cbn; ring|].
    exists []. rewrite app_nil_r. repeat split; constructor.
  - cbn [apply_assignments] in H. destruct (opcount_ok C a); [|discriminate].
    apply IH in H. destruct H as (Hn & Ha & news & Hact & Hids & Hrams & Hnew).
    split; [cbn [length]; lia|]. split; [cbn [map sumQ]; rewrite Ha; ring|].
    exists (new_container next (a_ops a) (a_cpu a) (a_ram a) (a_prio a) :: news).
    split; [rewrite Hact, <- app_assoc; reflexivity|].
    split; [cbn [map length seq c_id new_container]; rewrite Hids; reflexivity|].
    split; [cbn [map c_ram new_container]; rewrite Hrams; reflexivity|].
    constructor; [cbn; auto | exact Hnew].
Qed.

(* the pool-level loop without any assumption on the ids: survivors are untouched *)
Lemma replace_container_in c' : forall l x, In x (replace_container c' l) -> x = c' \/ In x l.
Proof.
  induction l as [|h t IH]; intros x Hx; [destruct Hx|].
  cbn [replace_container] in Hx. destruct (Nat.eqb (c_id h) (c_id c')).
  - destruct Hx as [<-|Hx]; [left; reflexivity | right; right; exact Hx].
  - destruct Hx as [<-|Hx]; [right; left; reflexivity|].
    destruct (IH x Hx) as [E|Hi]; [left; exact E | right; right; exact Hi].
Qed.

Lemma kill_until_fits_alive C max : forall order w cons act w' cons' act',
  kill_until_fits C max w cons act order = Ok (w', cons', act') ->
  forall x, In x act' -> c_completed x = false -> In x act.
Proof.
  induction order as [|cid t IH]; intros w cons act w' cons' act' H x Hx Hc.
  - cbn in H. inversion H; subst. exact Hx.
  - cbn [kill_until_fits] in H. destruct (Qleb cons max).
    + inversion H; subst. exact Hx.
    + destruct (find_container cid act) as [c|] eqn:F; [|discriminate].
      destruct (ckill C w cons c) as [[[w1 cons1] c1]|e] eqn:K; [|discriminate].
      cbn [bind] in H. apply ckill_ok in K. destruct K as (_ & -> & _ & _).
      specialize (IH _ _ _ _ _ _ H x Hx Hc).
      apply replace_container_in in IH. destruct IH as [E|Hi]; [|exact Hi].
      subst x. discriminate Hc.
Qed.

(* whoever is still running after the killer was running before and is within its allocation *)
Lemma oom_killer_alive C max w cons act w' cons' act' :
  oom_killer C max w cons act = Ok (w', cons', act') ->
  forall x, In x act' -> c_completed x = false -> In x act /\ (c_mem x <= c_ram x)%Q.
Proof.
  intros H x Hx Hc. apply oom_killer_inv in H. destruct H as (w1 & cons1 & act1 & K1 & K2).
  pose proof (kill_until_fits_alive _ _ _ _ _ _ _ _ _ K2 x Hx Hc) as H1.
  apply kill_over_limit_spec in K1. destruct K1 as (-> & _ & _).
  destruct (in_map_kill_when_alive _ _ _ H1 Hc) as [Ha Ho]. split; [exact Ha|].
  apply Qltb_false. exact Ho.
Qed.

(* ---------- the pool tick, opened ---------- *)

Definition phase1 (C : cfg) (w : world) (p : pool) (ss : list susp)
  : res (world * list container * list container * Q) :=
  match ss with
  | [] => Ok (w, p_active p, p_suspending p, p_consumed p)
  | _ =>
      do _ <- verify_suspends (p_active p) ss;
      do r <- apply_suspends C w (p_active p) (p_suspending p) ss;
      let '(w', act, sing) := r in Ok (w', act, sing, reconcile C act)
  end.

Definition phase2 (C : cfg) (next : nat) (p : pool) (act1 : list container) (asgs : list asg)
  : res (nat * Z * Q * list container) :=
  match asgs with
  | [] => Ok (next, p_avail_cpu p, p_avail_ram p, act1)
  | _ =>
      do _ <- verify_assignments C p asgs;
      apply_assignments C next (p_avail_cpu p) (p_avail_ram p) act1 asgs
  end.

Definition add_ram (a : Q) (c : container) : Q := (a + c_ram c)%Q.

Inductive tick_view (C : cfg) (w : world) (next : nat) (p : pool) (ss : list susp) (asgs : list asg)
          (w' : world) (next' : nat) (p' : pool) (res : list result) : Prop :=
| TickView (w1 : world) (act1 sing1 : list container) (cons1 : Q)
    (acpu2 : Z) (aram2 : Q) (act2 : list container)
    (w3 : world) (sing3 : list container)
    (w4 : world) (cons4 : Q) (act4 : list container)
    (cons5 : Q) (act5 : list container)
    (tv_p1 : phase1 C w p ss = Ok (w1, act1, sing1, cons1))
    (tv_p2 : phase2 C next p act1 asgs = Ok (next', acpu2, aram2, act2))
    (tv_p3 : tick_suspending C w1 sing1 = Ok (w3, sing3))
    (tv_p4 : tick_active C w3 cons1 act2 = Ok (w4, cons4, act4))
    (tv_p5 : oom_killer C (p_max_ram p) w4 cons4 act4 = Ok (w', cons5, act5))
    (tv_active : p_active p' = filter (fun c => negb (c_completed c)) act5)
    (tv_consumed : p_consumed p' =
                   match filter c_completed act5 with
                   | [] => cons5
                   | _ => reconcile C (filter (fun c => negb (c_completed c)) act5)
                   end)
    (tv_max : p_max_ram p' = p_max_ram p)
    (tv_id : p_id p' = p_id p)
    (tv_suspending : p_suspending p' = filter (fun c => negb (is_suspended c)) sing3)
    (tv_avail : p_avail_ram p' =
                fold_left add_ram (filter c_completed act5)
                          (fold_left add_ram (filter is_suspended sing3) aram2))
    (tv_res : res = map (result_of (p_id p)) (filter c_completed act5)).

Lemma pool_tick_view C w next p ss asgs w' next' p' res :
  pool_tick C w next p ss asgs = Ok (w', next', p', res) ->
  tick_view C w next p ss asgs w' next' p' res.
Proof.
  intros H. unfold pool_tick in H.
  match type of H with bind ?r _ = _ =>
    destruct r as [[[[w1 act1] sing1] cons1]|e] eqn:E1; [|discriminate] end.
  cbn [bind] in H.
  match type of H with bind ?r _ = _ =>
    destruct r as [[[[next2 acpu2] aram2] act2]|e] eqn:E2; [|discriminate] end.
  cbn [bind] in H.
  destruct (tick_suspending C w1 sing1) as [[w3 sing3]|e] eqn:E3; [|discriminate].
  cbn [bind] in H.
  destruct (tick_active C w3 cons1 act2) as [[[w4 cons4] act4]|e] eqn:E4; [|discriminate].
  cbn [bind] in H.
  destruct (oom_killer C (p_max_ram p) w4 cons4 act4) as [[[w5 cons5] act5]|e] eqn:E5; [|discriminate].
  cbn [bind] in H.
  inversion H; subst.
  eapply (TickView C w next p ss asgs w' next' _ _ w1 act1 sing1 cons1 acpu2 aram2 act2 w3 sing3 w4 cons4 act4 cons5 act5);
    try reflexivity; assumption.
Qed.

Lemma phase1_spec C w p ss w1 act1 sing1 cons1 :
  phase1 C w p ss = Ok (w1, act1, sing1, cons1) ->
  incl act1 (p_active p) /\
  (NoDup (map c_id (p_active p)) -> NoDup (map c_id act1)) /\
  (cons1 = p_consumed p /\ act1 = p_active p \/ cons1 = reconcile C act1) /\
  exists moved,
    sing1 = p_suspending p ++ moved /\
    Forall (fun c' => exists c, In c (p_active p) /\ c_ram c' = c_ram c) moved /\
    (NoDup (map c_id (p_active p)) -> (SR act1 + SR moved == SR (p_active p))%Q).
Proof.
  unfold phase1. intros H. destruct ss as [|s t].
  - inversion H; subst. split; [apply incl_refl|]. split; [auto|]. split; [left; auto|].
    exists []. rewrite app_nil_r. split; [reflexivity|]. split; [constructor|].
    intros _. cbn. ring.
  - destruct (verify_suspends (p_active p) (s :: t)); [|discriminate]. cbn [bind] in H.
    destruct (apply_suspends C w (p_active p) (p_suspending p) (s :: t)) as [[[w2 act] sing]|e] eqn:A;
      [|discriminate].
    cbn [bind] in H. inversion H; subst.
    apply apply_suspends_spec in A. destruct A as (A1 & A2 & A3).
    split; [exact A1|]. split; [exact A2|]. split; [right; reflexivity | exact A3].
Qed.

Lemma phase2_spec C next p act1 asgs next2 acpu2 aram2 act2 :
  phase2 C next p act1 asgs = Ok (next2, acpu2, aram2, act2) ->
  next2 = next + length asgs /\
  (aram2 == p_avail_ram p - sumQ (map a_ram asgs))%Q /\
  (cf_overcommit C = false -> asgs <> [] -> (sumQ (map a_ram asgs) <= p_avail_ram p)%Q) /\
  exists news,
    act2 = act1 ++ news /\
    map c_id news = seq next (length asgs) /\
    map c_ram news = map a_ram asgs /\
    Forall (fun c => c_mem c = 0%Q /\ c_rest c = None /\ c_completed c = false) news.
Proof.
  unfold phase2. intros H. destruct asgs as [|a t].
  - inversion H; subst. split; [cbn; lia|]. split; [cbn; ring|].
    split; [intros _ Hn; congruence|].
    exists []. rewrite app_nil_r. repeat split; constructor.
  - destruct (verify_assignments C p (a :: t)) eqn:V; [|discriminate]. cbn [bind] in H.
    apply apply_assignments_spec in H. destruct H as (H1 & H2 & H3).
    split; [exact H1|]. split; [exact H2|]. split; [|exact H3].
    intros Ho _. unfold verify_assignments in V. rewrite Ho in V. cbn [negb andb] in V.
    destruct (p_avail_cpu p <? sumZ (map a_cpu (a :: t)))%Z; [discriminate|].
    destruct (Qltb (p_avail_ram p) (sumQ (map a_ram (a :: t)))) eqn:L; [discriminate|].
    apply Qltb_false in L. exact L.
Qed.

(* ====================================================================== *)
(* 4. C04, first part: within the allocation (any rounding)               *)
(* ====================================================================== *)

Theorem within_alloc C w next p ss asgs w' next' p' res :
  pool_tick C w next p ss asgs = Ok (w', next', p', res) ->
  forall c, In c (p_active p') -> (c_mem c <= c_ram c)%Q /\ c_completed c = false.
Proof.
  intros H c Hc. apply pool_tick_view in H. destruct H.
  rewrite tv_active in Hc. apply filter_In in Hc. destruct Hc as [Hin Hn].
  apply negb_true_iff in Hn. split; [|exact Hn].
  exact (proj2 (oom_killer_alive _ _ _ _ _ _ _ _ tv_p5 c Hin Hn)).
Qed.

(* ====================================================================== *)
(* 5. C04, second part: the reported usage is the sum (exact arithmetic)  *)
(* ====================================================================== *)

Definition usage_ok (p : pool) : Prop := (p_consumed p == sumQ (map c_mem (p_active p)))%Q.

Lemma usage_ok_new id cpu ram : usage_ok (new_pool id cpu ram).
Proof. unfold usage_ok. cbn. reflexivity. Qed.

Lemma news_mem_zero news :
  Forall (fun c => c_mem c = 0%Q /\ c_rest c = None /\ c_completed c = false) news ->
  (SM news == 0)%Q.
Proof.
  intros H. apply sumQ_zero. intros x Hx. apply in_map_iff in Hx. destruct Hx as (c & <- & Hc).
  rewrite Forall_forall in H. destruct (H c Hc) as (-> & _). reflexivity.
Qed.

Section Exact2.
Variable C : cfg.
Hypothesis Ex : forall x, (cf_rnd C x == x)%Q.

(* the tracked usage is the true sum at every point of the tick *)
Lemma usage_chain w next p ss asgs w' next'
      w1 act1 sing1 cons1 acpu2 aram2 act2 w3 w4 cons4 act4 cons5 act5 :
  usage_ok p ->
  phase1 C w p ss = Ok (w1, act1, sing1, cons1) ->
  phase2 C next p act1 asgs = Ok (next', acpu2, aram2, act2) ->
  tick_active C w3 cons1 act2 = Ok (w4, cons4, act4) ->
  oom_killer C (p_max_ram p) w4 cons4 act4 = Ok (w', cons5, act5) ->
  (cons1 == SM act2)%Q /\ (cons4 == SM act4)%Q /\ (cons5 == SM act5)%Q.
Proof.
  intros U P1 P2 P4 P5.
  apply phase1_spec in P1. destruct P1 as (_ & _ & Hc1 & _).
  assert (H1 : (cons1 == SM act1)%Q).
  { destruct Hc1 as [ [-> ->] | -> ]; [exact U | apply reconcile_exact; exact Ex]. }
  apply phase2_spec in P2. destruct P2 as (_ & _ & _ & news & -> & _ & _ & Hnew).
  assert (H2 : (cons1 == SM (act1 ++ news))%Q).
  { rewrite map_app, sumQ_app, (news_mem_zero _ Hnew). lra. }
  apply (tick_active_usage C Ex) in P4. apply (oom_killer_usage C Ex) in P5.
  split; [exact H2|]. split; lra.
Qed.

Theorem usage_inv w next p ss asgs w' next' p' res :
  pool_tick C w next p ss asgs = Ok (w', next', p', res) -> usage_ok p -> usage_ok p'.
Proof.
  intros H U. apply pool_tick_view in H. destruct H.
  destruct (usage_chain _ _ _ _ _ _ _ _ _ _ _ _ _ _ _ _ _ _ _ _ U tv_p1 tv_p2 tv_p4 tv_p5)
    as (_ & _ & H5).
  unfold usage_ok. rewrite tv_consumed, tv_active.
  destruct (filter c_completed act5) eqn:F.
  - rewrite (filter_nil_neg _ _ F). exact H5.
  - apply reconcile_exact. exact Ex.
Qed.

(* all pools, one executor tick *)
Lemma pools_tick_usage : forall ps w next ss asgs w' next' ps' res,
  pools_tick C w next ps ss asgs = Ok (w', next', ps', res) ->
  Forall usage_ok ps -> Forall usage_ok ps'.
Proof.
  induction ps as [|p t IH]; intros w next ss asgs w' next' ps' res H U.
  - cbn in H. inversion H; subst. constructor.
  - cbn [pools_tick] in H.
    match type of H with bind ?r _ = _ =>
      destruct r as [[[[w1 next1] p1] res1]|e] eqn:E1; [|discriminate] end.
    cbn [bind] in H.
    destruct (pools_tick C w1 next1 t ss asgs) as [[[[w2 next2] t'] res2]|e] eqn:E2; [|discriminate].
    cbn [bind] in H. inversion H; subst. inversion U as [|x l U1 U2]; subst.
    constructor; [eapply usage_inv; eauto | eapply IH; eauto].
Qed.

Lemma exec_tick_pools s ss asgs s' res :
  exec_tick C s ss asgs = Ok (s', res) ->
  exists w' next' res',
    pools_tick C (e_world s) (e_next s) (e_pools s) ss asgs = Ok (w', next', e_pools s', res') /\
    e_next s' = next' /\ e_world s' = w'.
Proof.
  unfold exec_tick. intros H.
  destruct (negb _); [discriminate|].
  destruct (pools_tick C (e_world s) (e_next s) (e_pools s) ss asgs) as [[[[w1 next1] ps] res1]|e] eqn:E;
    [|discriminate].
  cbn [bind] in H. inversion H; subst. exists w1, next1, res. cbn. auto.
Qed.

Lemma exec_step_pools s ss asgs s' res :
  exec_step C s ss asgs = Ok (s', res) ->
  exists w0 w' next' res',
    mk_assignments C (e_world s) asgs = Ok w0 /\
    pools_tick C w0 (e_next s) (e_pools s) ss asgs = Ok (w', next', e_pools s', res') /\
    e_next s' = next' /\ e_world s' = w' /\ res' = res.
Proof.
  unfold exec_step. intros H.
  destruct (mk_assignments C (e_world s) asgs) as [w0|e] eqn:M; [|discriminate].
  cbn [bind] in H. unfold exec_tick in H. cbn [e_world e_pools e_next] in H.
  destruct (negb _); [discriminate|].
  destruct (pools_tick C w0 (e_next s) (e_pools s) ss asgs) as [[[[w1 next1] ps] res1]|e] eqn:E;
    [|discriminate].
  cbn [bind] in H. inversion H; subst. exists w0, w1, next1, res. cbn. auto.
Qed.

Theorem exec_step_usage s ss asgs s' res :
  exec_step C s ss asgs = Ok (s', res) ->
  Forall usage_ok (e_pools s) -> Forall usage_ok (e_pools s').
Proof.
  intros H U. apply exec_step_pools in H.
  destruct H as (w0 & w1 & next1 & res1 & _ & H & _).
  eapply pools_tick_usage; eauto.
Qed.

End Exact2.

(* the states an executor can reach *)
Inductive reach_exec (C : cfg) (npools : nat) (cpu : Z) (ram : Q) : estate -> Prop :=
| reach_init : reach_exec C npools cpu ram (init_estate C npools cpu ram)
| reach_step s ss asgs s' res :
    reach_exec C npools cpu ram s -> exec_step C s ss asgs = Ok (s', res) ->
    reach_exec C npools cpu ram s'.

Lemma init_usage C npools cpu ram : Forall usage_ok (e_pools (init_estate C npools cpu ram)).
Proof.
  unfold init_estate. cbn [e_pools]. apply Forall_forall. intros p Hp.
  apply in_map_iff in Hp. destruct Hp as (i & <- & _). apply usage_ok_new.
Qed.

Theorem reach_usage C npools cpu ram s :
  (forall x, (cf_rnd C x == x)%Q) ->
  reach_exec C npools cpu ram s -> Forall usage_ok (e_pools s).
Proof.
  intros Ex R. induction R as [|s ss asgs s' res R IH H].
  - apply init_usage.
  - eapply exec_step_usage; eauto.
Qed.

(* ====================================================================== *)
(* 6. container ids: distinct, and below the executor's counter           *)
(* ====================================================================== *)

Definition ids_ok (next : nat) (p : pool) : Prop :=
  NoDup (map c_id (p_active p)) /\ forall c, In c (p_active p) -> c_id c < next.

Lemma NoDup_app_intro {A} (l1 l2 : list A) :
  NoDup l1 -> NoDup l2 -> (forall x, In x l1 -> ~ In x l2) -> NoDup (l1 ++ l2).
Proof.
  induction l1 as [|x t IH]; intros N1 N2 D; [exact N2|].
  inversion N1 as [|y l Hn Ht]; subst. cbn [app]. constructor.
  - intros Hi. apply in_app_or in Hi. destruct Hi as [Hi|Hi]; [contradiction|].
    exact (D x (or_introl eq_refl) Hi).
  - apply IH; auto. intros z Hz. apply D. right. exact Hz.
Qed.

Lemma oom_killer_ids C max w cons act w' cons' act' :
  NoDup (map c_id act) ->
  oom_killer C max w cons act = Ok (w', cons', act') -> map c_id act' = map c_id act.
Proof.
  intros ND H. apply oom_killer_inv in H. destruct H as (w1 & cons1 & act1 & K1 & K2).
  apply kill_over_limit_spec in K1. destruct K1 as (E1 & _ & _).
  assert (ND1 : NoDup (map c_id act1)) by (rewrite E1, map_kill_when_ids; exact ND).
  rewrite (kill_until_fits_ids _ _ _ _ _ _ _ _ _ ND1 K2), E1. apply map_kill_when_ids.
Qed.

Lemma oom_killer_rams C max w cons act w' cons' act' :
  NoDup (map c_id act) ->
  oom_killer C max w cons act = Ok (w', cons', act') -> map c_ram act' = map c_ram act.
Proof.
  intros ND H. apply (oom_killer_spec _ _ _ _ _ _ _ _ ND) in H.
  destruct H as (w1 & cons1 & act1 & k & vs & _ & E1 & _ & _ & E2 & _).
  rewrite E2, E1. rewrite !map_map. apply map_ext. intros c.
  unfold kill_if, kill_when.
  destruct (over_limit c); [|destruct (memb (c_id c) _); reflexivity].
  destruct (memb (c_id (dead c)) _); reflexivity.
Qed.

(* the ids of the containers that enter the killer *)
Lemma act4_ids C w next p ss asgs next' w1 act1 sing1 cons1 acpu2 aram2 act2 w3 w4 cons4 act4 :
  ids_ok next p ->
  phase1 C w p ss = Ok (w1, act1, sing1, cons1) ->
  phase2 C next p act1 asgs = Ok (next', acpu2, aram2, act2) ->
  tick_active C w3 cons1 act2 = Ok (w4, cons4, act4) ->
  next <= next' /\ NoDup (map c_id act4) /\ forall c, In c act4 -> c_id c < next'.
Proof.
  intros [ND LT] P1 P2 P4.
  apply phase1_spec in P1. destruct P1 as (Hincl & Hnd & _ & _).
  apply phase2_spec in P2. destruct P2 as (Hn & _ & _ & news & -> & Hids & _ & _).
  apply tick_active_ids in P4.
  assert (Hall : forall i, In i (map c_id (act1 ++ news)) -> i < next').
  { intros i Hi. rewrite map_app in Hi. apply in_app_or in Hi. destruct Hi as [Hi|Hi].
    - apply in_map_iff in Hi. destruct Hi as (c & <- & Hc). apply Hincl in Hc. apply LT in Hc. lia.
    - rewrite Hids in Hi. apply in_seq in Hi. lia. }
  split; [lia|]. split.
  - rewrite P4, map_app. apply NoDup_app_intro.
    + apply Hnd. exact ND.
    + rewrite Hids. apply seq_NoDup.
    + intros i Hi Hi2. rewrite Hids in Hi2. apply in_seq in Hi2.
      apply in_map_iff in Hi. destruct Hi as (c & <- & Hc). apply Hincl in Hc. apply LT in Hc. lia.
  - intros c Hc. apply Hall. rewrite <- P4. apply in_map. exact Hc.
Qed.

Theorem ids_ok_inv C w next p ss asgs w' next' p' res :
  pool_tick C w next p ss asgs = Ok (w', next', p', res) ->
  ids_ok next p -> next <= next' /\ ids_ok next' p'.
Proof.
  intros H I. apply pool_tick_view in H. destruct H.
  destruct (act4_ids _ _ _ _ _ _ _ _ _ _ _ _ _ _ _ _ _ _ I tv_p1 tv_p2 tv_p4) as (Hle & ND & LT).
  split; [exact Hle|]. unfold ids_ok. rewrite tv_active.
  pose proof (oom_killer_ids _ _ _ _ _ _ _ _ ND tv_p5) as E5.
  split.
  - apply NoDup_map_filter. rewrite E5. exact ND.
  - intros c Hc. apply filter_In in Hc. destruct Hc as [Hc _].
    assert (Hi : In (c_id c) (map c_id act4)) by (rewrite <- E5; apply in_map; exact Hc).
    apply in_map_iff in Hi. destruct Hi as (c4 & <- & Hc4). apply LT. exact Hc4.
Qed.

(* ====================================================================== *)
(* 7. C04, third part: within the capacity (exact arithmetic)             *)
(* ====================================================================== *)

Definition script_nonneg (C : cfg) : Prop :=
  forall op cpus m, In m (cf_script C op cpus) -> (0 <= m)%Q.

(* the current usage and every usage still to come of the operator in progress are non-negative *)
Definition cnn (c : container) : Prop :=
  (0 <= c_mem c)%Q /\ forall r, c_rest c = Some r -> forall m, In m r -> (0 <= m)%Q.

Lemma ctick_rel_cnn C q c q' c' :
  script_nonneg C -> ctick_rel C q c q' c' -> cnn c -> cnn c'.
Proof.
  intros SN (_ & _ & [H|H]) [N1 N2].
  - destruct H as (_ & Em & Er & _). unfold cnn. rewrite Em, Er. split; assumption.
  - destruct H as (_ & m & rest & Hsrc & Hrest & Hmem).
    assert (Hall : forall x, In x (m :: rest) -> (0 <= x)%Q).
    { destruct Hsrc as [E|[op E]].
      - apply N2. exact E.
      - intros x Hx. apply (SN op (c_cpu c)). rewrite E. exact Hx. }
    split.
    + destruct Hmem as [(-> & _)|(-> & _)]; [apply Hall; left; reflexivity | lra].
    + intros r Er x Hx. destruct Hrest as [E|[E|E]]; rewrite E in Er.
      * inversion Er; subst. apply Hall. exact Hx.
      * inversion Er; subst. apply Hall. right. exact Hx.
      * discriminate.
Qed.

Lemma new_cnn c : c_mem c = 0%Q /\ c_rest c = None /\ c_completed c = false -> cnn c.
Proof.
  intros (Hm & Hr & _). split; [rewrite Hm; lra|]. intros r E. rewrite Hr in E. discriminate.
Qed.

Lemma act4_cnn C w next p ss asgs next' w1 act1 sing1 cons1 acpu2 aram2 act2 w3 w4 cons4 act4 :
  script_nonneg C ->
  Forall cnn (p_active p) ->
  phase1 C w p ss = Ok (w1, act1, sing1, cons1) ->
  phase2 C next p act1 asgs = Ok (next', acpu2, aram2, act2) ->
  tick_active C w3 cons1 act2 = Ok (w4, cons4, act4) ->
  Forall cnn act4.
Proof.
  intros SN N P1 P2 P4.
  apply phase1_spec in P1. destruct P1 as (Hincl & _ & _ & _).
  apply phase2_spec in P2. destruct P2 as (_ & _ & _ & news & -> & _ & _ & Hnew).
  apply tick_active_rel in P4. rewrite Forall_forall in N, Hnew |- *.
  intros c' Hc'. destruct (Forall2_in_r _ _ _ P4 c' Hc') as (c & Hc & q & q' & R).
  apply (ctick_rel_cnn _ _ _ _ _ SN R).
  apply in_app_or in Hc. destruct Hc as [Hc|Hc].
  - apply N. apply Hincl. exact Hc.
  - apply new_cnn. apply Hnew. exact Hc.
Qed.

Theorem within_capacity C w next p ss asgs w' next' p' res :
  (forall x, (cf_rnd C x == x)%Q) ->
  script_nonneg C ->
  pool_tick C w next p ss asgs = Ok (w', next', p', res) ->
  (0 <= p_max_ram p)%Q ->
  usage_ok p -> ids_ok next p -> Forall cnn (p_active p) ->
  (p_consumed p' <= p_max_ram p')%Q /\ Forall cnn (p_active p').
Proof.
  intros Ex SN H Hmax U I N.
  pose proof (usage_inv C Ex _ _ _ _ _ _ _ _ _ H U) as U'.
  apply pool_tick_view in H. destruct H.
  destruct (usage_chain C Ex _ _ _ _ _ _ _ _ _ _ _ _ _ _ _ _ _ _ _ _ U tv_p1 tv_p2 tv_p4 tv_p5)
    as (_ & _ & H5).
  destruct (act4_ids _ _ _ _ _ _ _ _ _ _ _ _ _ _ _ _ _ _ I tv_p1 tv_p2 tv_p4) as (_ & ND & _).
  pose proof (act4_cnn _ _ _ _ _ _ _ _ _ _ _ _ _ _ _ _ _ _ SN N tv_p1 tv_p2 tv_p4) as N4.
  rewrite Forall_forall in N4.
  assert (N6 : Forall cnn (p_active p')).
  { rewrite tv_active. apply Forall_forall. intros c Hc. apply filter_In in Hc.
    destruct Hc as [Hc Hn]. apply negb_true_iff in Hn.
    apply N4. exact (proj1 (oom_killer_alive _ _ _ _ _ _ _ _ tv_p5 c Hc Hn)). }
  split; [|exact N6].
  unfold usage_ok in U'. rewrite U', tv_max, tv_active.
  set (act6 := filter (fun c => negb (c_completed c)) act5).
  destruct (oom_killer_spec _ _ _ _ _ _ _ _ ND tv_p5)
    as (wk & consk & actk & k & vs & _ & Ek & _ & _ & E5 & _ & _ & _ & _ & _ & Hstop).
  assert (N5 : forall c, In c act5 -> (0 <= c_mem c)%Q).
  { intros c Hc. rewrite E5, Ek, map_map in Hc. apply in_map_iff in Hc.
    destruct Hc as (c4 & <- & Hc4). unfold kill_if, kill_when.
    destruct (over_limit c4).
    - destruct (memb _ _); cbn; lra.
    - destruct (memb _ _); [cbn; lra | apply N4; exact Hc4]. }
  destruct Hstop as [Hk|Hfit].
  - (* every candidate was killed: whoever is left uses nothing *)
    assert (Z6 : (SM act6 == 0)%Q).
    { apply sumQ_zero. intros x Hx. apply in_map_iff in Hx. destruct Hx as (c & <- & Hc).
      unfold act6 in Hc. apply filter_In in Hc. destruct Hc as [Hc Hn]. apply negb_true_iff in Hn.
      pose proof (N5 c Hc) as Hge.
      rewrite E5, Hk, firstn_all in Hc. unfold kill_if in Hc.
      destruct (in_map_kill_when_alive _ _ _ Hc Hn) as [Hck Hm].
      apply memb_false in Hm.
      destruct (scorable c) eqn:Sc.
      - exfalso. apply Hm. apply victims_order_scorable. exists c. auto.
      - unfold scorable in Sc. rewrite Hn in Sc. cbn [negb andb] in Sc.
        apply Qltb_false in Sc. lra. }
    rewrite Z6. exact Hmax.
  - apply Qle_bool_iff in Hfit.
    pose proof (sumQ_map_filter_split c_mem c_completed act5) as Hsplit.
    assert (Hfin : (0 <= SM (filter c_completed act5))%Q).
    { apply sumQ_nonneg. intros x Hx. apply in_map_iff in Hx. destruct Hx as (c & <- & Hc).
      apply filter_In in Hc. apply N5. tauto. }
    fold act6 in Hsplit. lra.
Qed.

(* ====================================================================== *)
(* 8. C04, fourth part: every OOM kill is justified (exact arithmetic)    *)
(* ====================================================================== *)

Definition all_running (p : pool) : Prop := forall c, In c (p_active p) -> c_completed c = false.

Lemma all_running_new id cpu ram : all_running (new_pool id cpu ram).
Proof. intros c Hc. destruct Hc. Qed.

Lemma all_running_inv C w next p ss asgs w' next' p' res :
  pool_tick C w next p ss asgs = Ok (w', next', p', res) -> all_running p'.
Proof. intros H c Hc. exact (proj2 (within_alloc _ _ _ _ _ _ _ _ _ _ H c Hc)). Qed.

(* a container that finishes by itself in the tick carries no error *)
Lemma act4_no_failed C w next p ss asgs next' w1 act1 sing1 cons1 acpu2 aram2 act2 w3 w4 cons4 act4 :
  all_running p ->
  phase1 C w p ss = Ok (w1, act1, sing1, cons1) ->
  phase2 C next p act1 asgs = Ok (next', acpu2, aram2, act2) ->
  tick_active C w3 cons1 act2 = Ok (w4, cons4, act4) ->
  forall c, In c act4 -> c_completed c = true -> c_error c = false.
Proof.
  intros A P1 P2 P4 c' Hc' Hcomp.
  apply phase1_spec in P1. destruct P1 as (Hincl & _ & _ & _).
  apply phase2_spec in P2. destruct P2 as (_ & _ & _ & news & -> & _ & _ & Hnew).
  apply tick_active_rel in P4. rewrite Forall_forall in Hnew.
  destruct (Forall2_in_r _ _ _ P4 c' Hc') as (c & Hc & q & q' & R).
  assert (Hc0 : c_completed c = false).
  { apply in_app_or in Hc. destruct Hc as [Hc|Hc]; [apply A, Hincl, Hc | apply Hnew, Hc]. }
  destruct R as (_ & _ & [R|R]).
  - destruct R as (_ & _ & _ & E & _). congruence.
  - destruct R as (_ & m & rest & _ & _ & [R|R]).
    + destruct R as (_ & _ & E & _). congruence.
    + destruct R as (_ & _ & _ & E). exact E.
Qed.

Lemma dead_dead c : dead (dead c) = dead c.
Proof. reflexivity. Qed.

Theorem kill_justified C w next p ss asgs w' next' p' res :
  (forall x, (cf_rnd C x == x)%Q) ->
  pool_tick C w next p ss asgs = Ok (w', next', p', res) ->
  ids_ok next p -> all_running p ->
  exists act2 w3 cons3 w4 cons4 act4 w1 cons1 act1 cons5 act5 vs,
    (* [act4]: the containers after they were ticked (phase 4), as they enter the killer; step 1 of
       the killer turns them into [act1] and leaves the tracked usage [cons1]; [vs]: the victims of
       the pool-level loop in kill order; [act5]: the containers after the killer *)
    tick_active C w3 cons3 act2 = Ok (w4, cons4, act4) /\
    oom_killer C (p_max_ram p) w4 cons4 act4 = Ok (w', cons5, act5) /\
    res = map (result_of (p_id p)) (filter c_completed act5) /\
    kill_over_limit C w4 cons4 act4 = Ok (w1, cons1, act1) /\
    act1 = map (kill_when over_limit) act4 /\
    (usage_ok p -> (cons4 == sumQ (map c_mem act4))%Q /\ (cons1 == sumQ (map c_mem act1))%Q) /\
    (* the pool-level loop runs only if the usage after step 1 exceeds the pool *)
    (vs <> [] -> (p_max_ram p < cons1)%Q) /\
    Forall (fun v => In v act4 /\ c_completed v = false /\
                     (c_mem v <= c_ram v)%Q /\ (0 < c_mem v)%Q) vs /\
    forall r, In r res -> r_err r = true ->
      exists c, In c act4 /\ c_completed c = false /\ r = result_of (p_id p) (dead c) /\
        ((c_ram c < c_mem c)%Q
         \/
         exists j, nth_error vs j = Some c /\
                   (p_max_ram p < cons1 - sumQ (map c_mem (firstn j vs)))%Q).
Proof.
  intros Ex H I A. apply pool_tick_view in H. destruct H.
  destruct (act4_ids _ _ _ _ _ _ _ _ _ _ _ _ _ _ _ _ _ _ I tv_p1 tv_p2 tv_p4) as (_ & ND & _).
  pose proof (act4_no_failed _ _ _ _ _ _ _ _ _ _ _ _ _ _ _ _ _ _ A tv_p1 tv_p2 tv_p4) as NF.
  destruct (oom_killer_spec _ _ _ _ _ _ _ _ ND tv_p5)
    as (wk & consk & actk & k & vs & K1 & Ek & _ & Hids & E5 & _ & Hvs & _ & _ & Htr & _).
  pose proof (kill_over_limit_spec _ _ _ _ _ _ _ K1) as (_ & Hover & _).
  rewrite Forall_forall in Hover, Hvs.
  assert (NDk : NoDup (map c_id actk)) by (rewrite Ek, map_kill_when_ids; exact ND).
  assert (Hvs4 : forall v, In v vs ->
            In v act4 /\ c_completed v = false /\ (c_mem v <= c_ram v)%Q /\ (0 < c_mem v)%Q).
  { intros v Hv. destruct (Hvs v Hv) as [Hin Sc]. apply scorable_spec in Sc. destruct Sc as [Sc1 Sc2].
    rewrite Ek in Hin. destruct (in_map_kill_when_alive _ _ _ Hin Sc1) as [H4 Ho].
    apply Qltb_false in Ho. auto. }
  exists act2, w3, cons1, w4, cons4, act4, wk, consk, actk, cons5, act5, vs.
  split; [exact tv_p4|]. split; [exact tv_p5|]. split; [exact tv_res|].
  split; [exact K1|]. split; [exact Ek|].
  split.
  { intros U.
    destruct (usage_chain C Ex _ _ _ _ _ _ _ _ _ _ _ _ _ _ _ _ _ _ _ _ U tv_p1 tv_p2 tv_p4 tv_p5)
      as (_ & H4 & _).
    split; [exact H4|]. apply (kill_over_limit_usage C Ex) in K1. lra. }
  split.
  { intros Hne. destruct vs as [|v0 vs0]; [congruence|].
    pose proof (kill_trace_exact C Ex _ _ _ Htr 0) as T. cbn in T.
    assert (L : 0 < S (length vs0)) by lia. specialize (T L). lra. }
  split; [apply Forall_forall; exact Hvs4|].
  intros r Hr Herr. rewrite tv_res in Hr. apply in_map_iff in Hr. destruct Hr as (c5 & <- & Hc5).
  apply filter_In in Hc5. destruct Hc5 as [Hc5 Hcomp5]. cbn [r_err result_of] in Herr.
  rewrite E5 in Hc5. apply in_map_iff in Hc5. destruct Hc5 as (ck & E & Hck).
  pose proof Hck as Hck'. rewrite Ek in Hck'. apply in_map_iff in Hck'.
  destruct Hck' as (c4 & E4 & Hc4). subst ck.
  destruct (over_limit c4) eqn:O.
  - (* over its own limit *)
    exists c4. split; [exact Hc4|]. split; [apply Hover; assumption|].
    split.
    + rewrite <- E. rewrite (proj1 (kill_when_hit over_limit c4 O)).
      unfold kill_if, kill_when. destruct (memb _ _); reflexivity.
    + left. apply over_limit_spec. exact O.
  - rewrite (kill_when_other over_limit c4 O) in E.
    destruct (memb (c_id c4) (firstn k (victims_order C actk))) eqn:M.
    + (* a victim of the pool-level loop *)
      apply memb_In in M. rewrite (kill_if_hit _ _ M) in E.
      rewrite <- Hids in M. apply in_map_iff in M. destruct M as (v & Ev & Hv).
      assert (Hc4k : In c4 actk).
      { rewrite Ek. rewrite <- (kill_when_other over_limit c4 O). apply in_map. exact Hc4. }
      assert (Evc : v = c4).
      { apply (NoDup_ids_inj actk); auto. apply Hvs. exact Hv. }
      subst v. destruct (Hvs4 c4 Hv) as (_ & Hc0 & _).
      exists c4. split; [exact Hc4|]. split; [exact Hc0|]. split; [rewrite <- E; reflexivity|].
      right. destruct (In_nth_error _ _ Hv) as [j Hj]. exists j. split; [exact Hj|].
      apply (kill_trace_exact C Ex _ _ _ Htr). apply nth_error_Some. congruence.
    + (* untouched by the killer: it cannot carry an error *)
      exfalso. apply memb_false in M. rewrite (kill_if_miss _ _ M) in E. subst c5.
      rewrite (NF c4 Hc4 Hcomp5) in Herr. discriminate.
Qed.

(* ====================================================================== *)
(* 9. C04, fifth part: without overcommit only the own limit kills        *)
(* ====================================================================== *)

(* at the level of the killer: if the allocations fit the pool, the pool-level loop does nothing *)
Lemma oom_no_pool_kill C max w cons act w' cons' act' :
  (forall x, (cf_rnd C x == x)%Q) ->
  (cons == sumQ (map c_mem act))%Q ->
  (forall c, In c act -> (0 <= c_ram c)%Q) ->
  (sumQ (map c_ram act) <= max)%Q ->
  oom_killer C max w cons act = Ok (w', cons', act') ->
  kill_over_limit C w cons act = Ok (w', cons', act') /\
  act' = map (kill_when over_limit) act /\
  (cons' <= sumQ (map c_ram act))%Q.
Proof.
  intros Ex U R0 Rmax H. unfold oom_killer in H.
  destruct (kill_over_limit C w cons act) as [[[w1 cons1] act1]|e] eqn:K; [|discriminate].
  cbn [bind] in H.
  pose proof (kill_over_limit_usage C Ex _ _ _ _ _ _ K) as Hu.
  pose proof (kill_over_limit_spec _ _ _ _ _ _ _ K) as (E1 & _ & _).
  assert (Hle : (SM act1 <= SR act)%Q).
  { rewrite E1, map_map. apply sumQ_map_le. intros c Hc. unfold kill_when.
    destruct (over_limit c) eqn:O; [cbn; apply R0; exact Hc | apply Qltb_false; exact O]. }
  assert (Hfit : Qleb cons1 max = true) by (apply Qle_bool_iff; lra).
  rewrite Hfit in H. injection H as <- <- <-.
  split; [reflexivity|]. split; [exact E1|]. lra.
Qed.

(* RAM bookkeeping of a pool: what is free plus what is allocated is the pool *)
Definition ram_cons (p : pool) : Prop :=
  (p_avail_ram p + sumQ (map c_ram (p_active p ++ p_suspending p)) == p_max_ram p)%Q.
Definition ram_ok (p : pool) : Prop :=
  ram_cons p /\ (0 <= p_avail_ram p)%Q /\
  forall x, In x (map c_ram (p_active p ++ p_suspending p)) -> (0 <= x)%Q.

Lemma ram_ok_new id cpu ram : ram_ok (new_pool id cpu ram) <-> (0 <= ram)%Q.
Proof.
  unfold ram_ok, ram_cons. cbn. split; [tauto|]. intros H.
  split; [ring|]. split; [exact H|]. intros x [].
Qed.

Lemma tick_suspending_rams C : forall sing w w' sing',
  tick_suspending C w sing = Ok (w', sing') -> map c_ram sing' = map c_ram sing.
Proof.
  induction sing as [|c t IH]; intros w w' sing' H.
  - cbn in H. inversion H; subst. reflexivity.
  - cbn [tick_suspending] in H.
    destruct (csuspend_tick C w c) as [[w1 c1]|e] eqn:K; [|discriminate]. cbn [bind] in H.
    destruct (tick_suspending C w1 t) as [[w2 t']|e] eqn:R; [|discriminate]. cbn [bind] in H.
    inversion H; subst. cbn [map]. rewrite (IH _ _ _ R). f_equal.
    unfold csuspend_tick in K. destruct (c_susp_left c - 1 =? 0)%Z.
    + destruct (transition_all _ _ _ _); [|discriminate]. cbn [bind] in K.
      inversion K; subst. reflexivity.
    + inversion K; subst. reflexivity.
Qed.

Lemma fold_add_ram l a : (fold_left add_ram l a == a + SR l)%Q.
Proof. unfold add_ram. apply fold_left_add_ram. Qed.

(* the RAM facts at the entry of the killer and at the end of the tick *)
Lemma ram_chain C w next p ss asgs w' next' p' res :
  pool_tick C w next p ss asgs = Ok (w', next', p', res) ->
  ids_ok next p -> ram_cons p ->
  ram_cons p' /\
  forall w1 act1 sing1 cons1 acpu2 aram2 act2 w3 w4 cons4 act4,
    phase1 C w p ss = Ok (w1, act1, sing1, cons1) ->
    phase2 C next p act1 asgs = Ok (next', acpu2, aram2, act2) ->
    tick_active C w3 cons1 act2 = Ok (w4, cons4, act4) ->
    (aram2 + SR act4 + SR sing1 == p_max_ram p)%Q.
Proof.
  intros H I RC.
  assert (Hentry : forall w1 act1 sing1 cons1 acpu2 aram2 act2 w3 w4 cons4 act4,
    phase1 C w p ss = Ok (w1, act1, sing1, cons1) ->
    phase2 C next p act1 asgs = Ok (next', acpu2, aram2, act2) ->
    tick_active C w3 cons1 act2 = Ok (w4, cons4, act4) ->
    (aram2 + SR act4 + SR sing1 == p_max_ram p)%Q).
  { intros w1 act1 sing1 cons1 acpu2 aram2 act2 w3 w4 cons4 act4 P1 P2 P4.
    apply phase1_spec in P1. destruct P1 as (_ & _ & _ & moved & -> & _ & Hsum).
    specialize (Hsum (proj1 I)).
    apply phase2_spec in P2. destruct P2 as (_ & Ha & _ & news & -> & _ & Hrams & _).
    apply tick_active_rams in P4. rewrite P4.
    unfold ram_cons in RC. rewrite !map_app, !sumQ_app in *. rewrite Hrams. lra. }
  split; [|exact Hentry].
  apply pool_tick_view in H. destruct H.
  destruct (act4_ids _ _ _ _ _ _ _ _ _ _ _ _ _ _ _ _ _ _ I tv_p1 tv_p2 tv_p4) as (_ & ND & _).
  pose proof (Hentry _ _ _ _ _ _ _ _ _ _ _ tv_p1 tv_p2 tv_p4) as He.
  pose proof (oom_killer_rams _ _ _ _ _ _ _ _ ND tv_p5) as E5.
  pose proof (tick_suspending_rams _ _ _ _ _ tv_p3) as E3.
  unfold ram_cons. rewrite tv_avail, tv_active, tv_suspending, tv_max.
  rewrite !fold_add_ram, map_app, sumQ_app.
  pose proof (sumQ_map_filter_split c_ram c_completed act5) as S5.
  pose proof (sumQ_map_filter_split c_ram is_suspended sing3) as S3.
  rewrite E5 in S5 at 1. rewrite E3 in S3 at 1. lra.
Qed.

Lemma act4_ram_bound C w next p ss asgs next' w1 act1 sing1 cons1 acpu2 aram2 act2 w3 w4 cons4 act4 :
  cf_overcommit C = false ->
  ram_ok p ->
  (forall a, In a asgs -> (0 <= a_ram a)%Q) ->
  phase1 C w p ss = Ok (w1, act1, sing1, cons1) ->
  phase2 C next p act1 asgs = Ok (next', acpu2, aram2, act2) ->
  tick_active C w3 cons1 act2 = Ok (w4, cons4, act4) ->
  (0 <= aram2)%Q /\
  (forall x, In x (map c_ram act4) -> (0 <= x)%Q) /\
  (forall x, In x (map c_ram sing1) -> (0 <= x)%Q).
Proof.
  intros Ho (_ & Hav & Hnn) Hasg P1 P2 P4.
  apply phase1_spec in P1. destruct P1 as (Hincl & _ & _ & moved & -> & Hmoved & _).
  apply phase2_spec in P2. destruct P2 as (_ & Ha & Hfit & news & -> & _ & Hrams & _).
  apply tick_active_rams in P4. rewrite P4.
  split.
  { destruct asgs as [|a t]; [cbn in Ha; lra|].
    assert (Hne : a :: t <> []) by congruence. specialize (Hfit Ho Hne). lra. }
  split.
  - intros x Hx. rewrite map_app in Hx. apply in_app_or in Hx. destruct Hx as [Hx|Hx].
    + apply Hnn. rewrite map_app. apply in_or_app. left.
      apply in_map_iff in Hx. destruct Hx as (c & <- & Hc). apply in_map. apply Hincl. exact Hc.
    + rewrite Hrams in Hx. apply in_map_iff in Hx. destruct Hx as (a & <- & Ha'). apply Hasg. exact Ha'.
  - intros x Hx. rewrite map_app in Hx. apply in_app_or in Hx. destruct Hx as [Hx|Hx].
    + apply Hnn. rewrite map_app. apply in_or_app. right. exact Hx.
    + apply in_map_iff in Hx. destruct Hx as (c' & <- & Hc'). rewrite Forall_forall in Hmoved.
      destruct (Hmoved c' Hc') as (c & Hc & ->). apply Hnn. rewrite map_app. apply in_or_app. left.
      apply in_map. exact Hc.
Qed.

(* the bookkeeping survives a tick *)
Theorem ram_ok_inv C w next p ss asgs w' next' p' res :
  cf_overcommit C = false ->
  pool_tick C w next p ss asgs = Ok (w', next', p', res) ->
  ids_ok next p -> ram_ok p -> (forall a, In a asgs -> (0 <= a_ram a)%Q) ->
  ram_ok p'.
Proof.
  intros Ho H I R Hasg.
  destruct (ram_chain _ _ _ _ _ _ _ _ _ _ H I (proj1 R)) as [RC' _].
  split; [exact RC'|].
  apply pool_tick_view in H. destruct H.
  destruct (act4_ids _ _ _ _ _ _ _ _ _ _ _ _ _ _ _ _ _ _ I tv_p1 tv_p2 tv_p4) as (_ & ND & _).
  destruct (act4_ram_bound _ _ _ _ _ _ _ _ _ _ _ _ _ _ _ _ _ _ Ho R Hasg tv_p1 tv_p2 tv_p4)
    as (Ha2 & Hn4 & Hn1).
  pose proof (oom_killer_rams _ _ _ _ _ _ _ _ ND tv_p5) as E5.
  pose proof (tick_suspending_rams _ _ _ _ _ tv_p3) as E3.
  assert (Hn5 : forall c, In c act5 -> (0 <= c_ram c)%Q).
  { intros c Hc. apply Hn4. rewrite <- E5. apply in_map. exact Hc. }
  assert (Hn3 : forall c, In c sing3 -> (0 <= c_ram c)%Q).
  { intros c Hc. apply Hn1. rewrite <- E3. apply in_map. exact Hc. }
  split.
  - rewrite tv_avail, !fold_add_ram.
    assert (H1 : (0 <= SR (filter is_suspended sing3))%Q).
    { apply sumQ_nonneg. intros x Hx. apply in_map_iff in Hx. destruct Hx as (c & <- & Hc).
      apply filter_In in Hc. apply Hn3. tauto. }
    assert (H2 : (0 <= SR (filter c_completed act5))%Q).
    { apply sumQ_nonneg. intros x Hx. apply in_map_iff in Hx. destruct Hx as (c & <- & Hc).
      apply filter_In in Hc. apply Hn5. tauto. }
    lra.
  - intros x Hx. rewrite tv_active, tv_suspending, map_app in Hx.
    apply in_app_or in Hx. destruct Hx as [Hx|Hx]; apply in_map_iff in Hx;
      destruct Hx as (c & <- & Hc); apply filter_In in Hc; [apply Hn5 | apply Hn3]; tauto.
Qed.

Theorem no_kill_without_overcommit C w next p ss asgs w' next' p' res :
  (forall x, (cf_rnd C x == x)%Q) ->
  cf_overcommit C = false ->
  pool_tick C w next p ss asgs = Ok (w', next', p', res) ->
  usage_ok p -> ids_ok next p -> all_running p -> ram_ok p ->
  (forall a, In a asgs -> (0 <= a_ram a)%Q) ->
  exists act2 w3 cons3 w4 cons4 act4 cons5 act5,
    (* [act4]: the containers after they were ticked (phase 4); [act5]: after the killer *)
    tick_active C w3 cons3 act2 = Ok (w4, cons4, act4) /\
    oom_killer C (p_max_ram p) w4 cons4 act4 = Ok (w', cons5, act5) /\
    res = map (result_of (p_id p)) (filter c_completed act5) /\
    (* the killer amounts to its step 1 *)
    kill_over_limit C w4 cons4 act4 = Ok (w', cons5, act5) /\
    act5 = map (kill_when over_limit) act4 /\
    (cons5 <= sumQ (map c_ram act4))%Q /\ (sumQ (map c_ram act4) <= p_max_ram p)%Q /\
    p_active p' = filter (fun c => negb (c_completed c)) act5 /\
    (* every failure is a container over its own allocation *)
    (forall r, In r res -> r_err r = true ->
       exists c, In c act4 /\ c_completed c = false /\ r = result_of (p_id p) (dead c) /\
                 (c_ram c < c_mem c)%Q) /\
    (* a container within its allocation keeps running *)
    (forall c, In c act4 -> c_completed c = false -> (c_mem c <= c_ram c)%Q -> In c (p_active p')).
Proof.
  intros Ex Ho H U I A R Hasg.
  destruct (ram_chain _ _ _ _ _ _ _ _ _ _ H I (proj1 R)) as [_ Hentry].
  apply pool_tick_view in H. destruct H.
  specialize (Hentry _ _ _ _ _ _ _ _ _ _ _ tv_p1 tv_p2 tv_p4).
  destruct (act4_ram_bound _ _ _ _ _ _ _ _ _ _ _ _ _ _ _ _ _ _ Ho R Hasg tv_p1 tv_p2 tv_p4)
    as (Ha2 & Hn4 & Hn1).
  destruct (usage_chain C Ex _ _ _ _ _ _ _ _ _ _ _ _ _ _ _ _ _ _ _ _ U tv_p1 tv_p2 tv_p4 tv_p5)
    as (_ & H4 & _).
  pose proof (act4_no_failed _ _ _ _ _ _ _ _ _ _ _ _ _ _ _ _ _ _ A tv_p1 tv_p2 tv_p4) as NF.
  assert (Hs1 : (0 <= SR sing1)%Q) by (apply sumQ_nonneg; exact Hn1).
  assert (Hmax : (SR act4 <= p_max_ram p)%Q) by lra.
  assert (Hn4' : forall c, In c act4 -> (0 <= c_ram c)%Q).
  { intros c Hc. apply Hn4. apply in_map. exact Hc. }
  destruct (oom_no_pool_kill _ _ _ _ _ _ _ _ Ex H4 Hn4' Hmax tv_p5) as (K & E5 & Hc5).
  pose proof (kill_over_limit_spec _ _ _ _ _ _ _ K) as (_ & Hover & _).
  rewrite Forall_forall in Hover.
  exists act2, w3, cons1, w4, cons4, act4, cons5, act5.
  split; [exact tv_p4|]. split; [exact tv_p5|]. split; [exact tv_res|].
  split; [exact K|]. split; [exact E5|]. split; [exact Hc5|]. split; [exact Hmax|].
  split; [exact tv_active|]. split.
  - intros r Hr Herr. rewrite tv_res in Hr. apply in_map_iff in Hr. destruct Hr as (c5 & <- & Hc5').
    apply filter_In in Hc5'. destruct Hc5' as [Hin5 Hcomp5]. cbn [r_err result_of] in Herr.
    rewrite E5 in Hin5. apply in_map_iff in Hin5. destruct Hin5 as (c4 & E & Hc4).
    destruct (over_limit c4) eqn:O.
    + exists c4. split; [exact Hc4|]. split; [apply Hover; assumption|].
      split; [rewrite <- E, (proj1 (kill_when_hit over_limit c4 O)); reflexivity|].
      apply over_limit_spec. exact O.
    + exfalso. rewrite (kill_when_other over_limit c4 O) in E. subst c5.
      rewrite (NF c4 Hc4 Hcomp5) in Herr. discriminate.
  - intros c Hc Hc0 Hle. rewrite tv_active. apply filter_In. split; [|rewrite Hc0; reflexivity].
    rewrite E5. apply Qltb_false in Hle. rewrite <- (kill_when_other over_limit c Hle).
    apply in_map. exact Hc.
Qed.

(* ====================================================================== *)
(* 10. every reachable executor state satisfies the hypotheses used above *)
(* ====================================================================== *)

Definition pool_inv (C : cfg) (next : nat) (p : pool) : Prop :=
  usage_ok p /\ ids_ok next p /\ all_running p /\ Forall cnn (p_active p) /\
  (0 <= p_max_ram p)%Q /\ (p_consumed p <= p_max_ram p)%Q /\
  (forall c, In c (p_active p) -> (c_mem c <= c_ram c)%Q) /\
  (cf_overcommit C = false -> ram_ok p).

Lemma ids_ok_mono n n' p : n <= n' -> ids_ok n p -> ids_ok n' p.
Proof. intros L [ND LT]. split; [exact ND|]. intros c Hc. apply LT in Hc. lia. Qed.

Lemma pool_inv_mono C n n' p : n <= n' -> pool_inv C n p -> pool_inv C n' p.
Proof.
  intros L (H1 & H2 & H3). split; [exact H1|]. split; [|exact H3].
  eapply ids_ok_mono; eauto.
Qed.

Theorem pool_inv_step C w next p ss asgs w' next' p' res :
  (forall x, (cf_rnd C x == x)%Q) -> script_nonneg C ->
  (forall a, In a asgs -> (0 <= a_ram a)%Q) ->
  pool_tick C w next p ss asgs = Ok (w', next', p', res) ->
  pool_inv C next p -> next <= next' /\ pool_inv C next' p'.
Proof.
  intros Ex SN Hasg H (U & I & A & N & M & _ & _ & R).
  destruct (ids_ok_inv _ _ _ _ _ _ _ _ _ _ H I) as [L I'].
  destruct (within_capacity _ _ _ _ _ _ _ _ _ _ Ex SN H M U I N) as [Cap N'].
  split; [exact L|].
  split; [eapply usage_inv; eauto|]. split; [exact I'|].
  split; [eapply all_running_inv; eauto|]. split; [exact N'|].
  assert (Emax : p_max_ram p' = p_max_ram p).
  { pose proof (pool_tick_view _ _ _ _ _ _ _ _ _ _ H) as V. destruct V. exact tv_max. }
  split; [rewrite Emax; exact M|]. split; [exact Cap|].
  split; [intros c Hc; exact (proj1 (within_alloc _ _ _ _ _ _ _ _ _ _ H c Hc))|].
  intros Ho. eapply ram_ok_inv; eauto.
Qed.

Lemma pools_tick_inv C :
  (forall x, (cf_rnd C x == x)%Q) -> script_nonneg C ->
  forall ps w next ss asgs w' next' ps' res,
  (forall a, In a asgs -> (0 <= a_ram a)%Q) ->
  pools_tick C w next ps ss asgs = Ok (w', next', ps', res) ->
  Forall (pool_inv C next) ps -> next <= next' /\ Forall (pool_inv C next') ps'.
Proof.
  intros Ex SN. induction ps as [|p t IH]; intros w next ss asgs w' next' ps' res Hasg H J.
  - cbn in H. inversion H; subst. split; [lia | constructor].
  - cbn [pools_tick] in H.
    match type of H with bind ?r _ = _ =>
      destruct r as [[[[w1 next1] p1] res1]|e] eqn:E1; [|discriminate] end.
    cbn [bind] in H.
    destruct (pools_tick C w1 next1 t ss asgs) as [[[[w2 next2] t'] res2]|e] eqn:E2; [|discriminate].
    cbn [bind] in H. inversion H; subst. inversion J as [|x l J1 J2]; subst.
    apply (pool_inv_step _ _ _ _ _ _ _ _ _ _ Ex SN) in E1; [| |exact J1].
    2:{ intros a Ha. apply filter_In in Ha. apply Hasg. tauto. }
    destruct E1 as [L1 J1'].
    assert (J2' : Forall (pool_inv C next1) t).
    { rewrite Forall_forall in J2 |- *. intros q Hq. eapply pool_inv_mono; [exact L1|]. apply J2, Hq. }
    destruct (IH _ _ _ _ _ _ _ _ Hasg E2 J2') as [L2 J2''].
    split; [lia|]. constructor; [|exact J2'']. eapply pool_inv_mono; eauto.
Qed.

(* Assignment.__init__ refuses a non-positive RAM *)
Lemma mk_assignments_ram C : forall asgs w w',
  mk_assignments C w asgs = Ok w' -> forall a, In a asgs -> (0 < a_ram a)%Q.
Proof.
  induction asgs as [|a t IH]; intros w w' H x Hx; [destruct Hx|].
  cbn [mk_assignments] in H.
  destruct (mk_assignment C w a) as [w1|e] eqn:M; [|discriminate]. cbn [bind] in H.
  destruct Hx as [<-|Hx]; [|eapply IH; eauto].
  unfold mk_assignment in M.
  destruct (Nat.eqb (length (a_ops a)) 0); [discriminate|].
  destruct (a_cpu a <=? 0)%Z; [discriminate|].
  destruct (Qleb (a_ram a) 0) eqn:Q; [discriminate|].
  apply Qle_bool_false. exact Q.
Qed.

Theorem exec_step_inv C s ss asgs s' res :
  (forall x, (cf_rnd C x == x)%Q) -> script_nonneg C ->
  exec_step C s ss asgs = Ok (s', res) ->
  Forall (pool_inv C (e_next s)) (e_pools s) ->
  Forall (pool_inv C (e_next s')) (e_pools s').
Proof.
  intros Ex SN H J. apply exec_step_pools in H.
  destruct H as (w0 & w1 & next1 & res1 & M & H & En & _).
  rewrite En. eapply (pools_tick_inv C Ex SN); [|exact H|exact J].
  intros a Ha. apply Qlt_le_weak. eapply mk_assignments_ram; eauto.
Qed.

Theorem reach_inv C npools cpu ram s :
  (forall x, (cf_rnd C x == x)%Q) -> script_nonneg C -> (0 <= ram)%Q ->
  reach_exec C npools cpu ram s -> Forall (pool_inv C (e_next s)) (e_pools s).
Proof.
  intros Ex SN Hram R. induction R as [|s ss asgs s' res R IH H].
  - unfold init_estate. cbn [e_pools e_next]. apply Forall_forall. intros p Hp.
    apply in_map_iff in Hp. destruct Hp as (i & <- & _).
    split; [apply usage_ok_new|].
    split; [split; [constructor | intros c []]|].
    split; [apply all_running_new|].
    split; [constructor|]. cbn.
    split; [exact Hram|]. split; [exact Hram|]. split; [intros c []|].
    intros _. apply ram_ok_new. exact Hram.
  - eapply exec_step_inv; eauto.
Qed.

(* C04 for every reachable state, in the words of the property *)
Corollary C04_reachable C npools cpu ram s :
  (forall x, (cf_rnd C x == x)%Q) -> script_nonneg C -> (0 <= ram)%Q ->
  reach_exec C npools cpu ram s ->
  forall p, In p (e_pools s) ->
    (forall c, In c (p_active p) -> c_completed c = false /\ (c_mem c <= c_ram c)%Q) /\
    (p_consumed p <= p_max_ram p)%Q /\
    (p_consumed p == sumQ (map c_mem (p_active p)))%Q /\
    (p_active p = [] -> (p_consumed p == 0)%Q).
Proof.
  intros Ex SN Hram R p Hp. pose proof (reach_inv _ _ _ _ _ Ex SN Hram R) as J.
  rewrite Forall_forall in J. destruct (J p Hp) as (U & _ & A & _ & _ & Cap & W & _).
  split; [intros c Hc; split; [apply A | apply W]; exact Hc|].
  split; [exact Cap|]. split; [exact U|].
  intros E. unfold usage_ok in U. rewrite E in U. exact U.
Qed.

(* with any rounding: in every reachable state the running containers are within their allocation *)
Theorem reach_within_alloc C npools cpu ram s :
  reach_exec C npools cpu ram s ->
  forall p, In p (e_pools s) ->
  forall c, In c (p_active p) -> (c_mem c <= c_ram c)%Q /\ c_completed c = false.
Proof.
  intros R. destruct R as [|s ss asgs s' res R H].
  - intros p Hp c Hc. unfold init_estate in Hp. cbn [e_pools] in Hp.
    apply in_map_iff in Hp. destruct Hp as (i & <- & _). destruct Hc.
  - apply exec_step_pools in H. destruct H as (w0 & w1 & next1 & res1 & _ & H & _).
    revert H. generalize (e_pools s') as ps'. generalize (e_pools s) as ps.
    generalize (e_next s) as next. clear. intros next ps. revert w0 next w1 next1 res1.
    induction ps as [|p t IH]; intros w next w' next' res ps' H q Hq c Hc.
    + cbn in H. inversion H; subst. destruct Hq.
    + cbn [pools_tick] in H.
      match type of H with bind ?r _ = _ =>
        destruct r as [[[[w1 next1] p1] res1]|e] eqn:E1; [|discriminate] end.
      cbn [bind] in H.
      destruct (pools_tick C w1 next1 t ss asgs) as [[[[w2 next2] t'] res2]|e] eqn:E2; [|discriminate].
      cbn [bind] in H. inversion H; subst. destruct Hq as [<-|Hq].
      * eapply within_alloc; eauto.
      * eapply IH; eauto.
Qed.

(* ====================================================================== *)
(* 11. closed examples (exact arithmetic, no overcommit)                  *)
(* ====================================================================== *)

Module Examples.

(* two one-operator pipelines *)
Definition exS : static := mk_static [(Batch, [[]]); (Batch, [[]])].

(* operator 0 needs 2 GB, then 5 GB; operator 1 needs 1 GB for two ticks *)
Definition exC : cfg :=
  {| cf_static := exS;
     cf_script := fun op _ => if Nat.eqb op 0 then [2; 5]%Q else [1; 1]%Q;
     cf_tps := 10%Z; cf_overcommit := false; cf_multi := false; cf_rnd := fun x => x |}.

Lemma exC_exact : forall x, (cf_rnd exC x == x)%Q.
Proof. intros x. reflexivity. Qed.

Lemma exC_nonneg : script_nonneg exC.
Proof.
  intros op cpus m H. cbn in H. destruct (Nat.eqb op 0); cbn in H;
    destruct H as [<-|[<-|[]]]; lra.
Qed.

Definition a0 : asg := {| a_ops := [0]; a_cpu := 1%Z; a_ram := 4%Q; a_prio := Batch; a_pool := 0%Z |}.
Definition a1 : asg := {| a_ops := [1]; a_cpu := 1%Z; a_ram := 3%Q; a_prio := Batch; a_pool := 0%Z |}.

(* one pool with 4 CPUs and 10 GB *)
Definition s0 : estate := init_estate exC 1 4%Z 10%Q.

Definition step (s : estate) (asgs : list asg) : estate * list result :=
  match exec_step exC s [] asgs with
  | Ok r => r
  | Err _ => (s, [])
  end.

Definition s1 : estate := fst (step s0 [a0; a1]).
Definition s2 : estate := fst (step s1 []).
Definition p1 : pool := hd (new_pool 0 0%Z 0%Q) (e_pools s1).

Definition view (p : pool) : Q * Q * list (nat * Q * Q) :=
  (Qred (p_consumed p), Qred (p_avail_ram p),
   map (fun c => (c_id c, Qred (c_mem c), Qred (c_ram c))) (p_active p)).

(* first tick: both containers are created and run their first tick (2 GB and 1 GB) *)
Example ex_step1 :
  match exec_step exC s0 [] [a0; a1] with
  | Ok (s, res) => Some (map view (e_pools s), length res)
  | Err _ => None
  end = Some ([(3%Q, 3%Q, [(0, 2%Q, 4%Q); (1, 1%Q, 3%Q)])], 0).
Proof. vm_compute. reflexivity. Qed.

Lemma ex_step1_ok : exists res, exec_step exC s0 [] [a0; a1] = Ok (s1, res).
Proof.
  unfold s1, step. destruct (exec_step exC s0 [] [a0; a1]) as [[s r]|e] eqn:E.
  - exists r. reflexivity.
  - exfalso. pose proof ex_step1 as X. rewrite E in X. discriminate.
Qed.

Definition p1_act : list container := Eval vm_compute in p_active p1.
Definition p1_rams : list Q := Eval vm_compute in map c_ram (p_active p1 ++ p_suspending p1).
Lemma p1_active : p_active p1 = p1_act.
Proof. vm_compute. reflexivity. Qed.
Lemma p1_rams_eq : map c_ram (p_active p1 ++ p_suspending p1) = p1_rams.
Proof. vm_compute. reflexivity. Qed.

(* the hypotheses of the pool-level theorems hold for the pool with its two containers *)
Example ex_usage : usage_ok p1.
Proof. unfold usage_ok. apply Qeq_bool_iff. vm_compute. reflexivity. Qed.

Example ex_ids : ids_ok 2 p1.
Proof.
  split.
  - rewrite p1_active. cbn. repeat constructor; cbn; intuition discriminate.
  - intros c Hc. rewrite p1_active in Hc. destruct Hc as [<-|[<-|[]]]; cbn; lia.
Qed.

Example ex_running : all_running p1.
Proof. intros c Hc. rewrite p1_active in Hc. destruct Hc as [<-|[<-|[]]]; reflexivity. Qed.

Example ex_cnn : Forall cnn (p_active p1).
Proof.
  apply Forall_forall. intros c Hc. rewrite p1_active in Hc.
  destruct Hc as [<-|[<-|[]]]; (split; [cbn; lra|]); cbn; intros r E; inversion E; subst;
    intros m Hm; cbn in Hm; repeat (destruct Hm as [<-|Hm]; [lra|]); destruct Hm.
Qed.

Example ex_ram : ram_ok p1.
Proof.
  split; [|split].
  - unfold ram_cons. apply Qeq_bool_iff. vm_compute. reflexivity.
  - apply Qle_bool_iff. vm_compute. reflexivity.
  - intros x Hx. rewrite p1_rams_eq in Hx. destruct Hx as [<-|[<-|[]]]; lra.
Qed.

Example ex_capacity : (p_consumed p1 <= p_max_ram p1)%Q.
Proof. apply Qle_bool_iff. vm_compute. reflexivity. Qed.

(* second tick: container 0 asks for 5 GB with 4 GB allocated and is killed, container 1 finishes;
   the pool is empty and reports zero *)
Example ex_step2 :
  match exec_step exC s1 [] [] with
  | Ok (s, res) => Some (map view (e_pools s), map (fun r => (r_cid r, r_err r)) res)
  | Err _ => None
  end = Some ([(0%Q, 10%Q, [])], [(0, true); (1, false)]).
Proof. vm_compute. reflexivity. Qed.

Lemma ex_step2_ok : exists res, exec_step exC s1 [] [] = Ok (s2, res).
Proof.
  unfold s2, step. destruct (exec_step exC s1 [] []) as [[s r]|e] eqn:E.
  - exists r. reflexivity.
  - exfalso. pose proof ex_step2 as X. rewrite E in X. discriminate.
Qed.

Example ex_reach : reach_exec exC 1 4%Z 10%Q s2.
Proof.
  destruct ex_step1_ok as [r1 E1]. destruct ex_step2_ok as [r2 E2].
  eapply reach_step; [|exact E2]. eapply reach_step; [|exact E1]. apply reach_init.
Qed.

(* the general theorem applied to the example *)
Example ex_C04 :
  forall p, In p (e_pools s2) ->
    (p_consumed p <= p_max_ram p)%Q /\ (p_consumed p == sumQ (map c_mem (p_active p)))%Q.
Proof.
  intros p Hp.
  assert (H0 : (0 <= 10)%Q) by lra.
  destruct (C04_reachable exC 1 4%Z 10%Q s2 exC_exact exC_nonneg H0 ex_reach p Hp)
    as (_ & H1 & H2 & _).
  split; assumption.
Qed.

(* with overcommit: allocations 4 + 3 in a pool of 5; in the second tick both containers use 3 GB,
   each within its allocation, the pool is over capacity and the pool-level loop kills the container
   with the higher score (container 1: 3 * 3/3 against 3 * 3/4); the usage is then 3 <= 5 *)
Definition exC' : cfg :=
  {| cf_static := exS;
     cf_script := fun op _ => if Nat.eqb op 0 then [2; 3; 3]%Q else [1; 3; 3]%Q;
     cf_tps := 10%Z; cf_overcommit := true; cf_multi := false; cf_rnd := fun x => x |}.

Example ex_overcommit_kill :
  match exec_step exC' (init_estate exC' 1 4%Z 5%Q) [] [a0; a1] with
  | Ok (s, _) =>
      match exec_step exC' s [] [] with
      | Ok (s', res) => Some (map view (e_pools s), map view (e_pools s'),
                              map (fun r => (r_cid r, r_err r)) res)
      | Err _ => None
      end
  | Err _ => None
  end = Some ([(3%Q, (-2)%Q, [(0, 2%Q, 4%Q); (1, 1%Q, 3%Q)])],
              [(3%Q, 1%Q, [(0, 3%Q, 4%Q)])],
              [(1, true)]).
Proof. vm_compute. reflexivity. Qed.

End Examples.

(* ====================================================================== *)

