(* C09: every accepted assignment becomes exactly one container with exactly one outcome.
   0. generic facts: histories without Assigned requests, transition_all, the container tick;
   1. a command naming an unknown pool is rejected;
   2. one pool tick: containers are neither lost nor duplicated (multiset of ids);
   3. the executor: the ledger  assignments = results + live + suspended  along every history;
   4. the shape of a result: success = all operators completed, failure = completed prefix then
      failed operators.
   Everything holds for an arbitrary [C : cfg]. *)
From Coq Require Import ZArith QArith List Bool Arith Lia Sorting.Permutation.
Import ListNotations.
Close Scope Q_scope.
From Eudoxia Require Import Num.Rnd64 Model.Types Model.Dag Model.Lifecycle Model.Container Model.Pool
  Model.Executor Proofs.ListFacts Proofs.LifecycleFacts Proofs.OomFacts.

(* ====================================================================== *)
(* 0. generic facts                                                       *)
(* ====================================================================== *)

(* ---------- histories in which nobody requests Assigned ---------- *)

Inductive steps_na (S : static) : world -> world -> Prop :=
| sna_refl w : steps_na S w w
| sna_cons w op new w' w'' :
    new <> Assigned -> transition S w op new = Ok w' -> steps_na S w' w'' -> steps_na S w w''.

Lemma steps_na_steps S w w' : steps_na S w w' -> steps S w w'.
Proof. induction 1; [constructor | econstructor; eauto]. Qed.

Lemma steps_na_trans S a b c : steps_na S a b -> steps_na S b c -> steps_na S a c.
Proof. induction 1; intros; auto. econstructor; eauto. Qed.

Lemma steps_na_one S w op new w' :
  new <> Assigned -> transition S w op new = Ok w' -> steps_na S w w'.
Proof. intros. econstructor; eauto. constructor. Qed.

Lemma steps_na_length S w w' : steps_na S w w' -> length (w_st w') = length (w_st w).
Proof. intros H. apply steps_length with (S := S). apply steps_na_steps. exact H. Qed.

Lemma steps_na_completed S w w' o :
  steps_na S w w' -> st_of w o = Completed -> st_of w' o = Completed.
Proof. intros H. apply completed_final with (S := S). apply steps_na_steps. exact H. Qed.

Lemma valid_from_failed new : valid Failed new = true -> new = Assigned.
Proof. destruct new; cbn; intros H; try discriminate; reflexivity. Qed.

(* the only edge out of Failed leads to Assigned: any other accepted request leaves a Failed
   operator Failed *)
Lemma failed_stays_step S w op new w' o :
  new <> Assigned -> transition S w op new = Ok w' -> st_of w o = Failed -> st_of w' o = Failed.
Proof.
  intros Hn T E. destruct (Nat.eq_dec o op) as [->|N].
  - exfalso. apply transition_ok in T. destruct T as [V _]. rewrite E in V.
    apply valid_from_failed in V. contradiction.
  - rewrite (transition_st_other _ _ _ _ _ _ T N). exact E.
Qed.

Lemma failed_stays S w w' o :
  steps_na S w w' -> st_of w o = Failed -> st_of w' o = Failed.
Proof. induction 1; intros; auto. apply IHsteps_na. eapply failed_stays_step; eauto. Qed.

Lemma transition_all_steps_na S new : new <> Assigned -> forall ops w w',
  transition_all S w ops new = Ok w' -> steps_na S w w'.
Proof.
  intros Hn. induction ops as [|o t IH]; cbn; intros w w' H.
  - inversion H. constructor.
  - unfold bind in H. destruct (transition S w o new) eqn:T; [|discriminate].
    econstructor; eauto.
Qed.

(* ---------- transition_all on a duplicate-free list of known operators ---------- *)

Lemma transition_all_spec S new : forall ops w w',
  NoDup ops -> (forall o, In o ops -> o < length (w_st w)) ->
  transition_all S w ops new = Ok w' ->
  (forall o, In o ops -> st_of w' o = new) /\
  (forall o, ~ In o ops -> st_of w' o = st_of w o) /\
  (forall o, In o ops -> valid (st_of w o) new = true).
Proof.
  induction ops as [|a t IH]; intros w w' ND R H.
  - cbn in H. inversion H; subst. repeat split; intros o Ho; try destruct Ho; reflexivity.
  - cbn [transition_all] in H. unfold bind in H.
    destruct (transition S w a new) as [w1|e] eqn:T; [|discriminate].
    inversion ND as [|x l Hn Ht]; subst.
    assert (L1 : length (w_st w1) = length (w_st w)) by (eapply transition_length; eauto).
    assert (R1 : forall o, In o t -> o < length (w_st w1)).
    { intros o Ho. rewrite L1. apply R. right. exact Ho. }
    destruct (IH _ _ Ht R1 H) as (I1 & I2 & I3).
    split; [|split].
    + intros o [->|Ho].
      * rewrite (I2 _ Hn). eapply transition_st_same; eauto. apply R. left. reflexivity.
      * apply I1. exact Ho.
    + intros o Ho. rewrite I2 by (intros Hi; apply Ho; right; exact Hi).
      eapply transition_st_other; eauto. intros ->. apply Ho. left. reflexivity.
    + intros o [->|Ho].
      * apply transition_ok in T. tauto.
      * rewrite <- (transition_st_other _ _ _ _ _ o T).
        -- apply I3. exact Ho.
        -- intros ->. contradiction.
Qed.

Lemma transition_all_accepts S new : new <> Running -> forall ops w,
  NoDup ops -> (forall o, In o ops -> valid (st_of w o) new = true) ->
  exists w', transition_all S w ops new = Ok w'.
Proof.
  intros Hn. induction ops as [|a t IH]; intros w ND V.
  - exists w. reflexivity.
  - inversion ND as [|x l Hni Ht]; subst.
    destruct (transition S w a new) as [w1|e] eqn:T.
    + destruct (IH w1 Ht) as [w' Hw'].
      { intros o Ho. rewrite (transition_st_other _ _ _ _ _ o T).
        - apply V. right. exact Ho.
        - intros ->. contradiction. }
      exists w'. cbn [transition_all]. unfold bind. rewrite T. exact Hw'.
    + exfalso. apply transition_err in T. destruct T as [[_ V0]|[_ [R _]]].
      * rewrite V in V0 by (left; reflexivity). discriminate.
      * contradiction.
Qed.

(* an error of a request other than Running is a refused edge *)
Lemma transition_all_err S new : new <> Running -> forall ops w e,
  transition_all S w ops new = Err e -> e = ETransition.
Proof.
  intros Hn. induction ops as [|a t IH]; intros w e H; [discriminate|].
  cbn [transition_all] in H. unfold bind in H.
  destruct (transition S w a new) as [w1|e1] eqn:T.
  - eapply IH; eauto.
  - inversion H; subst. apply transition_err in T. destruct T as [[-> _]|[_ [R _]]]; [reflexivity|].
    contradiction.
Qed.

(* ---------- Container.tick ---------- *)

(* One resume of the generator, by cases. [w1] is the world after the operator has been started (if
   it had not been). *)
Lemma ctick_cases C w cons c w' cons' c' :
  ctick C w cons c = Ok (w', cons', c') ->
  (c_id c' = c_id c /\ c_ops c' = c_ops c /\ c_cpu c' = c_cpu c /\ c_ram c' = c_ram c /\
   c_prio c' = c_prio c /\ c_susp_left c' = c_susp_left c) /\
  ( (c_completed c = true /\ w' = w /\ cons' = cons /\ c' = c)
    \/ (c_completed c = false /\ c_frozen c = true /\ w' = w /\ cons' = cons /\ c' = tick_elapsed c)
    \/ (c_completed c = false /\ c_frozen c = false /\
        exists op w1,
          nth_error (c_ops c) (c_opidx c) = Some op /\
          ((c_rest c <> None /\ w1 = w) \/
           (c_rest c = None /\ transition (cf_static C) w op Running = Ok w1)) /\
          ( (* the operator goes on (possibly frozen over its limit) *)
            (w' = w1 /\ c_opidx c' = c_opidx c /\ c_completed c' = false /\ c_error c' = c_error c /\
             c_rest c' <> None /\
             (c_can_suspend c' = true -> c_frozen c' = true /\ c_can_suspend c = true) /\
             (c_frozen c' = true -> Qltb (c_ram c') (c_mem c') = true))
            \/ (* the operator has finished *)
            (transition (cf_static C) w1 op Completed = Ok w' /\
             c_opidx c' = S (c_opidx c) /\ c_rest c' = None /\ c_frozen c' = false /\
             ( (S (c_opidx c) = length (c_ops c) /\ c_completed c' = true /\ c_error c' = false /\
                c_can_suspend c' = false)
               \/ (S (c_opidx c) <> length (c_ops c) /\ c_completed c' = false /\
                   c_error c' = c_error c /\ c_can_suspend c' = true)))))).
Proof.
  unfold ctick. intros H.
  destruct (c_completed c) eqn:Hc.
  { inversion H; subst. split; [repeat split; reflexivity|]. left. auto. }
  destruct (c_frozen c) eqn:Hf.
  { inversion H; subst. split; [repeat split; reflexivity|]. right. left. auto. }
  destruct (nth_error (c_ops c) (c_opidx c)) as [op|] eqn:Hn; [|discriminate].
  unfold bind in H.
  assert (Hstart : exists w1 rest,
             ((c_rest c <> None /\ w1 = w) \/
              (c_rest c = None /\ transition (cf_static C) w op Running = Ok w1)) /\
             match rest with
             | [] => Err EOther
             | m :: rest' =>
                 let '(c1, cons1) := set_mem C c cons m in
                 if Qltb (c_ram c) m
                 then Ok (w1, cons1,
                          tick_elapsed (with_pos c1 (c_opidx c) (Some rest) true (c_can_suspend c)))
                 else
                   match rest' with
                   | [] =>
                       match transition (cf_static C) w1 op Completed with
                       | Ok w2 =>
                           if Nat.eqb (S (c_opidx c)) (length (c_ops c))
                           then let '(c2, cons2) :=
                                  mark_completed C (with_pos c1 (S (c_opidx c)) None false false)
                                                 cons1 false in
                                Ok (w2, cons2, tick_elapsed c2)
                           else Ok (w2, cons1,
                                    tick_elapsed (with_pos c1 (S (c_opidx c)) None false true))
                       | Err e => Err e
                       end
                   | _ :: _ =>
                       Ok (w1, cons1,
                           tick_elapsed (with_pos c1 (c_opidx c) (Some rest') false false))
                   end
             end = Ok (w', cons', c')).
  { destruct (c_rest c) as [r|] eqn:Hr.
    - exists w, r. split; [left; split; [discriminate | reflexivity] | exact H].
    - destruct (transition (cf_static C) w op Running) as [w1|e] eqn:T; [|discriminate].
      exists w1, (cf_script C op (c_cpu c)). split; [right; auto | exact H]. }
  clear H. destruct Hstart as (w1 & rest & Hw1 & H).
  destruct rest as [|m rest']; [discriminate|].
  unfold set_mem in H.
  destruct (Qltb (c_ram c) m) eqn:Hq.
  { injection H as E1 E2 E3; subst w' cons' c'. split; [repeat split; reflexivity|]. right. right.
    split; [reflexivity|]. split; [reflexivity|]. exists op, w1.
    split; [reflexivity|]. split; [exact Hw1|]. left. cbn.
    repeat split; auto; try discriminate. }
  destruct rest' as [|m' rest''].
  - destruct (transition (cf_static C) w1 op Completed) as [w2|e] eqn:T2; [|discriminate].
    destruct (Nat.eqb (S (c_opidx c)) (length (c_ops c))) eqn:He.
    + unfold mark_completed, set_mem in H. injection H as E1 E2 E3; subst w' cons' c'.
      split; [repeat split; reflexivity|]. right. right.
      split; [reflexivity|]. split; [reflexivity|]. exists op, w1.
      split; [reflexivity|]. split; [exact Hw1|]. right. cbn.
      split; [exact T2|]. split; [reflexivity|]. split; [reflexivity|]. split; [reflexivity|].
      left. apply Nat.eqb_eq in He. auto.
    + injection H as E1 E2 E3; subst w' cons' c'.
      split; [repeat split; reflexivity|]. right. right.
      split; [reflexivity|]. split; [reflexivity|]. exists op, w1.
      split; [reflexivity|]. split; [exact Hw1|]. right. cbn.
      split; [exact T2|]. split; [reflexivity|]. split; [reflexivity|]. split; [reflexivity|].
      right. apply Nat.eqb_neq in He. auto.
  - injection H as E1 E2 E3; subst w' cons' c'. split; [repeat split; reflexivity|]. right. right.
    split; [reflexivity|]. split; [reflexivity|]. exists op, w1.
    split; [reflexivity|]. split; [exact Hw1|]. left. cbn.
    repeat split; auto; try discriminate.
Qed.

Lemma ctick_steps_na C w cons c w' cons' c' :
  ctick C w cons c = Ok (w', cons', c') -> steps_na (cf_static C) w w'.
Proof.
  intros H. apply ctick_cases in H. destruct H as [_ [H|[H|H]]].
  - destruct H as (_ & -> & _). constructor.
  - destruct H as (_ & _ & -> & _). constructor.
  - destruct H as (_ & _ & op & w1 & _ & Hw1 & H).
    assert (S1 : steps_na (cf_static C) w w1).
    { destruct Hw1 as [[_ ->]|[_ T]]; [constructor|].
      eapply steps_na_one; eauto. discriminate. }
    destruct H as [(-> & _)|(T & _)]; [exact S1|].
    eapply steps_na_trans; [exact S1|]. eapply steps_na_one; eauto. discriminate.
Qed.

Lemma ckill_steps_na C w cons c w' cons' c' :
  ckill C w cons c = Ok (w', cons', c') -> steps_na (cf_static C) w w'.
Proof.
  intros H. apply ckill_ok in H. destruct H as (_ & _ & _ & T).
  eapply transition_all_steps_na; eauto. discriminate.
Qed.

Lemma csuspend_ok C w c w' c' :
  csuspend C w c = Ok (w', c') ->
  transition_all (cf_static C) w (skipn (c_opidx c) (c_ops c)) Suspending = Ok w' /\
  c' = with_susp c (suspend_ticks C (c_ram c)).
Proof.
  unfold csuspend, bind. destruct (transition_all _ _ _ _) as [w1|e]; [|discriminate].
  intros H. inversion H; subst. auto.
Qed.

Lemma csuspend_steps_na C w c w' c' :
  csuspend C w c = Ok (w', c') -> steps_na (cf_static C) w w'.
Proof.
  intros H. apply csuspend_ok in H. destruct H as [T _].
  eapply transition_all_steps_na; eauto. discriminate.
Qed.

Lemma csuspend_tick_ok C w c w' c' :
  csuspend_tick C w c = Ok (w', c') ->
  c' = with_susp c (c_susp_left c - 1) /\
  ((c_susp_left c - 1 = 0)%Z /\
   transition_all (cf_static C) w (skipn (c_opidx c) (c_ops c)) Pending = Ok w'
   \/ (c_susp_left c - 1 <> 0)%Z /\ w' = w).
Proof.
  unfold csuspend_tick. destruct (c_susp_left c - 1 =? 0)%Z eqn:E.
  - unfold bind. destruct (transition_all _ _ _ _) as [w1|e]; [|discriminate].
    intros H. inversion H; subst. apply Z.eqb_eq in E. auto.
  - intros H. inversion H; subst. apply Z.eqb_neq in E. auto.
Qed.

Lemma csuspend_tick_steps_na C w c w' c' :
  csuspend_tick C w c = Ok (w', c') -> steps_na (cf_static C) w w'.
Proof.
  intros H. apply csuspend_tick_ok in H. destruct H as [_ [[_ T]|[_ ->]]]; [|constructor].
  eapply transition_all_steps_na; eauto. discriminate.
Qed.

(* ====================================================================== *)
(* 1. unknown pools                                                       *)
(* ====================================================================== *)

Theorem bad_pool_rejected C st ss asgs :
  (exists s, In s ss /\ pool_in_range (length (e_pools st)) (su_pool s) = false) \/
  (exists a, In a asgs /\ pool_in_range (length (e_pools st)) (a_pool a) = false) ->
  exec_tick C st ss asgs = Err EBadPool.
Proof.
  intros H. unfold exec_tick.
  assert (E : forallb (fun x => pool_in_range (length (e_pools st)) (su_pool x)) ss
              && forallb (fun a => pool_in_range (length (e_pools st)) (a_pool a)) asgs = false).
  { apply andb_false_iff. destruct H as [[s [Hs Hr]]|[a [Ha Hr]]]; [left|right].
    - destruct (forallb _ ss) eqn:F; [|reflexivity].
      rewrite forallb_forall in F. rewrite (F s Hs) in Hr. discriminate.
    - destruct (forallb _ asgs) eqn:F; [|reflexivity].
      rewrite forallb_forall in F. rewrite (F a Ha) in Hr. discriminate. }
  rewrite E. reflexivity.
Qed.

(* the same for a whole scheduler tick: it never succeeds (the Assignment objects may already
   have been refused for another reason) *)
Lemma exec_tick_ok_in_range C st ss asgs r :
  exec_tick C st ss asgs = Ok r ->
  (forall s, In s ss -> pool_in_range (length (e_pools st)) (su_pool s) = true) /\
  (forall a, In a asgs -> pool_in_range (length (e_pools st)) (a_pool a) = true).
Proof.
  intros H. split.
  - intros s Hs. destruct (pool_in_range _ (su_pool s)) eqn:E; [reflexivity|].
    rewrite bad_pool_rejected in H; [discriminate|]. left. eauto.
  - intros a Ha. destruct (pool_in_range _ (a_pool a)) eqn:E; [reflexivity|].
    rewrite bad_pool_rejected in H; [discriminate|]. right. eauto.
Qed.

Lemma exec_step_inv C s ss asgs r :
  exec_step C s ss asgs = Ok r ->
  exists w, mk_assignments C (e_world s) asgs = Ok w /\
            exec_tick C {| e_world := w; e_pools := e_pools s; e_next := e_next s |} ss asgs = Ok r.
Proof.
  unfold exec_step, bind. destruct (mk_assignments C (e_world s) asgs) as [w|e]; [|discriminate].
  intros H. exists w. auto.
Qed.

Theorem bad_pool_step_rejected C s ss asgs r :
  (exists x, In x ss /\ pool_in_range (length (e_pools s)) (su_pool x) = false) \/
  (exists a, In a asgs /\ pool_in_range (length (e_pools s)) (a_pool a) = false) ->
  exec_step C s ss asgs <> Ok r.
Proof.
  intros H E. apply exec_step_inv in E. destruct E as (w & _ & E).
  rewrite bad_pool_rejected in E; [discriminate|]. exact H.
Qed.

(* ====================================================================== *)
(* 2. one pool tick                                                       *)
(* ====================================================================== *)

Lemma bind_Ok {A B} (a : A) (f : A -> res B) : bind (Ok a) f = f a.
Proof. reflexivity. Qed.

Tactic Notation "inv_bind" hyp(H) "as" simple_intropattern(p) "eqn" ident(E) :=
  match type of H with
  | bind ?r _ = _ =>
      destruct r as [p|?] eqn:E;
      [rewrite bind_Ok in H; cbv beta iota in H | discriminate H]
  end.

(* ---------- list helpers ---------- *)

Lemma filter_split_perm {A} (f : A -> bool) l :
  Permutation (filter f l ++ filter (fun x => negb (f x)) l) l.
Proof.
  induction l as [|h t IH]; [constructor|].
  cbn [filter]. destruct (f h); cbn [negb app].
  - apply perm_skip. exact IH.
  - eapply perm_trans; [apply Permutation_sym; apply Permutation_middle|].
    apply perm_skip. exact IH.
Qed.

Lemma remove_container_absent cid l :
  ~ In cid (map c_id l) -> remove_container cid l = l.
Proof.
  unfold remove_container. induction l as [|h t IH]; intros H; [reflexivity|].
  cbn [filter]. destruct (Nat.eqb (c_id h) cid) eqn:E.
  - exfalso. apply H. left. apply Nat.eqb_eq. exact E.
  - cbn [negb]. f_equal. apply IH. intros Hi. apply H. right. exact Hi.
Qed.

Lemma remove_container_perm cid c act :
  NoDup (map c_id act) -> find_container cid act = Some c ->
  Permutation act (c :: remove_container cid act).
Proof.
  unfold find_container. induction act as [|h t IH]; intros ND F; [discriminate|].
  cbn in ND. inversion ND as [|x l Hn Ht]; subst.
  cbn [find] in F. unfold remove_container. cbn [filter].
  destruct (Nat.eqb (c_id h) cid) eqn:E.
  - inversion F; subst h. cbn [negb]. apply Nat.eqb_eq in E. subst cid.
    fold (remove_container (c_id c) t). rewrite remove_container_absent by exact Hn.
    apply Permutation_refl.
  - cbn [negb]. fold (remove_container cid t).
    eapply perm_trans; [apply perm_skip; apply IH; assumption|]. apply perm_swap.
Qed.

Lemma remove_container_incl cid l x : In x (remove_container cid l) -> In x l /\ c_id x <> cid.
Proof.
  unfold remove_container. intros H. apply filter_In in H. destruct H as [H1 H2].
  split; [exact H1|]. apply negb_true_iff in H2. apply Nat.eqb_neq. exact H2.
Qed.

Lemma remove_container_not_in cid l : ~ In cid (map c_id (remove_container cid l)).
Proof.
  intros H. apply in_map_iff in H. destruct H as [x [E Hx]].
  apply remove_container_incl in Hx. destruct Hx as [_ N]. contradiction.
Qed.

(* ---------- phase 1 ---------- *)

Lemma apply_suspends_ids C : forall ss w act sing w' act' sing',
  NoDup (map c_id act) ->
  apply_suspends C w act sing ss = Ok (w', act', sing') ->
  Permutation (map c_id act' ++ map c_id sing') (map c_id act ++ map c_id sing).
Proof.
  induction ss as [|s t IH]; intros w act sing w' act' sing' ND H.
  - cbn in H. inversion H; subst. apply Permutation_refl.
  - cbn [apply_suspends] in H.
    destruct (find_container (su_cid s) act) as [c|] eqn:F; [|discriminate].
    inv_bind H as [w1 c1] eqn K.
    apply csuspend_ok in K. destruct K as [_ ->].
    apply IH in H; [|apply NoDup_map_filter; exact ND].
    eapply perm_trans; [exact H|].
    pose proof (remove_container_perm _ _ _ ND F) as P.
    apply (Permutation_map c_id) in P. cbn [map] in P.
    rewrite map_app. cbn [map with_susp c_id].
    rewrite app_assoc.
    eapply perm_trans; [apply Permutation_sym; apply Permutation_cons_append|].
    change (Permutation ((c_id c :: map c_id (remove_container (su_cid s) act)) ++ map c_id sing)
                        (map c_id act ++ map c_id sing)).
    apply Permutation_app_tail. apply Permutation_sym. exact P.
Qed.

(* who is where after the suspensions: the active list only shrinks, the suspending list only grows,
   by the suspended versions of active containers *)
Lemma apply_suspends_incl C : forall ss w act sing w' act' sing',
  apply_suspends C w act sing ss = Ok (w', act', sing') ->
  steps_na (cf_static C) w w' /\
  (forall x, In x act' -> In x act) /\
  (forall x, In x sing -> In x sing') /\
  (forall x, In x sing' -> In x sing \/
     exists c, In c act /\ x = with_susp c (suspend_ticks C (c_ram c))).
Proof.
  induction ss as [|s t IH]; intros w act sing w' act' sing' H.
  - cbn in H. inversion H; subst. split; [constructor|]. auto.
  - cbn [apply_suspends] in H.
    destruct (find_container (su_cid s) act) as [c|] eqn:F; [|discriminate].
    inv_bind H as [w1 c1] eqn K.
    pose proof (csuspend_steps_na _ _ _ _ _ K) as S1.
    apply csuspend_ok in K. destruct K as [_ ->].
    apply IH in H. destruct H as (S2 & I1 & I2 & I3).
    apply find_container_some in F. destruct F as [Fin _].
    split; [eapply steps_na_trans; eauto|]. split; [|split].
    + intros x Hx. apply I1 in Hx. apply remove_container_incl in Hx. tauto.
    + intros x Hx. apply I2. apply in_or_app. left. exact Hx.
    + intros x Hx. apply I3 in Hx. destruct Hx as [Hx|[c0 [Hc0 ->]]].
      * apply in_app_or in Hx. destruct Hx as [Hx|[<-|[]]]; [left; exact Hx|].
        right. exists c. auto.
      * right. exists c0. split; [|reflexivity]. apply remove_container_incl in Hc0. tauto.
Qed.

Definition phase1 (C : cfg) (w : world) (p : pool) (ss : list susp)
  : res (world * list container * list container * Q) :=
  match ss with
  | [] => Ok (w, p_active p, p_suspending p, p_consumed p)
  | _ =>
      do _ <- verify_suspends (p_active p) ss;
      do r <- apply_suspends C w (p_active p) (p_suspending p) ss;
      let '(w', act, sing) := r in Ok (w', act, sing, reconcile C act)
  end.

Lemma phase1_inv C w p ss w1 act1 sing1 cons1 :
  phase1 C w p ss = Ok (w1, act1, sing1, cons1) ->
  (ss = [] /\ w1 = w /\ act1 = p_active p /\ sing1 = p_suspending p /\ cons1 = p_consumed p) \/
  (ss <> [] /\ verify_suspends (p_active p) ss = Ok tt /\
   apply_suspends C w (p_active p) (p_suspending p) ss = Ok (w1, act1, sing1) /\
   cons1 = reconcile C act1).
Proof.
  unfold phase1. destruct ss as [|s t].
  - intros H. inversion H; subst. left. auto.
  - intros H. right. split; [discriminate|].
    inv_bind H as [] eqn V. inv_bind H as [[w2 act2] sing2] eqn A.
    inversion H; subst. auto.
Qed.

Lemma phase1_facts C w p ss w1 act1 sing1 cons1 :
  phase1 C w p ss = Ok (w1, act1, sing1, cons1) ->
  steps_na (cf_static C) w w1 /\
  (forall x, In x act1 -> In x (p_active p)) /\
  (forall x, In x (p_suspending p) -> In x sing1) /\
  (forall x, In x sing1 -> In x (p_suspending p) \/
     exists c, In c (p_active p) /\ x = with_susp c (suspend_ticks C (c_ram c))) /\
  (NoDup (map c_id (p_active p)) ->
   Permutation (map c_id act1 ++ map c_id sing1)
               (map c_id (p_active p) ++ map c_id (p_suspending p))).
Proof.
  intros H. apply phase1_inv in H.
  destruct H as [(_ & -> & -> & -> & _)|(_ & _ & A & _)].
  - split; [constructor|]. split; [auto|]. split; [auto|]. split; [auto|].
    intros _. apply Permutation_refl.
  - pose proof (apply_suspends_incl _ _ _ _ _ _ _ _ A) as (S1 & I1 & I2 & I3).
    split; [exact S1|]. split; [exact I1|]. split; [exact I2|]. split; [exact I3|].
    intros ND. eapply apply_suspends_ids; eauto.
Qed.

(* ---------- phase 2 ---------- *)

Fixpoint new_containers (next : nat) (asgs : list asg) : list container :=
  match asgs with
  | [] => []
  | a :: t => new_container next (a_ops a) (a_cpu a) (a_ram a) (a_prio a) :: new_containers (S next) t
  end.

Lemma new_containers_ids asgs : forall next,
  map c_id (new_containers next asgs) = seq next (length asgs).
Proof. induction asgs as [|a t IH]; intros next; cbn; [reflexivity|]. rewrite IH. reflexivity. Qed.

Lemma new_containers_In asgs : forall next c,
  In c (new_containers next asgs) ->
  exists a, In a asgs /\ c_ops c = a_ops a /\ c_cpu c = a_cpu a /\ c_ram c = a_ram a /\
            c_opidx c = 0 /\ c_completed c = false /\ c_can_suspend c = false /\ c_error c = false.
Proof.
  induction asgs as [|a t IH]; intros next c H; [destruct H|].
  cbn [new_containers] in H. destruct H as [<-|H].
  - exists a. cbn. repeat split; auto.
  - destruct (IH _ _ H) as [a0 [Ha0 R]]. exists a0. split; [right; exact Ha0 | exact R].
Qed.

Lemma apply_assignments_spec C : forall asgs next acpu aram act next' acpu' aram' act',
  apply_assignments C next acpu aram act asgs = Ok (next', acpu', aram', act') ->
  next' = next + length asgs /\
  act' = act ++ new_containers next asgs /\
  acpu' = (acpu - sumZ (map a_cpu asgs))%Z /\
  (aram' == aram - sumQ (map a_ram asgs))%Q /\
  (forall a, In a asgs -> opcount_ok C a = true).
Proof.
  induction asgs as [|a t IH]; intros next acpu aram act next' acpu' aram' act' H.
  - cbn in H. inversion H; subst. cbn [length new_containers map sumZ sumQ]. rewrite app_nil_r.
    split; [lia|]. split; [reflexivity|]. split; [lia|]. split; [ring | intros a []].
  - cbn [apply_assignments] in H. destruct (opcount_ok C a) eqn:O; [|discriminate].
    apply IH in H. destruct H as (-> & -> & -> & E & F).
    cbn [length new_containers map sumZ sumQ]. rewrite <- app_assoc. cbn [app].
    split; [lia|]. split; [reflexivity|]. split; [lia|]. split.
    + rewrite E. ring.
    + intros a0 [<-|Ha0]; auto.
Qed.

Definition phase2 (C : cfg) (next : nat) (p : pool) (act1 : list container) (asgs : list asg)
  : res (nat * Z * Q * list container) :=
  match asgs with
  | [] => Ok (next, p_avail_cpu p, p_avail_ram p, act1)
  | _ =>
      do _ <- verify_assignments C p asgs;
      apply_assignments C next (p_avail_cpu p) (p_avail_ram p) act1 asgs
  end.

Lemma phase2_spec C next p act1 asgs next2 acpu2 aram2 act2 :
  phase2 C next p act1 asgs = Ok (next2, acpu2, aram2, act2) ->
  next2 = next + length asgs /\
  act2 = act1 ++ new_containers next asgs /\
  acpu2 = (p_avail_cpu p - sumZ (map a_cpu asgs))%Z /\
  (aram2 == p_avail_ram p - sumQ (map a_ram asgs))%Q /\
  (forall a, In a asgs -> opcount_ok C a = true).
Proof.
  unfold phase2. destruct asgs as [|a t].
  - intros H. inversion H; subst. cbn [length new_containers map sumZ sumQ]. rewrite app_nil_r.
    split; [lia|]. split; [reflexivity|]. split; [lia|]. split; [ring | intros a []].
  - intros H. inv_bind H as [] eqn V. apply apply_assignments_spec in H. exact H.
Qed.

(* ---------- phase 3 ---------- *)

Definition susp_dec (c : container) : container := with_susp c (c_susp_left c - 1).

Lemma tick_suspending_spec C : forall sing w w' sing',
  tick_suspending C w sing = Ok (w', sing') ->
  sing' = map susp_dec sing /\ steps_na (cf_static C) w w'.
Proof.
  induction sing as [|c t IH]; intros w w' sing' H.
  - cbn in H. inversion H; subst. split; [reflexivity | constructor].
  - cbn [tick_suspending] in H.
    inv_bind H as [w1 c1] eqn K. inv_bind H as [w2 t'] eqn R.
    inversion H; subst.
    pose proof (csuspend_tick_steps_na _ _ _ _ _ K) as S1.
    apply csuspend_tick_ok in K. destruct K as [-> _].
    apply IH in R. destruct R as [-> S2].
    split; [reflexivity | eapply steps_na_trans; eauto].
Qed.

Lemma susp_dec_id c : c_id (susp_dec c) = c_id c.
Proof. reflexivity. Qed.

(* ---------- phase 4 ---------- *)

Lemma Forall2_mono {A B} (P Q : A -> B -> Prop) l l' :
  (forall a b, P a b -> Q a b) -> Forall2 P l l' -> Forall2 Q l l'.
Proof. intros H F. induction F; constructor; auto. Qed.

Lemma tick_active_spec C : forall act w cons w' cons' act',
  tick_active C w cons act = Ok (w', cons', act') ->
  steps_na (cf_static C) w w' /\
  map c_id act' = map c_id act /\
  Forall2 (fun c c' => exists wa ca wb cb,
             steps_na (cf_static C) w wa /\ ctick C wa ca c = Ok (wb, cb, c') /\
             steps_na (cf_static C) wb w') act act'.
Proof.
  induction act as [|c t IH]; intros w cons w' cons' act' H.
  - cbn in H. inversion H; subst. split; [constructor|]. split; [reflexivity | constructor].
  - cbn [tick_active] in H.
    inv_bind H as [[w1 cons1] c1] eqn K. inv_bind H as [[w2 cons2] t'] eqn R.
    inversion H; subst.
    pose proof (ctick_steps_na _ _ _ _ _ _ _ K) as S1.
    apply IH in R. destruct R as (S2 & Hids & F).
    split; [eapply steps_na_trans; eauto|]. split.
    + cbn [map]. rewrite Hids. apply ctick_cases in K. destruct K as [(-> & _) _]. reflexivity.
    + constructor.
      * exists w, cons, w1, cons1. split; [constructor|]. split; [exact K | exact S2].
      * eapply Forall2_mono; [|exact F]. intros a b (wa & ca & wb & cb & Sa & Ka & Sb).
        exists wa, ca, wb, cb. split; [eapply steps_na_trans; eauto|]. auto.
Qed.

(* ---------- phase 5 ---------- *)

Lemma replace_container_ids c' l : map c_id (replace_container c' l) = map c_id l.
Proof.
  induction l as [|h t IH]; [reflexivity|]. cbn [replace_container].
  destruct (Nat.eqb (c_id h) (c_id c')) eqn:E; cbn [map].
  - apply Nat.eqb_eq in E. rewrite E. reflexivity.
  - rewrite IH. reflexivity.
Qed.

Lemma replace_container_In c' l x :
  In x (replace_container c' l) -> x = c' \/ In x l.
Proof.
  induction l as [|h t IH]; [intros []|]. cbn [replace_container].
  destruct (Nat.eqb (c_id h) (c_id c')).
  - intros [<-|H]; [left; reflexivity | right; right; exact H].
  - intros [<-|H]; [right; left; reflexivity|]. destruct (IH H); [left | right; right]; assumption.
Qed.

Lemma kill_over_limit_facts C : forall act w cons w' cons' act',
  kill_over_limit C w cons act = Ok (w', cons', act') ->
  steps_na (cf_static C) w w' /\ map c_id act' = map c_id act.
Proof.
  induction act as [|c t IH]; intros w cons w' cons' act' H.
  - cbn in H. inversion H; subst. split; [constructor | reflexivity].
  - cbn [kill_over_limit] in H.
    inv_bind H as [[w1 cons1] c1] eqn K. inv_bind H as [[w2 cons2] t'] eqn R.
    inversion H; subst. apply IH in R. destruct R as [S2 Hids].
    cbn [map]. rewrite Hids.
    destruct (Qltb (c_ram c) (c_mem c)).
    + pose proof (ckill_steps_na _ _ _ _ _ _ _ K) as S1.
      apply ckill_ok in K. destruct K as (_ & -> & _).
      split; [eapply steps_na_trans; eauto | reflexivity].
    + inversion K; subst. split; [exact S2 | reflexivity].
Qed.

Lemma kill_until_fits_facts C max : forall order w cons act w' cons' act',
  kill_until_fits C max w cons act order = Ok (w', cons', act') ->
  steps_na (cf_static C) w w' /\ map c_id act' = map c_id act.
Proof.
  induction order as [|cid t IH]; intros w cons act w' cons' act' H.
  - cbn in H. inversion H; subst. split; [constructor | reflexivity].
  - cbn [kill_until_fits] in H. destruct (Qleb cons max).
    + inversion H; subst. split; [constructor | reflexivity].
    + destruct (find_container cid act) as [c|] eqn:F; [|discriminate].
      inv_bind H as [[w1 cons1] c1] eqn K.
      pose proof (ckill_steps_na _ _ _ _ _ _ _ K) as S1.
      apply IH in H. destruct H as [S2 Hids].
      split; [eapply steps_na_trans; eauto|]. rewrite Hids. apply replace_container_ids.
Qed.

Lemma oom_killer_facts C max w cons act w' cons' act' :
  oom_killer C max w cons act = Ok (w', cons', act') ->
  steps_na (cf_static C) w w' /\ map c_id act' = map c_id act.
Proof.
  intros H. apply oom_killer_inv in H. destruct H as (w1 & cons1 & act1 & K1 & K2).
  apply kill_over_limit_facts in K1. apply kill_until_fits_facts in K2.
  destruct K1 as [S1 E1], K2 as [S2 E2].
  split; [eapply steps_na_trans; eauto | congruence].
Qed.

(* ---------- the whole pool tick, taken apart ---------- *)

Definition pool_after (C : cfg) (p : pool) (acpu2 : Z) (aram2 : Q) (sing3 act5 : list container)
           (cons5 : Q) : pool :=
  let done := filter is_suspended sing3 in
  let fin := filter c_completed act5 in
  let act6 := filter (fun c => negb (c_completed c)) act5 in
  upd_pool p
    (acpu2 + sumZ (map c_cpu done) + sumZ (map c_cpu fin))%Z
    (fold_left (fun a c => (a + c_ram c)%Q) fin
               (fold_left (fun a c => (a + c_ram c)%Q) done aram2))
    (match fin with [] => cons5 | _ => reconcile C act6 end)
    act6
    (filter (fun c => negb (is_suspended c)) sing3)
    (p_suspended p ++ done)
    (p_num_completed p + Z.of_nat (length (filter (fun c => negb (c_error c)) fin)))%Z
    (p_tick_times p ++ map c_ticks fin).

Lemma pool_tick_inv C w next p ss asgs w' next' p' res :
  pool_tick C w next p ss asgs = Ok (w', next', p', res) ->
  exists w1 act1 sing1 cons1 acpu2 aram2 act2 w3 sing3 w4 cons4 act4 cons5 act5,
    phase1 C w p ss = Ok (w1, act1, sing1, cons1) /\
    phase2 C next p act1 asgs = Ok (next', acpu2, aram2, act2) /\
    tick_suspending C w1 sing1 = Ok (w3, sing3) /\
    tick_active C w3 cons1 act2 = Ok (w4, cons4, act4) /\
    oom_killer C (p_max_ram p) w4 cons4 act4 = Ok (w', cons5, act5) /\
    p' = pool_after C p acpu2 aram2 sing3 act5 cons5 /\
    res = map (result_of (p_id p)) (filter c_completed act5).
Proof.
  unfold pool_tick. intros H.
  inv_bind H as [[[w1 act1] sing1] cons1] eqn E1.
  inv_bind H as [[[next2 acpu2] aram2] act2] eqn E2.
  inv_bind H as [w3 sing3] eqn E3.
  inv_bind H as [[w4 cons4] act4] eqn E4.
  inv_bind H as [[w5 cons5] act5] eqn E5.
  cbv zeta in H. inversion H; subst.
  exists w1, act1, sing1, cons1, acpu2, aram2, act2, w3, sing3, w4, cons4, act4, cons5, act5.
  repeat split; assumption.
Qed.

(* ---------- L2: nobody is lost, nobody is duplicated ---------- *)

Definition pool_conts (p : pool) : list container := p_active p ++ p_suspending p ++ p_suspended p.
Definition pool_ids (p : pool) : list nat := map c_id (pool_conts p).

Lemma perm_rearrange1 {A} (a s e d f : list A) :
  Permutation ((a ++ s ++ e ++ d) ++ f) ((f ++ a) ++ ((d ++ s) ++ e)).
Proof.
  eapply perm_trans; [apply Permutation_app_comm|].
  rewrite <- (app_assoc f a). apply Permutation_app_head. apply Permutation_app_head.
  eapply perm_trans; [apply Permutation_app_comm|].
  rewrite <- (app_assoc e d s). apply Permutation_app_comm.
Qed.

Lemma perm_rearrange2 {A} (x n y e : list A) :
  Permutation ((x ++ n) ++ (y ++ e)) (((x ++ y) ++ e) ++ n).
Proof.
  rewrite <- !app_assoc. apply Permutation_app_head.
  rewrite (app_assoc y e n). apply Permutation_app_comm.
Qed.

Lemma perm_rearrange3 {A} (a b c d : list A) :
  Permutation ((a ++ b) ++ (c ++ d)) ((a ++ c) ++ (b ++ d)).
Proof.
  rewrite <- !app_assoc. apply Permutation_app_head.
  rewrite (app_assoc b c d), (app_assoc c b d). apply Permutation_app_tail.
  apply Permutation_app_comm.
Qed.

Lemma NoDup_app_intro {A} (l1 l2 : list A) :
  NoDup l1 -> NoDup l2 -> (forall x, In x l1 -> ~ In x l2) -> NoDup (l1 ++ l2).
Proof.
  induction l1 as [|h t IH]; intros N1 N2 D; [exact N2|].
  inversion N1 as [|x l Hn Ht]; subst. cbn [app]. constructor.
  - intros Hi. apply in_app_or in Hi. destruct Hi as [Hi|Hi]; [contradiction|].
    apply (D h); [left; reflexivity | exact Hi].
  - apply IH; auto. intros x Hx. apply D. right. exact Hx.
Qed.

Lemma NoDup_app_disjoint {A} (l1 l2 : list A) x :
  NoDup (l1 ++ l2) -> In x l1 -> In x l2 -> False.
Proof.
  induction l1 as [|h t IH]; intros N H1 H2; [destruct H1|].
  cbn [app] in N. inversion N as [|y l Hn Ht]; subst. destruct H1 as [->|H1].
  - apply Hn. apply in_or_app. right. exact H2.
  - apply IH; assumption.
Qed.

Lemma NoDup_app_l {A} (l1 l2 : list A) : NoDup (l1 ++ l2) -> NoDup l1.
Proof.
  induction l1 as [|h t IH]; intros N; [constructor|].
  cbn [app] in N. inversion N as [|y l Hn Ht]; subst. constructor; [|apply IH; exact Ht].
  intros Hi. apply Hn. apply in_or_app. left. exact Hi.
Qed.

Lemma NoDup_app_r {A} (l1 l2 : list A) : NoDup (l1 ++ l2) -> NoDup l2.
Proof.
  induction l1 as [|h t IH]; intros N; [exact N|].
  cbn [app] in N. inversion N; subst. apply IH. assumption.
Qed.

Lemma map_result_ids pid l : map r_cid (map (result_of pid) l) = map c_id l.
Proof. rewrite map_map. reflexivity. Qed.

(* Every container of the pool and every new assignment is afterwards in exactly one place: still in
   one of the pool's three lists, or in the results of this tick. *)
Theorem pool_tick_ids C w next p ss asgs w' next' p' res :
  NoDup (map c_id (p_active p)) ->
  pool_tick C w next p ss asgs = Ok (w', next', p', res) ->
  next' = next + length asgs /\
  p_id p' = p_id p /\
  Permutation (pool_ids p' ++ map r_cid res) (pool_ids p ++ seq next (length asgs)).
Proof.
  intros ND H. apply pool_tick_inv in H.
  destruct H as (w1 & act1 & sing1 & cons1 & acpu2 & aram2 & act2 & w3 & sing3 & w4 & cons4 & act4
                 & cons5 & act5 & E1 & E2 & E3 & E4 & E5 & -> & ->).
  apply phase1_facts in E1. destruct E1 as (_ & _ & _ & _ & P1). specialize (P1 ND).
  apply phase2_spec in E2. destruct E2 as (-> & -> & _).
  apply tick_suspending_spec in E3. destruct E3 as [-> _].
  apply tick_active_spec in E4. destruct E4 as (_ & I4 & _).
  apply oom_killer_facts in E5. destruct E5 as [_ I5].
  split; [reflexivity|]. split; [reflexivity|].
  rewrite map_result_ids. unfold pool_ids, pool_conts.
  cbn [pool_after upd_pool p_active p_suspending p_suspended].
  rewrite !map_app.
  eapply perm_trans; [apply perm_rearrange1|].
  eapply perm_trans.
  { apply Permutation_app.
    - rewrite <- map_app. apply Permutation_map. apply filter_split_perm.
    - apply Permutation_app_tail. rewrite <- map_app. apply Permutation_map.
      apply filter_split_perm. }
  rewrite I5, I4, map_app, new_containers_ids.
  rewrite map_map. change (map (fun x => c_id (susp_dec x)) sing1) with (map c_id sing1).
  eapply perm_trans; [apply perm_rearrange2|].
  apply Permutation_app_tail. rewrite !app_assoc. apply Permutation_app_tail. exact P1.
Qed.

Corollary pool_tick_count C w next p ss asgs w' next' p' res :
  NoDup (map c_id (p_active p)) ->
  pool_tick C w next p ss asgs = Ok (w', next', p', res) ->
  next' = next + length asgs /\
  length (p_active p') + length (p_suspending p') + length (p_suspended p') + length res =
  length (p_active p) + length (p_suspending p) + length (p_suspended p) + length asgs.
Proof.
  intros ND H. destruct (pool_tick_ids _ _ _ _ _ _ _ _ _ _ ND H) as (Hn & _ & P).
  split; [exact Hn|]. apply Permutation_length in P.
  unfold pool_ids, pool_conts in P.
  rewrite !app_length, !map_length, !app_length, seq_length in P. lia.
Qed.

(* read off the permutation: where the results come from, and that a result leaves the pool *)
Corollary pool_tick_result_origin C w next p ss asgs w' next' p' res r :
  NoDup (pool_ids p) -> (forall i, In i (pool_ids p) -> i < next) ->
  pool_tick C w next p ss asgs = Ok (w', next', p', res) ->
  In r res ->
  (In (r_cid r) (map c_id (p_active p)) \/ next <= r_cid r < next + length asgs) /\
  ~ In (r_cid r) (pool_ids p') /\
  ~ In (r_cid r) (map c_id (p_suspending p)) /\ ~ In (r_cid r) (map c_id (p_suspended p)).
Proof.
  intros ND Hlt H Hr.
  assert (NDa : NoDup (map c_id (p_active p))).
  { unfold pool_ids, pool_conts in ND. rewrite map_app in ND. eapply NoDup_app_l; eauto. }
  pose proof H as H0. apply pool_tick_inv in H0.
  destruct H0 as (w1 & act1 & sing1 & cons1 & acpu2 & aram2 & act2 & w3 & sing3 & w4 & cons4 & act4
                 & cons5 & act5 & E1 & E2 & E3 & E4 & E5 & Ep & Er).
  destruct (pool_tick_ids _ _ _ _ _ _ _ _ _ _ NDa H) as (Hn & _ & P).
  assert (NDall : NoDup (pool_ids p ++ seq next (length asgs))).
  { apply NoDup_app_intro; [exact ND | apply seq_NoDup|].
    intros x Hx Hs. apply Hlt in Hx. apply in_seq in Hs. lia. }
  assert (NDl : NoDup (pool_ids p' ++ map r_cid res)).
  { eapply Permutation_NoDup; [apply Permutation_sym; exact P | exact NDall]. }
  assert (Hin : In (r_cid r) (map r_cid res)) by (apply in_map; exact Hr).
  (* origin: act5 has the ids of act1 and the new ones *)
  apply phase1_facts in E1. destruct E1 as (_ & I1 & _).
  apply phase2_spec in E2. destruct E2 as (_ & -> & _).
  apply tick_active_spec in E4. destruct E4 as (_ & I4 & _).
  apply oom_killer_facts in E5. destruct E5 as [_ I5].
  assert (Ho : In (r_cid r) (map c_id (p_active p)) \/ next <= r_cid r < next + length asgs).
  { subst res. rewrite map_result_ids in Hin.
    apply in_map_iff in Hin. destruct Hin as [c5 [Ec Hc5]]. apply filter_In in Hc5.
    destruct Hc5 as [Hc5 _]. apply (in_map c_id) in Hc5. rewrite Ec, I5, I4, map_app in Hc5.
    apply in_app_or in Hc5. destruct Hc5 as [Hc5|Hc5].
    - left. apply in_map_iff in Hc5. destruct Hc5 as [x [Ex Hx]]. rewrite <- Ex.
      apply in_map. apply I1. exact Hx.
    - right. rewrite new_containers_ids in Hc5. apply in_seq in Hc5. lia. }
  split; [exact Ho|]. split.
  - intros Hi. exact (NoDup_app_disjoint _ _ _ NDl Hi Hin).
  - unfold pool_ids, pool_conts in ND. rewrite !map_app in ND.
    assert (Hlt' : r_cid r < next -> In (r_cid r) (map c_id (p_active p))).
    { intros L. destruct Ho as [Ho|Ho]; [exact Ho | lia]. }
    split; intros Hi.
    + assert (L : r_cid r < next).
      { apply Hlt. unfold pool_ids, pool_conts. rewrite !map_app. apply in_or_app. right.
        apply in_or_app. left. exact Hi. }
      exact (NoDup_app_disjoint _ _ _ ND (Hlt' L) (in_or_app _ _ _ (or_introl Hi))).
    + assert (L : r_cid r < next).
      { apply Hlt. unfold pool_ids, pool_conts. rewrite !map_app. apply in_or_app. right.
        apply in_or_app. right. exact Hi. }
      exact (NoDup_app_disjoint _ _ _ ND (Hlt' L) (in_or_app _ _ _ (or_intror Hi))).
Qed.

(* ====================================================================== *)
(* 3. the executor                                                        *)
(* ====================================================================== *)

(* ---------- every command is routed to exactly one pool ---------- *)

Definition routed {A} (f : A -> Z) (p : pool) (l : list A) : list A :=
  filter (fun a => (f a =? Z.of_nat (p_id p))%Z) l.

Lemma list_sum_cons x l : list_sum (x :: l) = x + list_sum l.
Proof. reflexivity. Qed.

Lemma list_sum_map_add {A} (f g : A -> nat) l :
  list_sum (map (fun x => f x + g x) l) = list_sum (map f l) + list_sum (map g l).
Proof.
  induction l as [|h t IH]; [reflexivity|]. cbn [map]. rewrite !list_sum_cons, IH. lia.
Qed.

Definition hit (z : Z) (p : pool) : nat := if (z =? Z.of_nat (p_id p))%Z then 1 else 0.

Lemma hit_miss z : forall ps k,
  map p_id ps = seq k (length ps) -> (z < Z.of_nat k)%Z -> list_sum (map (hit z) ps) = 0.
Proof.
  induction ps as [|p t IH]; intros k E L; [reflexivity|].
  cbn [map length seq] in E. injection E as E1 E2.
  cbn [map]. rewrite list_sum_cons. rewrite (IH (S k)); [|exact E2 | lia].
  unfold hit. destruct (z =? Z.of_nat (p_id p))%Z eqn:Q; [|reflexivity].
  apply Z.eqb_eq in Q. lia.
Qed.

Lemma hit_once z : forall ps k,
  map p_id ps = seq k (length ps) -> (Z.of_nat k <= z < Z.of_nat (k + length ps))%Z ->
  list_sum (map (hit z) ps) = 1.
Proof.
  induction ps as [|p t IH]; intros k E L; [cbn in L; lia|].
  cbn [map length seq] in E. injection E as E1 E2. subst k.
  cbn [map]. rewrite list_sum_cons. unfold hit at 1. destruct (z =? Z.of_nat (p_id p))%Z eqn:Q.
  - apply Z.eqb_eq in Q. rewrite (hit_miss z t (S (p_id p)) E2) by lia. reflexivity.
  - apply Z.eqb_neq in Q. rewrite (IH (S (p_id p)) E2); [reflexivity|].
    cbn [length] in L. lia.
Qed.

Theorem routing_count {A} (f : A -> Z) (ps : list pool) (l : list A) :
  map p_id ps = seq 0 (length ps) ->
  (forall a, In a l -> pool_in_range (length ps) (f a) = true) ->
  list_sum (map (fun p => length (routed f p l)) ps) = length l.
Proof.
  intros E. induction l as [|a t IH]; intros R.
  - cbn [length]. clear E R. induction ps as [|p ps' IHp]; [reflexivity|].
    cbn [map]. rewrite list_sum_cons, IHp. reflexivity.
  - rewrite (map_ext _ (fun p => hit (f a) p + length (routed f p t))).
    + rewrite list_sum_map_add, IH by (intros x Hx; apply R; right; exact Hx).
      rewrite (hit_once (f a) ps 0 E); [reflexivity|].
      specialize (R a (or_introl eq_refl)). unfold pool_in_range in R.
      apply andb_true_iff in R. destruct R as [R1 R2].
      apply Z.leb_le in R1. apply Z.ltb_lt in R2. lia.
    + intros p. unfold routed, hit. cbn [filter].
      destruct (f a =? Z.of_nat (p_id p))%Z; reflexivity.
Qed.

(* ---------- all pools ---------- *)

Definition all_ids (ps : list pool) : list nat := flat_map pool_ids ps.

Lemma pools_tick_ids C : forall ps w next ss asgs w' next' ps' res,
  (forall p, In p ps -> NoDup (map c_id (p_active p))) ->
  pools_tick C w next ps ss asgs = Ok (w', next', ps', res) ->
  next' = next + list_sum (map (fun p => length (routed a_pool p asgs)) ps) /\
  map p_id ps' = map p_id ps /\
  Permutation (all_ids ps' ++ map r_cid res) (all_ids ps ++ seq next (next' - next)).
Proof.
  induction ps as [|p t IH]; intros w next ss asgs w' next' ps' res ND H.
  - cbn in H. inversion H; subst. cbn. rewrite Nat.add_0_r, Nat.sub_diag.
    split; [reflexivity|]. split; [reflexivity | apply Permutation_refl].
  - cbn [pools_tick] in H.
    inv_bind H as [[[w1 next1] p1] res1] eqn K. inv_bind H as [[[w2 next2] t'] res2] eqn R.
    inversion H; subst.
    apply pool_tick_ids in K; [|apply ND; left; reflexivity].
    destruct K as (-> & Hid & P1).
    apply IH in R; [|intros q Hq; apply ND; right; exact Hq].
    destruct R as (-> & Hids & P2).
    fold (routed a_pool p asgs) in *.
    cbn [map]. rewrite list_sum_cons. split; [lia|]. split; [rewrite Hid, Hids; reflexivity|].
    unfold all_ids in *. cbn [flat_map]. rewrite map_app.
    eapply perm_trans; [apply perm_rearrange3|].
    eapply perm_trans; [apply Permutation_app; [exact P1 | exact P2]|].
    eapply perm_trans; [apply perm_rearrange3|].
    apply Permutation_app_head.
    match goal with |- Permutation (seq ?a ?n ++ seq ?b ?m) (seq ?a ?k) =>
      replace k with (n + m) by lia; replace b with (a + n) by lia end.
    rewrite seq_app. apply Permutation_refl.
Qed.

Definition pools_wf (ps : list pool) : Prop := map p_id ps = seq 0 (length ps).

Lemma pools_wf_init C n cpu ram : pools_wf (e_pools (init_estate C n cpu ram)).
Proof.
  unfold pools_wf, init_estate. cbn [e_pools]. rewrite map_map, map_length, seq_length.
  cbn [new_pool p_id]. apply map_id.
Qed.

Theorem exec_tick_ledger C s ss asgs s' res :
  pools_wf (e_pools s) ->
  (forall p, In p (e_pools s) -> NoDup (map c_id (p_active p))) ->
  exec_tick C s ss asgs = Ok (s', res) ->
  e_next s' = e_next s + length asgs /\
  pools_wf (e_pools s') /\
  Permutation (all_ids (e_pools s') ++ map r_cid res)
              (all_ids (e_pools s) ++ seq (e_next s) (length asgs)).
Proof.
  intros WF ND H.
  pose proof (exec_tick_ok_in_range _ _ _ _ _ H) as [_ Ra].
  unfold exec_tick in H.
  destruct (negb _); [discriminate|].
  inv_bind H as [[[w next] ps] res0] eqn K. inversion H; subst. cbn [e_next e_pools].
  apply pools_tick_ids in K; [|exact ND]. destruct K as (-> & Hids & P).
  rewrite (routing_count a_pool (e_pools s) asgs WF Ra) in *.
  split; [reflexivity|]. split.
  - unfold pools_wf in *. rewrite Hids, WF.
    rewrite <- (map_length p_id ps), Hids, map_length. reflexivity.
  - replace (e_next s + length asgs - e_next s) with (length asgs) in P by lia. exact P.
Qed.

Corollary exec_step_ledger C s ss asgs s' res :
  pools_wf (e_pools s) ->
  (forall p, In p (e_pools s) -> NoDup (map c_id (p_active p))) ->
  exec_step C s ss asgs = Ok (s', res) ->
  e_next s' = e_next s + length asgs /\
  pools_wf (e_pools s') /\
  Permutation (all_ids (e_pools s') ++ map r_cid res)
              (all_ids (e_pools s) ++ seq (e_next s) (length asgs)).
Proof.
  intros WF ND H. apply exec_step_inv in H. destruct H as (w & _ & H).
  apply exec_tick_ledger in H; auto.
Qed.

(* ---------- histories ---------- *)

Inductive reach_hist (C : cfg) (s0 : estate) : estate -> list result -> Prop :=
| rh_init : reach_hist C s0 s0 []
| rh_step s h ss asgs s' res :
    reach_hist C s0 s h -> exec_step C s ss asgs = Ok (s', res) ->
    reach_hist C s0 s' (h ++ res).

(* the same with the number of accepted assignments *)
Inductive reach_count (C : cfg) (s0 : estate) : estate -> list result -> nat -> Prop :=
| rc_init : reach_count C s0 s0 [] 0
| rc_step s h n ss asgs s' res :
    reach_count C s0 s h n -> exec_step C s ss asgs = Ok (s', res) ->
    reach_count C s0 s' (h ++ res) (n + length asgs).

Lemma reach_count_hist C s0 s h n : reach_count C s0 s h n -> reach_hist C s0 s h.
Proof. induction 1; econstructor; eauto. Qed.

Lemma reach_hist_count C s0 s h : reach_hist C s0 s h -> exists n, reach_count C s0 s h n.
Proof.
  induction 1 as [|s h ss asgs s' res R [n IH] E].
  - exists 0. constructor.
  - exists (n + length asgs). econstructor; eauto.
Qed.

(* the master invariant: the ids of the containers in the pools together with the ids of the
   delivered results are exactly 0 .. e_next-1, each once *)
Definition ledger_wf (s : estate) (h : list result) : Prop :=
  pools_wf (e_pools s) /\
  Permutation (all_ids (e_pools s) ++ map r_cid h) (seq 0 (e_next s)).

Lemma all_ids_init C n cpu ram : all_ids (e_pools (init_estate C n cpu ram)) = [].
Proof.
  unfold init_estate, all_ids. cbn [e_pools]. induction (seq 0 n) as [|i t IH]; [reflexivity|].
  cbn [map flat_map]. rewrite IH. reflexivity.
Qed.

Lemma NoDup_flat_map_in {A B} (f : A -> list B) l x :
  NoDup (flat_map f l) -> In x l -> NoDup (f x).
Proof.
  induction l as [|h t IH]; intros N H; [destruct H|].
  cbn [flat_map] in N. destruct H as [->|H].
  - eapply NoDup_app_l; eauto.
  - apply IH; [eapply NoDup_app_r; eauto | exact H].
Qed.

Lemma ledger_wf_nodup s h :
  ledger_wf s h -> NoDup (all_ids (e_pools s) ++ map r_cid h).
Proof.
  intros [_ P]. eapply Permutation_NoDup; [apply Permutation_sym; exact P | apply seq_NoDup].
Qed.

Lemma ledger_wf_active_nodup s h p :
  ledger_wf s h -> In p (e_pools s) -> NoDup (pool_ids p) /\ NoDup (map c_id (p_active p)).
Proof.
  intros W Hp. apply ledger_wf_nodup in W. apply NoDup_app_l in W.
  pose proof (NoDup_flat_map_in _ _ _ W Hp) as N. split; [exact N|].
  unfold pool_ids, pool_conts in N. rewrite map_app in N. eapply NoDup_app_l; eauto.
Qed.

Theorem ledger_wf_reach C n cpu ram s h :
  reach_hist C (init_estate C n cpu ram) s h -> ledger_wf s h.
Proof.
  induction 1 as [|s h ss asgs s' res R IH E].
  - split; [apply pools_wf_init|]. rewrite all_ids_init. cbn. apply Permutation_refl.
  - pose proof IH as [WF P].
    apply exec_step_ledger in E; [|exact WF|].
    + destruct E as (En & WF' & P'). split; [exact WF'|].
      rewrite En, seq_app, map_app. cbn [plus].
      (* ids' ++ (rh ++ rres) ~ (ids' ++ rres) ++ rh *)
      eapply perm_trans.
      { rewrite app_assoc. apply Permutation_app_tail with (tl := map r_cid res).
        apply Permutation_refl. }
      rewrite <- app_assoc.
      eapply perm_trans.
      { apply Permutation_app_head. apply Permutation_app_comm. }
      rewrite app_assoc.
      eapply perm_trans; [apply Permutation_app_tail; exact P'|].
      rewrite <- app_assoc.
      eapply perm_trans.
      { apply Permutation_app_head. apply Permutation_app_comm. }
      rewrite app_assoc. apply Permutation_app_tail. exact P.
    + intros p Hp. apply (ledger_wf_active_nodup s h p IH Hp).
Qed.

Definition live_count (s : estate) : nat :=
  list_sum (map (fun p => length (p_active p) + length (p_suspending p)) (e_pools s)).
Definition suspended_count (s : estate) : nat :=
  list_sum (map (fun p => length (p_suspended p)) (e_pools s)).

Lemma all_ids_length ps :
  length (all_ids ps) =
  list_sum (map (fun p => length (p_active p) + length (p_suspending p)) ps) +
  list_sum (map (fun p => length (p_suspended p)) ps).
Proof.
  unfold all_ids. induction ps as [|p t IH]; [reflexivity|].
  cbn [flat_map map]. rewrite !list_sum_cons, app_length, IH.
  unfold pool_ids, pool_conts. rewrite map_length, !app_length. lia.
Qed.

(* L3: assignments = results (successes + failures) + live + suspended, at every time *)
Theorem ledger_inv C n cpu ram s h :
  reach_hist C (init_estate C n cpu ram) s h ->
  e_next s = length h + live_count s + suspended_count s.
Proof.
  intros R. apply ledger_wf_reach in R. destruct R as [_ P].
  apply Permutation_length in P.
  rewrite app_length, map_length, seq_length, all_ids_length in P.
  unfold live_count, suspended_count. lia.
Qed.

(* [e_next] is the number of accepted assignments *)
Theorem next_counts_assignments C n cpu ram s h k :
  reach_count C (init_estate C n cpu ram) s h k -> e_next s = k.
Proof.
  induction 1 as [|s h k ss asgs s' res R IH E]; [reflexivity|].
  pose proof (ledger_wf_reach _ _ _ _ _ _ (reach_count_hist _ _ _ _ _ R)) as W.
  apply exec_step_ledger in E.
  - destruct E as (En & _). lia.
  - apply W.
  - intros p Hp. apply (ledger_wf_active_nodup s h p W Hp).
Qed.

Corollary ledger_count C n cpu ram s h k :
  reach_count C (init_estate C n cpu ram) s h k ->
  k = length (filter (fun r => negb (r_err r)) h) + length (filter r_err h)
      + live_count s + suspended_count s.
Proof.
  intros R. pose proof (next_counts_assignments _ _ _ _ _ _ _ R) as E.
  apply reach_count_hist in R. apply ledger_inv in R.
  pose proof (Permutation_length (filter_split_perm r_err h)) as L. rewrite app_length in L. lia.
Qed.

(* the result of a container is delivered once *)
Theorem results_once C n cpu ram s h :
  reach_hist C (init_estate C n cpu ram) s h -> NoDup (map r_cid h).
Proof.
  intros R. apply ledger_wf_reach in R. apply ledger_wf_nodup in R. eapply NoDup_app_r; eauto.
Qed.

(* the id invariant: ids are below e_next and pairwise distinct across lists and pools *)
Theorem ids_fresh_distinct C n cpu ram s h :
  reach_hist C (init_estate C n cpu ram) s h ->
  NoDup (all_ids (e_pools s)) /\
  (forall i, In i (all_ids (e_pools s)) -> i < e_next s) /\
  (forall r, In r h -> r_cid r < e_next s).
Proof.
  intros R. apply ledger_wf_reach in R. pose proof (ledger_wf_nodup _ _ R) as N.
  destruct R as [_ P]. split; [eapply NoDup_app_l; eauto|]. split.
  - intros i Hi. assert (Hs : In i (seq 0 (e_next s))).
    { eapply Permutation_in; [exact P|]. apply in_or_app. left. exact Hi. }
    apply in_seq in Hs. lia.
  - intros r Hr. assert (Hs : In (r_cid r) (seq 0 (e_next s))).
    { eapply Permutation_in; [exact P|]. apply in_or_app. right. apply in_map. exact Hr. }
    apply in_seq in Hs. lia.
Qed.

Lemma in_all_ids ps p c :
  In p ps -> In c (pool_conts p) -> In (c_id c) (all_ids ps).
Proof.
  intros Hp Hc. unfold all_ids. apply in_flat_map. exists p. split; [exact Hp|].
  unfold pool_ids. apply in_map. exact Hc.
Qed.

(* a container still in a pool (running, suspending or suspended) has no result yet; in particular
   a suspension reports no result *)
Theorem present_not_in_results C n cpu ram s h p c :
  reach_hist C (init_estate C n cpu ram) s h ->
  In p (e_pools s) -> In c (pool_conts p) -> ~ In (c_id c) (map r_cid h).
Proof.
  intros R Hp Hc Hi. apply ledger_wf_reach in R. apply ledger_wf_nodup in R.
  exact (NoDup_app_disjoint _ _ _ R (in_all_ids _ _ _ Hp Hc) Hi).
Qed.

Corollary suspended_not_in_results C n cpu ram s h p c :
  reach_hist C (init_estate C n cpu ram) s h ->
  In p (e_pools s) -> In c (p_suspended p) -> ~ In (c_id c) (map r_cid h).
Proof.
  intros R Hp Hc. eapply present_not_in_results; eauto.
  unfold pool_conts. apply in_or_app. right. apply in_or_app. right. exact Hc.
Qed.

(* ====================================================================== *)
(* 4. the shape of a result                                               *)
(* ====================================================================== *)

(* "operators before _current_op_idx are COMPLETED" *)
Definition prefix_completed (w : world) (c : container) : Prop :=
  forall i, i < c_opidx c -> st_of w (nth i (c_ops c) 0) = Completed.

Definition ops_known (w : world) (c : container) : Prop :=
  forall o, In o (c_ops c) -> o < length (w_st w).

Definition success_shape (w : world) (ops : list nat) : Prop :=
  forall o, In o ops -> st_of w o = Completed.

Definition failure_shape (w : world) (ops : list nat) : Prop :=
  exists k, k < length ops /\
            (forall o, In o (firstn k ops) -> st_of w o = Completed) /\
            (forall o, In o (skipn k ops) -> st_of w o = Failed).

(* ---------- list helpers ---------- *)

Lemma In_firstn_nth {A} (d : A) : forall k l o,
  In o (firstn k l) -> exists i, i < k /\ i < length l /\ nth i l d = o.
Proof.
  induction k as [|k IH]; intros l o H; [destruct H|].
  destruct l as [|h t]; [destruct H|]. cbn [firstn] in H. destruct H as [<-|H].
  - exists 0. cbn. repeat split; lia.
  - destruct (IH _ _ H) as (i & H1 & H2 & H3). exists (S i). cbn. repeat split; auto; lia.
Qed.

Lemma nth_In_firstn {A} (d : A) : forall k l i,
  i < k -> i < length l -> In (nth i l d) (firstn k l).
Proof.
  induction k as [|k IH]; intros l i H1 H2; [lia|].
  destruct l as [|h t]; [cbn in H2; lia|]. cbn [firstn]. destruct i as [|i].
  - left. reflexivity.
  - right. cbn [nth]. apply IH; [lia | cbn in H2; lia].
Qed.

Lemma firstn_S_nth_error {A} : forall n (l : list A) x,
  nth_error l n = Some x -> firstn (S n) l = firstn n l ++ [x].
Proof.
  induction n as [|n IH]; intros l x H; destruct l as [|h t]; try discriminate.
  - cbn in H. inversion H; subst. reflexivity.
  - cbn [nth_error] in H. cbn [firstn app]. f_equal. apply (IH t x H).
Qed.

Lemma Forall_Forall2 {A B} (P : A -> Prop) (R : A -> B -> Prop) (Q : B -> Prop) l l' :
  (forall a b, P a -> R a b -> Q b) -> Forall P l -> Forall2 R l l' -> Forall Q l'.
Proof.
  intros H F F2. induction F2 as [|a b l l' Hab F2 IH]; [constructor|].
  inversion F; subst. constructor; eauto.
Qed.

(* ---------- the container invariant ---------- *)

(* [P] is any property of the operator list that one wants to carry along (the list never
   changes): [fun _ => True] for the success half, [NoDup] for the failure half. *)
Definition cinv (P : list nat -> Prop) (w : world) (c : container) : Prop :=
  P (c_ops c) /\
  (forall o, In o (firstn (c_opidx c) (c_ops c)) -> st_of w o = Completed) /\
  ops_known w c /\
  (c_completed c = false -> c_opidx c < length (c_ops c)) /\
  (c_completed c = true -> c_error c = false -> success_shape w (c_ops c)) /\
  (c_completed c = true -> c_error c = true -> NoDup (c_ops c) -> failure_shape w (c_ops c)).

Lemma cinv_ext P w c c' :
  c_ops c' = c_ops c -> c_opidx c' = c_opidx c -> c_completed c' = c_completed c ->
  c_error c' = c_error c -> cinv P w c -> cinv P w c'.
Proof.
  intros E1 E2 E3 E4. unfold cinv, ops_known. rewrite E1, E2, E3, E4. tauto.
Qed.

Lemma cinv_steps P S w w' c : steps_na S w w' -> cinv P w c -> cinv P w' c.
Proof.
  intros St (HP & Hpre & Hk & Hlt & Hs & Hf).
  pose proof (steps_na_length _ _ _ St) as L.
  split; [exact HP|]. split; [|split; [|split; [exact Hlt|split]]].
  - intros o Ho. eapply steps_na_completed; eauto.
  - intros o Ho. rewrite L. apply Hk. exact Ho.
  - intros H1 H2 o Ho. eapply steps_na_completed; eauto. apply Hs; auto.
  - intros H1 H2 H3. destruct (Hf H1 H2 H3) as (k & K1 & K2 & K3). exists k.
    split; [exact K1|]. split; intros o Ho.
    + eapply steps_na_completed; eauto.
    + eapply failed_stays; eauto.
Qed.

Lemma Forall_cinv_steps P S w w' l :
  steps_na S w w' -> Forall (cinv P w) l -> Forall (cinv P w') l.
Proof.
  intros St F. eapply Forall_impl; [|exact F]. intros c. apply cinv_steps with (S := S). exact St.
Qed.

Lemma ctick_cinv P C w cons c w' cons' c' :
  ctick C w cons c = Ok (w', cons', c') -> cinv P w c -> cinv P w' c'.
Proof.
  intros H I. apply ctick_cases in H.
  destruct H as [(_ & Eops & _) [H|[H|H]]].
  - destruct H as (_ & -> & _ & ->). exact I.
  - destruct H as (_ & _ & -> & _ & ->). revert I. apply cinv_ext; reflexivity.
  - destruct H as (Hc & _ & op & w1 & Hn & Hw1 & H).
    assert (S1 : steps_na (cf_static C) w w1).
    { destruct Hw1 as [[_ ->]|[_ T]]; [constructor|].
      eapply steps_na_one; eauto. discriminate. }
    apply (cinv_steps P _ _ _ _ S1) in I.
    destruct H as [(-> & Ei & Ec & Ee & _)|(T & Ei & _ & _ & H)].
    + revert I. apply cinv_ext; congruence.
    + assert (S2 : steps_na (cf_static C) w1 w').
      { eapply steps_na_one; eauto. discriminate. }
      pose proof (cinv_steps P _ _ _ _ S2 I) as (HP & Hpre & Hk & Hlt & _ & _).
      assert (Hin : In op (c_ops c)) by (eapply nth_error_In; eauto).
      assert (Hop : st_of w' op = Completed).
      { eapply transition_st_same; eauto. destruct I as (_ & _ & Hk1 & _). apply Hk1. exact Hin. }
      assert (Hpre' : forall o, In o (firstn (S (c_opidx c)) (c_ops c)) -> st_of w' o = Completed).
      { intros o Ho. rewrite (firstn_S_nth_error _ _ _ Hn) in Ho. apply in_app_or in Ho.
        destruct Ho as [Ho|[<-|[]]]; [apply Hpre; exact Ho | exact Hop]. }
      assert (Hidx : c_opidx c < length (c_ops c)).
      { apply nth_error_Some. rewrite Hn. discriminate. }
      unfold cinv, ops_known. rewrite Eops, Ei.
      split; [exact HP|]. split; [exact Hpre'|]. split; [exact Hk|].
      destruct H as [(El & Ec & Ee & _)|(El & Ec & Ee & _)].
      * split; [intros X; congruence|]. split; [|intros _ X; congruence].
        intros _ _ o Ho. apply Hpre'. rewrite El, firstn_all. exact Ho.
      * split; [intros _; lia|]. split; intros X; congruence.
Qed.

Lemma ckill_cinv P C w cons c w' cons' c' :
  ckill C w cons c = Ok (w', cons', c') -> cinv P w c -> cinv P w' c'.
Proof.
  intros H I. pose proof (ckill_steps_na _ _ _ _ _ _ _ H) as St.
  apply ckill_ok in H. destruct H as (Hc & -> & _ & T).
  pose proof (cinv_steps P _ _ _ _ St I) as (HP & Hpre & Hk & _ & _ & _).
  destruct I as (_ & _ & Hk0 & Hlt & _ & _). specialize (Hlt Hc).
  unfold cinv, ops_known. cbn [dead c_ops c_opidx c_completed c_error].
  split; [exact HP|]. split; [exact Hpre|]. split; [exact Hk|].
  split; [discriminate|]. split; [discriminate|].
  intros _ _ ND. exists (c_opidx c). split; [exact Hlt|]. split; [exact Hpre|].
  assert (NDs : NoDup (skipn (c_opidx c) (c_ops c))).
  { rewrite <- (firstn_skipn (c_opidx c) (c_ops c)) in ND. eapply NoDup_app_r; eauto. }
  assert (Rs : forall o, In o (skipn (c_opidx c) (c_ops c)) -> o < length (w_st w)).
  { intros o Ho. apply Hk0. rewrite <- (firstn_skipn (c_opidx c) (c_ops c)).
    apply in_or_app. right. exact Ho. }
  destruct (transition_all_spec _ _ _ _ _ NDs Rs T) as (A1 & _ & _). exact A1.
Qed.

Lemma tick_active_cinv P C act w cons w' cons' act' :
  tick_active C w cons act = Ok (w', cons', act') ->
  Forall (cinv P w) act -> Forall (cinv P w') act'.
Proof.
  intros H F. apply tick_active_spec in H. destruct H as (_ & _ & F2).
  eapply Forall_Forall2; [|exact F | exact F2].
  intros a b Ia (wa & ca & wb & cb & Sa & K & Sb). cbv beta in Ia.
  eapply cinv_steps; [exact Sb|]. eapply ctick_cinv; [exact K|].
  eapply cinv_steps; [exact Sa | exact Ia].
Qed.

Lemma kill_over_limit_cinv P C : forall act w cons w' cons' act',
  kill_over_limit C w cons act = Ok (w', cons', act') ->
  Forall (cinv P w) act -> Forall (cinv P w') act'.
Proof.
  induction act as [|c t IH]; intros w cons w' cons' act' H F.
  - cbn in H. inversion H; subst. constructor.
  - cbn [kill_over_limit] in H.
    inv_bind H as [[w1 cons1] c1] eqn K. inv_bind H as [[w2 cons2] t'] eqn R.
    inversion H; subst. inversion F as [|x l Ic Ft]; subst.
    assert (S1 : steps_na (cf_static C) w w1 /\ cinv P w1 c1).
    { destruct (Qltb (c_ram c) (c_mem c)).
      - split; [eapply ckill_steps_na; eauto | eapply ckill_cinv; eauto].
      - inversion K; subst. split; [constructor | exact Ic]. }
    destruct S1 as [S1 I1].
    pose proof (kill_over_limit_facts _ _ _ _ _ _ _ R) as [S2 _].
    constructor.
    + eapply cinv_steps; eauto.
    + eapply IH; [exact R|]. eapply Forall_cinv_steps; eauto.
Qed.

Lemma kill_until_fits_cinv P C max : forall order w cons act w' cons' act',
  kill_until_fits C max w cons act order = Ok (w', cons', act') ->
  Forall (cinv P w) act -> Forall (cinv P w') act'.
Proof.
  induction order as [|cid t IH]; intros w cons act w' cons' act' H F.
  - cbn in H. inversion H; subst. exact F.
  - cbn [kill_until_fits] in H. destruct (Qleb cons max).
    + inversion H; subst. exact F.
    + destruct (find_container cid act) as [c|] eqn:Fc; [|discriminate].
      inv_bind H as [[w1 cons1] c1] eqn K.
      apply find_container_some in Fc. destruct Fc as [Hin _].
      pose proof (ckill_steps_na _ _ _ _ _ _ _ K) as S1.
      assert (I1 : cinv P w1 c1).
      { eapply ckill_cinv; [exact K|]. rewrite Forall_forall in F. apply F. exact Hin. }
      eapply IH; [exact H|]. apply Forall_forall. intros x Hx.
      apply replace_container_In in Hx. destruct Hx as [->|Hx]; [exact I1|].
      eapply cinv_steps; [exact S1|]. rewrite Forall_forall in F. apply F. exact Hx.
Qed.

Lemma oom_killer_cinv P C max w cons act w' cons' act' :
  oom_killer C max w cons act = Ok (w', cons', act') ->
  Forall (cinv P w) act -> Forall (cinv P w') act'.
Proof.
  intros H F. apply oom_killer_inv in H. destruct H as (w1 & cons1 & act1 & K1 & K2).
  eapply kill_until_fits_cinv; [exact K2|]. eapply kill_over_limit_cinv; eauto.
Qed.

Lemma opcount_ok_pos C a : opcount_ok C a = true -> 0 < length (a_ops a).
Proof.
  unfold opcount_ok. destruct (cf_multi C); intros H.
  - apply Nat.leb_le in H. lia.
  - apply Nat.eqb_eq in H. lia.
Qed.

(* the pool tick preserves the invariant of the active containers; the results are the completed
   ones among them *)
Lemma pool_tick_cinv P C w next p ss asgs w' next' p' res :
  Forall (cinv P w) (p_active p) ->
  (forall a, In a asgs -> P (a_ops a) /\ forall o, In o (a_ops a) -> o < length (w_st w)) ->
  pool_tick C w next p ss asgs = Ok (w', next', p', res) ->
  steps_na (cf_static C) w w' /\
  exists act5,
    Forall (cinv P w') act5 /\
    p_active p' = filter (fun c => negb (c_completed c)) act5 /\
    res = map (result_of (p_id p)) (filter c_completed act5).
Proof.
  intros F Ha H. apply pool_tick_inv in H.
  destruct H as (w1 & act1 & sing1 & cons1 & acpu2 & aram2 & act2 & w3 & sing3 & w4 & cons4 & act4
                 & cons5 & act5 & E1 & E2 & E3 & E4 & E5 & -> & ->).
  apply phase1_facts in E1. destruct E1 as (S1 & I1 & _).
  apply phase2_spec in E2. destruct E2 as (_ & -> & _ & _ & Hoc).
  apply tick_suspending_spec in E3. destruct E3 as [_ S3].
  pose proof (tick_active_spec _ _ _ _ _ _ _ E4) as (S4 & _ & _).
  pose proof (oom_killer_facts _ _ _ _ _ _ _ _ E5) as (S5 & _).
  assert (S13 : steps_na (cf_static C) w w3) by (eapply steps_na_trans; eauto).
  split.
  { eapply steps_na_trans; [exact S13|]. eapply steps_na_trans; eauto. }
  exists act5. split; [|split; reflexivity].
  eapply oom_killer_cinv; [exact E5|]. eapply tick_active_cinv; [exact E4|].
  apply Forall_app. split.
  - eapply Forall_cinv_steps; [exact S13|]. apply Forall_forall. intros x Hx.
    rewrite Forall_forall in F. apply F. apply I1. exact Hx.
  - apply Forall_forall. intros x Hx. apply new_containers_In in Hx.
    destruct Hx as (a & Hin & Eo & _ & _ & Ei & Ec & _ & Ee).
    destruct (Ha a Hin) as [HPa Hka].
    unfold cinv, ops_known. rewrite Eo, Ei, Ec, Ee. cbn [firstn].
    split; [exact HPa|]. split; [intros o []|]. split.
    { intros o Ho. rewrite (steps_na_length _ _ _ S13). apply Hka. exact Ho. }
    split; [intros _; apply (opcount_ok_pos C); apply Hoc; exact Hin|].
    split; discriminate.
Qed.

Lemma prefix_completed_firstn w c :
  prefix_completed w c -> forall o, In o (firstn (c_opidx c) (c_ops c)) -> st_of w o = Completed.
Proof.
  intros H o Ho. apply (In_firstn_nth 0) in Ho. destruct Ho as (i & H1 & _ & <-). apply H. exact H1.
Qed.

Lemma firstn_prefix_completed w c :
  c_opidx c <= length (c_ops c) ->
  (forall o, In o (firstn (c_opidx c) (c_ops c)) -> st_of w o = Completed) -> prefix_completed w c.
Proof. intros L H i Hi. apply H. apply nth_In_firstn; lia. Qed.

(* what is assumed of the active containers on entry, and holds again on exit *)
Definition active_ok (w : world) (c : container) : Prop :=
  prefix_completed w c /\ c_opidx c < length (c_ops c) /\ c_completed c = false /\ ops_known w c.

Lemma active_ok_cinv (P : list nat -> Prop) w c : P (c_ops c) -> active_ok w c -> cinv P w c.
Proof.
  intros HP (H1 & H2 & H3 & H4). split; [exact HP|].
  split; [apply prefix_completed_firstn; exact H1|]. split; [exact H4|].
  split; [intros _; exact H2|]. split; intros X; congruence.
Qed.

Lemma cinv_active_ok (P : list nat -> Prop) w c : cinv P w c -> c_completed c = false -> active_ok w c /\ P (c_ops c).
Proof.
  intros (HP & H1 & H2 & H3 & _) Hc. specialize (H3 Hc). split; [|exact HP].
  split; [apply firstn_prefix_completed; [lia | exact H1]|]. auto.
Qed.

(* L4, success half: no assumption on the operator lists *)
Theorem result_shape_success C w next p ss asgs w' next' p' res :
  (forall c, In c (p_active p) -> active_ok w c) ->
  (forall a o, In a asgs -> In o (a_ops a) -> o < length (w_st w)) ->
  pool_tick C w next p ss asgs = Ok (w', next', p', res) ->
  (forall r, In r res -> r_err r = false -> forall o, In o (r_ops r) -> st_of w' o = Completed) /\
  (forall c, In c (p_active p') -> active_ok w' c).
Proof.
  intros Hact Ha H.
  apply (pool_tick_cinv (fun _ => True)) in H.
  - destruct H as (_ & act5 & F & -> & ->). rewrite Forall_forall in F. split.
    + intros r Hr He o Ho. apply in_map_iff in Hr. destruct Hr as [c5 [<- Hc5]].
      apply filter_In in Hc5. destruct Hc5 as [Hc5 Hcc].
      destruct (F c5 Hc5) as (_ & _ & _ & _ & Hs & _). apply Hs; assumption.
    + intros c Hc. apply filter_In in Hc. destruct Hc as [Hc Hcc]. apply negb_true_iff in Hcc.
      apply (cinv_active_ok _ _ _ (F c Hc) Hcc).
  - apply Forall_forall. intros c Hc. apply active_ok_cinv; [exact I | apply Hact; exact Hc].
  - intros a Hin. split; [exact I|]. intros o Ho. eapply Ha; eauto.
Qed.

(* L4, both halves: operator lists without repetition *)
Theorem result_shape C w next p ss asgs w' next' p' res :
  (forall c, In c (p_active p) -> active_ok w c /\ NoDup (c_ops c)) ->
  (forall a, In a asgs -> NoDup (a_ops a) /\ forall o, In o (a_ops a) -> o < length (w_st w)) ->
  pool_tick C w next p ss asgs = Ok (w', next', p', res) ->
  (forall r, In r res ->
     (r_err r = false -> forall o, In o (r_ops r) -> st_of w' o = Completed) /\
     (r_err r = true ->
      exists k, k < length (r_ops r) /\
                (forall o, In o (firstn k (r_ops r)) -> st_of w' o = Completed) /\
                (forall o, In o (skipn k (r_ops r)) -> st_of w' o = Failed))) /\
  (forall c, In c (p_active p') -> active_ok w' c /\ NoDup (c_ops c)).
Proof.
  intros Hact Ha H.
  apply (pool_tick_cinv (@NoDup nat)) in H.
  - destruct H as (_ & act5 & F & -> & ->). rewrite Forall_forall in F. split.
    + intros r Hr. apply in_map_iff in Hr. destruct Hr as [c5 [<- Hc5]].
      apply filter_In in Hc5. destruct Hc5 as [Hc5 Hcc].
      destruct (F c5 Hc5) as (ND & _ & _ & _ & Hs & Hf). cbn [result_of r_err r_ops].
      split; [intros He; apply Hs; assumption | intros He; apply Hf; assumption].
    + intros c Hc. apply filter_In in Hc. destruct Hc as [Hc Hcc]. apply negb_true_iff in Hcc.
      apply (cinv_active_ok _ _ _ (F c Hc) Hcc).
  - apply Forall_forall. intros c Hc. destruct (Hact c Hc) as [Ho ND].
    apply active_ok_cinv; assumption.
  - exact Ha.
Qed.

(* "a result is a success exactly when all of the container's operators completed" *)
Corollary success_iff_all_completed C w next p ss asgs w' next' p' res r :
  (forall c, In c (p_active p) -> active_ok w c /\ NoDup (c_ops c)) ->
  (forall a, In a asgs -> NoDup (a_ops a) /\ forall o, In o (a_ops a) -> o < length (w_st w)) ->
  pool_tick C w next p ss asgs = Ok (w', next', p', res) ->
  In r res ->
  (r_err r = false <-> forall o, In o (r_ops r) -> st_of w' o = Completed).
Proof.
  intros Hact Ha H Hr. destruct (result_shape _ _ _ _ _ _ _ _ _ _ Hact Ha H) as [Hs _].
  destruct (Hs r Hr) as [H1 H2]. split; [exact H1|].
  intros Hall. destruct (r_err r) eqn:E; [|reflexivity]. exfalso.
  destruct (H2 eq_refl) as (k & Hk & _ & Hf).
  assert (Hin : In (nth k (r_ops r) 0) (skipn k (r_ops r))).
  { rewrite <- (firstn_skipn k (r_ops r)) at 1.
    rewrite app_nth2 by (rewrite firstn_length; lia).
    rewrite firstn_length, Nat.min_l by lia. rewrite Nat.sub_diag.
    destruct (skipn k (r_ops r)) as [|x l] eqn:Es.
    - exfalso. assert (L : length (skipn k (r_ops r)) = 0) by (rewrite Es; reflexivity).
      rewrite skipn_length in L. lia.
    - left. reflexivity. }
  pose proof (Hf _ Hin) as F1.
  assert (F2 : st_of w' (nth k (r_ops r) 0) = Completed).
  { apply Hall. apply nth_In. exact Hk. }
  congruence.
Qed.

(* ====================================================================== *)
(* 5. one assignment, one container, one outcome                          *)
(* ====================================================================== *)

(* every accepted assignment (they are numbered 0 .. e_next-1 in the order of acceptance) is at any
   time either a container in exactly one list of exactly one pool, or a delivered result -- never
   both, never twice (see also [ids_fresh_distinct] and [results_once]) *)
Theorem every_assignment_accounted C n cpu ram s h i :
  reach_hist C (init_estate C n cpu ram) s h -> i < e_next s ->
  (In i (all_ids (e_pools s)) /\ ~ In i (map r_cid h)) \/
  (~ In i (all_ids (e_pools s)) /\ In i (map r_cid h)).
Proof.
  intros R Hi. apply ledger_wf_reach in R. pose proof (ledger_wf_nodup _ _ R) as ND.
  destruct R as [_ P].
  assert (Hin : In i (all_ids (e_pools s) ++ map r_cid h)).
  { eapply Permutation_in; [apply Permutation_sym; exact P|]. apply in_seq. lia. }
  apply in_app_or in Hin. destruct Hin as [Hin|Hin]; [left | right].
  - split; [exact Hin|]. intros X. exact (NoDup_app_disjoint _ _ _ ND Hin X).
  - split; [|exact Hin]. intros X. exact (NoDup_app_disjoint _ _ _ ND X Hin).
Qed.

(* the container carries the assignment, and the result carries the container *)
Definition same_static (c c' : container) : Prop :=
  c_id c' = c_id c /\ c_ops c' = c_ops c /\ c_cpu c' = c_cpu c /\ c_ram c' = c_ram c /\
  c_prio c' = c_prio c.

Lemma same_static_refl c : same_static c c.
Proof. unfold same_static. auto. Qed.

Lemma same_static_dead c : same_static c (dead c).
Proof. unfold same_static. auto. Qed.

Lemma same_static_trans a b c : same_static a b -> same_static b c -> same_static a c.
Proof. unfold same_static. intros H1 H2. repeat split; (etransitivity; [apply H2 | apply H1]). Qed.

Lemma kill_until_fits_static C max : forall order w cons act w' cons' act' x',
  kill_until_fits C max w cons act order = Ok (w', cons', act') ->
  In x' act' -> exists x, In x act /\ same_static x x'.
Proof.
  induction order as [|cid t IH]; intros w cons act w' cons' act' x' H Hx.
  - cbn in H. inversion H; subst. exists x'. split; [exact Hx | apply same_static_refl].
  - cbn [kill_until_fits] in H. destruct (Qleb cons max).
    + inversion H; subst. exists x'. split; [exact Hx | apply same_static_refl].
    + destruct (find_container cid act) as [c|] eqn:F; [|discriminate].
      inv_bind H as [[w1 cons1] c1] eqn K.
      apply ckill_ok in K. destruct K as (_ & -> & _).
      destruct (IH _ _ _ _ _ _ _ H Hx) as (x & Hin & Ss).
      apply replace_container_In in Hin. destruct Hin as [->|Hin].
      * exists c. split; [apply (find_container_some _ _ _ F)|].
        eapply same_static_trans; [apply same_static_dead | exact Ss].
      * exists x. auto.
Qed.

Lemma oom_killer_static C max w cons act w' cons' act' x' :
  oom_killer C max w cons act = Ok (w', cons', act') ->
  In x' act' -> exists x, In x act /\ same_static x x'.
Proof.
  intros H Hx. apply oom_killer_inv in H. destruct H as (w1 & cons1 & act1 & K1 & K2).
  destruct (kill_until_fits_static _ _ _ _ _ _ _ _ _ _ K2 Hx) as (x1 & H1 & S1).
  apply kill_over_limit_spec in K1. destruct K1 as (-> & _).
  apply in_map_iff in H1. destruct H1 as [x [E Hin]]. exists x. split; [exact Hin|].
  eapply same_static_trans; [|exact S1]. rewrite <- E. unfold kill_when.
  destruct (over_limit x); [apply same_static_dead | apply same_static_refl].
Qed.

Lemma Forall2_In_right {A B} (R : A -> B -> Prop) l l' b :
  Forall2 R l l' -> In b l' -> exists a, In a l /\ R a b.
Proof.
  intros F. induction F as [|x y l l' Hxy F IH]; intros H; [destruct H|].
  destruct H as [<-|H].
  - exists x. split; [left; reflexivity | exact Hxy].
  - destruct (IH H) as (a & Ha & Ra). exists a. split; [right; exact Ha | exact Ra].
Qed.

(* every result of a pool tick is the result of one container -- active before the tick or created
   in it -- and reports that container's id, operators, allocation and priority; a result for a new
   container reports exactly what the assignment asked for *)
Theorem result_of_one_container C w next p ss asgs w' next' p' res r :
  pool_tick C w next p ss asgs = Ok (w', next', p', res) -> In r res ->
  r_pool r = p_id p /\
  exists c, (In c (p_active p) \/ In c (new_containers next asgs)) /\
            r_cid r = c_id c /\ r_ops r = c_ops c /\ r_cpu r = c_cpu c /\ r_ram r = c_ram c /\
            r_prio r = c_prio c.
Proof.
  intros H Hr. apply pool_tick_inv in H.
  destruct H as (w1 & act1 & sing1 & cons1 & acpu2 & aram2 & act2 & w3 & sing3 & w4 & cons4 & act4
                 & cons5 & act5 & E1 & E2 & _ & E4 & E5 & _ & ->).
  apply in_map_iff in Hr. destruct Hr as [c5 [<- Hc5]]. apply filter_In in Hc5.
  destruct Hc5 as [Hc5 _]. split; [reflexivity|].
  destruct (oom_killer_static _ _ _ _ _ _ _ _ _ E5 Hc5) as (c4 & Hc4 & S45).
  apply tick_active_spec in E4. destruct E4 as (_ & _ & F2).
  destruct (Forall2_In_right _ _ _ _ F2 Hc4) as (c2 & Hc2 & wa & ca & wb & cb & _ & K & _).
  apply ctick_cases in K. destruct K as [(K1 & K2 & K3 & K4 & K5 & _) _].
  apply phase1_facts in E1. destruct E1 as (_ & I1 & _).
  apply phase2_spec in E2. destruct E2 as (_ & -> & _).
  destruct S45 as (S1 & S2 & S3 & S4 & S5).
  exists c2. split.
  - apply in_app_or in Hc2. destruct Hc2 as [Hc2|Hc2]; [left; apply I1; exact Hc2 | right; exact Hc2].
  - cbn [result_of r_cid r_ops r_cpu r_ram r_prio]. repeat split; congruence.
Qed.

Lemma new_containers_nth asgs : forall next j a0,
  j < length asgs ->
  exists c, In c (new_containers next asgs) /\ c_id c = next + j /\
            c_ops c = a_ops (nth j asgs a0) /\ c_cpu c = a_cpu (nth j asgs a0) /\
            c_ram c = a_ram (nth j asgs a0) /\ c_prio c = a_prio (nth j asgs a0).
Proof.
  induction asgs as [|a t IH]; intros next j a0 Hj; [cbn in Hj; lia|].
  destruct j as [|j].
  - exists (new_container next (a_ops a) (a_cpu a) (a_ram a) (a_prio a)).
    split; [left; reflexivity|]. cbn. repeat split; lia.
  - cbn [length] in Hj. destruct (IH (S next) j a0 ltac:(lia)) as (c & Hc & E1 & E2).
    exists c. split; [right; exact Hc|]. split; [lia | exact E2].
Qed.

