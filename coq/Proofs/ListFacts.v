(* Facts about the list helpers of Model/Types.v *)
From Coq Require Import List Arith Lia Bool ZArith.
Import ListNotations.
From Eudoxia Require Import Model.Types.

Lemma set_nth_length {A} (l : list A) i v : length (set_nth l i v) = length l.
Proof. revert i; induction l as [|h t IH]; intros [|i]; simpl; auto. Qed.

Lemma nth_set_nth_same {A} (l : list A) i v d : i < length l -> nth i (set_nth l i v) d = v.
Proof.
  revert i; induction l as [|h t IH]; intros [|i] H; simpl in *; try lia; auto.
  apply IH; lia.
Qed.

Lemma nth_set_nth_other {A} (l : list A) i j v d : i <> j -> nth j (set_nth l i v) d = nth j l d.
Proof.
  revert i j; induction l as [|h t IH]; intros [|i] [|j] H; simpl; auto; try congruence.
Qed.

Lemma set_nth_out {A} (l : list A) i v : length l <= i -> set_nth l i v = l.
Proof.
  revert i; induction l as [|h t IH]; intros [|i] H; simpl in *; auto; try lia.
  f_equal; apply IH; lia.
Qed.

Lemma memb_In x l : memb x l = true <-> In x l.
Proof.
  unfold memb. rewrite existsb_exists. split.
  - intros [y [Hy He]]. apply Nat.eqb_eq in He. subst. exact Hy.
  - intros H. exists x. split; [exact H | apply Nat.eqb_refl].
Qed.

Lemma memb_false x l : memb x l = false <-> ~ In x l.
Proof.
  split; intros H.
  - intros Hin. apply memb_In in Hin. congruence.
  - destruct (memb x l) eqn:E; [apply memb_In in E; contradiction | reflexivity].
Qed.

Lemma ostate_eqb_eq a b : ostate_eqb a b = true <-> a = b.
Proof. destruct a, b; simpl; split; intros H; try reflexivity; try discriminate. Qed.

Lemma ostate_eqb_refl a : ostate_eqb a a = true.
Proof. destruct a; reflexivity. Qed.

Lemma ostate_eqb_neq a b : ostate_eqb a b = false <-> a <> b.
Proof.
  split; intros H.
  - intros ->. rewrite ostate_eqb_refl in H. discriminate.
  - destruct (ostate_eqb a b) eqn:E; [apply ostate_eqb_eq in E; contradiction | reflexivity].
Qed.
