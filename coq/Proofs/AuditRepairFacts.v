(* Repairs of the weaknesses found by audit C (AUDIT_C.md, P1 P2 P4 P5).

   P2. The run-level kill theorems of C04 and C11 bound the containers "as they enter the killer" ([act4]) by an
       existential that was tied to the run only through the results.  Here they are restated with the LINK: the
       commands of the pool tick are the pool's share of the commands of the simulator tick, and
         act2 = (the running containers of the pool that no command of the tick suspends, in order)
                ++ (the containers this tick's assignments create, ids from the counter),
         act4 = map (cstep C) act2       ([cstep C c]: the state of [c] after this tick's [ctick], SimTimelineFacts).
   P1. "without overcommit a container that stays within its allocation is never killed", and its converse about
       REAL containers: without overcommit every failed result of a tick is the result of a running-or-new
       container of that pool whose state after its [ctick] exceeds its allocation.
   P4. the runner of kind 25 answers [bad_input] outside its DOMAIN (a negative configured probability, or a
       non-positive float sum). This is NOT numpy's validation (audit D P1, see section 7): a domain restriction.
   P5. the file theorems of C13 with the hypothesis 0 < tps; the runner of kind 44 refuses tps <= 0 (a domain
       restriction too: Python raises for tps = 0 only).
   Audit D (AUDIT_D.md P2, P5): [sim_kill_justified_linked] now also carries the victim link of [oom_killer_spec]
   (map c_id vs = firstn k (victims_order C act1), act5 = map (kill_if (map c_id vs)) act1, NoDup of the ids) and
   [incl res (tl_results lg)]; the negations of the audit-D witnesses are in AuditRepairFacts2.v. *)
From Coq Require Import List Arith ZArith QArith Qabs Bool Lia Lqa Sorted.
Import ListNotations.
From Eudoxia Require Import Num.Rnd64 Model.Types Model.Dag Model.Lifecycle Model.Timing Model.Container
  Model.Pool Model.Executor Model.Sched Model.Simulator
  Proofs.ListFacts Proofs.OomFacts Proofs.LedgerFacts Proofs.MemoryFacts Proofs.ConserveFacts Proofs.ExecLifeFacts
  Proofs.PriorityPoolRunFacts Proofs.SimReachFacts Proofs.SimCorollaryFacts Proofs.SimTimelineFacts.
Close Scope Q_scope.
Close Scope Z_scope.

(* ------------------------------------------------------------------------------------------ *)
(* 1. the lists of a pool tick, exactly                                                          *)
(* ------------------------------------------------------------------------------------------ *)

Lemma filter_all {A} (l : list A) : filter (fun _ => true) l = l.
Proof. induction l as [|x t IH]; cbn; [reflexivity|rewrite IH; reflexivity]. Qed.

Lemma filter_twice {A} (f g : A -> bool) (l : list A) :
  filter g (filter f l) = filter (fun x => f x && g x) l.
Proof.
  induction l as [|x t IH]; cbn [filter]; [reflexivity|].
  destruct (f x); cbn [filter andb]; [destruct (g x)|]; rewrite IH; reflexivity.
Qed.

(* [not_named ss c]: no suspension command of [ss] names container [c] *)
Definition not_named (ss : list susp) (c : container) : bool := negb (memb (c_id c) (map su_cid ss)).

Lemma not_named_spec ss c : not_named ss c = true <-> ~ In (c_id c) (map su_cid ss).
Proof.
  unfold not_named, memb. rewrite negb_true_iff. split.
  - intros H X. assert (E : existsb (Nat.eqb (c_id c)) (map su_cid ss) = true).
    { apply existsb_exists. exists (c_id c). split; [exact X|apply Nat.eqb_refl]. }
    congruence.
  - intros H. destruct (existsb _ _) eqn:E; [|reflexivity]. exfalso. apply H.
    apply existsb_exists in E. destruct E as (x & Hx & E). apply Nat.eqb_eq in E. subst x. exact Hx.
Qed.

(* the successful suspensions of a tick remove exactly the named containers, the others keep their order *)
Lemma apply_suspends_filter C : forall ss w act sing w' act' sing',
  apply_suspends C w act sing ss = Ok (w', act', sing') ->
  act' = filter (fun c => negb (memb (c_id c) (map su_cid ss))) act.
Proof.
  induction ss as [|s t IH]; intros w act sing w' act' sing' H; cbn [apply_suspends] in H.
  - inversion H; subst. cbn. symmetry. apply filter_all.
  - destruct (find_container (su_cid s) act) as [c0|]; [|discriminate].
    sbok H r1 K. destruct r1 as [w1 c1]. apply IH in H. rewrite H. unfold remove_container.
    rewrite filter_twice. apply filter_ext. intros c. cbn [map]. unfold memb. cbn [existsb].
    rewrite negb_orb. reflexivity.
Qed.

Lemma phase1_kept C w p ss w1 act1 sing1 cons1 :
  MemoryFacts.phase1 C w p ss = Ok (w1, act1, sing1, cons1) ->
  act1 = filter (fun c => negb (memb (c_id c) (map su_cid ss))) (p_active p) /\
  cons1 = match ss with [] => p_consumed p | _ :: _ => reconcile C act1 end.
Proof.
  intros H. apply LedgerFacts.phase1_inv in H.
  destruct H as [(-> & _ & -> & _ & ->)|(Hne & _ & A & ->)].
  - split; [cbn; symmetry; apply filter_all|reflexivity].
  - split; [eapply apply_suspends_filter; eauto|]. destruct ss; [congruence|reflexivity].
Qed.

(* every container of the active phase is ticked once: the list after the phase is the list of their [cstep]s *)
Lemma tick_active_csteps C act w cons w' cons' act' :
  tick_active C w cons act = Ok (w', cons', act') -> act' = map (cstep C) act.
Proof.
  intros H. pose proof (tick_active_spec _ _ _ _ _ _ _ H) as (_ & _ & F). clear H.
  induction F as [|c c' l l' (wa & ca & wb & cb & _ & T & _) F IH]; [reflexivity|].
  cbn [map]. rewrite (ctick_cstep _ _ _ _ _ _ _ T), IH. reflexivity.
Qed.

(* the link between the pool before the tick and the containers that enter the killer *)
Lemma tick_lists C w next p ss asgs w1 act1 sing1 cons1 next' acpu2 aram2 act2 w3 w4 cons4 act4 :
  MemoryFacts.phase1 C w p ss = Ok (w1, act1, sing1, cons1) ->
  MemoryFacts.phase2 C next p act1 asgs = Ok (next', acpu2, aram2, act2) ->
  tick_active C w3 cons1 act2 = Ok (w4, cons4, act4) ->
  act2 = filter (fun c => negb (memb (c_id c) (map su_cid ss))) (p_active p) ++ new_containers next asgs /\
  act4 = map (cstep C) act2 /\
  cons1 = match ss with
          | [] => p_consumed p
          | _ :: _ => reconcile C (filter (fun c => negb (memb (c_id c) (map su_cid ss))) (p_active p))
          end.
Proof.
  intros H1 H2 H4. apply phase1_kept in H1. destruct H1 as [E1 E1'].
  apply LedgerFacts.phase2_spec in H2. destruct H2 as (_ & E2 & _).
  split; [rewrite E2, E1; reflexivity|]. split; [eapply tick_active_csteps; eauto|].
  rewrite E1', E1. reflexivity.
Qed.

(* an element of [act2]: a running container that is not suspended in this tick, or a created one *)
Lemma in_act2 (ss : list susp) (act : list container) next asgs c :
  In c (filter (fun c => negb (memb (c_id c) (map su_cid ss))) act ++ new_containers next asgs) <->
  (In c act /\ ~ In (c_id c) (map su_cid ss)) \/ In c (new_containers next asgs).
Proof.
  rewrite in_app_iff, filter_In. fold (not_named ss c). rewrite not_named_spec. tauto.
Qed.

(* ------------------------------------------------------------------------------------------ *)
(* 2. P2, pool level: [SimCorollaryFacts.kill_justified_oc] with the link                        *)
(* ------------------------------------------------------------------------------------------ *)

Lemma kill_justified_linked C w next p ss asgs w' next' p' res :
  (forall x, (cf_rnd C x == x)%Q) ->
  pool_tick C w next p ss asgs = Ok (w', next', p', res) ->
  MemoryFacts.usage_ok p -> MemoryFacts.ids_ok next p -> all_running p ->
  (cf_overcommit C = false -> ram_ok p) -> (forall a, In a asgs -> (0 <= a_ram a)%Q) ->
  exists act2 w3 cons3 w4 cons4 act4 w1 cons1 act1 cons5 act5 vs k,
    act2 = filter (fun c => negb (memb (c_id c) (map su_cid ss))) (p_active p) ++ new_containers next asgs /\
    act4 = map (cstep C) act2 /\
    tick_active C w3 cons3 act2 = Ok (w4, cons4, act4) /\
    NoDup (map c_id act4) /\
    oom_killer C (p_max_ram p) w4 cons4 act4 = Ok (w', cons5, act5) /\
    p_active p' = filter (fun c => negb (c_completed c)) act5 /\
    res = map (result_of (p_id p)) (filter c_completed act5) /\
    kill_over_limit C w4 cons4 act4 = Ok (w1, cons1, act1) /\
    act1 = map (kill_when over_limit) act4 /\
    k <= length (victims_order C act1) /\
    map c_id vs = firstn k (victims_order C act1) /\
    act5 = map (kill_if (map c_id vs)) act1 /\
    (forall id, In id (ids_killed act1 act5) <-> In id (map c_id vs)) /\
    (cons4 == sumQ (map c_mem act4))%Q /\ (cons1 == sumQ (map c_mem act1))%Q /\
    (vs <> [] -> (p_max_ram p < cons1)%Q /\ cf_overcommit C = true) /\
    Forall (fun v => In v act4 /\ c_completed v = false /\
                     (c_mem v <= c_ram v)%Q /\ (0 < c_mem v)%Q) vs /\
    forall r, In r res -> r_err r = true ->
      exists c, In c act4 /\ c_completed c = false /\ r = result_of (p_id p) (dead c) /\
        ((c_ram c < c_mem c)%Q
         \/
         cf_overcommit C = true /\
         exists j, nth_error vs j = Some c /\
                   (p_max_ram p < cons1 - sumQ (map c_mem (firstn j vs)))%Q).
Proof.
  intros Ex H U I A R Hasg.
  pose proof H as H0.
  apply MemoryFacts.pool_tick_view in H. destruct H.
  destruct (tick_lists _ _ _ _ _ _ _ _ _ _ _ _ _ _ _ _ _ _ tv_p1 tv_p2 tv_p4) as (L2 & L4 & _).
  destruct (act4_ids _ _ _ _ _ _ _ _ _ _ _ _ _ _ _ _ _ _ I tv_p1 tv_p2 tv_p4) as (_ & ND & _).
  pose proof (act4_no_failed _ _ _ _ _ _ _ _ _ _ _ _ _ _ _ _ _ _ A tv_p1 tv_p2 tv_p4) as NF.
  destruct (oom_killer_spec _ _ _ _ _ _ _ _ ND tv_p5)
    as (wk & consk & actk & k & vs & K1 & Ek & Hkl & Hids & E5 & Hkilled & Hvs & _ & _ & Htr & _).
  pose proof (kill_over_limit_spec _ _ _ _ _ _ _ K1) as (_ & Hover & _).
  rewrite Forall_forall in Hover, Hvs.
  assert (NDk : NoDup (map c_id actk)) by (rewrite Ek, map_kill_when_ids; exact ND).
  assert (Hvs4 : forall v, In v vs ->
            In v act4 /\ c_completed v = false /\ (c_mem v <= c_ram v)%Q /\ (0 < c_mem v)%Q).
  { intros v Hv. destruct (Hvs v Hv) as [Hin Sc]. apply scorable_spec in Sc. destruct Sc as [Sc1 Sc2].
    rewrite Ek in Hin. destruct (in_map_kill_when_alive _ _ _ Hin Sc1) as [H4 Ho].
    apply Qltb_false in Ho. auto. }
  destruct (usage_chain C Ex _ _ _ _ _ _ _ _ _ _ _ _ _ _ _ _ _ _ _ _ U tv_p1 tv_p2 tv_p4 tv_p5)
    as (_ & H4 & _).
  pose proof (kill_over_limit_usage C Ex _ _ _ _ _ _ K1) as Hk.
  assert (Hcons1 : (consk == sumQ (map c_mem actk))%Q) by lra.
  assert (Hgt : vs <> [] -> (p_max_ram p < consk)%Q).
  { intros Hne. destruct vs as [|v0 vs0]; [congruence|].
    pose proof (kill_trace_exact C Ex _ _ _ Htr 0) as T. cbn in T.
    assert (L : 0 < S (length vs0)) by lia. specialize (T L). lra. }
  assert (Hoc : vs <> [] -> cf_overcommit C = true).
  { intros Hne. destruct (cf_overcommit C) eqn:Ho; [reflexivity|exfalso].
    specialize (R eq_refl). specialize (Hgt Hne).
    destruct (ram_chain _ _ _ _ _ _ _ _ _ _ H0 I (proj1 R)) as [_ Hentry].
    specialize (Hentry _ _ _ _ _ _ _ _ _ _ _ tv_p1 tv_p2 tv_p4).
    destruct (act4_ram_bound _ _ _ _ _ _ _ _ _ _ _ _ _ _ _ _ _ _ Ho R Hasg tv_p1 tv_p2 tv_p4)
      as (Ha2 & Hn4 & Hn1).
    assert (Hs1 : (0 <= sumQ (map c_ram sing1))%Q) by (apply MemoryFacts.sumQ_nonneg; exact Hn1).
    assert (Hle : (sumQ (map c_mem actk) <= sumQ (map c_ram act4))%Q).
    { rewrite Ek, map_map. apply sumQ_map_le. intros c Hc. unfold kill_when.
      destruct (over_limit c) eqn:O; [cbn; apply Hn4; apply in_map; exact Hc | apply Qltb_false; exact O]. }
    lra. }
  exists act2, w3, cons1, w4, cons4, act4, wk, consk, actk, cons5, act5, vs, k.
  split; [exact L2|]. split; [exact L4|].
  split; [exact tv_p4|]. split; [exact ND|].
  split; [exact tv_p5|]. split; [exact tv_active|]. split; [exact tv_res|].
  split; [exact K1|]. split; [exact Ek|].
  split; [exact Hkl|]. split; [exact Hids|]. split; [rewrite Hids; exact E5|].
  split; [intros id; rewrite Hids; apply Hkilled|].
  split; [exact H4|]. split; [exact Hcons1|].
  split; [intros Hne; split; [apply Hgt|apply Hoc]; exact Hne|].
  split; [apply Forall_forall; exact Hvs4|].
  intros r Hr Herr. rewrite tv_res in Hr. apply in_map_iff in Hr. destruct Hr as (c5 & <- & Hc5).
  apply filter_In in Hc5. destruct Hc5 as [Hc5 Hcomp5]. cbn [r_err result_of] in Herr.
  rewrite E5 in Hc5. apply in_map_iff in Hc5. destruct Hc5 as (ck & E & Hck).
  pose proof Hck as Hck'. rewrite Ek in Hck'. apply in_map_iff in Hck'.
  destruct Hck' as (c4 & E4 & Hc4). subst ck.
  destruct (over_limit c4) eqn:O.
  - exists c4. split; [exact Hc4|]. split; [apply Hover; assumption|].
    split.
    + rewrite <- E. rewrite (proj1 (kill_when_hit over_limit c4 O)).
      unfold kill_if, kill_when. destruct (memb _ _); reflexivity.
    + left. apply over_limit_spec. exact O.
  - rewrite (kill_when_other over_limit c4 O) in E.
    destruct (memb (c_id c4) (firstn k (victims_order C actk))) eqn:M.
    + apply memb_In in M. rewrite (kill_if_hit _ _ M) in E.
      rewrite <- Hids in M. apply in_map_iff in M. destruct M as (v & Ev & Hv).
      assert (Hc4k : In c4 actk).
      { rewrite Ek. rewrite <- (kill_when_other over_limit c4 O). apply in_map. exact Hc4. }
      assert (Evc : v = c4).
      { apply (NoDup_ids_inj actk); auto. apply Hvs. exact Hv. }
      subst v. destruct (Hvs4 c4 Hv) as (_ & Hc0 & _).
      exists c4. split; [exact Hc4|]. split; [exact Hc0|]. split; [rewrite <- E; reflexivity|].
      right. split; [apply Hoc; intros X; rewrite X in Hv; destruct Hv|].
      destruct (In_nth_error _ _ Hv) as [j Hj]. exists j. split; [exact Hj|].
      apply (kill_trace_exact C Ex _ _ _ Htr). apply nth_error_Some. congruence.
    + exfalso. apply memb_false in M. rewrite (kill_if_miss _ _ M) in E. subst c5.
      rewrite (NF c4 Hc4 Hcomp5) in Herr. discriminate.
Qed.

(* ------------------------------------------------------------------------------------------ *)
(* 3. P2 and P1 for every tick of every run                                                      *)
(* ------------------------------------------------------------------------------------------ *)

(* [SimCorollaryFacts.sim_tick_result_pool] with one more clause: the results of the pool are results of the tick *)
Lemma sim_tick_result_pool_incl C a t s newp s' lg r :
  sim_tick C a t s newp = Ok (s', lg) -> In r (tl_results lg) ->
  exists w0 i p p' res,
    mk_assignments C (e_world (sm_exec s)) (tl_asgs lg) = Ok w0 /\
    nth_error (e_pools (sm_exec s)) i = Some p /\ nth_error (e_pools (sm_exec s')) i = Some p' /\
    In r res /\ incl res (tl_results lg) /\
    ptick C (tl_susp lg) (tl_asgs lg) w0 (e_next (sm_exec s)) (e_world (sm_exec s')) p (p', res).
Proof.
  intros H Hr. destruct (sim_tick_pools _ _ _ _ _ _ _ H) as (w0 & xs & M & F & E1 & E2 & _).
  rewrite E2 in Hr. apply in_flat_map in Hr. destruct Hr as ([p' res] & Hx & Hr). cbn [snd] in Hr.
  destruct (Forall2_in_r' _ _ _ F _ Hx) as (i & p & A1 & A2 & A3).
  exists w0, i, p, p', res. split; [exact M|]. split; [exact A1|].
  split; [rewrite E1, nth_error_map, A2; reflexivity|]. split; [exact Hr|]. split; [|exact A3].
  rewrite E2. intros x Hx'. apply in_flat_map. exists (p', res). split; [exact Hx|exact Hx'].
Qed.

Section Sim.
Variable C : cfg.
Variable a : algo.
Variables (np : nat) (cpu : Z) (ram : Q).
Hypothesis Ex : forall x, (cf_rnd C x == x)%Q.
Hypothesis SN : script_nonneg C.
Hypothesis Hram : (0 <= ram)%Q.

(* P2 (C04): every OOM failure reported in any tick of any run is justified, and the containers the
   justification speaks about are the containers of the pool. Audit D (P2, P5): [vs], [next], [res] are tied to the
   run as in [sim_kills_linked] - distinct ids in [act4], the ids of [vs] are the first [k] of the candidate order,
   [act5] is [act1] with exactly [vs] killed, and the results of the pool are results of the tick *)
Theorem sim_kill_justified_linked t s newp s' lg :
  sim_reach C a 0%Z (init_sim C np cpu ram) t s ->
  sim_tick C a t s newp = Ok (s', lg) ->
  forall r, In r (tl_results lg) -> r_err r = true ->
  exists i p p' w next w' next' res,
    let ss := filter (fun x => (su_pool x =? Z.of_nat (p_id p))%Z) (tl_susp lg) in
    let asgs := filter (fun x => (a_pool x =? Z.of_nat (p_id p))%Z) (tl_asgs lg) in
    nth_error (e_pools (sm_exec s)) i = Some p /\ nth_error (e_pools (sm_exec s')) i = Some p' /\
    e_next (sm_exec s) <= next /\
    pool_tick C w next p ss asgs = Ok (w', next', p', res) /\ In r res /\ incl res (tl_results lg) /\
    exists act2 w3 cons3 w4 cons4 act4 w1 cons1 act1 cons5 act5 vs k,
      act2 = filter (fun c => negb (memb (c_id c) (map su_cid ss))) (p_active p) ++ new_containers next asgs /\
      act4 = map (cstep C) act2 /\
      tick_active C w3 cons3 act2 = Ok (w4, cons4, act4) /\
      NoDup (map c_id act4) /\
      oom_killer C (p_max_ram p) w4 cons4 act4 = Ok (w', cons5, act5) /\
      p_active p' = filter (fun c => negb (c_completed c)) act5 /\
      res = map (result_of (p_id p)) (filter c_completed act5) /\
      kill_over_limit C w4 cons4 act4 = Ok (w1, cons1, act1) /\
      act1 = map (kill_when over_limit) act4 /\
      k <= length (victims_order C act1) /\
      map c_id vs = firstn k (victims_order C act1) /\
      act5 = map (kill_if (map c_id vs)) act1 /\
      (forall id, In id (ids_killed act1 act5) <-> In id (map c_id vs)) /\
      (cons4 == sumQ (map c_mem act4))%Q /\ (cons1 == sumQ (map c_mem act1))%Q /\
      (vs <> [] -> (p_max_ram p < cons1)%Q /\ cf_overcommit C = true) /\
      Forall (fun v => In v act4 /\ c_completed v = false /\
                       (c_mem v <= c_ram v)%Q /\ (0 < c_mem v)%Q) vs /\
      exists c, In c act4 /\ c_completed c = false /\ r = result_of (p_id p) (dead c) /\
        ((c_ram c < c_mem c)%Q
         \/
         cf_overcommit C = true /\
         exists j, nth_error vs j = Some c /\
                   (p_max_ram p < cons1 - sumQ (map c_mem (firstn j vs)))%Q).
Proof.
  intros R T r Hr Herr.
  destruct (sim_tick_result_pool_incl _ _ _ _ _ _ _ _ T Hr)
    as (w0 & i & p & p' & res & M & Hi & Hi' & Hin & Hinc & P).
  destruct P as (w & n & w' & n' & Ln & _ & _ & PT). cbn [fst snd] in PT.
  pose proof (sim_pool_inv C a np cpu ram Ex SN Hram _ _ R) as J. rewrite Forall_forall in J.
  pose proof (MemoryFacts.pool_inv_mono C _ _ p Ln (J p (nth_error_In _ _ Hi))) as (U & I & A & _ & _ & _ & _ & RO).
  assert (Hasg : forall x, In x (mine_a p (tl_asgs lg)) -> (0 <= a_ram x)%Q).
  { intros x Hx. apply filter_In in Hx. apply Qlt_le_weak. eapply mk_assignments_ram; [exact M|tauto]. }
  destruct (kill_justified_linked _ _ _ _ _ _ _ _ _ _ Ex PT U I A RO Hasg)
    as (act2 & w3 & cons3 & w4 & cons4 & act4 & w1 & cons1 & act1 & cons5 & act5 & vs & k & B).
  destruct B as (B1 & B2 & B3 & B3' & B4 & B5 & B6 & B7 & B8 & B8a & B8b & B8c & B8d & B9 & B10 & B11 & B12 & B13).
  exists i, p, p', w, n, w', n', res. cbv zeta.
  split; [exact Hi|]. split; [exact Hi'|]. split; [exact Ln|]. split; [exact PT|]. split; [exact Hin|].
  split; [exact Hinc|].
  exists act2, w3, cons3, w4, cons4, act4, w1, cons1, act1, cons5, act5, vs, k.
  repeat (split; [assumption|]). apply B13; assumption.
Qed.

(* P1, converse direction: without overcommit every failed result of a tick is the result of a real
   running-or-new container [c] of that pool whose state after its [ctick] exceeds its allocation *)
Theorem sim_failure_is_own_limit_without_overcommit t s newp s' lg :
  sim_reach C a 0%Z (init_sim C np cpu ram) t s ->
  sim_tick C a t s newp = Ok (s', lg) ->
  cf_overcommit C = false ->
  forall r, In r (tl_results lg) -> r_err r = true ->
  exists i p next c,
    nth_error (e_pools (sm_exec s)) i = Some p /\ e_next (sm_exec s) <= next /\
    (In c (p_active p) /\
     ~ In (c_id c) (map su_cid (filter (fun x => (su_pool x =? Z.of_nat (p_id p))%Z) (tl_susp lg)))
     \/ In c (new_containers next (filter (fun x => (a_pool x =? Z.of_nat (p_id p))%Z) (tl_asgs lg)))) /\
    r = result_of (p_id p) (dead (cstep C c)) /\
    c_completed (cstep C c) = false /\
    (c_ram c < c_mem (cstep C c))%Q.
Proof.
  intros R T Ho r Hr Herr.
  destruct (sim_kill_justified_linked _ _ _ _ _ R T r Hr Herr)
    as (i & p & p' & w & next & w' & next' & res & Hi & _ & Ln & _ & _ & _ & B). cbv zeta in B.
  destruct B as (act2 & w3 & cons3 & w4 & cons4 & act4 & w1 & cons1 & act1 & cons5 & act5 & vs & k & B).
  destruct B as (L2 & L4 & _ & _ & _ & _ & _ & _ & _ & _ & _ & _ & _ & _ & _ & _ & _ &
                 c4 & Hc4 & Hc0 & Er & [Hl|[Hoc _]]);
    [|congruence].
  rewrite L4 in Hc4. apply in_map_iff in Hc4. destruct Hc4 as (c & <- & Hc).
  rewrite L2 in Hc. apply in_act2 in Hc.
  exists i, p, next, c. split; [exact Hi|]. split; [exact Ln|]. split; [exact Hc|].
  split; [exact Er|]. split; [exact Hc0|].
  destruct (cstep_static C c) as (_ & _ & _ & Eram & _). rewrite <- Eram. exact Hl.
Qed.

End Sim.

(* P2 (C11), any rounding *)
Theorem sim_kills_linked C a np cpu ram t s newp s' lg i p :
  sim_reach C a 0%Z (init_sim C np cpu ram) t s ->
  sim_tick C a t s newp = Ok (s', lg) ->
  nth_error (e_pools (sm_exec s)) i = Some p ->
  exists p' res next act2 w3 cons3 w4 cons4 act4 w5 cons5 act5,
    let ss := filter (fun x => (su_pool x =? Z.of_nat (p_id p))%Z) (tl_susp lg) in
    let asgs := filter (fun x => (a_pool x =? Z.of_nat (p_id p))%Z) (tl_asgs lg) in
    let kept := filter (fun c => negb (memb (c_id c) (map su_cid ss))) (p_active p) in
    nth_error (e_pools (sm_exec s')) i = Some p' /\ p_id p' = p_id p /\ p_max_ram p' = p_max_ram p /\
    incl res (tl_results lg) /\
    e_next (sm_exec s) <= next /\
    act2 = kept ++ new_containers next asgs /\
    cons3 = match ss with [] => p_consumed p | _ :: _ => reconcile C kept end /\
    tick_active C w3 cons3 act2 = Ok (w4, cons4, act4) /\
    act4 = map (cstep C) act2 /\
    NoDup (map c_id act4) /\
    oom_killer C (p_max_ram p) w4 cons4 act4 = Ok (w5, cons5, act5) /\
    p_active p' = filter (fun c => negb (c_completed c)) act5 /\
    res = map (result_of (p_id p)) (filter c_completed act5) /\
    exists w1 cons1 act1 k vs,
      kill_over_limit C w4 cons4 act4 = Ok (w1, cons1, act1) /\
      act1 = map (kill_when over_limit) act4 /\
      k <= length (victims_order C act1) /\
      map c_id vs = firstn k (victims_order C act1) /\
      act5 = map (kill_if (firstn k (victims_order C act1))) act1 /\
      (forall id, In id (ids_killed act1 act5) <-> In id (firstn k (victims_order C act1))) /\
      Forall (fun v => In v act1 /\ scorable v = true) vs /\
      (forall v x, In v vs -> In x act1 -> scorable x = true ->
                   ~ In (c_id x) (ids_killed act1 act5) ->
                   (score C x <= score C v)%Q /\ ~ (score C v < score C x)%Q) /\
      cons5 = fold_left (cons_after C) vs cons1 /\
      Forall (fun q => Qle_bool q (p_max_ram p) = false) (kill_trace C cons1 vs) /\
      (k = length (victims_order C act1) \/ Qle_bool cons5 (p_max_ram p) = true).
Proof.
  intros R T Hi.
  destruct (sim_tick_pool_at _ _ _ _ _ _ _ _ _ T Hi) as (w0 & p' & res & M & Hi' & Hinc & P).
  destruct P as (w & n & w' & n' & Ln & _ & _ & PT). cbn [fst snd] in PT.
  pose proof (reach_ids_ok _ _ _ _ _ (sim_reach_memory C a np cpu ram t s R)) as J.
  rewrite Forall_forall in J.
  pose proof (MemoryFacts.ids_ok_mono _ _ p Ln (J p (nth_error_In _ _ Hi))) as I.
  apply MemoryFacts.pool_tick_view in PT. destruct PT.
  destruct (tick_lists _ _ _ _ _ _ _ _ _ _ _ _ _ _ _ _ _ _ tv_p1 tv_p2 tv_p4) as (L2 & L4 & L1).
  destruct (act4_ids _ _ _ _ _ _ _ _ _ _ _ _ _ _ _ _ _ _ I tv_p1 tv_p2 tv_p4) as (_ & ND & _).
  exists p', res, n, act2, w3, cons1, w4, cons4, act4, w', cons5, act5. cbv zeta.
  split; [exact Hi'|]. split; [exact tv_id|]. split; [exact tv_max|]. split; [exact Hinc|].
  split; [exact Ln|]. split; [exact L2|]. split; [exact L1|]. split; [exact tv_p4|]. split; [exact L4|].
  split; [exact ND|]. split; [exact tv_p5|]. split; [exact tv_active|]. split; [exact tv_res|].
  exact (oom_killer_spec _ _ _ _ _ _ _ _ ND tv_p5).
Qed.

(* ------------------------------------------------------------------------------------------ *)
(* 4. P1: without overcommit a container that stays within its allocation is never killed        *)
(*    (proved by audit C, AuditExamplesC.Repair; moved here)                                     *)
(* ------------------------------------------------------------------------------------------ *)

Lemma pool_tick_within_alloc_survives C w next p ss asgs w' next' p' res c :
  (forall x, (cf_rnd C x == x)%Q) ->
  cf_overcommit C = false ->
  pool_tick C w next p ss asgs = Ok (w', next', p', res) ->
  MemoryFacts.usage_ok p -> MemoryFacts.ids_ok next p -> all_running p -> ram_ok p ->
  (forall a, In a asgs -> (0 <= a_ram a)%Q) ->
  In c (p_active p) -> ~ In (c_id c) (map su_cid ss) ->
  c_completed (cstep C c) = false -> (c_mem (cstep C c) <= c_ram (cstep C c))%Q ->
  In (cstep C c) (p_active p').
Proof.
  intros Ex Ho H U I A R Hasg Hc Hn Hc0 Hle.
  destruct (ram_chain _ _ _ _ _ _ _ _ _ _ H I (proj1 R)) as [_ Hentry].
  apply MemoryFacts.pool_tick_view in H. destruct H.
  specialize (Hentry _ _ _ _ _ _ _ _ _ _ _ tv_p1 tv_p2 tv_p4).
  destruct (act4_ram_bound _ _ _ _ _ _ _ _ _ _ _ _ _ _ _ _ _ _ Ho R Hasg tv_p1 tv_p2 tv_p4)
    as (Ha2 & Hn4 & Hn1).
  destruct (usage_chain C Ex _ _ _ _ _ _ _ _ _ _ _ _ _ _ _ _ _ _ _ _ U tv_p1 tv_p2 tv_p4 tv_p5)
    as (_ & H4 & _).
  destruct (tick_lists _ _ _ _ _ _ _ _ _ _ _ _ _ _ _ _ _ _ tv_p1 tv_p2 tv_p4) as (L2 & L4 & _).
  assert (Hs1 : (0 <= sumQ (map c_ram sing1))%Q) by (apply MemoryFacts.sumQ_nonneg; exact Hn1).
  assert (Hmax : (sumQ (map c_ram act4) <= p_max_ram p)%Q) by lra.
  assert (Hn4' : forall x, In x act4 -> (0 <= c_ram x)%Q).
  { intros x Hx. apply Hn4. apply in_map. exact Hx. }
  destruct (oom_no_pool_kill _ _ _ _ _ _ _ _ Ex H4 Hn4' Hmax tv_p5) as (K & E5 & _).
  assert (Hc4 : In (cstep C c) act4).
  { rewrite L4. apply in_map. rewrite L2. apply in_act2. left. split; assumption. }
  rewrite tv_active. apply filter_In. split; [|rewrite Hc0; reflexivity].
  rewrite E5. apply Qltb_false in Hle. rewrite <- (kill_when_other over_limit (cstep C c) Hle).
  apply in_map. exact Hc4.
Qed.

Theorem sim_no_overcommit_within_alloc_never_killed : forall C a np cpu ram,
  (forall x, (cf_rnd C x == x)%Q) -> script_nonneg C -> (0 <= ram)%Q ->
  forall t s newp s' lg i p c,
  sim_reach C a 0%Z (init_sim C np cpu ram) t s ->
  sim_tick C a t s newp = Ok (s', lg) ->
  cf_overcommit C = false ->
  nth_error (e_pools (sm_exec s)) i = Some p -> In c (p_active p) ->
  (forall su, In su (tl_susp lg) -> su_cid su <> c_id c) ->
  c_completed (cstep C c) = false -> (c_mem (cstep C c) <= c_ram (cstep C c))%Q ->
  exists p', nth_error (e_pools (sm_exec s')) i = Some p' /\ In (cstep C c) (p_active p') /\
             forall r, In r (tl_results lg) -> r_cid r <> c_id c.
Proof.
  intros C a np cpu ram Ex SN Hram t s newp s' lg i p c R T Ho Hi Hc Hq Hc0 Hle.
  destruct (sim_tick_pool_at _ _ _ _ _ _ _ _ _ T Hi) as (w0 & p' & res & M & Hi' & _ & P).
  destruct P as (w & n & w' & n' & Ln & _ & _ & PT). cbn [fst snd] in PT.
  pose proof (sim_pool_inv C a np cpu ram Ex SN Hram _ _ R) as J. rewrite Forall_forall in J.
  pose proof (MemoryFacts.pool_inv_mono C _ _ p Ln (J p (nth_error_In _ _ Hi))) as (U & I & A & _ & _ & _ & _ & RO).
  assert (Hasg : forall x, In x (mine_a p (tl_asgs lg)) -> (0 <= a_ram x)%Q).
  { intros x Hx. apply filter_In in Hx. apply Qlt_le_weak. eapply mk_assignments_ram; [exact M|tauto]. }
  assert (Hn : ~ In (c_id c) (map su_cid (mine_s p (tl_susp lg)))).
  { intros X. apply in_map_iff in X. destruct X as (su & E & Hsu). apply filter_In in Hsu.
    apply (Hq su); tauto. }
  pose proof (pool_tick_within_alloc_survives _ _ _ _ _ _ _ _ _ _ c Ex Ho PT U I A (RO Ho) Hasg Hc Hn Hc0 Hle) as S.
  exists p'. split; [exact Hi'|]. split; [exact S|].
  intros r Hr E.
  pose proof (sim_tick_present_no_result C a np cpu ram _ _ _ _ _ _ _ _ R T Hi' S r Hr) as X.
  apply X. rewrite E. destruct (cstep_static C c) as (Eid & _). symmetry. exact Eid.
Qed.

(* ------------------------------------------------------------------------------------------ *)
(* 5. instances                                                                                  *)
(* ------------------------------------------------------------------------------------------ *)

(* P1: the naive run of Properties/C05.v Part 4 (SimTimelineExamples; RAM overcommit OFF). Container 1 (operators
   [1; 2], 8 GB) is created in tick 1. In tick 3 it is in the second tick of operator 1 at 1 GB: within its
   allocation, it runs on and nothing is reported. In tick 6 operator 2 asks for 100 GB: its state after the [ctick]
   of that tick exceeds the allocation, and the tick reports it as failed. *)
Module RepairExamples.
Import SimCorExamples SimTimelineExamples.

Lemma xC_exact : forall x, (cf_rnd xC x == x)%Q.
Proof. intros x. reflexivity. Qed.
Lemma xC_nonneg : script_nonneg xC.
Proof.
  intros op cpus m H. cbn in H.
  destruct (Nat.eqb op 0); [|destruct (Nat.eqb op 1)]; cbn in H; intuition (subst; lra).
Qed.

Definition x4 : sim := Eval vm_compute in ok_state x3 (sim_tick xC ANaive 3%Z x3 []).
Definition xlg3 : tick_log := Eval vm_compute in ok_log (sim_tick xC ANaive 3%Z x3 []).
Definition x5 : sim := Eval vm_compute in ok_state x4 (sim_tick xC ANaive 4%Z x4 []).
Definition x6 : sim := Eval vm_compute in ok_state x5 (sim_tick xC ANaive 5%Z x5 []).
Definition x7 : sim := Eval vm_compute in ok_state x6 (sim_tick xC ANaive 6%Z x6 []).
Definition xlg6 : tick_log := Eval vm_compute in ok_log (sim_tick xC ANaive 6%Z x6 []).
Lemma x_tick3 : sim_tick xC ANaive 3%Z x3 [] = Ok (x4, xlg3).
Proof. vm_compute. reflexivity. Qed.
Lemma x_tick4 : exists lg, sim_tick xC ANaive 4%Z x4 [] = Ok (x5, lg).
Proof. eexists. vm_compute. reflexivity. Qed.
Lemma x_tick5 : exists lg, sim_tick xC ANaive 5%Z x5 [] = Ok (x6, lg).
Proof. eexists. vm_compute. reflexivity. Qed.
Lemma x_tick6 : sim_tick xC ANaive 6%Z x6 [] = Ok (x7, xlg6).
Proof. vm_compute. reflexivity. Qed.

Lemma x_reach6 : sim_reach xC ANaive 0%Z (init_sim xC 1 4%Z 8%Q) 6%Z x6.
Proof.
  destruct x_tick4 as [lg4 T4]. destruct x_tick5 as [lg5 T5].
  exact (sr_step xC ANaive 0%Z x0 5%Z x5 [] x6 lg5
          (sr_step xC ANaive 0%Z x0 4%Z x4 [] x5 lg4
            (sr_step xC ANaive 0%Z x0 3%Z x3 [] x4 xlg3 x_reach3 x_tick3) T4) T5).
Qed.

Definition xp6 : pool := Eval vm_compute in hd (new_pool 0 0%Z 0%Q) (e_pools (sm_exec x6)).
Definition xc6 : container := Eval vm_compute in hd (new_container 0 [] 0%Z 0%Q Batch) (p_active xp6).
Definition xr6 : result := Eval vm_compute in
  hd {| r_cid := 9; r_ops := []; r_cpu := 0%Z; r_ram := 0%Q; r_prio := Batch; r_pool := 9; r_err := false |}
     (tl_results xlg6).
Lemma x_pool6 : nth_error (e_pools (sm_exec x6)) 0 = Some xp6.
Proof. vm_compute. reflexivity. Qed.

(* every hypothesis of [sim_no_overcommit_within_alloc_never_killed], tick 3, container 1; and its conclusion *)
Example never_killed_hyps :
  cf_overcommit xC = false /\
  sim_reach xC ANaive 0%Z (init_sim xC 1 4%Z 8%Q) 3%Z x3 /\
  sim_tick xC ANaive 3%Z x3 [] = Ok (x4, xlg3) /\
  nth_error (e_pools (sm_exec x3)) 0 = Some xp3 /\ In xc1 (p_active xp3) /\
  (forall su, In su (tl_susp xlg3) -> su_cid su <> c_id xc1) /\
  c_completed (cstep xC xc1) = false /\ (c_mem (cstep xC xc1) <= c_ram (cstep xC xc1))%Q /\
  (c_id xc1, Qred (c_mem (cstep xC xc1)), Qred (c_ram (cstep xC xc1))) = (1, 1%Q, 8%Q).
Proof.
  split; [reflexivity|]. split; [exact x_reach3|]. split; [exact x_tick3|]. split; [exact x_pool3|].
  split; [exact x_active3|]. split; [intros su Hsu; vm_compute in Hsu; destruct Hsu|].
  split; [vm_compute; reflexivity|]. split; [vm_compute; discriminate|]. vm_compute. reflexivity.
Qed.

Example never_killed_applies :
  exists p', nth_error (e_pools (sm_exec x4)) 0 = Some p' /\ In (cstep xC xc1) (p_active p') /\
             forall r, In r (tl_results xlg3) -> r_cid r <> c_id xc1.
Proof.
  destruct never_killed_hyps as (Ho & R & T & Hp & Hc & Hs & Hc0 & Hle & _).
  exact (sim_no_overcommit_within_alloc_never_killed xC ANaive 1 4%Z 8%Q xC_exact xC_nonneg ltac:(discriminate)
           3%Z x3 [] x4 xlg3 0 xp3 xc1 R T Ho Hp Hc Hs Hc0 Hle).
Qed.

(* every hypothesis of [sim_failure_is_own_limit_without_overcommit], tick 6: the failed result of container 1 *)
Example failure_hyps :
  cf_overcommit xC = false /\
  sim_reach xC ANaive 0%Z (init_sim xC 1 4%Z 8%Q) 6%Z x6 /\
  sim_tick xC ANaive 6%Z x6 [] = Ok (x7, xlg6) /\
  In xr6 (tl_results xlg6) /\ r_err xr6 = true /\
  (r_cid xr6, r_ops xr6, Qred (r_ram xr6), r_pool xr6) = (1, [1; 2], 8%Q, 0).
Proof.
  split; [reflexivity|]. split; [exact x_reach6|]. split; [exact x_tick6|].
  split; [left; reflexivity|]. split; reflexivity.
Qed.

(* the theorem applied, and what it delivers here: the running container 1 of pool 0, 100 GB against 8 GB *)
Example failure_applies :
  (exists i p next c,
     nth_error (e_pools (sm_exec x6)) i = Some p /\ e_next (sm_exec x6) <= next /\
     (In c (p_active p) /\
      ~ In (c_id c) (map su_cid (filter (fun x => (su_pool x =? Z.of_nat (p_id p))%Z) (tl_susp xlg6)))
      \/ In c (new_containers next (filter (fun x => (a_pool x =? Z.of_nat (p_id p))%Z) (tl_asgs xlg6)))) /\
     xr6 = result_of (p_id p) (dead (cstep xC c)) /\
     c_completed (cstep xC c) = false /\
     (c_ram c < c_mem (cstep xC c))%Q) /\
  nth_error (e_pools (sm_exec x6)) 0 = Some xp6 /\ In xc6 (p_active xp6) /\ tl_susp xlg6 = [] /\
  xr6 = result_of (p_id xp6) (dead (cstep xC xc6)) /\
  (c_id xc6, Qred (c_ram xc6), Qred (c_mem xc6), Qred (c_mem (cstep xC xc6))) = (1, 8%Q, 1%Q, 100%Q).
Proof.
  destruct failure_hyps as (Ho & R & T & Hr & He & _).
  split.
  - exact (sim_failure_is_own_limit_without_overcommit xC ANaive 1 4%Z 8%Q xC_exact xC_nonneg ltac:(discriminate)
             6%Z x6 [] x7 xlg6 R T Ho xr6 Hr He).
  - split; [exact x_pool6|]. split; [left; reflexivity|]. split; [reflexivity|].
    split; vm_compute; reflexivity.
Qed.

End RepairExamples.

(* P2: tick 0 of the witness run of Properties/C04.v and C11.v (overbook, RAM overcommit; two containers created in
   the tick, 6 GB of their 10 GB each; container 0 is the victim of the pool-level loop). Audit C satisfied the old
   bodies with a fabricated container 0 that "uses" 11 GB (C04: own-limit disjunct; C11: no pool-level victim).
   With the link this is impossible: four conjuncts of the new bodies already force the real figures. *)
Module LinkExamples.
Import SimCorExamples.

Definition kp : pool := Eval vm_compute in hd (new_pool 0 0%Z 0%Q) (e_pools (sm_exec k0)).
Definition kp' : pool := Eval vm_compute in hd (new_pool 0 0%Z 0%Q) (e_pools (sm_exec k1)).
Lemma k_pool0_is : nth_error (e_pools (sm_exec k0)) 0 = Some kp.
Proof. vm_compute. reflexivity. Qed.
Lemma k_pool1_is : nth_error (e_pools (sm_exec k1)) 0 = Some kp'.
Proof. vm_compute. reflexivity. Qed.

(* C04_sim_kill_justified: whatever pool, counter and lists the body is satisfied with on this tick, every
   container of [act4] uses 6 GB of its 10 GB: the own-limit disjunct is false of every candidate [c] *)
Example link_forces_real_memory :
  forall i p next act2 act4 c,
    nth_error (e_pools (sm_exec k0)) i = Some p ->
    act2 = filter (fun c => negb (memb (c_id c) (map su_cid
                     (filter (fun x => (su_pool x =? Z.of_nat (p_id p))%Z) (tl_susp klg0))))) (p_active p)
           ++ new_containers next (filter (fun x => (a_pool x =? Z.of_nat (p_id p))%Z) (tl_asgs klg0)) ->
    act4 = map (cstep Ck) act2 -> In c act4 ->
    (c_mem c == 6)%Q /\ (c_ram c == 10)%Q /\ ~ (c_ram c < c_mem c)%Q.
Proof.
  intros i p next act2 act4 c Hi E2 E4 Hc.
  assert (Ep : p = kp).
  { destruct i as [|i]; [vm_compute in Hi; inversion Hi; reflexivity|].
    vm_compute in Hi. destruct i; discriminate Hi. }
  subst p act4 act2. vm_compute in Hc.
  destruct Hc as [<-|[<-|[]]]; (split; [reflexivity|]); (split; [reflexivity|]);
    intros X; vm_compute in X; discriminate X.
Qed.

(* C11_sim_kills (pool 0 of this tick): the link, the two kill equations and the running list after the tick force
   a pool-level victim *)
Example link_forces_pool_level_victim :
  forall p' next act2 act4 act1 act5 k vs,
    nth_error (e_pools (sm_exec k1)) 0 = Some p' ->
    act2 = filter (fun c => negb (memb (c_id c) (map su_cid
                     (filter (fun x => (su_pool x =? Z.of_nat (p_id kp))%Z) (tl_susp klg0))))) (p_active kp)
           ++ new_containers next (filter (fun x => (a_pool x =? Z.of_nat (p_id kp))%Z) (tl_asgs klg0)) ->
    act4 = map (cstep Ck) act2 ->
    act1 = map (kill_when over_limit) act4 ->
    map c_id vs = firstn k (victims_order Ck act1) ->
    act5 = map (kill_if (firstn k (victims_order Ck act1))) act1 ->
    p_active p' = filter (fun c => negb (c_completed c)) act5 ->
    k <> 0 /\ vs <> [].
Proof.
  intros p' next act2 act4 act1 act5 k vs Hi E2 E4 E1 Ev E5 Ea.
  rewrite k_pool1_is in Hi. inversion Hi; subst p'. clear Hi.
  subst act5 act1 act4 act2.
  destruct k as [|k].
  - exfalso. vm_compute in Ea. discriminate Ea.
  - split; [discriminate|]. intros ->. vm_compute in Ev. discriminate Ev.
Qed.

End LinkExamples.

(* ------------------------------------------------------------------------------------------ *)
(* 6. P5: the file theorems of C13 on the domain of the constructor (0 < tps); kind 44 refuses   *)
(*    the rest                                                                                   *)
(* ------------------------------------------------------------------------------------------ *)
From Eudoxia Require Import Model.Codec Model.Csv Model.RunCsv Model.CsvLazy Model.Trace Model.TraceFile
  Model.RunTraceFile Proofs.CsvFacts Proofs.CsvLazyFacts Proofs.TraceFileFacts.

Module FilePos.

Theorem file_replay_is_replay : forall (rnd : Q -> Q) tps n rows ps, (0 < tps)%Z -> read_rows_c rows = inr ps ->
  file_replay_with rnd tps n rows =
    (map (select (file_pipelines rows ps)) (replay rnd tps (map pm_arr ps) n), None).
Proof. intros rnd tps n rows ps _. apply TraceFileFacts.file_replay_is_replay. Qed.

Theorem file_once_in_file_order : forall (rnd : Q -> Q) tps n rows ps, (0 < tps)%Z -> read_rows_c rows = inr ps ->
  exists m, m <= length ps /\
    concat (fst (file_replay_with rnd tps n rows)) = firstn m (file_pipelines rows ps) /\
    snd (file_replay_with rnd tps n rows) = None /\
    length (fst (file_replay_with rnd tps n rows)) = n.
Proof. intros rnd tps n rows ps _. apply TraceFileFacts.file_once_in_file_order. Qed.

Theorem file_malformed_replay : forall (rnd : Q -> Q) tps n rows e, (0 < tps)%Z -> read_rows_c rows = inl e ->
  let good := fst (file_replay_with rnd tps n (good_prefix rows)) in
  let delivered := fst (lazy_batches rows) in
  match delivered with
  | [] => file_replay_with rnd tps n rows = ([], Some e) /\ file_refusal_at rnd tps n rows = Some AtConstruction
  | _ :: _ =>
      exists T, T <= n /\ fst (file_replay_with rnd tps n rows) = firstn T good /\
        (T = n -> snd (file_replay_with rnd tps n rows) = None /\ file_refusal_at rnd tps n rows = None) /\
        (T < n -> snd (file_replay_with rnd tps n rows) = Some e /\
                  file_refusal_at rnd tps n rows = Some (AtTick T) /\
                  forall x, In x (last delivered []) -> In x (nth T good []))
  end.
Proof. intros rnd tps n rows e _. apply TraceFileFacts.file_malformed_replay. Qed.

Theorem file_malformed_never_silent : forall (rnd : Q -> Q) tps n rows e, (0 < tps)%Z ->
  read_rows_c rows = inl e ->
  fst (lazy_batches rows) <> [] ->
  length (concat (removelast (fst (lazy_batches rows)))) <
    length (concat (fst (file_replay_with rnd tps n (good_prefix rows)))) ->
  snd (file_replay_with rnd tps n rows) = Some e.
Proof. intros rnd tps n rows e _. apply TraceFileFacts.file_malformed_never_silent. Qed.

Theorem file_malformed_never_delivered : forall (rnd : Q -> Q) tps n rows e, (0 < tps)%Z ->
  read_rows_c rows = inl e ->
  exists ps mid, read_rows_c (good_prefix rows) = inr ps /\
    let l := file_pipelines (good_prefix rows) ps in
    l = concat (fst (file_replay_with rnd tps n rows)) ++ mid ++
        last (fst (lazy_batches rows)) [] ++ last (arrival_groups l) [].
Proof. intros rnd tps n rows e _. apply TraceFileFacts.file_malformed_never_delivered. Qed.

(* the runner of kind 44: the first integer of a case is ticks_per_second; a case with tps <= 0 is answered [-1].
   This is a domain restriction of the runner: WorkloadTrace.__init__ raises ZeroDivisionError for tps = 0 only;
   for tps < 0 Python does NOT raise. Kind 44 is driven with tps >= 1 only, so the refusal is never compared with
   the implementation (audit D, MINOR) *)
Theorem run_trace_file_refuses_nonpositive_tps : forall tps rest,
  (tps <= 0)%Z -> run_trace_file (tps :: rest) = bad_input.
Proof.
  intros tps rest H. unfold run_trace_file, run_dec.
  change ((dlet tps0 <- dZ; dlet n <- dnat; dlet rows <- dlist drow; dret (tps0, n, rows)) (tps :: rest))
    with ((dlet n <- dnat; dlet rows <- dlist drow; dret (tps, n, rows)) rest).
  unfold dbind at 1.
  destruct (dnat rest) as [[n l1]|]; [|reflexivity].
  unfold dbind at 1.
  destruct (dlist drow l1) as [[rows l2]|]; [|reflexivity].
  unfold dret. destruct l2; [|reflexivity].
  assert (E : (0 <? tps)%Z = false) by (apply Z.ltb_ge; exact H). rewrite E. reflexivity.
Qed.

(* ... and for 0 < tps its answer is the replay of the file the theorems above speak about *)
Theorem run_trace_file_answer : forall tps n rows l,
  run_dec (dlet tps <- dZ; dlet n <- dnat; dlet rows <- dlist drow; dret (tps, n, rows)) l = Some (tps, n, rows) ->
  (0 < tps)%Z ->
  run_trace_file l =
    eL (eL edelivered) (fst (file_replay tps n rows)) ++ esurfaced (surfaced_in rows (file_replay tps n rows)).
Proof.
  intros tps n rows l H Hp. unfold run_trace_file. rewrite H.
  assert (E : (0 <? tps)%Z = true) by (apply Z.ltb_lt; exact Hp). rewrite E. reflexivity.
Qed.

Example refuses_zero : run_trace_file [0; 2; 0]%Z = bad_input /\ run_trace_file [-3; 2; 0]%Z = bad_input.
Proof. split; apply run_trace_file_refuses_nonpositive_tps; lia. Qed.

End FilePos.

(* ------------------------------------------------------------------------------------------ *)
(* 7. P4: the DOMAIN of the runner of kind 25                                                    *)
(* ------------------------------------------------------------------------------------------ *)
(* The guard of [run_gen_u], [forallb (0 <=) user && 0 < fsum user], evaluated for EVERY input on the RAW triple, is
   NOT numpy's validation (audit D P1). Python divides by np.sum first (workload.py:89) and Generator.choice
   validates the QUOTIENTS, and only when a class is drawn:
     - (-1/4, -1/4, -1/2) normalises to (1/4, 1/4, 1/2) and is ACCEPTED by the real generator; the runner refuses;
     - (-1/2, 1, 1/2) raises in numpy ("not non-negative") - but only at the first class draw: with
       num_pipelines = 0 or no tick nothing raises; the runner refuses always;
     - the other way: 3 x 2^1023 overflows np.sum, numpy refuses; the runner accepts (outside the rnd64 domain).
   The guard is therefore stated as what it is: a domain restriction of the runner, narrower than numpy on
   negative triples. It is harmless because the correspondence check only produces non-negative triples with a
   positive sum, and on that domain guard and numpy agree ([AuditRepairFacts2.GenDomain.domain_agrees]: the
   quotients are non-negative, not NaN, and their float cdf ends in exactly 1, so numpy's validation passes). *)
From Eudoxia Require Import Model.Generator Model.RunGen.

Module GenRefuse.
Open Scope Z_scope.

(* a rational on the wire is numerator, denominator; it is negative iff its numerator is *)
Lemma Qle_bool_neg n d : (n < 0)%Z -> Qle_bool 0%Q (Qmake n d) = false.
Proof.
  intros H. unfold Qle_bool. cbn [Qnum Qden]. apply Z.leb_gt. lia.
Qed.

(* the case of kind 25 on the wire: num_pipelines, num_operators (2), cpu_io_ratio (2), waiting_ticks_mean,
   nticks, interactive_prob (2), query_prob (2), batch_prob (2), the stream. OUTSIDE ITS DOMAIN - one of the three
   probabilities negative, or their float sum (a0 + a1) + a2 not positive - the runner answers [-1] *)
Theorem run_gen_u_domain :
  forall np an ad rn rd wmean nticks i_n i_d q_n q_d b_n b_d stream,
  (i_n < 0 \/ q_n < 0 \/ b_n < 0 \/
   ~ (0 < fsum [Qmake i_n (Z.to_pos i_d); Qmake q_n (Z.to_pos q_d); Qmake b_n (Z.to_pos b_d)])%Q) ->
  run_gen_u (np :: an :: ad :: rn :: rd :: wmean :: nticks :: i_n :: i_d :: q_n :: q_d :: b_n :: b_d :: stream)
  = bad_input.
Proof.
  intros np an ad rn rd wmean nticks i_n i_d q_n q_d b_n b_d stream H.
  unfold run_gen_u.
  match goal with |- context [run_dec ?d ?l] =>
    assert (E : run_dec d l =
      if (0 <? ad) && (0 <? rd) && (0 <? i_d) && (0 <? q_d) && (0 <? b_d) then
        match dlist dudraw stream with
        | Some (ds, []) =>
            Some (np, Qmake an (Z.to_pos ad), Qmake rn (Z.to_pos rd), wmean, nticks,
                  [Qmake i_n (Z.to_pos i_d); Qmake q_n (Z.to_pos q_d); Qmake b_n (Z.to_pos b_d)], ds)
        | _ => None
        end
      else None)
  end.
  { cbv beta iota delta [run_dec dbind dQ dZ dret].
    destruct (0 <? ad); [|reflexivity]. destruct (0 <? rd); [|reflexivity].
    destruct (0 <? i_d); [|reflexivity]. destruct (0 <? q_d); [|reflexivity].
    destruct (0 <? b_d); [|reflexivity]. cbn [andb].
    destruct (dlist dudraw stream) as [[ds l']|]; reflexivity. }
  rewrite E. clear E.
  destruct ((0 <? ad) && (0 <? rd) && (0 <? i_d) && (0 <? q_d) && (0 <? b_d)); [|reflexivity].
  destruct (dlist dudraw stream) as [[ds l']|]; [|reflexivity].
  destruct l'; [|reflexivity].
  set (user := [Qmake i_n (Z.to_pos i_d); Qmake q_n (Z.to_pos q_d); Qmake b_n (Z.to_pos b_d)]) in *.
  assert (G : forallb (Qle_bool 0%Q) user && Qltb 0%Q (fsum user) = false).
  { unfold user at 1. cbn [forallb].
    destruct H as [H|[H|[H|H]]].
    - rewrite (Qle_bool_neg _ _ H). reflexivity.
    - rewrite (Qle_bool_neg _ _ H). rewrite andb_false_r. reflexivity.
    - rewrite (Qle_bool_neg _ _ H). rewrite !andb_false_r. reflexivity.
    - destruct (Qltb 0%Q (fsum user)) eqn:L; [|apply andb_false_r].
      exfalso. apply H. apply OomFacts.Qltb_true. exact L. }
  destruct ((0 <=? np) && (0 <=? nticks)); [|reflexivity]. cbn [andb].
  rewrite G. reflexivity.
Qed.

(* the inputs of AuditExamplesC.C15.negative_probability_is_not_refused (-1/2, 1, 1/2): [gen_run_u] draws classes,
   the runner answers [-1]: the triple is outside its domain (here numpy would raise too, at the first class draw) *)
Example refuses_minus_half :
  run_gen_u [2; 3; 1; 1; 2; 2; 1;  -1; 2;  1; 1;  1; 2;  4;  2; 1; 5;  2; 7; 10;  1; 3; 1; 6; 5;  1; 2; 1; 2; 5]
  = bad_input.
Proof. apply run_gen_u_domain. left. reflexivity. Qed.

(* all three zero: the float sum is 0, outside the domain (numpy, when a class is drawn: "probabilities contain NaN") *)
Example refuses_zero_sum : forall stream,
  run_gen_u (2 :: 3 :: 1 :: 1 :: 2 :: 2 :: 1 :: 0 :: 1 :: 0 :: 1 :: 0 :: 1 :: stream) = bad_input.
Proof.
  intros stream. apply run_gen_u_domain. right. right. right. vm_compute. discriminate.
Qed.

End GenRefuse.
