(* Fuel sufficiency of the preemption loop [pr_preempt] of Model/Sched.v (audit B, point P8).

   [pr_preempt] runs on fuel and hands back its partial accumulator when the fuel ends. Here we show that
   with the fuel of its only call site ([priority_step]: (n+1) * (n+1+L), n pools, L active containers in all)
   the loop ALWAYS leaves through one of its own two exit tests (enough victims found, or every pool iterator
   exhausted); the fuel is never the reason it stops. Unconditional: no run invariant, any pools, any need.

   Argument. View the state (iters, i) as a queue [rot iters i] whose head is the current entry. One loop
   iteration pops the head and pushes the updated entry at the back. Potential
       Phi q = (length q + 1) * rem q + pre q
   with [rem] = sum over the entries of (length of the remaining list + 1 if not yet marked exhausted) and
   [pre] = length of the longest prefix of entries already marked exhausted. An iteration that is really taken
   (not every entry exhausted) lowers Phi: on an exhausted head [pre] drops by exactly one and [rem] does not
   grow; on a live head [rem] drops by at least one and the new [pre] is at most length q. *)
From Coq Require Import List ZArith QArith Lia Arith Bool.
Import ListNotations.
From Eudoxia Require Import Model.Types Model.Lifecycle Model.Container Model.Pool Model.Executor Model.Sched
  Proofs.ListFacts Proofs.PriorityFacts.
Close Scope Q_scope.
Close Scope Z_scope.

(* the recursion of [pr_preempt], answering only HOW the loop ends: [true] = through one of its two exit
   tests, [false] = the fuel ran out *)
Fixpoint pr_preempt_stops (fuel : nat) (need : nat) (iters : list (nat * list container * bool)) (i : nat)
         (acc : list susp) : bool :=
  match fuel with
  | O => false
  | S f =>
      if Nat.leb need (length acc) then true
      else if forallb (fun x => snd x) iters then true
      else
        let n := length iters in
        let '(pid, l, ex) := nth i iters (0, [], true) in
        let nexti := Nat.modulo (S i) n in
        match skip_query l with
        | None => pr_preempt_stops f need (set_nth iters i (pid, [], true)) nexti acc
        | Some (c, t) =>
            pr_preempt_stops f need (set_nth iters i (pid, t, ex)) nexti
                       (if c_can_suspend c then acc ++ [{| su_cid := c_id c; su_pool := Z.of_nat pid |}] else acc)
        end
  end.

(* ------------------------------------------------------------------------------------------ *)
(* 1. once the loop stops by itself, more fuel changes nothing                                 *)
(* ------------------------------------------------------------------------------------------ *)

Lemma pr_preempt_stops_more : forall fuel need iters i acc k,
  pr_preempt_stops fuel need iters i acc = true ->
  pr_preempt (fuel + k) need iters i acc = pr_preempt fuel need iters i acc.
Proof.
  induction fuel as [|f IH]; intros need iters i acc k H; [cbn [pr_preempt_stops] in H; discriminate|].
  change (S f + k) with (S (f + k)).
  cbn [pr_preempt_stops] in H. cbn [pr_preempt].
  destruct (Nat.leb need (length acc)); [reflexivity|].
  destruct (forallb (fun x => snd x) iters); [reflexivity|].
  cbv zeta in H |- *.
  destruct (nth i iters (0, [], true)) as [[pid l] ex].
  destruct (skip_query l) as [[c t]|]; apply IH; exact H.
Qed.

Lemma pr_preempt_stops_mono : forall fuel need iters i acc k,
  pr_preempt_stops fuel need iters i acc = true ->
  pr_preempt_stops (fuel + k) need iters i acc = true.
Proof.
  induction fuel as [|f IH]; intros need iters i acc k H; [cbn [pr_preempt_stops] in H; discriminate|].
  change (S f + k) with (S (f + k)).
  cbn [pr_preempt_stops] in H |- *.
  destruct (Nat.leb need (length acc)); [reflexivity|].
  destruct (forallb (fun x => snd x) iters); [reflexivity|].
  cbv zeta in H |- *.
  destruct (nth i iters (0, [], true)) as [[pid l] ex].
  destruct (skip_query l) as [[c t]|]; apply IH; exact H.
Qed.

(* ------------------------------------------------------------------------------------------ *)
(* 2. the queue view                                                                           *)
(* ------------------------------------------------------------------------------------------ *)

Definition rot {A} (l : list A) (i : nat) : list A := skipn i l ++ firstn i l.

Lemma set_nth_firstn_skipn {A} (v : A) : forall l i, i < length l ->
  set_nth l i v = firstn i l ++ v :: skipn (S i) l.
Proof.
  induction l as [|h t IH]; intros [|i] L; cbn [length] in L; try lia.
  - reflexivity.
  - cbn [set_nth firstn skipn app]. f_equal. apply IH. lia.
Qed.

Lemma skipn_nth_cons {A} (d : A) : forall l i, i < length l ->
  skipn i l = nth i l d :: skipn (S i) l.
Proof.
  induction l as [|h t IH]; intros [|i] L; cbn [length] in L; try lia.
  - reflexivity.
  - change (skipn (S i) (h :: t)) with (skipn i t). change (nth (S i) (h :: t) d) with (nth i t d).
    change (skipn (S (S i)) (h :: t)) with (skipn (S i) t). apply IH. lia.
Qed.

Lemma rot_head {A} (d : A) l i : i < length l ->
  rot l i = nth i l d :: (skipn (S i) l ++ firstn i l).
Proof. intros L. unfold rot. rewrite (skipn_nth_cons d l i L). reflexivity. Qed.

Lemma rot_step {A} (v : A) l i : i < length l ->
  rot (set_nth l i v) (Nat.modulo (S i) (length l)) = (skipn (S i) l ++ firstn i l) ++ [v].
Proof.
  intros L. rewrite (set_nth_firstn_skipn v l i L).
  assert (Lf : length (firstn i l) = i) by (rewrite firstn_length; lia).
  destruct (Nat.eq_dec (S i) (length l)) as [E|E].
  - rewrite <- E at 1. rewrite Nat.mod_same by lia. unfold rot.
    rewrite (skipn_all2 l (n := S i)) by lia.
    change (skipn 0 (firstn i l ++ [v])) with (firstn i l ++ [v]).
    change (firstn 0 (firstn i l ++ [v])) with (@nil A).
    rewrite app_nil_r. reflexivity.
  - rewrite Nat.mod_small by lia. unfold rot.
    replace (S i) with (length (firstn i l ++ [v])) at 1 3 by (rewrite app_length; cbn [length]; lia).
    replace (firstn i l ++ v :: skipn (S i) l) with ((firstn i l ++ [v]) ++ skipn (S i) l)
      by (rewrite <- app_assoc; reflexivity).
    rewrite skipn_app, firstn_app, skipn_all, firstn_all, Nat.sub_diag.
    cbn [skipn firstn app]. rewrite app_nil_r, app_assoc. reflexivity.
Qed.

Lemma rot_length {A} (l : list A) i : length (rot l i) = length l.
Proof.
  unfold rot. rewrite app_length, Nat.add_comm, <- app_length, firstn_skipn. reflexivity.
Qed.

Lemma forallb_rot {A} (f : A -> bool) l i : forallb f (rot l i) = forallb f l.
Proof.
  unfold rot. rewrite forallb_app, andb_comm, <- forallb_app, firstn_skipn. reflexivity.
Qed.

(* ------------------------------------------------------------------------------------------ *)
(* 3. the potential                                                                            *)
(* ------------------------------------------------------------------------------------------ *)

Notation iter_t := (nat * list container * bool)%type (only parsing).

Definition ent_rem (x : iter_t) : nat := length (snd (fst x)) + (if snd x then 0 else 1).

Fixpoint q_rem (q : list iter_t) : nat :=
  match q with [] => 0 | x :: t => ent_rem x + q_rem t end.

Fixpoint q_pre (q : list iter_t) : nat :=
  match q with [] => 0 | x :: t => if snd x then S (q_pre t) else 0 end.

Definition q_phi (q : list iter_t) : nat := S (length q) * q_rem q + q_pre q.

Lemma q_rem_app a b : q_rem (a ++ b) = q_rem a + q_rem b.
Proof. induction a as [|x a IH]; cbn [app q_rem]; [reflexivity|]. rewrite IH. lia. Qed.

Lemma q_pre_le q : q_pre q <= length q.
Proof. induction q as [|x q IH]; cbn [q_pre length]; [lia|]. destruct (snd x); lia. Qed.

Lemma q_pre_app_live a b : forallb (fun x : iter_t => snd x) a = false -> q_pre (a ++ b) = q_pre a.
Proof.
  induction a as [|x a IH]; cbn [forallb app q_pre]; [discriminate|].
  destruct (snd x); cbn [andb]; [|reflexivity]. intros H. rewrite IH by exact H. reflexivity.
Qed.

(* one iteration in the queue view: head [x] replaced by [v] at the back *)
Lemma q_phi_step (x v : iter_t) tl :
  forallb (fun y : iter_t => snd y) (x :: tl) = false ->
  (snd x = true -> snd v = true /\ ent_rem v <= ent_rem x) ->
  (snd x = false -> ent_rem v < ent_rem x) ->
  q_phi (tl ++ [v]) < q_phi (x :: tl).
Proof.
  intros NA Ht Hf. unfold q_phi. rewrite app_length, q_rem_app. cbn [length q_rem q_pre forallb] in *.
  rewrite Nat.add_0_r.
  destruct (snd x) eqn:Ex.
  - cbn [andb] in NA. destruct (Ht eq_refl) as [_ Hv]. rewrite (q_pre_app_live tl [v] NA).
    replace (length tl + 1) with (S (length tl)) by lia. nia.
  - specialize (Hf eq_refl).
    assert (P := q_pre_le (tl ++ [v])). rewrite app_length in P. cbn [length] in P.
    replace (length tl + 1) with (S (length tl)) in * by lia. nia.
Qed.

Lemma skip_query_shorter : forall l c t, skip_query l = Some (c, t) -> length t < length l.
Proof.
  intros l c t H. destruct (skip_query_some l c t H) as [qs [-> _]].
  rewrite !app_length. cbn [length]. lia.
Qed.

(* ------------------------------------------------------------------------------------------ *)
(* 4. potential below the fuel: the loop stops by itself                                       *)
(* ------------------------------------------------------------------------------------------ *)

Lemma pr_preempt_stops_phi : forall fuel need iters i acc,
  i < length iters \/ iters = [] ->
  q_phi (rot iters i) < fuel ->
  pr_preempt_stops fuel need iters i acc = true.
Proof.
  induction fuel as [|f IH]; intros need iters i acc Hi HP; [lia|].
  cbn [pr_preempt_stops].
  destruct (Nat.leb need (length acc)); [reflexivity|].
  destruct (forallb (fun x => snd x) iters) eqn:FA; [reflexivity|].
  destruct Hi as [Hi | ->]; [|cbn [forallb] in FA; discriminate].
  cbv zeta.
  assert (Hn : Nat.modulo (S i) (length iters) < length iters) by (apply Nat.mod_upper_bound; lia).
  rewrite (rot_head (0, [], true) iters i Hi) in HP.
  assert (FA' : forallb (fun y : iter_t => snd y)
                  (nth i iters (0, [], true) :: (skipn (S i) iters ++ firstn i iters)) = false).
  { rewrite <- (rot_head (0, [], true) iters i Hi), forallb_rot. exact FA. }
  destruct (nth i iters (0, [], true)) as [[pid l] ex].
  destruct (skip_query l) as [[c t]|] eqn:SQ.
  - apply IH.
    + left. rewrite set_nth_length. exact Hn.
    + rewrite (rot_step (pid, t, ex) iters i Hi).
      assert (LT := skip_query_shorter l c t SQ).
      assert (S1 := q_phi_step (pid, l, ex) (pid, t, ex) (skipn (S i) iters ++ firstn i iters) FA').
      unfold ent_rem in S1. cbn [fst snd] in S1.
      assert (S2 : q_phi ((skipn (S i) iters ++ firstn i iters) ++ [(pid, t, ex)]) <
                   q_phi ((pid, l, ex) :: skipn (S i) iters ++ firstn i iters)).
      { apply S1; intros ->; [split; [reflexivity|]|]; lia. }
      lia.
  - apply IH.
    + left. rewrite set_nth_length. exact Hn.
    + rewrite (rot_step (pid, [], true) iters i Hi).
      assert (S1 := q_phi_step (pid, l, ex) (pid, [], true) (skipn (S i) iters ++ firstn i iters) FA').
      unfold ent_rem in S1. cbn [fst snd length] in S1.
      assert (S2 : q_phi ((skipn (S i) iters ++ firstn i iters) ++ [(pid, [], true)]) <
                   q_phi ((pid, l, ex) :: skipn (S i) iters ++ firstn i iters)).
      { apply S1; intros ->; [split; [reflexivity|]|]; lia. }
      lia.
Qed.

(* ------------------------------------------------------------------------------------------ *)
(* 5. the call site                                                                            *)
(* ------------------------------------------------------------------------------------------ *)

Lemma init_iters_rem : forall ps : list pool,
  q_rem (map (fun p => (p_id p, p_active p, false)) ps) = length (flat_map p_active ps) + length ps.
Proof.
  induction ps as [|p ps IH]; [reflexivity|].
  cbn [map q_rem flat_map length]. rewrite IH, app_length. unfold ent_rem. cbn [fst snd]. lia.
Qed.

Lemma init_iters_pre : forall ps : list pool,
  q_pre (map (fun p => (p_id p, p_active p, false)) ps) = 0.
Proof. intros [|p ps]; reflexivity. Qed.

(* main theorem: with the fuel of [priority_step] the loop never stops for lack of fuel *)
Theorem preempt_fuel_suffices : forall (ps : list pool) need,
  let iters := map (fun p => (p_id p, p_active p, false)) ps in
  let fuel := (S (length iters)) * (S (length iters) + length (flat_map p_active ps)) in
  pr_preempt_stops fuel need iters 0 [] = true.
Proof.
  intros ps need iters fuel. apply pr_preempt_stops_phi.
  - destruct ps as [|p ps]; [right; reflexivity|left; cbn [iters map length]; lia].
  - unfold rot. cbn [skipn firstn]. rewrite app_nil_r. unfold q_phi.
    subst fuel. unfold iters at 2 3. rewrite init_iters_rem, init_iters_pre.
    unfold iters. rewrite map_length. nia.
Qed.

(* more fuel never changes the answer *)
Theorem preempt_more_fuel_same : forall (ps : list pool) need,
  let iters := map (fun p => (p_id p, p_active p, false)) ps in
  let fuel := (S (length iters)) * (S (length iters) + length (flat_map p_active ps)) in
  forall k, pr_preempt (fuel + k) need iters 0 [] = pr_preempt fuel need iters 0 [].
Proof.
  intros ps need iters fuel k. apply pr_preempt_stops_more. apply preempt_fuel_suffices.
Qed.

(* tied to [priority_step] itself (through [pr_step_inv], whose [pr_susps] is the expression at the call site
   in Sched.v, same [let]s): the suspensions a round returns are the ones the loop computes with ANY larger
   fuel, and the loop run with the round's own fuel leaves through one of its exit tests *)
Theorem priority_step_preempt_fuel : forall C s e results newp s' w' susps asgs,
  priority_step C s e results newp = Ok (s', w', susps, asgs) ->
  let iters := map (fun p => (p_id p, p_active p, false)) (e_pools e) in
  let fuel := (S (length iters)) * (S (length iters) + length (flat_map p_active (e_pools e))) in
  pr_preempt_stops fuel (length (ss_q s')) iters 0 [] = true /\
  forall k,
    susps = match ss_q s' with
            | [] => []
            | _ => pr_preempt (fuel + k) (length (ss_q s')) iters 0 []
            end.
Proof.
  intros C s e results newp s' w' susps asgs H iters fuel.
  split; [apply preempt_fuel_suffices|]. intros k.
  apply pr_step_inv in H.
  destruct H as (m & lq & n1 & n2 & n3 & st1 & st2 & st3 & w1 & w2 & a1 & a2 & a3 & o1 & o2 & H).
  destruct H as (_ & _ & _ & _ & _ & _ & _ & _ & _ & _ & _ & _ & Es & _).
  subst susps. unfold pr_susps. destruct (ss_q s') as [|j q]; [reflexivity|].
  cbv zeta. symmetry. apply (preempt_more_fuel_same (e_pools e) (length (j :: q)) k).
Qed.

(* ------------------------------------------------------------------------------------------ *)
(* 6. non-vacuity                                                                              *)
(* ------------------------------------------------------------------------------------------ *)

Module FuelExamples.

Definition mkc (id : nat) (pr : prio) (cs : bool) : container :=
  {| c_id := id; c_ops := [id]; c_cpu := 1%Z; c_ram := 1%Q; c_prio := pr; c_opidx := 0;
     c_rest := None; c_frozen := false; c_mem := 0%Q; c_can_suspend := cs; c_completed := false;
     c_error := false; c_ticks := 0%Z; c_susp_left := 0%Z |}.

Definition mkp (id : nat) (act : list container) : pool :=
  {| p_id := id; p_max_cpu := 8%Z; p_max_ram := 8%Q; p_avail_cpu := 0%Z; p_avail_ram := 0%Q;
     p_consumed := 0%Q; p_active := act; p_suspending := []; p_suspended := [];
     p_num_completed := 0%Z; p_tick_times := [] |}.

(* two pools; pool 0 runs a query container, a batch container that cannot be suspended right now and a
   suspendable interactive one; pool 1 runs a query container and two suspendable batch containers *)
Definition pools : list pool :=
  [mkp 0 [mkc 10 Query true; mkc 11 Batch false; mkc 12 Interactive true];
   mkp 1 [mkc 20 Query true; mkc 21 Batch true; mkc 22 Batch true]].

Definition iters : list (nat * list container * bool) := map (fun p => (p_id p, p_active p, false)) pools.
Definition fuel : nat := (S (length iters)) * (S (length iters) + length (flat_map p_active pools)).

(* need = 2: the loop leaves through the [need] test with two victims (fuel = 3 * 9 = 27) *)
Example stops_by_need :
  fuel = 27 /\
  pr_preempt_stops fuel 2 iters 0 [] = true /\
  map (fun x => (su_cid x, su_pool x)) (pr_preempt fuel 2 iters 0 []) = [(21, 1%Z); (12, 0%Z)] /\
  pr_preempt (fuel + 100) 2 iters 0 [] = pr_preempt fuel 2 iters 0 [].
Proof. vm_compute. repeat split; reflexivity. Qed.

(* need = 5: only three containers can be suspended; the loop leaves because every iterator is exhausted *)
Example stops_by_exhaustion :
  pr_preempt_stops fuel 5 iters 0 [] = true /\
  map (fun x => (su_cid x, su_pool x)) (pr_preempt fuel 5 iters 0 []) = [(21, 1%Z); (12, 0%Z); (22, 1%Z)] /\
  pr_preempt (fuel + 100) 5 iters 0 [] = pr_preempt fuel 5 iters 0 [].
Proof. vm_compute. repeat split; reflexivity. Qed.

(* the predicate is not trivially true: on the same input a too small fuel is reported, and then the answer
   is a strict prefix of the right one. For need = 2 the loop makes 3 iterations and leaves at its 4th test;
   for need = 5 it makes 6 (four that take a container, then each pool is seen empty once) and leaves at the
   7th test *)
Example small_fuel_does_not_stop :
  pr_preempt_stops 1 2 iters 0 [] = false /\
  pr_preempt_stops 2 2 iters 0 [] = false /\
  pr_preempt_stops 3 2 iters 0 [] = false /\
  pr_preempt_stops 4 2 iters 0 [] = true /\
  map su_cid (pr_preempt 2 2 iters 0 []) = [21] /\
  pr_preempt_stops 6 5 iters 0 [] = false /\
  pr_preempt_stops 7 5 iters 0 [] = true /\
  map su_cid (pr_preempt 3 5 iters 0 []) = [21; 12].
Proof. vm_compute. repeat split; reflexivity. Qed.

End FuelExamples.
