(* Audit D, reviewer B: witnesses against the statements repaired after audit C
   (Properties/C04.v C11.v C13.v C15.v, proofs in Proofs/AuditRepairFacts.v).
   Every statement is closed by computation or a short proof; nothing is added to the model.

   AFTER THE REPAIRS (AUDIT_D.md, section REPAIRS): the witnesses D1 and D2 below state the body of
   C04_sim_kill_justified AS IT WAS when audit D ran (they are self-contained statements and still hold of that OLD
   body). The body now also carries NoDup (map c_id act4), k <= length (victims_order C act1),
   map c_id vs = firstn k (victims_order C act1), act5 = map (kill_if (map c_id vs)) act1, the [ids_killed]
   equivalence and incl res (tl_results lg); against the NEW body both fabrications fail: modules [VsForced] and
   [NextForced] below prove the negations on the same ticks, with the containers / run of this file. D3 (C15): the
   theorem was renamed C15_gen_run_u_domain and restated as a domain restriction; the three witnesses are now the
   documented limitation in the header of the choice_float part of Properties/C15.v. *)
From Coq Require Import List Arith ZArith QArith Qabs Bool Lia Lqa Sorted.
Import ListNotations.
From Eudoxia Require Import Num.Rnd64 Model.Types Model.Dag Model.Lifecycle Model.Timing Model.Container
  Model.Pool Model.Executor Model.Sched Model.Simulator
  Proofs.OomFacts Proofs.LedgerFacts Proofs.MemoryFacts Proofs.PriorityPoolRunFacts Proofs.SimReachFacts
  Proofs.SimCorollaryFacts Proofs.SimTimelineFacts Proofs.AuditRepairFacts Proofs.AuditRepairFacts2
  Proofs.AuditExamplesC.
Close Scope Q_scope.
Close Scope Z_scope.

(* ====================================================================================================== *)
(* D1. C04_sim_kill_justified (as repaired after audit C; OLD body, see [VsForced] for the new one): [vs] -  *)
(*     "the victims of the pool-level loop in kill order" in the                                             *)
(*     text - is still an unlinked existential. Only three conjuncts mention it (vs <> [] -> ..., the Forall,  *)
(*     nth_error vs j = Some c); none ties it to [act5]. Tick 0 of the file's own witness run (overbook,       *)
(*     overcommit; containers 0 and 1 at 6 GB of 10 GB; container 0 is the ONLY pool-level victim, container  *)
(*     1 is the running list of the pool after the tick): the COMPLETE new body holds with                     *)
(*     vs = [container 0; container 1], i.e. with the survivor listed as a victim.                             *)
(* ====================================================================================================== *)
Module VsFree.
Import SimCorExamples AuditExamplesC.C04.

Definition c0r : container := Eval vm_compute in nth 0 act4r (new_container 9 [] 0%Z 0%Q Batch).
Definition act5r : list container := [dead c0r; c1r].

(* container 1 after its tick IS the running list of the pool after the tick: it survived *)
Example c1r_survives : p_active kp' = [c1r] /\ (c_id c1r, c_completed c1r, c_error c1r) = (1, false, false).
Proof. vm_compute. split; reflexivity. Qed.

Example kill_justified_body_accepts_a_survivor_as_victim :
  exists i p p' w next w' next' res,
    let ss := filter (fun x => (su_pool x =? Z.of_nat (p_id p))%Z) (tl_susp klg0) in
    let asgs := filter (fun x => (a_pool x =? Z.of_nat (p_id p))%Z) (tl_asgs klg0) in
    nth_error (e_pools (sm_exec k0)) i = Some p /\ nth_error (e_pools (sm_exec k1)) i = Some p' /\
    e_next (sm_exec k0) <= next /\
    pool_tick Ck w next p ss asgs = Ok (w', next', p', res) /\ In kr res /\
    exists act2 w3 cons3 w4 cons4 act4 w1 cons1 act1 cons5 act5 vs,
      act2 = filter (fun c => negb (memb (c_id c) (map su_cid ss))) (p_active p) ++ new_containers next asgs /\
      act4 = map (cstep Ck) act2 /\
      tick_active Ck w3 cons3 act2 = Ok (w4, cons4, act4) /\
      oom_killer Ck (p_max_ram p) w4 cons4 act4 = Ok (w', cons5, act5) /\
      p_active p' = filter (fun c => negb (c_completed c)) act5 /\
      res = map (result_of (p_id p)) (filter c_completed act5) /\
      kill_over_limit Ck w4 cons4 act4 = Ok (w1, cons1, act1) /\
      act1 = map (kill_when over_limit) act4 /\
      (cons4 == sumQ (map c_mem act4))%Q /\ (cons1 == sumQ (map c_mem act1))%Q /\
      (vs <> [] -> (p_max_ram p < cons1)%Q /\ cf_overcommit Ck = true) /\
      Forall (fun v => In v act4 /\ c_completed v = false /\
                       (c_mem v <= c_ram v)%Q /\ (0 < c_mem v)%Q) vs /\
      (exists c, In c act4 /\ c_completed c = false /\ kr = result_of (p_id p) (dead c) /\
        ((c_ram c < c_mem c)%Q
         \/
         cf_overcommit Ck = true /\
         exists j, nth_error vs j = Some c /\
                   (p_max_ram p < cons1 - sumQ (map c_mem (firstn j vs)))%Q)) /\
      (* what is false of the run: a "victim" that is running after the tick and has no result *)
      vs = [c0r; c1r] /\ In c1r (p_active p') /\ (forall x, In x (tl_results klg0) -> r_cid x <> c_id c1r).
Proof.
  exists 0, kp, kp', kw0, 0, kw', 2, kres. cbv zeta.
  split; [reflexivity|]. split; [reflexivity|]. split; [vm_compute; lia|].
  split; [vm_compute; reflexivity|]. split; [left; reflexivity|].
  exists (new_containers 0 kasgs), kw0, 0%Q, w4, 12%Q, act4r, w4, 12%Q, act4r, 6%Q, act5r, [c0r; c1r].
  split; [vm_compute; reflexivity|]. split; [vm_compute; reflexivity|].
  split; [vm_compute; reflexivity|]. split; [vm_compute; reflexivity|].
  split; [vm_compute; reflexivity|]. split; [vm_compute; reflexivity|].
  split; [vm_compute; reflexivity|]. split; [vm_compute; reflexivity|].
  split; [vm_compute; reflexivity|]. split; [vm_compute; reflexivity|].
  split; [intros _; split; [vm_compute; reflexivity|reflexivity]|].
  split.
  { constructor; [|constructor; [|constructor]].
    - split; [left; reflexivity|]. split; [reflexivity|]. split; [vm_compute; discriminate|vm_compute; reflexivity].
    - split; [right; left; reflexivity|]. split; [reflexivity|].
      split; [vm_compute; discriminate|vm_compute; reflexivity]. }
  split.
  { exists c0r. split; [left; reflexivity|]. split; [reflexivity|]. split; [vm_compute; reflexivity|].
    right. split; [reflexivity|]. exists 0. split; [reflexivity|]. vm_compute. reflexivity. }
  split; [reflexivity|]. split; [left; reflexivity|].
  intros x Hx. vm_compute in Hx. destruct Hx as [<-|[]]. vm_compute. discriminate.
Qed.

End VsFree.

(* D1, NEGATION (after the audit-D repair). The conjuncts the body has now force the victims on that tick: whatever
   pool, counter and lists it is satisfied with, the counter is 0, one victim is taken, [vs] is exactly [c0r] - the
   list [c0r; c1r] of the witness above is refused, the survivor [c1r] is not a victim *)
Module VsForced.
Import SimCorExamples AuditExamplesC.C04 VsFree.

Example kill_justified_body_forces_the_real_victims :
  forall i p p' next act2 act4 act1 act5 vs k,
    nth_error (e_pools (sm_exec k0)) i = Some p -> nth_error (e_pools (sm_exec k1)) i = Some p' ->
    act2 = filter (fun c => negb (memb (c_id c) (map su_cid
                     (filter (fun x => (su_pool x =? Z.of_nat (p_id p))%Z) (tl_susp klg0))))) (p_active p)
           ++ new_containers next (filter (fun x => (a_pool x =? Z.of_nat (p_id p))%Z) (tl_asgs klg0)) ->
    act4 = map (cstep Ck) act2 ->
    act1 = map (kill_when over_limit) act4 ->
    k <= length (victims_order Ck act1) ->
    map c_id vs = firstn k (victims_order Ck act1) ->
    act5 = map (kill_if (map c_id vs)) act1 ->
    p_active p' = filter (fun c => negb (c_completed c)) act5 ->
    Forall (fun v => In v act4 /\ c_completed v = false /\ (c_mem v <= c_ram v)%Q /\ (0 < c_mem v)%Q) vs ->
    next = 0 /\ k = 1 /\ act4 = act4r /\ vs = [c0r] /\ vs <> [c0r; c1r] /\ ~ In c1r vs /\ In c1r (p_active p').
Proof.
  intros i p p' next act2 act4 act1 act5 vs k H1 H2 H3 H4 H5 H6 H7 H8 H9 H10.
  destruct (VictimsForced.kill_justified_forces_victims i p p' next act2 act4 act1 act5 vs k
              H1 H2 H3 H4 H5 H6 H7 H8 H9 H10) as (A & B & D & E & F & G).
  split; [exact A|]. split; [exact B|]. split; [exact D|]. split; [exact E|].
  split; [rewrite E; discriminate|]. split; [exact F|exact G].
Qed.

End VsForced.

(* ====================================================================================================== *)
(* D2. C04_sim_kill_justified (OLD body, see [NextForced]): [next] is bound by [e_next <= next] only, [next'] and [res] are *)
(*     free ([In r res] is the only link of [res] to the log; C11_sim_kills has [incl res (tl_results lg)]).   *)
(*     When every container created by the pool in the tick also leaves in the tick, nothing pins the ids of  *)
(*     the new containers. Run: overbook, one pool 10 CPU / 10 GB; operator 1 (6 GB, then 11 GB) arrives in    *)
(*     tick 0 -> container 0; operator 0 (11 GB) arrives in tick 1 -> container 1. In tick 1 both exceed       *)
(*     their 10 GB and are killed. For the failed result of container 0 the complete body holds with           *)
(*     next = 7 (the counter of the state is 1): [act4] holds a "container 7", [res] a result with id 7 that   *)
(*     the tick never reported.                                                                                *)
(* ====================================================================================================== *)
Module NextFree.
Import SimCorExamples.

Definition Cn : cfg :=
  {| cf_static := mk_static Lk; cf_script := fun op _ => if Nat.eqb op 0 then [11%Q] else [6%Q; 11%Q];
     cf_tps := 10%Z; cf_overcommit := true; cf_multi := true; cf_rnd := fun q => q |}.

Definition n0 : sim := init_sim Cn 1 10%Z 10%Q.
Definition n1 : sim := Eval vm_compute in ok_state n0 (sim_tick Cn AOverbook 0%Z n0 [1]).
Definition nlg0 : tick_log := Eval vm_compute in ok_log (sim_tick Cn AOverbook 0%Z n0 [1]).
Definition n2 : sim := Eval vm_compute in ok_state n1 (sim_tick Cn AOverbook 1%Z n1 [0]).
Definition nlg1 : tick_log := Eval vm_compute in ok_log (sim_tick Cn AOverbook 1%Z n1 [0]).

Lemma n_tick0 : sim_tick Cn AOverbook 0%Z n0 [1] = Ok (n1, nlg0).
Proof. vm_compute. reflexivity. Qed.
Lemma n_tick1 : sim_tick Cn AOverbook 1%Z n1 [0] = Ok (n2, nlg1).
Proof. vm_compute. reflexivity. Qed.
Lemma n_reach1 : sim_reach Cn AOverbook 0%Z (init_sim Cn 1 10%Z 10%Q) 1%Z n1.
Proof. exact (sr_step Cn AOverbook 0%Z n0 0%Z n0 [1] n1 nlg0 (sr_here _ _ _ _) n_tick0). Qed.

Lemma Cn_exact : forall x, (cf_rnd Cn x == x)%Q.
Proof. intros x. reflexivity. Qed.
Lemma Cn_nonneg : script_nonneg Cn.
Proof.
  intros op cpus m H. cbn in H. destruct (Nat.eqb op 0); cbn in H; intuition (subst; lra).
Qed.

Definition np1 : pool := Eval vm_compute in hd (new_pool 0 0%Z 0%Q) (e_pools (sm_exec n1)).
Definition np2 : pool := Eval vm_compute in hd (new_pool 0 0%Z 0%Q) (e_pools (sm_exec n2)).
Definition nasgs : list asg := Eval vm_compute in tl_asgs nlg1.
Definition nr : result := Eval vm_compute in
  hd {| r_cid := 9; r_ops := []; r_cpu := 0%Z; r_ram := 0%Q; r_prio := Batch; r_pool := 9; r_err := false |}
     (tl_results nlg1).
(* the world the pool tick starts from (after Assignment.__init__ of this tick's assignments) *)
Definition nw : world := Eval vm_compute in
  match sched_step Cn AOverbook (sm_sched n1) (sm_exec n1) (sm_results n1) [0] with
  | Ok (_, w, _, _) => w | Err _ => e_world (sm_exec n1) end.

(* the hypotheses of C04_sim_kill_justified hold of this tick and this result; what the tick really did *)
Example real_tick :
  sim_reach Cn AOverbook 0%Z (init_sim Cn 1 10%Z 10%Q) 1%Z n1 /\
  sim_tick Cn AOverbook 1%Z n1 [0] = Ok (n2, nlg1) /\ In nr (tl_results nlg1) /\ r_err nr = true /\
  e_next (sm_exec n1) = 1 /\ e_next (sm_exec n2) = 2 /\
  map (fun r => (r_cid r, r_ops r, r_err r)) (tl_results nlg1) = [(0, [1], true); (1, [0], true)] /\
  r_cid nr = 0.
Proof.
  split; [exact n_reach1|]. split; [exact n_tick1|]. split; [left; reflexivity|].
  vm_compute. repeat split; reflexivity.
Qed.

(* the pool tick with the fabricated counter 7 *)
Definition fake := Eval vm_compute in pool_tick Cn nw 7 np1 [] nasgs.
Definition fw' : world := match fake with Ok (w, _, _, _) => w | Err _ => nw end.
Definition fnext' : nat := match fake with Ok (_, n, _, _) => n | Err _ => 0 end.
Definition fres : list result := match fake with Ok (_, _, _, r) => r | Err _ => [] end.
Definition fact2 : list container := Eval vm_compute in p_active np1 ++ new_containers 7 nasgs.
Definition fact4 : list container := Eval vm_compute in map (cstep Cn) fact2.
Definition ft4 := Eval vm_compute in tick_active Cn nw 6%Q fact2.
Definition fw4 : world := match ft4 with Ok (w, _, _) => w | Err _ => nw end.
Definition fcons4 : Q := match ft4 with Ok (_, c, _) => c | Err _ => 0%Q end.
Definition fk := Eval vm_compute in kill_over_limit Cn fw4 fcons4 fact4.
Definition fw1 : world := match fk with Ok (w, _, _) => w | Err _ => nw end.
Definition fcons1 : Q := match fk with Ok (_, c, _) => c | Err _ => 0%Q end.
Definition fact1 : list container := match fk with Ok (_, _, a) => a | Err _ => [] end.
Definition fc0 : container := Eval vm_compute in hd (new_container 9 [] 0%Z 0%Q Batch) fact4.

Example kill_justified_body_accepts_a_fabricated_counter :
  exists i p p' w next w' next' res,
    let ss := filter (fun x => (su_pool x =? Z.of_nat (p_id p))%Z) (tl_susp nlg1) in
    let asgs := filter (fun x => (a_pool x =? Z.of_nat (p_id p))%Z) (tl_asgs nlg1) in
    nth_error (e_pools (sm_exec n1)) i = Some p /\ nth_error (e_pools (sm_exec n2)) i = Some p' /\
    e_next (sm_exec n1) <= next /\
    pool_tick Cn w next p ss asgs = Ok (w', next', p', res) /\ In nr res /\
    (exists act2 w3 cons3 w4 cons4 act4 w1 cons1 act1 cons5 act5 vs,
      act2 = filter (fun c => negb (memb (c_id c) (map su_cid ss))) (p_active p) ++ new_containers next asgs /\
      act4 = map (cstep Cn) act2 /\
      tick_active Cn w3 cons3 act2 = Ok (w4, cons4, act4) /\
      oom_killer Cn (p_max_ram p) w4 cons4 act4 = Ok (w', cons5, act5) /\
      p_active p' = filter (fun c => negb (c_completed c)) act5 /\
      res = map (result_of (p_id p)) (filter c_completed act5) /\
      kill_over_limit Cn w4 cons4 act4 = Ok (w1, cons1, act1) /\
      act1 = map (kill_when over_limit) act4 /\
      (cons4 == sumQ (map c_mem act4))%Q /\ (cons1 == sumQ (map c_mem act1))%Q /\
      (vs <> [] -> (p_max_ram p < cons1)%Q /\ cf_overcommit Cn = true) /\
      Forall (fun v => In v act4 /\ c_completed v = false /\
                       (c_mem v <= c_ram v)%Q /\ (0 < c_mem v)%Q) vs /\
      (exists c, In c act4 /\ c_completed c = false /\ nr = result_of (p_id p) (dead c) /\
        ((c_ram c < c_mem c)%Q
         \/
         cf_overcommit Cn = true /\
         exists j, nth_error vs j = Some c /\
                   (p_max_ram p < cons1 - sumQ (map c_mem (firstn j vs)))%Q)) /\
      (* false of the run: a container 7 enters the killer *)
      map c_id act4 = [0; 7]) /\
    (* false of the run: counter 7 -> 8 (really 1 -> 2), and a result the tick never reported *)
    next = 7 /\ next' = 8 /\ e_next (sm_exec n1) = 1 /\ e_next (sm_exec n2) = 2 /\
    map r_cid res = [0; 7] /\ map r_cid (tl_results nlg1) = [0; 1].
Proof.
  exists 0, np1, np2, nw, 7, fw', fnext', fres. cbv zeta.
  split; [reflexivity|]. split; [reflexivity|]. split; [vm_compute; lia|].
  split; [vm_compute; reflexivity|]. split; [left; reflexivity|].
  split.
  - exists fact2, nw, 6%Q, fw4, fcons4, fact4, fw1, fcons1, fact1, fcons1, fact1, (@nil container).
    split; [vm_compute; reflexivity|]. split; [vm_compute; reflexivity|].
    split; [vm_compute; reflexivity|]. split; [vm_compute; reflexivity|].
    split; [vm_compute; reflexivity|]. split; [vm_compute; reflexivity|].
    split; [vm_compute; reflexivity|]. split; [vm_compute; reflexivity|].
    split; [vm_compute; reflexivity|]. split; [vm_compute; reflexivity|].
    split; [intros H; congruence|]. split; [constructor|].
    split; [|vm_compute; reflexivity].
    exists fc0. split; [left; reflexivity|]. split; [reflexivity|]. split; [vm_compute; reflexivity|].
    left. vm_compute. reflexivity.
  - vm_compute. repeat split; reflexivity.
Qed.

End NextFree.

(* D2, NEGATION (after the audit-D repair). With [incl res (tl_results lg)] and the victim link the counter is the
   counter of the state on that tick: next = 1, the containers that enter the killer are 0 and 1, the results of the
   pool are the results of the log; next = 7 is refused *)
Module NextForced.
Import SimCorExamples NextFree.
Close Scope Z_scope.

Example kill_justified_body_forces_the_real_counter :
  forall i p next act2 act4 act1 act5 vs k res,
    nth_error (e_pools (sm_exec n1)) i = Some p ->
    act2 = filter (fun c => negb (memb (c_id c) (map su_cid
              (filter (fun x => (su_pool x =? Z.of_nat (p_id p))%Z) (tl_susp nlg1))))) (p_active p)
           ++ new_containers next (filter (fun x => (a_pool x =? Z.of_nat (p_id p))%Z) (tl_asgs nlg1)) ->
    act4 = map (cstep Cn) act2 -> act1 = map (kill_when over_limit) act4 ->
    map c_id vs = firstn k (victims_order Cn act1) ->
    act5 = map (kill_if (map c_id vs)) act1 ->
    res = map (result_of (p_id p)) (filter c_completed act5) ->
    incl res (tl_results nlg1) ->
    next = 1 /\ next = e_next (sm_exec n1) /\ map c_id act4 = [0; 1] /\ vs = [] /\ map r_cid res = [0; 1] /\
    next <> 7.
Proof. exact CounterForced.kill_justified_forces_counter. Qed.

End NextForced.

(* ====================================================================================================== *)
(* D3. C15_gen_run_u_refuses_negative (now C15_gen_run_u_domain, stated as a domain restriction; these       *)
(*     witnesses are the documented limitation in Properties/C15.v): the guard is not the counterpart of what *)
(*     numpy.random.Generator.choice refuses. WorkloadGenerator.__init__ divides by np.sum first             *)
(*     (workload.py:89), and choice validates the QUOTIENTS, at the first class draw.                        *)
(*     (a) a triple of non-positive numbers with a negative sum normalises to proper probabilities:           *)
(*         (-1/4, -1/4, -1/2) -> (0.25, 0.25, 0.5); the implementation accepts it and generates              *)
(*         (run with /venv/bin/python, numpy 2.5.3: priority_probs [0.25, 0.25, 0.5], priorities drawn);      *)
(*         the model's [prio_probs] agrees and [gen_run_u] draws the same classes as for (1/4, 1/4, 1/2),     *)
(*         but the runner - the function the correspondence check compares - answers [-1].                   *)
(*     (b) with nticks = 0 (or num_pipelines = 0) [choice] is never called and nothing raises for            *)
(*         (-1/2, 1, 1/2); the runner answers [-1] "whatever the other fields and the stream are".            *)
(*     (c) the other way round: three times 2^1023 - np.sum overflows to inf, the quotients are 0.0 and       *)
(*         choice raises "Probabilities do not sum to 1"; the runner accepts (rnd64 has no overflow).         *)
(* ====================================================================================================== *)
From Eudoxia Require Import Model.Codec Model.Generator Model.RunGen.

Module C15guard.
Import AuditExamplesC.C15.
Open Scope Z_scope.

Definition ds1 : list udraw :=
  [UUniform (3 # 10); UUniform (7 # 10); UNormal (3 # 1) (6 # 5); UNormal (2 # 1) (2 # 5)].

(* the wire form of P0, one tick, the probabilities, the stream ds1 *)
Definition wire (i_n i_d q_n q_d b_n b_d : Z) : list Z :=
  [2; 3; 1; 1; 2; 2; 1;  i_n; i_d;  q_n; q_d;  b_n; b_d;  4;  2; 3; 10;  2; 7; 10;  1; 3; 1; 6; 5;  1; 2; 1; 2; 5].

Example negative_sum_normalises_and_is_refused :
  (* the model of the generator: same probabilities, same classes as for (1/4, 1/4, 1/2) *)
  prio_probs [-1 # 4; -1 # 4; -1 # 2] = [1 # 4; 1 # 4; 1 # 2] /\
  prio_probs [1 # 4; 1 # 4; 1 # 2] = [1 # 4; 1 # 4; 1 # 2] /\
  option_map (fun x => map (map gp_prio) (fst x)) (gen_run_u P0 [-1 # 4; -1 # 4; -1 # 2] 1 ds1) = Some [[1; 3]] /\
  gen_run_u P0 [-1 # 4; -1 # 4; -1 # 2] 1 ds1 = gen_run_u P0 [1 # 4; 1 # 4; 1 # 2] 1 ds1 /\
  (* the runner: answers the positive triple, refuses the negative one *)
  run_gen_u (wire 1 4 1 4 1 2) <> bad_input /\
  run_gen_u (wire (-1) 4 (-1) 4 (-1) 2) = bad_input.
Proof.
  split; [vm_compute; reflexivity|]. split; [vm_compute; reflexivity|].
  split; [vm_compute; reflexivity|]. split; [vm_compute; reflexivity|].
  split; [vm_compute; discriminate|].
  vm_compute. reflexivity.
Qed.

(* ... and this refusal IS an instance of the Properties theorem (first disjunct), so the theorem's OLD reading
   "what numpy refuses" did not hold of its own hypothesis (the theorem now reads "outside the runner's domain") *)
Example negative_sum_is_an_instance_of_the_theorem :
  run_gen_u (wire (-1) 4 (-1) 4 (-1) 2) = bad_input.
Proof. unfold wire. apply GenRefuse.run_gen_u_domain. left. reflexivity. Qed.

(* (b) no tick is run (nticks = 0, empty stream): the implementation builds the generator and never calls choice;
   the runner answers the positive triple and refuses (-1/2, 1, 1/2) *)
Example refused_although_choice_is_never_called :
  run_gen_u [2; 3; 1; 1; 2; 2; 0;  1; 2;  1; 1;  1; 2;  0] <> bad_input /\
  run_gen_u [2; 3; 1; 1; 2; 2; 0;  -1; 2;  1; 1;  1; 2;  0] = bad_input /\
  run_gen_u [0; 3; 1; 1; 2; 2; 5;  -1; 2;  1; 1;  1; 2;  0] = bad_input.
Proof.
  split; [vm_compute; discriminate|]. split; vm_compute; reflexivity.
Qed.

(* (c) accepted by the runner, refused by numpy (float overflow of np.sum; outside the domain of rnd64) *)
Example overflowing_sum_is_accepted :
  run_gen_u [1; 3; 1; 1; 2; 2; 0;  2 ^ 1023; 1;  2 ^ 1023; 1;  2 ^ 1023; 1;  0] <> bad_input.
Proof. vm_compute. discriminate. Qed.

End C15guard.


(* ====================================================================================================== *)
(* D4 (positive). The fabrication of D2 FAILS against C11_sim_kills: its conjunct [incl res (tl_results lg)]  *)
(*     forces the counter on the same tick (the smallest repair of D2 is to add that conjunct to C04).         *)
(* ====================================================================================================== *)
Module C11CounterForced.
Import SimCorExamples NextFree.
Close Scope Z_scope.

Example C11_incl_forces_counter : forall next act2 act4 act1 act5 k res,
  e_next (sm_exec n1) <= next ->
  act2 = filter (fun c => negb (memb (c_id c) (map su_cid
            (filter (fun x => (su_pool x =? Z.of_nat (p_id np1))%Z) (tl_susp nlg1))))) (p_active np1)
         ++ new_containers next (filter (fun x => (a_pool x =? Z.of_nat (p_id np1))%Z) (tl_asgs nlg1)) ->
  act4 = map (cstep Cn) act2 -> act1 = map (kill_when over_limit) act4 ->
  act5 = map (kill_if (firstn k (victims_order Cn act1))) act1 ->
  res = map (result_of (p_id np1)) (filter c_completed act5) ->
  incl res (tl_results nlg1) -> next = 1.
Proof.
  intros next act2 act4 act1 act5 k res Hn E2 E4 E1 E5 Er Hi.
  assert (V : victims_order Cn act1 = []) by (subst; vm_compute; reflexivity).
  rewrite V, firstn_nil in E5. subst.
  assert (X : In next (map r_cid (tl_results nlg1))).
  { apply in_map_iff.
    eexists. split; [|apply Hi; vm_compute; right; left; reflexivity]. reflexivity. }
  vm_compute in X. vm_compute in Hn. destruct X as [X|[X|[]]]; lia.
Qed.

End C11CounterForced.

Print Assumptions VsFree.kill_justified_body_accepts_a_survivor_as_victim.
Print Assumptions VsFree.c1r_survives.
Print Assumptions NextFree.real_tick.
Print Assumptions NextFree.kill_justified_body_accepts_a_fabricated_counter.
Print Assumptions C15guard.negative_sum_normalises_and_is_refused.
Print Assumptions C15guard.negative_sum_is_an_instance_of_the_theorem.
Print Assumptions C15guard.refused_although_choice_is_never_called.
Print Assumptions C15guard.overflowing_sum_is_accepted.
Print Assumptions C11CounterForced.C11_incl_forces_counter.
Print Assumptions VsForced.kill_justified_body_forces_the_real_victims.
Print Assumptions NextForced.kill_justified_body_forces_the_real_counter.
