(* C17  naive scheduler (and the starter template): whole-pool FIFO without retries or preemption.
   Facts about [naive_step] / [naive_pools] / [naive_scan] of Model/Sched.v.

   Structure: a round of the scheduler is characterised once and for all by the inductive relation
   [nv_run] (one constructor per way a pool can be treated: skipped, scanned without success, scanned
   with an assignment); [naive_step_cases] shows every successful call is either the early return or
   such a run. N1..N6 are read off that relation. *)
From Coq Require Import List Arith Lia Bool ZArith QArith FinFun Permutation.
Import ListNotations.
From Eudoxia Require Import Num.Rnd64 Model.Types Model.Dag Model.Shapes Model.Lifecycle
  Model.Container Model.Pool Model.Executor Model.Sched
  Proofs.ListFacts Proofs.LifecycleFacts Proofs.ExecLifeFacts.
From Eudoxia Require Proofs.DagProof.
Close Scope Q_scope.
Close Scope Z_scope.

(* ------------------------------------------------------------------------------------------ *)
(* 0. lists                                                                                     *)
(* ------------------------------------------------------------------------------------------ *)

(* [sublist l1 l2]: l1 is obtained from l2 by deleting elements (relative order kept) *)
Inductive sublist {A : Type} : list A -> list A -> Prop :=
| sl_nil : sublist [] []
| sl_skip x l1 l2 : sublist l1 l2 -> sublist l1 (x :: l2)
| sl_keep x l1 l2 : sublist l1 l2 -> sublist (x :: l1) (x :: l2).

Lemma sublist_nil_l {A} (l : list A) : sublist [] l.
Proof. induction l; constructor; auto. Qed.

Lemma sublist_refl {A} (l : list A) : sublist l l.
Proof. induction l; [constructor | apply sl_keep; auto]. Qed.

Lemma sublist_In {A} (l1 l2 : list A) x : sublist l1 l2 -> In x l1 -> In x l2.
Proof.
  induction 1 as [|y l1 l2 H IH|y l1 l2 H IH]; intros Hin; auto.
  - right. auto.
  - destruct Hin as [->|Hin]; [left; reflexivity | right; auto].
Qed.

Lemma sublist_map {A B} (f : A -> B) l1 l2 : sublist l1 l2 -> sublist (map f l1) (map f l2).
Proof. induction 1; cbn; [apply sl_nil | apply sl_skip | apply sl_keep]; auto. Qed.

Lemma sublist_NoDup {A} (l1 l2 : list A) : sublist l1 l2 -> NoDup l2 -> NoDup l1.
Proof.
  induction 1 as [|y l1 l2 H IH|y l1 l2 H IH]; intros N; auto.
  - inversion N; subst. auto.
  - inversion N as [|? ? Hn N']; subst. constructor; auto.
    intros Hi. apply Hn. eapply sublist_In; eauto.
Qed.

Lemma sublist_filter {A} (f : A -> bool) l : sublist (filter f l) l.
Proof.
  induction l as [|x t IH]; cbn; [constructor|].
  destruct (f x); [apply sl_keep | apply sl_skip]; auto.
Qed.

Lemma sublist_app {A} (a b c d : list A) : sublist a b -> sublist c d -> sublist (a ++ c) (b ++ d).
Proof.
  induction 1; cbn; intros; auto; [apply sl_skip | apply sl_keep]; auto.
Qed.

Lemma sublist_trans {A} (a b c : list A) : sublist a b -> sublist b c -> sublist a c.
Proof.
  intros H1 H2. revert a H1. induction H2 as [|x l1 l2 H IH|x l1 l2 H IH]; intros a H1; auto.
  - apply sl_skip. auto.
  - inversion H1; subst; [apply sl_skip | apply sl_keep]; auto.
Qed.

Lemma Forall2_map_same {A B D} (R : B -> D -> Prop) (f : A -> B) (g : A -> D) l :
  Forall (fun x => R (f x) (g x)) l -> Forall2 R (map f l) (map g l).
Proof. induction 1; cbn; constructor; auto. Qed.

Lemma NoDup_app_r {A} (a b : list A) : NoDup (a ++ b) -> NoDup b.
Proof. induction a as [|h a IH]; cbn; intros N; [exact N|]. inversion N; auto. Qed.

(* in a duplicate-free list the position of an element is unique *)
Lemma NoDup_split_right (a b l1 l2 : list nat) x :
  NoDup (a ++ b) -> a ++ b = l1 ++ x :: l2 -> In x b -> exists l1', b = l1' ++ x :: l2 /\ l1 = a ++ l1'.
Proof.
  revert l1. induction a as [|h a IH]; intros l1 N E Hx.
  - exists l1. split; auto.
  - destruct l1 as [|h1 l1]; cbn in E; inversion E; subst.
    + exfalso. inversion N as [|? ? Hn _]; subst. apply Hn. apply in_or_app. right. exact Hx.
    + inversion N as [|? ? _ N']; subst.
      destruct (IH l1 N' H1 Hx) as [l1' [E1 E2]]. exists l1'. split; auto. cbn. f_equal. exact E2.
Qed.

(* ------------------------------------------------------------------------------------------ *)
(* 1. rounds only request [Assigned]                                                            *)
(* ------------------------------------------------------------------------------------------ *)

(* histories of accepted requests for [Assigned] only *)
Inductive asteps (S : static) : world -> world -> Prop :=
| as_refl w : asteps S w w
| as_cons w op w' w'' : transition S w op Assigned = Ok w' -> asteps S w' w'' -> asteps S w w''.

Lemma asteps_trans S a b c : asteps S a b -> asteps S b c -> asteps S a c.
Proof. induction 1; intros; auto. econstructor; eauto. Qed.

Lemma asteps_steps S a b : asteps S a b -> steps S a b.
Proof. induction 1; [constructor | econstructor; eauto]. Qed.

Lemma transition_all_asteps S ops : forall w w',
  transition_all S w ops Assigned = Ok w' -> asteps S w w'.
Proof.
  induction ops as [|o t IH]; cbn [transition_all]; intros w w' H.
  - inversion H. constructor.
  - unfold bind in H. destruct (transition S w o Assigned) as [w1|e] eqn:T; [|discriminate].
    econstructor; eauto.
Qed.

Lemma mk_assignment_transition_all C w a w' :
  mk_assignment C w a = Ok w' ->
  args_ok a /\ transition_all (cf_static C) w (a_ops a) Assigned = Ok w'.
Proof.
  unfold mk_assignment, args_ok. intros H.
  destruct (Nat.eqb (length (a_ops a)) 0); [discriminate|].
  destruct (Z.leb (a_cpu a) 0); [discriminate|].
  destruct (Qleb (a_ram a) 0); [discriminate|]. auto.
Qed.

Lemma mk_assignment_asteps C w a w' : mk_assignment C w a = Ok w' -> asteps (cf_static C) w w'.
Proof. intros H. apply mk_assignment_transition_all in H. eapply transition_all_asteps. apply H. Qed.

Lemma ost_idx_inj a b : ost_idx a = ost_idx b -> a = b.
Proof. destruct a, b; cbn; intros H; try reflexivity; discriminate. Qed.

(* an accepted request touches only the cells of its old and new state *)
Lemma transition_cnt_other S w op new w' k a :
  transition S w op new = Ok w' -> a <> st_of w op -> a <> new -> cnt_of w' k a = cnt_of w k a.
Proof.
  intros T No Nn. apply transition_ok in T. destruct T as [_ [_ ->]].
  unfold cnt_of, world_after. cbn [w_cnt].
  destruct (Nat.eq_dec (op_pipe S op) k) as [E|E].
  - rewrite E. destruct (lt_dec k (length (w_cnt w))) as [L|L].
    + rewrite nth_set_nth_same by exact L. unfold bump.
      rewrite nth_set_nth_other by (intros Hi; apply Nn; apply ost_idx_inj; auto).
      rewrite nth_set_nth_other by (intros Hi; apply No; apply ost_idx_inj; auto).
      reflexivity.
    + rewrite set_nth_out by lia. reflexivity.
  - rewrite nth_set_nth_other by exact E. reflexivity.
Qed.

Lemma asteps_cnt_completed S w w' k :
  asteps S w w' -> cnt_of w' k Completed = cnt_of w k Completed.
Proof.
  induction 1 as [|w op w1 w2 T _ IH]; [reflexivity|].
  rewrite IH. eapply transition_cnt_other; eauto; [|discriminate].
  intros E. apply transition_ok in T. destruct T as [V _]. rewrite <- E in V. discriminate.
Qed.

Lemma asteps_is_successful S w w' k :
  asteps S w w' -> is_successful S w' k = is_successful S w k.
Proof. intros H. unfold is_successful. rewrite (asteps_cnt_completed _ _ _ k H). reflexivity. Qed.

(* operator states along such a history: unchanged, or moved to Assigned from an assignable state *)
Lemma transition_st_cases S w op new w' o :
  transition S w op new = Ok w' -> st_of w' o = st_of w o \/ (o = op /\ st_of w' o = new).
Proof.
  intros T. destruct (Nat.eq_dec o op) as [->|N].
  - destruct (lt_dec op (length (w_st w))) as [L|L].
    + right. split; auto. eapply transition_st_same; eauto.
    + left. apply transition_ok in T. destruct T as [_ [_ ->]]. unfold st_of, world_after. cbn [w_st].
      rewrite set_nth_out by lia. reflexivity.
  - left. eapply transition_st_other; eauto.
Qed.

Lemma asteps_st S w w' o :
  asteps S w w' -> st_of w' o = st_of w o \/ (assignable (st_of w o) = true /\ st_of w' o = Assigned).
Proof.
  induction 1 as [|w op w1 w2 T _ IH]; [left; reflexivity|].
  pose proof T as T0. apply transition_ok in T0. destruct T0 as [V _].
  destruct (transition_st_cases _ _ _ _ _ o T) as [E|[-> E]].
  - rewrite <- E. exact IH.
  - destruct IH as [IH|[A _]].
    + right. split; [exact V | congruence].
    + rewrite E in A. discriminate.
Qed.

Lemma asteps_pending_back S w w' o : asteps S w w' -> st_of w' o = Pending -> st_of w o = Pending.
Proof. intros H P. destruct (asteps_st _ _ _ o H) as [E|[_ E]]; congruence. Qed.

Lemma asteps_length S w w' : asteps S w w' -> length (w_st w') = length (w_st w).
Proof. intros H. eapply steps_length. apply asteps_steps. exact H. Qed.

(* ------------------------------------------------------------------------------------------ *)
(* 2. vocabulary                                                                                *)
(* ------------------------------------------------------------------------------------------ *)

(* the drop test of the scan: finished pipelines and pipelines with a failed operator *)
Definition dropped (C : cfg) (w : world) (k : nat) : bool :=
  is_successful (S_of C) w k || has_failures w k.
Definition keepb (C : cfg) (w : world) (k : nat) : bool := negb (dropped C w k).

(* the operators a container for pipeline [k] receives *)
Definition nv_ops (C : cfg) (single : bool) (w : world) (k : nat) : list nat :=
  if single then firstn 1 (get_ops (S_of C) w k assignable true)
  else get_ops (S_of C) w k assignable false.

(* ... and the container: everything pool [p] has free *)
Definition nv_asg (C : cfg) (single : bool) (w : world) (p : pool) (k : nat) : asg :=
  {| a_ops := nv_ops C single w k; a_cpu := p_avail_cpu p; a_ram := p_avail_ram p;
     a_prio := prio_of_pipe C k; a_pool := Z.of_nat (p_id p) |}.

(* a scanned pipeline that yields nothing *)
Definition idle (C : cfg) (single : bool) (w : world) (k : nat) : Prop :=
  dropped C w k = true \/ nv_ops C single w k = [].

Definition pool_open (p : pool) : Prop := (0 < p_avail_cpu p)%Z /\ (0 < p_avail_ram p)%Q.

Definition single_of (C : cfg) (starter : bool) : bool := if starter then true else negb (cf_multi C).

Lemma single_of_false C starter : single_of C starter = false <-> starter = false /\ cf_multi C = true.
Proof. unfold single_of. destruct starter, (cf_multi C); cbn; intuition congruence. Qed.

Lemma single_of_starter C : single_of C true = true.
Proof. reflexivity. Qed.

(* one assignment of a round: pool, pipeline, the world the scheduler saw, the Assignment *)
Record nv_event := { ev_pool : pool; ev_pipe : nat; ev_world : world; ev_asg : asg }.

(* ------------------------------------------------------------------------------------------ *)
(* 3. the inner loop                                                                            *)
(* ------------------------------------------------------------------------------------------ *)

Lemma naive_scan_cons C single w pid acpu aram p rest :
  naive_scan C single w pid acpu aram (p :: rest) =
  if dropped C w p then naive_scan C single w pid acpu aram rest
  else match nv_ops C single w p with
       | [] => do r <- naive_scan C single w pid acpu aram rest;
               let '(q', rq, w', a) := r in Ok (q', p :: rq, w', a)
       | _ :: _ =>
           let a := {| a_ops := nv_ops C single w p; a_cpu := acpu; a_ram := aram;
                       a_prio := prio_of_pipe C p; a_pool := Z.of_nat pid |} in
           do w' <- mk_assignment C w a; Ok (rest, [p], w', Some a)
       end.
Proof. reflexivity. Qed.

Lemma naive_scan_spec C single w pid acpu aram : forall queue q' rq w' oa,
  naive_scan C single w pid acpu aram queue = Ok (q', rq, w', oa) ->
  (oa = None /\ w' = w /\ q' = [] /\ Forall (idle C single w) queue /\ rq = filter (keepb C w) queue)
  \/
  (exists pre k,
     let a := {| a_ops := nv_ops C single w k; a_cpu := acpu; a_ram := aram;
                 a_prio := prio_of_pipe C k; a_pool := Z.of_nat pid |} in
     oa = Some a /\ queue = pre ++ k :: q' /\ Forall (idle C single w) pre /\
     dropped C w k = false /\ nv_ops C single w k <> [] /\
     mk_assignment C w a = Ok w' /\ rq = filter (keepb C w) pre ++ [k]).
Proof.
  induction queue as [|p rest IH]; intros q' rq w' oa H.
  - cbn in H. inversion H; subst. left. repeat split; constructor.
  - rewrite naive_scan_cons in H. destruct (dropped C w p) eqn:D.
    + apply IH in H. destruct H as [(-> & -> & -> & F & ->)|(pre & k & H)].
      * left. repeat split; auto.
        -- constructor; [left; exact D | exact F].
        -- cbn [filter]. unfold keepb at 2. rewrite D. reflexivity.
      * cbv zeta in H. destruct H as (-> & -> & F & Dk & N & M & ->).
        right. exists (p :: pre), k. cbv zeta. repeat split; auto.
        -- constructor; [left; exact D | exact F].
        -- cbn [filter]. unfold keepb at 2. rewrite D. reflexivity.
    + destruct (nv_ops C single w p) as [|o os] eqn:N.
      * unfold bind in H.
        destruct (naive_scan C single w pid acpu aram rest) as [[[[q1 rq1] w1] a1]|e] eqn:E;
          [|discriminate].
        inversion H; subst. specialize (IH _ _ _ _ eq_refl).
        destruct IH as [(-> & -> & -> & F & ->)|(pre & k & E')].
        -- left. repeat split; auto.
           ++ constructor; [right; exact N | exact F].
           ++ cbn [filter]. unfold keepb at 2. rewrite D. reflexivity.
        -- cbv zeta in E'. destruct E' as (-> & -> & F & Dk & Nk & M & ->).
           right. exists (p :: pre), k. cbv zeta. repeat split; auto.
           ++ constructor; [right; exact N | exact F].
           ++ cbn [filter]. unfold keepb at 2. rewrite D. reflexivity.
      * cbv zeta in H. unfold bind in H.
        destruct (mk_assignment C w _) as [w1|e] eqn:M; [|discriminate].
        inversion H; subst. right. exists [], p. cbv zeta. rewrite N.
        repeat split; auto. discriminate.
Qed.

(* ------------------------------------------------------------------------------------------ *)
(* 4. a round                                                                                   *)
(* ------------------------------------------------------------------------------------------ *)

(* which scanned pipelines come back: [P k true] = dropped, [P k false] = kept *)
Inductive requeue_of (P : nat -> bool -> Prop) : list nat -> list nat -> Prop :=
| rq_nil : requeue_of P [] []
| rq_drop k sc rq : P k true -> requeue_of P sc rq -> requeue_of P (k :: sc) rq
| rq_keep k sc rq : P k false -> requeue_of P sc rq -> requeue_of P (k :: sc) (k :: rq).

Lemma requeue_of_app P a b c d :
  requeue_of P a b -> requeue_of P c d -> requeue_of P (a ++ c) (b ++ d).
Proof. induction 1; cbn; intros; auto; [apply rq_drop | apply rq_keep]; auto. Qed.

Lemma requeue_of_impl (P Q : nat -> bool -> Prop) a b :
  (forall k x, P k x -> Q k x) -> requeue_of P a b -> requeue_of Q a b.
Proof. intros I. induction 1; [apply rq_nil | apply rq_drop | apply rq_keep]; auto. Qed.

Lemma requeue_of_sublist P a b : requeue_of P a b -> sublist b a.
Proof. induction 1; [apply sl_nil | apply sl_skip | apply sl_keep]; auto. Qed.

Lemma requeue_of_cases P a b : requeue_of P a b ->
  forall k, In k a -> P k true \/ (P k false /\ In k b).
Proof.
  induction 1 as [|k0 sc rq Pk _ IH|k0 sc rq Pk _ IH]; intros k Hk; [contradiction| |].
  - destruct Hk as [->|Hk]; [left; exact Pk|]. auto.
  - destruct Hk as [->|Hk]; [right; split; [exact Pk|left; reflexivity]|].
    destruct (IH k Hk) as [D|[D I]]; [left; exact D | right; split; [exact D | right; exact I]].
Qed.

Lemma requeue_of_kept P a b : requeue_of P a b -> forall k, In k b -> P k false.
Proof.
  induction 1 as [|k0 sc rq Pk _ IH|k0 sc rq Pk _ IH]; intros k Hk; [contradiction|auto|].
  destruct Hk as [->|Hk]; auto.
Qed.

Section Run.
Variable C : cfg.
Variable single : bool.
Local Notation St := (S_of C).

(* [nv_run w ps q rest rq w' ev]: the outer loop over the pools [ps], started in world [w] with waiting
   queue [q], ends in world [w'] with the unscanned suffix [rest], the requeue list [rq], and the
   assignments [ev] (in the order they were created). *)
Inductive nv_run : world -> list pool -> list nat -> list nat -> list nat -> world -> list nv_event -> Prop :=
| nvr_nil w q : nv_run w [] q q [] w []
| nvr_skip w p ps q rest rq w' ev :
    ((p_avail_cpu p <=? 0)%Z || Qleb (p_avail_ram p) 0%Q) = true ->
    nv_run w ps q rest rq w' ev ->
    nv_run w (p :: ps) q rest rq w' ev
| nvr_none w p ps q rest rq w' ev :
    pool_open p -> Forall (idle C single w) q ->
    nv_run w ps [] rest rq w' ev ->
    nv_run w (p :: ps) q rest (filter (keepb C w) q ++ rq) w' ev
| nvr_some w p ps pre k q1 w1 rest rq w' ev :
    pool_open p -> Forall (idle C single w) pre ->
    dropped C w k = false -> nv_ops C single w k <> [] ->
    mk_assignment C w (nv_asg C single w p k) = Ok w1 ->
    nv_run w1 ps q1 rest rq w' ev ->
    nv_run w (p :: ps) (pre ++ k :: q1) rest (filter (keepb C w) pre ++ k :: rq) w'
           ({| ev_pool := p; ev_pipe := k; ev_world := w; ev_asg := nv_asg C single w p k |} :: ev).

Lemma not_skipped_open p :
  ((p_avail_cpu p <=? 0)%Z || Qleb (p_avail_ram p) 0%Q) = false -> pool_open p.
Proof.
  intros Sk. apply orb_false_iff in Sk. destruct Sk as [A B]. split.
  - apply Z.leb_gt in A. exact A.
  - unfold Qleb in B. destruct (Qlt_le_dec 0 (p_avail_ram p)) as [L|L]; [exact L|].
    apply Qle_bool_iff in L. congruence.
Qed.

Lemma naive_pools_run : forall ps w q rq0 acc q' rq' w' asgs,
  naive_pools C single w ps q rq0 acc = Ok (q', rq', w', asgs) ->
  exists rq ev, nv_run w ps q q' rq w' ev /\ rq' = rq0 ++ rq /\ asgs = acc ++ map ev_asg ev.
Proof.
  induction ps as [|p t IH]; intros w q rq0 acc q' rq' w' asgs H.
  - cbn in H. inversion H; subst. exists [], []. split; [constructor|]. rewrite !app_nil_r. auto.
  - cbn [naive_pools] in H.
    destruct ((p_avail_cpu p <=? 0)%Z || Qleb (p_avail_ram p) 0%Q) eqn:Sk.
    + apply IH in H. destruct H as (rq & ev & R & -> & ->). exists rq, ev.
      split; [apply nvr_skip; auto | auto].
    + apply not_skipped_open in Sk. unfold bind in H.
      destruct (naive_scan C single w (p_id p) (p_avail_cpu p) (p_avail_ram p) q)
        as [[[[q1 rq1] w1] oa]|e] eqn:E; [|discriminate].
      apply naive_scan_spec in E. destruct E as [(-> & -> & -> & F & ->)|(pre & k & E)].
      * apply IH in H. destruct H as (rq & ev & R & -> & ->).
        exists (filter (keepb C w) q ++ rq), ev. split; [apply nvr_none; auto|].
        rewrite app_assoc. auto.
      * cbv zeta in E. destruct E as (-> & -> & F & Dk & N & M & ->).
        apply IH in H. destruct H as (rq & ev & R & -> & ->).
        exists (filter (keepb C w) pre ++ k :: rq),
               ({| ev_pool := p; ev_pipe := k; ev_world := w; ev_asg := nv_asg C single w p k |} :: ev).
        split; [eapply nvr_some; eauto|]. split.
        -- rewrite <- !app_assoc. reflexivity.
        -- cbn [map ev_asg]. rewrite <- app_assoc. reflexivity.
Qed.

Lemma nv_run_asteps w ps q rest rq w' ev : nv_run w ps q rest rq w' ev -> asteps St w w'.
Proof.
  induction 1 as [| | |w p ps pre k q1 w1 rest rq w' ev _ _ _ _ M _ IH]; auto; [constructor|].
  eapply asteps_trans; [|exact IH]. eapply mk_assignment_asteps. exact M.
Qed.

(* N2: the pools that received a container, in pool order *)
Lemma nv_run_pools w ps q rest rq w' ev : nv_run w ps q rest rq w' ev ->
  sublist (map ev_pool ev) ps /\ Forall (fun e => pool_open (ev_pool e)) ev.
Proof.
  induction 1 as [w q|w p ps q rest rq w' ev _ _ [IH1 IH2]|w p ps q rest rq w' ev _ _ _ [IH1 IH2]
                 |w p ps pre k q1 w1 rest rq w' ev PO _ _ _ _ _ [IH1 IH2]].
  - split; constructor.
  - split; [apply sl_skip|]; auto.
  - split; [apply sl_skip|]; auto.
  - split; [cbn; apply sl_keep; auto|]. constructor; auto.
Qed.

(* N3: what every assignment looks like *)
Definition ev_ok (w w' : world) (q : list nat) (e : nv_event) : Prop :=
  In (ev_pipe e) q /\
  asteps St w (ev_world e) /\ asteps St (ev_world e) w' /\
  dropped C (ev_world e) (ev_pipe e) = false /\
  nv_ops C single (ev_world e) (ev_pipe e) <> [] /\
  ev_asg e = nv_asg C single (ev_world e) (ev_pool e) (ev_pipe e) /\
  exists w1, mk_assignment C (ev_world e) (ev_asg e) = Ok w1 /\ asteps St w1 w'.

Lemma nv_run_events w ps q rest rq w' ev : nv_run w ps q rest rq w' ev -> Forall (ev_ok w w' q) ev.
Proof.
  induction 1 as [w q|w p ps q rest rq w' ev _ _ IH|w p ps q rest rq w' ev _ _ _ IH
                 |w p ps pre k q1 w1 rest rq w' ev PO F D N M R IH].
  - constructor.
  - exact IH.
  - eapply Forall_impl; [|exact IH]. intros e (I & _). destruct I.
  - 
  pose proof (mk_assignment_asteps _ _ _ _ M) as A1.
  pose proof (nv_run_asteps _ _ _ _ _ _ _ R) as A2.
  constructor.
  + unfold ev_ok. cbn [ev_pipe ev_world ev_asg ev_pool]. repeat split; auto.
    * apply in_or_app. right. left. reflexivity.
    * constructor.
    * eapply asteps_trans; eauto.
    * exists w1. auto.
  + eapply Forall_impl; [|exact IH]. intros e (I & B1 & B2 & B3 & B4 & B5 & B6).
    unfold ev_ok. repeat split; auto.
    * apply in_or_app. right. right. exact I.
    * eapply asteps_trans; eauto.
Qed.

(* N4: the queue *)
Definition drop_test (w w' : world) (k : nat) (b : bool) : Prop :=
  exists wk, asteps St w wk /\ asteps St wk w' /\ dropped C wk k = b.

Lemma requeue_of_filter w w' l : asteps St w w' ->
  requeue_of (drop_test w w') l (filter (keepb C w) l).
Proof.
  intros A. induction l as [|k t IH]; cbn [filter]; [constructor|].
  unfold keepb at 1. destruct (dropped C w k) eqn:D; cbn [negb].
  - apply rq_drop; auto. exists w. repeat split; auto. constructor.
  - apply rq_keep; auto. exists w. repeat split; auto. constructor.
Qed.

Lemma drop_test_weaken w w1 w' k b : asteps St w w1 -> drop_test w1 w' k b -> drop_test w w' k b.
Proof. intros A (wk & B1 & B2 & B3). exists wk. repeat split; auto. eapply asteps_trans; eauto. Qed.

Lemma nv_run_queue w ps q rest rq w' ev : nv_run w ps q rest rq w' ev ->
  exists scanned, q = scanned ++ rest /\ requeue_of (drop_test w w') scanned rq.
Proof.
  induction 1 as [w q|w p ps q rest rq w' ev _ _ IH|w p ps q rest rq w' ev _ _ R IH
                 |w p ps pre k q1 w1 rest rq w' ev _ _ D _ M R IH].
  - exists []. split; [reflexivity|constructor].
  - exact IH.
  - destruct IH as (sc & E & RQ). exists (q ++ sc). split.
    + rewrite <- app_assoc, <- E, app_nil_r. reflexivity.
    + apply requeue_of_app; [|exact RQ]. apply requeue_of_filter. eapply nv_run_asteps; eauto.
  - destruct IH as (sc & E & RQ).
    pose proof (mk_assignment_asteps _ _ _ _ M) as A1.
    pose proof (nv_run_asteps _ _ _ _ _ _ _ R) as A2.
    exists (pre ++ k :: sc). split.
    + rewrite <- app_assoc. cbn. rewrite E. reflexivity.
    + apply requeue_of_app; [apply requeue_of_filter; eapply asteps_trans; eauto|].
      apply rq_keep.
      * exists w. repeat split; [constructor | eapply asteps_trans; eauto | exact D].
      * eapply requeue_of_impl; [|exact RQ]. intros k0 b. apply drop_test_weaken. exact A1.
Qed.

End Run.

(* ------------------------------------------------------------------------------------------ *)
(* 5. [naive_step] is the early return or a round                                               *)
(* ------------------------------------------------------------------------------------------ *)

Lemma naive_step_cases C starter s e results newp s' w' susps asgs :
  naive_step C starter s e results newp = Ok (s', w', susps, asgs) ->
  (newp = [] /\ results = [] /\ s' = s /\ w' = e_world e /\ susps = [] /\ asgs = []) \/
  (exists rest rq ev,
     nv_run C (single_of C starter) (e_world e) (e_pools e) (ss_queue s ++ newp) rest rq w' ev /\
     s' = with_queue s (rest ++ rq) /\ susps = [] /\ asgs = map ev_asg ev).
Proof.
  intros H.
  assert (B : (do r <- naive_pools C (single_of C starter) (e_world e) (e_pools e)
                         (ss_queue s ++ newp) [] [];
               let '(q, rq, w1, a1) := r in Ok (with_queue s (q ++ rq), w1, @nil susp, a1))
              = Ok (s', w', susps, asgs) ->
          exists rest rq ev,
            nv_run C (single_of C starter) (e_world e) (e_pools e) (ss_queue s ++ newp) rest rq w' ev /\
            s' = with_queue s (rest ++ rq) /\ susps = [] /\ asgs = map ev_asg ev).
  { clear H. intros H. unfold bind in H.
    destruct (naive_pools C (single_of C starter) (e_world e) (e_pools e) (ss_queue s ++ newp) [] [])
      as [[[[q rq] w1] a1]|er] eqn:E; [|discriminate].
    inversion H; subst. apply naive_pools_run in E. destruct E as (rq' & ev & R & -> & ->).
    exists q, rq', ev. cbn [app]. auto. }
  unfold naive_step in H. destruct newp as [|n np]; [destruct results as [|r rs]|].
  - left. inversion H. auto 10.
  - right. apply B. exact H.
  - right. apply B. exact H.
Qed.

(* ------------------------------------------------------------------------------------------ *)
(* N1, N6                                                                                       *)
(* ------------------------------------------------------------------------------------------ *)

Theorem naive_no_suspend C starter s e results newp s' w' susps asgs :
  naive_step C starter s e results newp = Ok (s', w', susps, asgs) -> susps = [].
Proof.
  intros H. apply naive_step_cases in H.
  destruct H as [(_ & _ & _ & _ & E & _)|(rest & rq & ev & _ & _ & E & _)]; exact E.
Qed.

Theorem naive_early_return C starter s e :
  naive_step C starter s e [] [] = Ok (s, e_world e, [], []).
Proof. reflexivity. Qed.

(* the only fields a round changes: the waiting queue *)
Theorem naive_state_frame C starter s e results newp s' w' susps asgs :
  naive_step C starter s e results newp = Ok (s', w', susps, asgs) ->
  s' = with_queue s (ss_queue s') /\ asteps (S_of C) (e_world e) w'.
Proof.
  intros H. apply naive_step_cases in H.
  destruct H as [(_ & _ & -> & -> & _ & _)|(rest & rq & ev & R & -> & _ & _)].
  - split; [destruct s; reflexivity | constructor].
  - split; [reflexivity | eapply nv_run_asteps; eauto].
Qed.

(* ------------------------------------------------------------------------------------------ *)
(* N2                                                                                           *)
(* ------------------------------------------------------------------------------------------ *)

Definition whole_pool (p : pool) (a : asg) : Prop :=
  a_pool a = Z.of_nat (p_id p) /\ a_cpu a = p_avail_cpu p /\ a_ram a = p_avail_ram p /\
  (0 < p_avail_cpu p)%Z /\ (0 < p_avail_ram p)%Q.

Theorem naive_one_per_pool_all_free C starter s e results newp s' w' susps asgs :
  naive_step C starter s e results newp = Ok (s', w', susps, asgs) ->
  exists ps, sublist ps (e_pools e) /\ Forall2 whole_pool ps asgs.
Proof.
  intros H. apply naive_step_cases in H.
  destruct H as [(_ & _ & _ & _ & _ & ->)|(rest & rq & ev & R & _ & _ & ->)].
  - exists []. split; [apply sublist_nil_l | constructor].
  - exists (map ev_pool ev).
    destruct (nv_run_pools _ _ _ _ _ _ _ _ _ R) as [SL PO]. split; [exact SL|].
    apply Forall2_map_same.
    pose proof (nv_run_events _ _ _ _ _ _ _ _ _ R) as EV.
    rewrite Forall_forall in *. intros x Hx.
    destruct (EV x Hx) as (_ & _ & _ & _ & _ & E & _). destruct (PO x Hx) as [P1 P2].
    unfold whole_pool. rewrite E. cbn. auto.
Qed.

Lemma Forall2_whole_pool_ids ps asgs :
  Forall2 whole_pool ps asgs -> map a_pool asgs = map (fun p => Z.of_nat (p_id p)) ps.
Proof. induction 1 as [|p a ps asgs [E _] _ IH]; cbn; [reflexivity|]. rewrite E, IH. reflexivity. Qed.

Theorem naive_at_most_one_per_pool C starter s e results newp s' w' susps asgs :
  naive_step C starter s e results newp = Ok (s', w', susps, asgs) ->
  NoDup (map p_id (e_pools e)) -> NoDup (map a_pool asgs).
Proof.
  intros H N. destruct (naive_one_per_pool_all_free _ _ _ _ _ _ _ _ _ _ H) as (ps & SL & F).
  rewrite (Forall2_whole_pool_ids _ _ F).
  apply (sublist_NoDup _ (map (fun p => Z.of_nat (p_id p)) (e_pools e))).
  - apply sublist_map. exact SL.
  - rewrite <- (map_map p_id Z.of_nat). apply FinFun.Injective_map_NoDup; [|exact N].
    intros x y. apply Nat2Z.inj.
Qed.

(* the count form: a pool receives at most one container per round *)
Theorem naive_count_per_pool C starter s e results newp s' w' susps asgs p :
  naive_step C starter s e results newp = Ok (s', w', susps, asgs) ->
  NoDup (map p_id (e_pools e)) ->
  length (filter (fun a => (a_pool a =? Z.of_nat (p_id p))%Z) asgs) <= 1.
Proof.
  intros H N. pose proof (naive_at_most_one_per_pool _ _ _ _ _ _ _ _ _ _ H N) as ND.
  clear H N. induction asgs as [|a t IH]; cbn [filter length]; [lia|].
  cbn [map] in ND. inversion ND as [|? ? Hn ND']; subst.
  destruct (a_pool a =? Z.of_nat (p_id p))%Z eqn:E; [|auto].
  apply Z.eqb_eq in E. cbn [length].
  assert (Z0 : filter (fun a0 => (a_pool a0 =? Z.of_nat (p_id p))%Z) t = []).
  { clear IH ND ND'. induction t as [|b t IHt]; [reflexivity|]. cbn [filter].
    destruct (a_pool b =? Z.of_nat (p_id p))%Z eqn:Eb.
    - exfalso. apply Hn. cbn [map]. left. apply Z.eqb_eq in Eb. congruence.
    - apply IHt. intros Hi. apply Hn. cbn [map]. right. exact Hi. }
  rewrite Z0. cbn. lia.
Qed.

(* ------------------------------------------------------------------------------------------ *)
(* N3: the operators of a container                                                             *)
(* ------------------------------------------------------------------------------------------ *)

Lemma In_firstn {A} (x : A) n : forall l, In x (firstn n l) -> In x l.
Proof.
  induction n as [|n IH]; intros l H; [contradiction|].
  destruct l as [|h t]; [contradiction|]. cbn in H. destruct H as [->|H]; [left; reflexivity|right; auto].
Qed.

Lemma nv_ops_multi C w k : nv_ops C false w k = get_ops (S_of C) w k assignable false.
Proof. reflexivity. Qed.

Lemma nv_ops_single C w k : nv_ops C true w k = firstn 1 (get_ops (S_of C) w k assignable true).
Proof. reflexivity. Qed.

Lemma get_ops_In S w k allowed req o :
  In o (get_ops S w k allowed req) <->
  In o (pd_order (pipe_of S k)) /\ allowed (st_of w o) = true /\
  (req = true -> parents_complete S w o = true).
Proof.
  unfold get_ops. rewrite filter_In. rewrite andb_true_iff. destruct req; cbn [negb orb].
  - intuition congruence.
  - intuition congruence.
Qed.

(* every operator handed out is an operator of the pipeline, in an assignable state *)
Lemma nv_ops_In C single w k o :
  In o (nv_ops C single w k) -> In o (pd_order (pipe_of (S_of C) k)) /\ assignable (st_of w o) = true.
Proof.
  unfold nv_ops. destruct single; intros H.
  - apply In_firstn in H. apply get_ops_In in H. tauto.
  - apply get_ops_In in H. tauto.
Qed.

(* one-operator mode: exactly one operator, the first ready one *)
Lemma nv_ops_single_shape C w k :
  nv_ops C true w k <> [] ->
  exists o rest, nv_ops C true w k = [o] /\ get_ops (S_of C) w k assignable true = o :: rest /\
            In o (pd_order (pipe_of (S_of C) k)) /\ assignable (st_of w o) = true /\
            parents_complete (S_of C) w o = true.
Proof.
  rewrite nv_ops_single. intros N.
  destruct (get_ops (S_of C) w k assignable true) as [|o rest] eqn:G; [contradiction N; reflexivity|].
  exists o, rest. cbn. repeat split; auto;
    assert (I : In o (get_ops (S_of C) w k assignable true)) by (rewrite G; left; reflexivity);
    apply get_ops_In in I; destruct I as (I1 & I2 & I3); auto.
Qed.

Theorem naive_ops C starter s e results newp s' w' susps asgs :
  naive_step C starter s e results newp = Ok (s', w', susps, asgs) ->
  forall a, In a asgs ->
  exists k wk,
    In k (ss_queue s ++ newp) /\
    asteps (S_of C) (e_world e) wk /\ asteps (S_of C) wk w' /\
    a_prio a = prio_of_pipe C k /\
    is_successful (S_of C) wk k = false /\ has_failures wk k = false /\
    is_successful (S_of C) (e_world e) k = false /\
    a_ops a = nv_ops C (single_of C starter) wk k /\ a_ops a <> [] /\
    exists w1, mk_assignment C wk a = Ok w1 /\ asteps (S_of C) w1 w'.
Proof.
  intros H a Ha. apply naive_step_cases in H.
  destruct H as [(_ & _ & _ & _ & _ & ->)|(rest & rq & ev & R & _ & _ & ->)]; [contradiction|].
  apply in_map_iff in Ha. destruct Ha as (x & <- & Hx).
  pose proof (nv_run_events _ _ _ _ _ _ _ _ _ R) as EV. rewrite Forall_forall in EV.
  destruct (EV x Hx) as (I & A1 & A2 & D & N & E & w1 & M & A3).
  exists (ev_pipe x), (ev_world x). unfold dropped in D. apply orb_false_iff in D. destruct D as [D1 D2].
  repeat split; auto.
  - rewrite E. reflexivity.
  - rewrite <- (asteps_is_successful _ _ _ (ev_pipe x) A1). exact D1.
  - rewrite E. reflexivity.
  - rewrite E. exact N.
  - exists w1. auto.
Qed.

(* naive with multi-operator containers: all assignable operators of the pipeline *)
Corollary naive_ops_multi C s e results newp s' w' susps asgs :
  cf_multi C = true ->
  naive_step C false s e results newp = Ok (s', w', susps, asgs) ->
  forall a, In a asgs -> exists k wk,
    In k (ss_queue s ++ newp) /\ asteps (S_of C) (e_world e) wk /\ asteps (S_of C) wk w' /\
    a_ops a = get_ops (S_of C) wk k assignable false /\ a_ops a <> [].
Proof.
  intros Mu H a Ha. destruct (naive_ops _ _ _ _ _ _ _ _ _ _ H a Ha)
    as (k & wk & I & A1 & A2 & _ & _ & _ & _ & E & N & _).
  exists k, wk. repeat split; auto. rewrite E. unfold single_of. rewrite Mu. reflexivity.
Qed.

(* otherwise (starter template, or naive without multi-operator containers): exactly one operator,
   assignable, all its parents Completed, the first such in the order of operator_states *)
Corollary naive_ops_single C starter s e results newp s' w' susps asgs :
  starter = true \/ cf_multi C = false ->
  naive_step C starter s e results newp = Ok (s', w', susps, asgs) ->
  forall a, In a asgs -> exists k wk o rest,
    In k (ss_queue s ++ newp) /\ asteps (S_of C) (e_world e) wk /\ asteps (S_of C) wk w' /\
    a_ops a = [o] /\ get_ops (S_of C) wk k assignable true = o :: rest /\
    In o (pd_order (pipe_of (S_of C) k)) /\
    assignable (st_of wk o) = true /\ parents_complete (S_of C) wk o = true.
Proof.
  intros Si H a Ha. destruct (naive_ops _ _ _ _ _ _ _ _ _ _ H a Ha)
    as (k & wk & I & A1 & A2 & _ & _ & _ & _ & E & N & _).
  assert (S1 : single_of C starter = true).
  { unfold single_of. destruct Si as [->| ->]; [reflexivity|]. destruct starter; reflexivity. }
  rewrite S1 in E. rewrite E in N. destruct (nv_ops_single_shape _ _ _ N) as (o & rest & E1 & G & B).
  exists k, wk, o, rest. repeat split; auto; try tauto. congruence.
Qed.

(* ---- "never assigns work of a pipeline once one of its operators has failed" ---- *)

Definition count_st (w : world) (a : ostate) (l : list nat) : nat :=
  length (filter (fun o => ostate_eqb (st_of w o) a) l).

(* the histogram invariant of PipelineRuntimeStatus: state_counts agrees with operator_states *)
Definition counts_ok (S : static) (w : world) (k : nat) : Prop :=
  forall a, cnt_of w k a = Z.of_nat (count_st w a (pd_order (pipe_of S k))).

Lemma count_st_zero w a l : count_st w a l = 0 -> forall o, In o l -> st_of w o <> a.
Proof.
  unfold count_st. intros Z o Ho E. apply length_zero_iff_nil in Z.
  assert (I : In o (filter (fun o => ostate_eqb (st_of w o) a) l)).
  { apply filter_In. split; [exact Ho|]. apply ostate_eqb_eq. exact E. }
  rewrite Z in I. exact I.
Qed.

Lemma no_failed_ops S w k :
  cnt_of w k Failed = Z.of_nat (count_st w Failed (pd_order (pipe_of S k))) ->
  has_failures w k = false ->
  forall o, In o (pd_order (pipe_of S k)) -> st_of w o <> Failed.
Proof.
  intros Cn H. unfold has_failures in H. apply Z.ltb_ge in H. apply count_st_zero. lia.
Qed.

Lemma assignable_cases a : assignable a = true -> a = Pending \/ a = Failed.
Proof. destruct a; cbn; intros H; try discriminate; auto. Qed.

(* given the invariant in the world the container is created in: the pipeline has no Failed operator,
   and every operator of the container is Pending (never ran before: the naive scheduler never retries) *)
Theorem naive_no_failed C starter s e results newp s' w' susps asgs :
  naive_step C starter s e results newp = Ok (s', w', susps, asgs) ->
  (forall wk k, asteps (S_of C) (e_world e) wk ->
                cnt_of wk k Failed = Z.of_nat (count_st wk Failed (pd_order (pipe_of (S_of C) k)))) ->
  forall a, In a asgs ->
  exists k wk,
    In k (ss_queue s ++ newp) /\ asteps (S_of C) (e_world e) wk /\ asteps (S_of C) wk w' /\
    a_ops a = nv_ops C (single_of C starter) wk k /\
    (forall o, In o (pd_order (pipe_of (S_of C) k)) -> st_of wk o <> Failed) /\
    (forall o, In o (a_ops a) -> In o (pd_order (pipe_of (S_of C) k)) /\ st_of wk o = Pending).
Proof.
  intros H Cn a Ha. destruct (naive_ops _ _ _ _ _ _ _ _ _ _ H a Ha)
    as (k & wk & I & A1 & A2 & _ & _ & HF & _ & E & N & _).
  exists k, wk. pose proof (no_failed_ops _ _ _ (Cn wk k A1) HF) as NF.
  split; [exact I|]. split; [exact A1|]. split; [exact A2|]. split; [exact E|]. split; [exact NF|].
  intros o Ho. rewrite E in Ho. apply nv_ops_In in Ho. destruct Ho as [Io As]. split; [exact Io|].
  destruct (assignable_cases _ As) as [P|F]; [exact P|]. exfalso. exact (NF o Io F).
Qed.

(* ------------------------------------------------------------------------------------------ *)
(* N4: the waiting queue after a round                                                          *)
(* ------------------------------------------------------------------------------------------ *)

Theorem naive_queue C starter s e results newp s' w' susps asgs :
  naive_step C starter s e results newp = Ok (s', w', susps, asgs) ->
  exists scanned rest requeued,
    ss_queue s ++ newp = scanned ++ rest /\
    ss_queue s' = rest ++ requeued /\
    requeue_of (drop_test C (e_world e) w') scanned requeued.
Proof.
  intros H. apply naive_step_cases in H.
  destruct H as [(-> & _ & -> & -> & _ & _)|(rest & rq & ev & R & -> & _ & _)].
  - exists [], (ss_queue s), []. rewrite !app_nil_r. repeat split. constructor.
  - destruct (nv_run_queue _ _ _ _ _ _ _ _ _ R) as (sc & E & RQ).
    exists sc, rest, rq. repeat split; auto.
Qed.

(* every waiting pipeline is still waiting or was dropped as finished / failed; nothing is invented *)
Corollary naive_queue_members C starter s e results newp s' w' susps asgs :
  naive_step C starter s e results newp = Ok (s', w', susps, asgs) ->
  (forall k, In k (ss_queue s ++ newp) ->
     In k (ss_queue s') \/
     exists wk, asteps (S_of C) (e_world e) wk /\ asteps (S_of C) wk w' /\
                (is_successful (S_of C) wk k || has_failures wk k) = true) /\
  (forall k, In k (ss_queue s') -> In k (ss_queue s ++ newp)) /\
  (NoDup (ss_queue s ++ newp) -> NoDup (ss_queue s')).
Proof.
  intros H. destruct (naive_queue _ _ _ _ _ _ _ _ _ _ H) as (sc & rest & rq & E & E' & RQ).
  rewrite E, E'. pose proof (requeue_of_sublist _ _ _ RQ) as SL. repeat split.
  - intros k Hk. apply in_app_iff in Hk. destruct Hk as [Hk|Hk].
    + destruct (requeue_of_cases _ _ _ RQ k Hk) as [D|[_ I]].
      * right. exact D.
      * left. apply in_or_app. right. exact I.
    + left. apply in_or_app. left. exact Hk.
  - intros k Hk. apply in_app_iff in Hk. apply in_or_app.
    destruct Hk as [Hk|Hk]; [right; exact Hk | left; eapply sublist_In; eauto].
  - intros N. apply (sublist_NoDup _ (rest ++ sc)).
    + apply sublist_app; [apply sublist_refl | exact SL].
    + eapply Permutation_NoDup; [apply Permutation_app_comm | exact N].
Qed.

(* a pipeline that comes back was seen neither finished nor failed when it was scanned *)
Corollary naive_requeued_live C starter s e results newp s' w' susps asgs :
  naive_step C starter s e results newp = Ok (s', w', susps, asgs) ->
  exists scanned rest requeued,
    ss_queue s ++ newp = scanned ++ rest /\ ss_queue s' = rest ++ requeued /\
    sublist requeued scanned /\
    forall k, In k requeued ->
      exists wk, asteps (S_of C) (e_world e) wk /\ asteps (S_of C) wk w' /\
                 is_successful (S_of C) wk k = false /\ has_failures wk k = false.
Proof.
  intros H. destruct (naive_queue _ _ _ _ _ _ _ _ _ _ H) as (sc & rest & rq & E & E' & RQ).
  exists sc, rest, rq. repeat split; auto.
  - eapply requeue_of_sublist; eauto.
  - intros k Hk. destruct (requeue_of_kept _ _ _ RQ k Hk) as (wk & A1 & A2 & D).
    unfold dropped in D. apply orb_false_iff in D. exists wk. tauto.
Qed.

(* ------------------------------------------------------------------------------------------ *)
(* N5: FIFO for first containers                                                                *)
(* ------------------------------------------------------------------------------------------ *)

(* a pipeline that was never served: all its operators are Pending *)
Definition fresh (C : cfg) (w : world) (k : nat) : Prop :=
  forall o, In o (pd_order (pipe_of (S_of C) k)) -> st_of w o = Pending.
Definition freshb (C : cfg) (w : world) (k : nat) : bool :=
  forallb (fun o => ostate_eqb (st_of w o) Pending) (pd_order (pipe_of (S_of C) k)).

Lemma freshb_spec C w k : freshb C w k = true <-> fresh C w k.
Proof.
  unfold freshb, fresh. rewrite forallb_forall. split; intros H o Ho.
  - apply ostate_eqb_eq. auto.
  - apply ostate_eqb_eq. auto.
Qed.

Lemma fresh_back C w w' k : asteps (S_of C) w w' -> fresh C w' k -> fresh C w k.
Proof. intros A F o Ho. eapply asteps_pending_back; eauto. Qed.

Lemma filter_none {A} (f : A -> bool) l : Forall (fun x => f x = false) l -> filter f l = [].
Proof. induction 1 as [|x t E _ IH]; cbn; [reflexivity|]. rewrite E. exact IH. Qed.

Section Fifo.
Variable C : cfg.
Variable single : bool.
Variable Q : list nat.            (* the waiting queue at the start of the round, arrivals included *)
Variable Inv : world -> Prop.     (* any property of the worlds a round goes through, e.g.
                                     [asteps St w0] or the histogram invariant [hist_ok] below *)
Local Notation St := (S_of C).

Hypothesis Hinv : forall w p k w1, Inv w -> In k Q ->
  dropped C w k = false -> nv_ops C single w k <> [] ->
  mk_assignment C w (nv_asg C single w p k) = Ok w1 -> Inv w1.
(* operators belong to one pipeline *)
Hypothesis Hdisj : forall k k' o,
  In o (pd_order (pipe_of St k)) -> In o (pd_order (pipe_of St k')) -> k = k'.
(* a fresh pipeline can be served: it is neither finished nor failed and has an operator to hand out
   ([fresh_serveable] below derives this from the histogram invariant and the shape of the DAG) *)
Hypothesis Hserve : forall wk k, Inv wk -> In k Q -> fresh C wk k ->
  dropped C wk k = false /\ nv_ops C single wk k <> [].

Lemma fresh_not_idle wk k : Inv wk -> In k Q -> fresh C wk k -> ~ idle C single wk k.
Proof.
  intros A I F [D|N]; destruct (Hserve wk k A I F) as [D' N']; [congruence | contradiction].
Qed.

Lemma fresh_other w p k w1 k1 :
  mk_assignment C w (nv_asg C single w p k) = Ok w1 -> k1 <> k -> fresh C w k1 -> fresh C w1 k1.
Proof.
  intros M Nk F o Ho. apply mk_assignment_transition_all in M. destruct M as [_ T].
  rewrite (transition_all_frame _ _ _ _ _ T o); [auto|].
  cbn [a_ops nv_asg]. intros Hi. apply nv_ops_In in Hi. destruct Hi as [Hi _].
  apply Nk. eapply Hdisj; eauto.
Qed.

(* (a) served in queue order: if a fresh pipeline stands before a served one, it is served earlier *)
Lemma nv_run_fifo w ps q rest rq w' ev :
  nv_run C single w ps q rest rq w' ev ->
  Inv w -> incl q Q -> NoDup q ->
  forall l1 k1 l2 k2, q = l1 ++ k1 :: l2 -> In k2 l2 -> fresh C w k1 ->
  In k2 (map ev_pipe ev) ->
  exists s1 s2, map ev_pipe ev = s1 ++ k1 :: s2 /\ In k2 s2.
Proof.
  induction 1 as [w q|w p ps q rest rq w' ev _ _ IH|w p ps q rest rq w' ev _ Fi _ IH
                 |w p ps pre k q1 w1 rest rq w' ev _ Fi D N M R IH];
    intros A Inc ND l1 k1 l2 k2 E I2 F S2.
  - contradiction.
  - eapply IH; eauto.
  - exfalso. assert (I1 : In k1 q) by (rewrite E; apply in_or_app; right; left; reflexivity).
    rewrite Forall_forall in Fi. apply (fresh_not_idle w k1 A (Inc _ I1) F). auto.
  - assert (I1 : In k1 (pre ++ k :: q1)) by (rewrite E; apply in_or_app; right; left; reflexivity).
    assert (N12 : k2 <> k1).
    { intros ->. rewrite E in ND. apply NoDup_remove_2 in ND. apply ND. apply in_or_app. right. exact I2. }
    apply in_app_iff in I1. destruct I1 as [I1|[I1|I1]].
    + exfalso. rewrite Forall_forall in Fi.
      apply (fresh_not_idle w k1 A (Inc _ (in_or_app _ _ _ (or_introl I1))) F). auto.
    + subst k1. exists [], (map ev_pipe ev). split; [reflexivity|].
      cbn [map ev_pipe] in S2. destruct S2 as [S2|S2]; [congruence | exact S2].
    + assert (ND' : NoDup ((pre ++ [k]) ++ q1)) by (rewrite <- app_assoc; exact ND).
      assert (E' : (pre ++ [k]) ++ q1 = l1 ++ k1 :: l2) by (rewrite <- app_assoc; exact E).
      destruct (NoDup_split_right _ _ _ _ _ ND' E' I1) as (l1' & Eq1 & _).
      assert (Nk : forall x, In x q1 -> x <> k).
      { intros x Hx ->. apply NoDup_remove_2 in ND. apply ND. apply in_or_app. right. exact Hx. }
      assert (ND1 : NoDup q1).
      { apply NoDup_app_r in ND. inversion ND; assumption. }
      assert (I2' : In k2 q1) by (rewrite Eq1; apply in_or_app; right; right; exact I2).
      cbn [map ev_pipe] in S2. destruct S2 as [S2|S2]; [exfalso; apply (Nk k2 I2'); auto|].
      assert (Ik : In k Q) by (apply Inc; apply in_or_app; right; left; reflexivity).
      assert (A1 : Inv w1) by (eapply Hinv; eauto).
      assert (Inc1 : incl q1 Q).
      { intros x Hx. apply Inc. apply in_or_app. right. right. exact Hx. }
      assert (F1 : fresh C w1 k1) by (eapply fresh_other; eauto).
      destruct (IH A1 Inc1 ND1 l1' k1 l2 k2 Eq1 I2 F1 S2) as (s1 & s2 & Es & Is).
      exists (k :: s1), s2. split; [cbn [map ev_pipe]; rewrite Es; reflexivity | exact Is].
Qed.

(* (b) a fresh pipeline is never scanned without being served *)
Lemma nv_run_fresh_unserved w ps q rest rq w' ev :
  nv_run C single w ps q rest rq w' ev ->
  Inv w -> incl q Q -> NoDup q ->
  forall k, In k q -> fresh C w k -> ~ In k (map ev_pipe ev) -> In k rest /\ fresh C w' k.
Proof.
  induction 1 as [w q|w p ps q rest rq w' ev _ _ IH|w p ps q rest rq w' ev _ Fi _ IH
                 |w p ps pre k q1 w1 rest rq w' ev _ Fi D N M R IH];
    intros A Inc ND k0 I0 F NS.
  - auto.
  - eapply IH; eauto.
  - exfalso. rewrite Forall_forall in Fi. apply (fresh_not_idle w k0 A (Inc _ I0) F). auto.
  - assert (Nk : forall x, In x q1 -> x <> k).
    { intros x Hx ->. apply NoDup_remove_2 in ND. apply ND. apply in_or_app. right. exact Hx. }
    assert (ND1 : NoDup q1).
    { apply NoDup_app_r in ND. inversion ND; assumption. }
    assert (Ik : In k Q) by (apply Inc; apply in_or_app; right; left; reflexivity).
    pose proof I0 as I0'. apply in_app_iff in I0. destruct I0 as [I0|[I0|I0]].
    + exfalso. rewrite Forall_forall in Fi. apply (fresh_not_idle w k0 A (Inc _ I0') F). auto.
    + exfalso. apply NS. left. cbn. exact I0.
    + apply IH; auto.
      * eapply Hinv; eauto.
      * intros x Hx. apply Inc. apply in_or_app. right. right. exact Hx.
      * eapply fresh_other; eauto.
      * intros Hi. apply NS. right. exact Hi.
Qed.

(* (c) nothing that was scanned is fresh afterwards (served pipelines have an Assigned operator, the
   others were not fresh), so the fresh pipelines all sit in the unscanned suffix *)
Hypothesis Hrange : forall w k o, Inv w -> In k Q -> In o (pd_order (pipe_of St k)) -> o < length (w_st w).

Lemma served_not_fresh w p k w1 w' :
  Inv w -> In k Q -> nv_ops C single w k <> [] ->
  mk_assignment C w (nv_asg C single w p k) = Ok w1 -> asteps St w1 w' -> freshb C w' k = false.
Proof.
  intros A I N M A1. destruct (freshb C w' k) eqn:Fb; [|reflexivity]. exfalso.
  apply freshb_spec in Fb. destruct (nv_ops C single w k) as [|o os] eqn:E; [contradiction N; reflexivity|].
  assert (Io : In o (nv_ops C single w k)) by (rewrite E; left; reflexivity).
  pose proof (nv_ops_In _ _ _ _ _ Io) as [Ipd _].
  apply mk_assignment_transition_all in M. destruct M as [_ T]. cbn [a_ops nv_asg] in T.
  assert (S1 : st_of w1 o = Assigned).
  { eapply transition_all_set; [exact T | exact Io | eapply Hrange; eauto]. }
  destruct (asteps_st _ _ _ o A1) as [E1|[_ E1]]; specialize (Fb o Ipd); congruence.
Qed.

Lemma idle_not_fresh w w' k :
  Inv w -> asteps St w w' -> In k Q -> idle C single w k -> freshb C w' k = false.
Proof.
  intros A A1 I Id. destruct (freshb C w' k) eqn:Fb; [|reflexivity]. exfalso.
  apply freshb_spec in Fb. apply (fresh_not_idle w k A I); [|exact Id]. eapply fresh_back; eauto.
Qed.

Lemma nv_run_scanned_not_fresh w ps q rest rq w' ev :
  nv_run C single w ps q rest rq w' ev ->
  Inv w -> incl q Q ->
  exists scanned, q = scanned ++ rest /\ sublist rq scanned /\
                  Forall (fun k => freshb C w' k = false) scanned.
Proof.
  induction 1 as [w q|w p ps q rest rq w' ev _ _ IH|w p ps q rest rq w' ev _ Fi R IH
                 |w p ps pre k q1 w1 rest rq w' ev _ Fi D N M R IH];
    intros A Inc.
  - exists []. repeat split; constructor.
  - auto.
  - destruct (IH A (fun x Hx => match Hx with end)) as (sc & E & SL & NF).
    pose proof (nv_run_asteps _ _ _ _ _ _ _ _ _ R) as A1.
    exists (q ++ sc). split; [rewrite <- app_assoc, <- E, app_nil_r; reflexivity|].
    split; [apply sublist_app; [apply sublist_filter | exact SL]|].
    apply Forall_app. split; [|exact NF].
    rewrite Forall_forall in *. intros x Hx. eapply idle_not_fresh; eauto.
  - pose proof (mk_assignment_asteps _ _ _ _ M) as A1.
    pose proof (nv_run_asteps _ _ _ _ _ _ _ _ _ R) as A2.
    assert (Ik : In k Q) by (apply Inc; apply in_or_app; right; left; reflexivity).
    assert (Inc1 : incl q1 Q).
    { intros x Hx. apply Inc. apply in_or_app. right. right. exact Hx. }
    destruct (IH (Hinv _ _ _ _ A Ik D N M) Inc1) as (sc & E & SL & NF).
    exists (pre ++ k :: sc). split; [rewrite <- app_assoc; cbn; rewrite E; reflexivity|].
    split; [apply sublist_app; [apply sublist_filter | apply sl_keep; exact SL]|].
    apply Forall_app. split.
    + rewrite Forall_forall in *. intros x Hx. apply (idle_not_fresh w w' x A); auto.
      * eapply asteps_trans; eauto.
      * apply Inc. apply in_or_app. left. exact Hx.
    + constructor; [|exact NF]. eapply served_not_fresh; eauto.
Qed.

End Fifo.

(* the statements for [naive_step] *)
Section FifoStep.
Variables (C : cfg) (starter : bool) (s : sstate) (e : estate) (results : list result) (newp : list nat).
Variables (s' : sstate) (w' : world) (susps : list susp) (asgs : list asg).
Variable Inv : world -> Prop.
Local Notation St := (S_of C).
Local Notation Q := (ss_queue s ++ newp).
Local Notation single := (single_of C starter).

Hypothesis Hstep : naive_step C starter s e results newp = Ok (s', w', susps, asgs).
(* [Inv]: a property of the worlds the round goes through that makes fresh pipelines serveable *)
Hypothesis Hinv0 : Inv (e_world e).
Hypothesis Hinv : forall w p k w1, Inv w -> In k Q ->
  dropped C w k = false -> nv_ops C single w k <> [] ->
  mk_assignment C w (nv_asg C single w p k) = Ok w1 -> Inv w1.
Hypothesis Hdisj : forall k k' o,
  In o (pd_order (pipe_of St k)) -> In o (pd_order (pipe_of St k')) -> k = k'.
Hypothesis Hserve : forall wk k, Inv wk -> In k Q -> fresh C wk k ->
  dropped C wk k = false /\ nv_ops C single wk k <> [].
Hypothesis HND : NoDup Q.

Theorem naive_fifo_first :
  exists served : list nat,
    (* who got the containers, in the order of [asgs] *)
    length served = length asgs /\
    Forall2 (fun k a => a_prio a = prio_of_pipe C k /\
                        exists wk, asteps St (e_world e) wk /\ a_ops a = nv_ops C single wk k) served asgs /\
    (* FIFO: a fresh pipeline standing before a served one is served, and earlier *)
    (forall l1 k1 l2 k2, Q = l1 ++ k1 :: l2 -> In k2 l2 -> fresh C (e_world e) k1 -> In k2 served ->
       exists s1 s2, served = s1 ++ k1 :: s2 /\ In k2 s2) /\
    (* a fresh pipeline that is not served was not even scanned: it keeps its place in front of
       everything requeued, and is still fresh *)
    (forall k, In k Q -> fresh C (e_world e) k -> ~ In k served ->
       fresh C w' k /\
       exists scanned rest requeued, Q = scanned ++ rest /\ ss_queue s' = rest ++ requeued /\ In k rest).
Proof.
  pose proof Hstep as H. apply naive_step_cases in H.
  destruct H as [(En & _ & -> & -> & _ & ->)|(rest & rq & ev & R & -> & _ & ->)].
  - exists []. split; [reflexivity|]. split; [constructor|]. split.
    + intros l1 k1 l2 k2 _ _ _ [].
    + intros k Ik F _. split; [exact F|]. exists [], Q, []. rewrite En in *. rewrite !app_nil_r in *. auto.
  - exists (map ev_pipe ev). split; [rewrite !map_length; reflexivity|]. split; [|split].
    + apply Forall2_map_same. pose proof (nv_run_events _ _ _ _ _ _ _ _ _ R) as EV.
      eapply Forall_impl; [|exact EV]. intros x (_ & A1 & _ & _ & _ & E & _). rewrite E. cbn. split; [reflexivity|].
      exists (ev_world x). auto.
    + intros l1 k1 l2 k2 E I2 F S2.
      eapply (nv_run_fifo C single Q Inv Hinv Hdisj Hserve _ _ _ _ _ _ _ R); eauto.
      apply incl_refl.
    + intros k Ik F NS.
      destruct (nv_run_fresh_unserved C single Q Inv Hinv Hdisj Hserve _ _ _ _ _ _ _ R
                  Hinv0 (incl_refl _) HND k Ik F NS) as [Ir Fr].
      split; [exact Fr|].
      destruct (nv_run_queue _ _ _ _ _ _ _ _ _ R) as (sc & E & _).
      exists sc, rest, rq. cbn [ss_queue with_queue]. auto.
Qed.

(* from round to round the never-served pipelines keep their order: they are, in the same order, the
   pipelines of the old queue that are still fresh *)
Hypothesis Hrange : forall w k o, Inv w -> In k Q -> In o (pd_order (pipe_of St k)) -> o < length (w_st w).

Theorem naive_fresh_order_kept :
  filter (freshb C w') (ss_queue s') = filter (freshb C w') Q.
Proof.
  pose proof Hstep as H. apply naive_step_cases in H.
  destruct H as [(En & _ & -> & -> & _ & ->)|(rest & rq & ev & R & -> & _ & ->)].
  - rewrite En, app_nil_r. reflexivity.
  - destruct (nv_run_scanned_not_fresh C single Q Inv Hinv Hserve Hrange _ _ _ _ _ _ _ R
                Hinv0 (incl_refl _)) as (sc & E & SL & NF).
    cbn [ss_queue with_queue]. rewrite E, !filter_app.
    rewrite (filter_none _ sc NF).
    rewrite (filter_none _ rq).
    + rewrite app_nil_r. reflexivity.
    + rewrite Forall_forall in *. intros x Hx. apply NF. eapply sublist_In; eauto.
Qed.

End FifoStep.

(* ---- discharging [Hserve] ---- *)

Lemma count_st_fresh C w k a :
  fresh C w k -> a <> Pending -> count_st w a (pd_order (pipe_of (S_of C) k)) = 0.
Proof.
  intros F Na. unfold count_st. rewrite filter_none; [reflexivity|].
  apply Forall_forall. intros o Ho. rewrite (F o Ho). apply ostate_eqb_neq. congruence.
Qed.

(* a fresh, non-empty pipeline is neither finished nor failed (given the histogram invariant) ... *)
Lemma fresh_not_dropped C w k :
  counts_ok (S_of C) w k -> pd_order (pipe_of (S_of C) k) <> [] -> fresh C w k -> dropped C w k = false.
Proof.
  intros Cn Ne F. unfold dropped, is_successful, has_failures.
  rewrite (Cn Completed), (Cn Failed), !(count_st_fresh C w k) by (auto; discriminate).
  apply orb_false_iff. split; [|reflexivity]. apply Z.eqb_neq.
  destruct (pd_order (pipe_of (S_of C) k)); [contradiction Ne; reflexivity|]. cbn [length]. lia.
Qed.

(* ... and has an operator to hand out: any operator in multi-operator mode, a root otherwise *)
Definition has_start (C : cfg) (single : bool) (k : nat) : Prop :=
  if single then exists o, In o (pd_order (pipe_of (S_of C) k)) /\ op_parents (S_of C) o = []
  else pd_order (pipe_of (S_of C) k) <> [].

Lemma fresh_has_ops C single w k :
  fresh C w k ->
  has_start C single k ->
  nv_ops C single w k <> [].
Proof.
  intros F H. unfold nv_ops, has_start in *. destruct single.
  - destruct H as (o & Io & Po).
    assert (I : In o (get_ops (S_of C) w k assignable true)).
    { apply get_ops_In. repeat split; auto; [rewrite (F o Io); reflexivity|].
      intros _. unfold parents_complete. rewrite Po. reflexivity. }
    destruct (get_ops (S_of C) w k assignable true); [contradiction|]. cbn. discriminate.
  - destruct (pd_order (pipe_of (S_of C) k)) as [|o t] eqn:E; [contradiction H; reflexivity|].
    assert (I : In o (get_ops (S_of C) w k assignable false)).
    { apply get_ops_In. rewrite E. repeat split; [left; reflexivity| |discriminate].
      rewrite (F o); [reflexivity|]. rewrite E. left. reflexivity. }
    intros Hz. rewrite Hz in I. exact I.
Qed.

Theorem fresh_serveable C single w k :
  counts_ok (S_of C) w k -> fresh C w k ->
  has_start C single k ->
  dropped C w k = false /\ nv_ops C single w k <> [].
Proof.
  intros Cn F H. split; [|eapply fresh_has_ops; eauto].
  apply fresh_not_dropped; auto. unfold has_start in H. destruct single; [|exact H].
  destruct H as (o & Io & _). intros Hz. rewrite Hz in Io. exact Io.
Qed.

(* ------------------------------------------------------------------------------------------ *)
(* 6. the histogram invariant; closed forms of N3 and N5                                        *)
(* ------------------------------------------------------------------------------------------ *)

(* what the scheduler theorems need of the static description (true of [mk_static] on well-formed
   DAGs): operator_states lists every operator of the pipeline once, and only those *)
Definition static_ok (S : static) : Prop :=
  (forall k, NoDup (pd_order (pipe_of S k))) /\
  (forall k o, In o (pd_order (pipe_of S k)) ->
     op_pipe S o = k /\ o < length (s_ops S) /\ k < length (s_pipes S)).

(* the world is well-shaped and state_counts is the histogram of operator_states, for every pipeline *)
Definition hist_ok (S : static) (w : world) : Prop :=
  length (w_st w) = length (s_ops S) /\
  length (w_cnt w) = length (s_pipes S) /\
  (forall k, k < length (s_pipes S) -> length (nth k (w_cnt w) []) = 6) /\
  (forall k, counts_ok S w k).

Lemma ost_idx_lt a : ost_idx a < 6.
Proof. destruct a; cbn; lia. Qed.

Lemma valid_irrefl a : valid a a = false.
Proof. destruct a; reflexivity. Qed.

Lemma bump_length c b d : length (bump c b d) = length c.
Proof. unfold bump. apply set_nth_length. Qed.

Lemma nth_bump c a b d : ost_idx b < length c ->
  nth (ost_idx a) (bump c b d) 0%Z = (nth (ost_idx a) c 0 + (if ostate_eqb b a then d else 0))%Z.
Proof.
  intros L. unfold bump. destruct (ostate_eqb b a) eqn:E.
  - apply ostate_eqb_eq in E. subst b. rewrite nth_set_nth_same by exact L. reflexivity.
  - apply ostate_eqb_neq in E. rewrite nth_set_nth_other; [lia|].
    intros Hi. apply E. apply ost_idx_inj. exact Hi.
Qed.

Lemma count_st_cons w a h t :
  count_st w a (h :: t) = (if ostate_eqb (st_of w h) a then 1 else 0) + count_st w a t.
Proof. unfold count_st. cbn [filter]. destruct (ostate_eqb (st_of w h) a); reflexivity. Qed.

Lemma count_st_ext w w' a l :
  (forall o, In o l -> st_of w' o = st_of w o) -> count_st w' a l = count_st w a l.
Proof.
  induction l as [|h t IH]; intros H; [reflexivity|]. rewrite !count_st_cons.
  rewrite (H h (or_introl eq_refl)), IH; [reflexivity|]. intros o Ho. apply H. right. exact Ho.
Qed.

Lemma count_st_update w w' op new a l :
  NoDup l -> In op l -> st_of w' op = new -> (forall o, o <> op -> st_of w' o = st_of w o) ->
  Z.of_nat (count_st w' a l) =
  (Z.of_nat (count_st w a l) + (if ostate_eqb new a then 1 else 0)
   - (if ostate_eqb (st_of w op) a then 1 else 0))%Z.
Proof.
  intros N I En Eo. induction l as [|h t IH]; [contradiction|].
  inversion N as [|? ? Hn N']; subst. rewrite !count_st_cons.
  destruct (Nat.eq_dec h op) as [->|Nh].
  - rewrite (count_st_ext w w' a t); [|intros o Ho; apply Eo; intros ->; contradiction].
    destruct (ostate_eqb (st_of w' op) a), (ostate_eqb (st_of w op) a); lia.
  - destruct I as [I|I]; [contradiction|]. specialize (IH N' I). rewrite (Eo h Nh).
    destruct (ostate_eqb (st_of w h) a); lia.
Qed.

Lemma transition_hist S w op new w' :
  static_ok S -> hist_ok S w -> In op (pd_order (pipe_of S (op_pipe S op))) ->
  transition S w op new = Ok w' -> hist_ok S w'.
Proof.
  intros [SN SO] (L1 & L2 & L3 & Cn) Iop T.
  destruct (SO _ _ Iop) as (_ & Rop & Rk).
  pose proof T as T0. apply transition_ok in T0. destruct T0 as (V & _ & E).
  assert (Es : st_of w' op = new) by (eapply transition_st_same; eauto; lia).
  assert (Eo : forall o, o <> op -> st_of w' o = st_of w o)
    by (intros o No; eapply transition_st_other; eauto).
  assert (Nn : st_of w op <> new).
  { intros Hn. rewrite Hn, valid_irrefl in V. discriminate. }
  set (k0 := op_pipe S op) in *. set (old := st_of w op) in *.
  assert (Ew1 : w_st w' = set_nth (w_st w) op new) by (rewrite E; reflexivity).
  assert (Ew2 : w_cnt w' = set_nth (w_cnt w) k0 (bump (bump (nth k0 (w_cnt w) []) old (-1)) new 1))
    by (rewrite E; reflexivity).
  clear E T. unfold hist_ok. rewrite Ew1, Ew2.
  split; [rewrite set_nth_length; exact L1|]. split; [rewrite set_nth_length; exact L2|]. split.
  - intros k Hk. destruct (Nat.eq_dec k0 k) as [<-|Nk].
    + rewrite nth_set_nth_same by lia. rewrite !bump_length. apply L3. exact Rk.
    + rewrite nth_set_nth_other by exact Nk. apply L3. exact Hk.
  - intros k a. unfold cnt_of. rewrite Ew2. destruct (Nat.eq_dec k0 k) as [<-|Nk].
    + rewrite nth_set_nth_same by lia.
      rewrite nth_bump by (rewrite bump_length, (L3 k0 Rk); apply ost_idx_lt).
      rewrite nth_bump by (rewrite (L3 k0 Rk); apply ost_idx_lt).
      pose proof (Cn k0 a) as Ca. unfold cnt_of in Ca. rewrite Ca.
      rewrite (count_st_update w w' op new a _ (SN k0) Iop Es Eo). fold old.
      destruct (ostate_eqb new a), (ostate_eqb old a); lia.
    + rewrite nth_set_nth_other by exact Nk.
      pose proof (Cn k a) as Ca. unfold cnt_of in Ca. rewrite Ca. f_equal. symmetry.
      apply count_st_ext. intros o Ho. apply Eo. intros ->.
      apply Nk. destruct (SO _ _ Ho) as (Ek & _). exact Ek.
Qed.

Lemma transition_all_hist S k : forall ops w new w',
  static_ok S -> hist_ok S w -> (forall o, In o ops -> In o (pd_order (pipe_of S k))) ->
  transition_all S w ops new = Ok w' -> hist_ok S w'.
Proof.
  induction ops as [|o t IH]; intros w new w' SK H I T; cbn [transition_all] in T.
  - inversion T; subst. exact H.
  - unfold bind in T. destruct (transition S w o new) as [w1|e] eqn:T1; [|discriminate].
    apply (IH w1 new w' SK); [|intros x Hx; apply I; right; exact Hx | exact T].
    eapply transition_hist; eauto. pose proof (I o (or_introl eq_refl)) as Io.
    destruct SK as [_ SO]. destruct (SO _ _ Io) as (-> & _). exact Io.
Qed.

Lemma nv_asg_hist C single w p k w1 :
  static_ok (S_of C) -> hist_ok (S_of C) w ->
  mk_assignment C w (nv_asg C single w p k) = Ok w1 -> hist_ok (S_of C) w1.
Proof.
  intros SK H M. apply mk_assignment_transition_all in M. destruct M as [_ T].
  apply (transition_all_hist _ k (a_ops (nv_asg C single w p k)) w Assigned w1 SK H); [|exact T].
  cbn [a_ops nv_asg]. intros o Ho. apply nv_ops_In in Ho. tauto.
Qed.

(* the invariant holds in the initial world *)
Lemma st_of_init S o : st_of (init_world S) o = Pending.
Proof.
  unfold st_of, init_world. cbn [w_st].
  destruct (Nat.lt_ge_cases o (length (s_ops S))) as [L|L].
  - apply nth_repeat.
  - apply nth_overflow. rewrite repeat_length. exact L.
Qed.

Lemma hist_ok_init S : hist_ok S (init_world S).
Proof.
  split; [cbn; apply repeat_length|]. split; [cbn; apply map_length|]. split.
  - intros k Hk. cbn [init_world w_cnt].
    rewrite (nth_indep _ [] (init_counts dummy_pipe)) by (rewrite map_length; exact Hk).
    rewrite map_nth. reflexivity.
  - intros k a. unfold cnt_of. cbn [init_world w_cnt].
    assert (Cs : forall l, count_st (init_world S) a l = if ostate_eqb Pending a then length l else 0).
    { induction l as [|h t IH]; [destruct (ostate_eqb Pending a); reflexivity|].
      rewrite count_st_cons, IH, st_of_init. destruct (ostate_eqb Pending a); reflexivity. }
    rewrite Cs. destruct (Nat.lt_ge_cases k (length (s_pipes S))) as [L|L].
    + rewrite (nth_indep _ [] (init_counts dummy_pipe)) by (rewrite map_length; exact L).
      rewrite map_nth. unfold pipe_of. destruct a; reflexivity.
    + rewrite (nth_overflow (map init_counts (s_pipes S))) by (rewrite map_length; exact L).
      unfold pipe_of. rewrite (nth_overflow (s_pipes S)) by exact L.
      destruct a; reflexivity.
Qed.

Section Closed.
Variable C : cfg.
Variable single : bool.
Local Notation St := (S_of C).
Hypothesis SK : static_ok St.

(* along a round: the invariant holds in every world the scheduler looks at and afterwards; a Failed
   operator stays Failed and its pipeline is never served *)
Lemma nv_run_hist w ps q rest rq w' ev :
  nv_run C single w ps q rest rq w' ev -> hist_ok St w ->
  hist_ok St w' /\ Forall (fun x => hist_ok St (ev_world x)) ev /\
  forall k o, In o (pd_order (pipe_of St k)) -> st_of w o = Failed ->
              ~ In k (map ev_pipe ev) /\ st_of w' o = Failed.
Proof.
  induction 1 as [w q|w p ps q rest rq w' ev _ _ IH|w p ps q rest rq w' ev _ _ _ IH
                 |w p ps pre k q1 w1 rest rq w' ev _ _ D N M R IH]; intros H.
  - split; [exact H|]. split; [constructor|]. intros k o _ F. split; [intros []|exact F].
  - auto.
  - auto.
  - pose proof (nv_asg_hist _ _ _ _ _ _ SK H M) as H1.
    destruct (IH H1) as (Hw' & Fev & Ff). split; [exact Hw'|]. split; [constructor; assumption|].
    intros k0 o Io Fo.
    assert (Nk : k <> k0).
    { intros ->. unfold dropped in D. apply orb_false_iff in D. destruct D as [_ D2].
      destruct H as (_ & _ & _ & Cn).
      exact (no_failed_ops _ _ _ (Cn k0 Failed) D2 o Io Fo). }
    assert (Fo1 : st_of w1 o = Failed).
    { apply mk_assignment_transition_all in M. destruct M as [_ T].
      rewrite (transition_all_frame _ _ _ _ _ T o); [exact Fo|].
      cbn [a_ops nv_asg]. intros Hi. apply nv_ops_In in Hi. destruct Hi as [Hi _].
      destruct SK as [_ SO]. destruct (SO _ _ Hi) as (E1 & _). destruct (SO _ _ Io) as (E2 & _).
      congruence. }
    destruct (Ff k0 o Io Fo1) as [NI Fw']. split; [|exact Fw'].
    cbn [map ev_pipe]. intros [Hk|Hk]; [exact (Nk Hk) | exact (NI Hk)].
Qed.

End Closed.

(* N3, closed form: given the invariant at the start of the round, every operator put into a container
   is Pending at that moment and was Pending at the start of the round (no retries), its pipeline has
   no Failed operator; a pipeline with a Failed operator gets nothing; the invariant holds afterwards *)
Theorem naive_never_retries C starter s e results newp s' w' susps asgs :
  static_ok (S_of C) -> hist_ok (S_of C) (e_world e) ->
  naive_step C starter s e results newp = Ok (s', w', susps, asgs) ->
  hist_ok (S_of C) w' /\
  (forall a o, In a asgs -> In o (a_ops a) ->
     st_of (e_world e) o = Pending /\
     forall o', In o' (pd_order (pipe_of (S_of C) (op_pipe (S_of C) o))) ->
                st_of (e_world e) o' <> Failed) /\
  (forall k o, In o (pd_order (pipe_of (S_of C) k)) -> st_of (e_world e) o = Failed ->
     st_of w' o = Failed /\
     forall a o', In a asgs -> In o' (a_ops a) -> op_pipe (S_of C) o' <> k).
Proof.
  intros SK H0 H. apply naive_step_cases in H.
  destruct H as [(_ & _ & _ & -> & _ & ->)|(rest & rq & ev & R & _ & _ & ->)].
  - split; [exact H0|]. split; [intros a o []|]. intros k o _ F. split; [exact F|intros a o' []].
  - destruct (nv_run_hist C _ SK _ _ _ _ _ _ _ R H0) as (Hw' & Fev & Ff).
    pose proof (nv_run_events _ _ _ _ _ _ _ _ _ R) as EV. rewrite Forall_forall in EV, Fev.
    assert (Own : forall x o, In x ev -> In o (a_ops (ev_asg x)) ->
                  In o (pd_order (pipe_of (S_of C) (ev_pipe x))) /\ op_pipe (S_of C) o = ev_pipe x /\
                  assignable (st_of (ev_world x) o) = true).
    { intros x o Hx Ho. destruct (EV x Hx) as (_ & _ & _ & _ & _ & E & _).
      rewrite E in Ho. cbn [a_ops nv_asg] in Ho. apply nv_ops_In in Ho. destruct Ho as [I1 I2].
      destruct SK as [_ SO]. destruct (SO _ _ I1) as (E1 & _). auto. }
    split; [exact Hw'|]. split.
    + intros a o Ha Ho. apply in_map_iff in Ha. destruct Ha as (x & <- & Hx).
      destruct (Own x o Hx Ho) as (Io & Ep & As).
      destruct (EV x Hx) as (_ & A1 & _ & D & _).
      unfold dropped in D. apply orb_false_iff in D. destruct D as [_ D2].
      destruct (Fev x Hx) as (_ & _ & _ & Cn).
      pose proof (no_failed_ops _ _ _ (Cn (ev_pipe x) Failed) D2) as NF.
      split.
      * apply (asteps_pending_back _ _ _ o A1).
        destruct (assignable_cases _ As) as [P|F]; [exact P | exfalso; exact (NF o Io F)].
      * rewrite Ep. intros o' Io' F'.
        destruct (Ff (ev_pipe x) o' Io' F') as [NI _]. apply NI. apply in_map. exact Hx.
    + intros k o Io F. destruct (Ff k o Io F) as [NI Fw']. split; [exact Fw'|].
      intros a o' Ha Ho' Ek. apply in_map_iff in Ha. destruct Ha as (x & <- & Hx).
      destruct (Own x o' Hx Ho') as (_ & Ep & _). apply NI. rewrite <- Ek, Ep. apply in_map. exact Hx.
Qed.

(* N5, closed form *)
Theorem naive_fifo_first_wf C starter s e results newp s' w' susps asgs :
  static_ok (S_of C) -> hist_ok (S_of C) (e_world e) ->
  NoDup (ss_queue s ++ newp) ->
  (forall k, In k (ss_queue s ++ newp) -> has_start C (single_of C starter) k) ->
  naive_step C starter s e results newp = Ok (s', w', susps, asgs) ->
  (exists served : list nat,
    length served = length asgs /\
    Forall2 (fun k a => a_prio a = prio_of_pipe C k /\
                        exists wk, asteps (S_of C) (e_world e) wk /\
                                   a_ops a = nv_ops C (single_of C starter) wk k) served asgs /\
    (forall l1 k1 l2 k2, ss_queue s ++ newp = l1 ++ k1 :: l2 -> In k2 l2 ->
       fresh C (e_world e) k1 -> In k2 served ->
       exists s1 s2, served = s1 ++ k1 :: s2 /\ In k2 s2) /\
    (forall k, In k (ss_queue s ++ newp) -> fresh C (e_world e) k -> ~ In k served ->
       fresh C w' k /\
       exists scanned rest requeued,
         ss_queue s ++ newp = scanned ++ rest /\ ss_queue s' = rest ++ requeued /\ In k rest)) /\
  filter (freshb C w') (ss_queue s') = filter (freshb C w') (ss_queue s ++ newp).
Proof.
  intros SK H0 ND HS H.
  assert (Hinv : forall w p k w1, hist_ok (S_of C) w -> In k (ss_queue s ++ newp) ->
            dropped C w k = false -> nv_ops C (single_of C starter) w k <> [] ->
            mk_assignment C w (nv_asg C (single_of C starter) w p k) = Ok w1 -> hist_ok (S_of C) w1).
  { intros w p k w1 Hw _ _ _ M. eapply nv_asg_hist; eauto. }
  assert (Hdisj : forall k k' o, In o (pd_order (pipe_of (S_of C) k)) ->
            In o (pd_order (pipe_of (S_of C) k')) -> k = k').
  { intros k k' o I1 I2. destruct SK as [_ SO].
    destruct (SO _ _ I1) as (E1 & _). destruct (SO _ _ I2) as (E2 & _). congruence. }
  assert (Hserve : forall wk k, hist_ok (S_of C) wk -> In k (ss_queue s ++ newp) -> fresh C wk k ->
            dropped C wk k = false /\ nv_ops C (single_of C starter) wk k <> []).
  { intros wk k (_ & _ & _ & Cn) Ik F. apply fresh_serveable; auto. }
  assert (Hrange : forall w k o, hist_ok (S_of C) w -> In k (ss_queue s ++ newp) ->
            In o (pd_order (pipe_of (S_of C) k)) -> o < length (w_st w)).
  { intros w k o (L1 & _) _ Io. destruct SK as [_ SO]. destruct (SO _ _ Io) as (_ & R & _). lia. }
  split.
  - exact (naive_fifo_first C starter s e results newp s' w' susps asgs (hist_ok (S_of C))
             H H0 Hinv Hdisj Hserve ND).
  - exact (naive_fresh_order_kept C starter s e results newp s' w' susps asgs (hist_ok (S_of C))
             H H0 Hinv Hserve Hrange).
Qed.

(* ---- [static_ok] and [has_start] hold for the statics the model builds ([mk_static]) ---- *)

Lemma mk_ops_length : forall ps k0, length (mk_ops k0 ps) = list_sum (map pd_n ps).
Proof.
  induction ps as [|p t IH]; intros k0; [reflexivity|].
  simpl. rewrite app_length, opdefs_of_length, IH. reflexivity.
Qed.

Lemma list_sum_firstn_le : forall (ps : list pdef) k, k < length ps ->
  list_sum (map pd_n (firstn k ps)) + pd_n (nth k ps dummy_pipe) <= list_sum (map pd_n ps).
Proof.
  induction ps as [|p t IH]; intros k Hk; [cbn in Hk; lia|].
  destruct k as [|k]; simpl.
  - lia.
  - simpl in Hk. specialize (IH k). lia.
Qed.

Lemma mk_pipes_shape : forall l first,
  dags_wf l ->
  Forall (fun p => pd_order p = map (fun i => pd_first p + i) (iterate (pd_dag p)) /\ wf_dag (pd_dag p))
         (mk_pipes first l).
Proof.
  induction l as [|[pr g] t IH]; intros first W; cbn [mk_pipes]; [constructor|].
  inversion W as [|? ? Wg Wt]; subst. constructor; [|apply IH; exact Wt].
  cbn. split; [reflexivity | exact Wg].
Qed.

Lemma mk_static_pipe l k :
  dags_wf l -> k < length (s_pipes (mk_static l)) ->
  let p := pipe_of (mk_static l) k in
  pd_order p = map (fun i => pd_first p + i) (iterate (pd_dag p)) /\ wf_dag (pd_dag p).
Proof.
  intros W Hk. cbv zeta. unfold pipe_of. pose proof (mk_pipes_shape l 0 W) as F.
  rewrite Forall_forall in F. apply F. cbn [mk_static s_pipes] in *. apply nth_In. exact Hk.
Qed.

Lemma mk_static_order_In l k o :
  dags_wf l -> In o (pd_order (pipe_of (mk_static l) k)) ->
  k < length (s_pipes (mk_static l)) /\
  exists j, o = pd_first (pipe_of (mk_static l) k) + j /\ j < pd_n (pipe_of (mk_static l) k) /\
            In j (iterate (pd_dag (pipe_of (mk_static l) k))).
Proof.
  intros W Io.
  assert (Hk : k < length (s_pipes (mk_static l))).
  { destruct (Nat.lt_ge_cases k (length (s_pipes (mk_static l)))) as [L|L]; [exact L|].
    unfold pipe_of in Io. rewrite nth_overflow in Io by exact L. destruct Io. }
  split; [exact Hk|]. destruct (mk_static_pipe l k W Hk) as [E Wg]. rewrite E in Io.
  apply in_map_iff in Io. destruct Io as (j & <- & Ij). exists j. split; [reflexivity|]. split; [|exact Ij].
  pose proof (Permutation_in _ (DagProof.dag_iter_perm _ Wg) Ij) as In_. apply DagProof.In_nodes in In_.
  exact In_.
Qed.

Theorem static_ok_mk_static l : dags_wf l -> static_ok (mk_static l).
Proof.
  intros W. split.
  - intros k. destruct (Nat.lt_ge_cases k (length (s_pipes (mk_static l)))) as [L|L].
    + destruct (mk_static_pipe l k W L) as [E Wg]. rewrite E.
      apply Injective_map_NoDup; [intros x y; lia|].
      eapply Permutation_NoDup; [apply Permutation_sym; apply DagProof.dag_iter_perm; exact Wg|].
      apply seq_NoDup.
    + unfold pipe_of. rewrite nth_overflow by exact L. constructor.
  - intros k o Io. destruct (mk_static_order_In l k o W Io) as (Hk & j & -> & Hj & _).
    split; [|split; [|exact Hk]].
    + unfold op_pipe. rewrite (mk_static_nth l k j Hk Hj). reflexivity.
    + cbn [mk_static s_ops s_pipes] in *. rewrite mk_ops_length.
      unfold pipe_of. cbn [mk_static s_pipes].
      rewrite mk_pipes_first by (rewrite mk_pipes_length in Hk; exact Hk).
      pose proof (list_sum_firstn_le (mk_pipes 0 l) k Hk) as Le.
      unfold pipe_of in Hj. cbn [mk_static s_pipes] in Hj. lia.
Qed.

(* every non-empty pipeline has a first operator without parents *)
Theorem has_start_mk_static C single l k :
  cf_static C = mk_static l -> dags_wf l ->
  k < length (s_pipes (mk_static l)) -> pd_dag (pipe_of (mk_static l) k) <> [] ->
  has_start C single k.
Proof.
  intros EC W Hk Ne. unfold has_start, S_of. rewrite EC.
  destruct (mk_static_pipe l k W Hk) as [E Wg].
  set (p := pipe_of (mk_static l) k) in *.
  assert (L0 : 0 < pd_n p) by (unfold pd_n; destruct (pd_dag p); [contradiction Ne; reflexivity|cbn; lia]).
  assert (I0 : In 0 (iterate (pd_dag p))).
  { eapply Permutation_in; [apply Permutation_sym; apply DagProof.dag_iter_perm; exact Wg|].
    apply DagProof.In_nodes. exact L0. }
  assert (Io : In (pd_first p + 0) (pd_order p)) by (rewrite E; apply in_map; exact I0).
  destruct single.
  - exists (pd_first p + 0). split; [exact Io|]. unfold op_parents. subst p.
    rewrite (mk_static_nth l k 0 Hk L0). cbn [od_parents].
    destruct (Wg 0 L0) as [_ Lt].
    destruct (parents (pd_dag (pipe_of (mk_static l) k)) 0) as [|x t]; [reflexivity|].
    specialize (Lt x (or_introl eq_refl)). lia.
  - intros Z. rewrite Z in Io. exact Io.
Qed.

(* ------------------------------------------------------------------------------------------ *)
(* non-vacuity: two pools, three pipelines                                                      *)
(* ------------------------------------------------------------------------------------------ *)

Module NaiveExamples.

(* pipeline 0: operators 0 -> 1; pipeline 1: operator 2; pipeline 2: operators 3, 4 (independent) *)
Definition Sx : static :=
  mk_static [(Query, [[]; [0]]); (Batch, [[]]); (Interactive, [[]; []])].
Definition Cx (multi : bool) : cfg :=
  {| cf_static := Sx; cf_script := fun _ _ => [1%Q]; cf_tps := 10%Z; cf_overcommit := false;
     cf_multi := multi; cf_rnd := fun q => q |}.
Definition ex : estate := init_estate (Cx false) 2 4%Z 8%Q.

(* naive, one operator per container: pools 0 and 1 go to pipelines 0 and 1 in arrival order, whole
   pools; pipeline 2 was not scanned and stays in front of the requeued ones *)
Example ex_naive_single :
  match naive_step (Cx false) false init_sstate ex [] [0; 1; 2] with
  | Ok (s', w', susps, asgs) =>
      ss_queue s' = [2; 0; 1] /\ susps = [] /\
      map a_ops asgs = [[0]; [2]] /\ map a_pool asgs = [0%Z; 1%Z] /\
      map a_cpu asgs = [4%Z; 4%Z] /\ map a_ram asgs = [8%Q; 8%Q] /\
      map a_prio asgs = [Query; Batch] /\
      map (st_of w') [0; 1; 2; 3; 4] = [Assigned; Pending; Assigned; Pending; Pending]
  | Err _ => False
  end.
Proof. vm_compute. repeat split. Qed.

(* naive with multi-operator containers: all assignable operators of the pipeline *)
Example ex_naive_multi :
  match naive_step (Cx true) false init_sstate ex [] [0; 1; 2] with
  | Ok (s', _, susps, asgs) =>
      ss_queue s' = [2; 0; 1] /\ susps = [] /\ map a_ops asgs = [[0; 1]; [2]]
  | Err _ => False
  end.
Proof. vm_compute. repeat split. Qed.

(* the starter template ignores the flag *)
Example ex_starter :
  match naive_step (Cx true) true init_sstate ex [] [0; 1; 2] with
  | Ok (s', _, susps, asgs) =>
      ss_queue s' = [2; 0; 1] /\ susps = [] /\ map a_ops asgs = [[0]; [2]]
  | Err _ => False
  end.
Proof. vm_compute. repeat split. Qed.

(* nothing new: nothing happens *)
Example ex_early :
  naive_step (Cx false) false (with_queue init_sstate [2; 0; 1]) ex [] []
  = Ok (with_queue init_sstate [2; 0; 1], e_world ex, [], []).
Proof. reflexivity. Qed.

(* a world in which operator 2 (pipeline 1) has failed and operator 0 (pipeline 0) is held: pipeline 1
   is dropped for good, pipeline 0 waits (its only ready operator is taken), pipeline 2 is served
   in pool 0 and nobody is left for pool 1 *)
Definition w_failed : world :=
  match transition_all Sx (init_world Sx) [0; 2] Assigned with
  | Ok w => match transition Sx w 2 Failed with Ok w' => w' | Err _ => w end
  | Err _ => init_world Sx
  end.

Example ex_failed_dropped :
  has_failures w_failed 1 = true /\
  match naive_step (Cx false) false (with_queue init_sstate [1; 0; 2])
          {| e_world := w_failed; e_pools := e_pools ex; e_next := 0 |}
          [{| r_cid := 0; r_ops := [2]; r_cpu := 4%Z; r_ram := 8%Q; r_prio := Batch; r_pool := 1; r_err := true |}]
          [] with
  | Ok (s', _, susps, asgs) =>
      ss_queue s' = [0; 2] /\ susps = [] /\ map a_ops asgs = [[3]] /\ map a_pool asgs = [0%Z]
  | Err _ => False
  end.
Proof. vm_compute. repeat split. Qed.

(* the hypotheses of the FIFO theorems hold here *)
Example ex_counts_ok : forall k, k < 3 -> counts_ok Sx (init_world Sx) k.
Proof.
  intros k Hk a. destruct k as [|[|[|k]]]; [| | |lia]; destruct a; vm_compute; reflexivity.
Qed.

Example ex_has_start : forall k, k < 3 -> has_start (Cx false) true k /\ has_start (Cx true) false k.
Proof.
  intros k Hk. destruct k as [|[|[|k]]]; [| | |lia]; split; cbn.
  - exists 0. vm_compute. auto.
  - vm_compute. discriminate.
  - exists 2. vm_compute. auto.
  - vm_compute. discriminate.
  - exists 3. vm_compute. auto.
  - vm_compute. discriminate.
Qed.

(* ... and so do those of the closed forms [naive_never_retries], [naive_fifo_first_wf] *)
Example ex_dags_wf : dags_wf [(Query, [[]; [0]]); (Batch, [[]]); (Interactive, [[]; []])].
Proof.
  unfold dags_wf.
  apply Forall_cons; [|apply Forall_cons; [|apply Forall_cons; [|apply Forall_nil]]];
    cbn [snd]; intros j Hj; cbn [length] in Hj;
    (destruct j as [|[|[|j]]]; try lia); cbn;
    (split; [repeat constructor; cbn; intuition lia | intros p Hp; intuition lia]).
Qed.

Example ex_closed_hyps :
  static_ok (S_of (Cx false)) /\ hist_ok (S_of (Cx false)) (e_world ex) /\
  NoDup (ss_queue init_sstate ++ [0; 1; 2]) /\
  forall k, In k (ss_queue init_sstate ++ [0; 1; 2]) -> has_start (Cx false) (single_of (Cx false) false) k.
Proof.
  split; [apply static_ok_mk_static; exact ex_dags_wf|].
  split; [apply hist_ok_init|]. split.
  - cbn. repeat constructor; cbn; intuition lia.
  - intros k Hk. apply (has_start_mk_static (Cx false) _ [(Query, [[]; [0]]); (Batch, [[]]); (Interactive, [[]; []])]
             k eq_refl ex_dags_wf).
    + cbn in Hk. cbn. intuition lia.
    + cbn in Hk. destruct Hk as [<-|[<-|[<-|[]]]]; vm_compute; discriminate.
Qed.

End NaiveExamples.

(* ------------------------------------------------------------------------------------------ *)
