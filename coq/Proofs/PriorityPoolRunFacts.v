(* C16 / C08 at run level: priority-pool (multi-operator containers) driven by the simulator loop.

   Part A (generic, reused by Proofs/OverbookRunFacts.v):
     [xsteps]        histories of requests made by the executor (every target but ASSIGNED);
                     operators in an assignable state (PENDING, FAILED) are not touched by them;
     [exec_tick_xsteps]  one executor tick is such a history, whatever the commands;
     [sim_tick_ok_inv], [sim_reach], [sim_run_reach]  the simulator loop opened once.
   Part B: the invariant of the closed loop priority-pool + executor ([pp_inv]): no container is ever
     suspending/suspended, every pool is both-or-none with non-negative free amounts, containers and
     results carry positive sizes, every failed result still owns a FAILED operator, every queued job
     has operators and positive retry sizes.
   Part C: [pp_run_errors]: a run of priority-pool from the initial state can stop only with an
     error raised inside a container tick or by an ASSIGNED request on an operator that is not assignable.
   Part D: [pp_runs_to_end]: the closed loop. For static data built by [mk_static] from well-formed DAGs,
     non-empty scripts and a workload without repeated pipelines the run reaches its last tick. Invariant
     [loop_inv]: containers run their remaining operators in an order that respects the DAG ([crun],
     [deps]), queued jobs hold distinct assignable operators ([jrun], [sinv]), a failed result hands back
     exactly the operators its container still owned ([rrun], [frem]). *)
From Coq Require Import ZArith QArith List Bool Arith Lia Lqa Permutation.
Import ListNotations.
From Eudoxia Require Import Num.Rnd64 Model.Types Model.Dag Model.Lifecycle Model.Container Model.Pool
  Model.Executor Model.Sched Model.Simulator
  Proofs.ListFacts Proofs.LifecycleFacts Proofs.ConserveFacts Proofs.ExecLifeFacts Proofs.OomFacts
  Proofs.NaiveFacts Proofs.SafetyFacts Proofs.PriorityPoolFacts.
Close Scope Q_scope.
Close Scope Z_scope.

(* ------------------------------------------------------------------------------------------ *)
(* A1. histories of executor requests                                                           *)
(* ------------------------------------------------------------------------------------------ *)

Inductive xsteps (S : static) : world -> world -> Prop :=
| xs_refl w : xsteps S w w
| xs_cons w op new w' w'' :
    new <> Assigned -> transition S w op new = Ok w' -> xsteps S w' w'' -> xsteps S w w''.

Lemma xsteps_trans S a b c : xsteps S a b -> xsteps S b c -> xsteps S a c.
Proof. induction 1; intros; auto. econstructor; eauto. Qed.

Lemma xsteps_one S w op new w' : new <> Assigned -> transition S w op new = Ok w' -> xsteps S w w'.
Proof. intros. econstructor; eauto. constructor. Qed.

Lemma xsteps_steps S w w' : xsteps S w w' -> steps S w w'.
Proof. induction 1; [constructor | econstructor; eauto]. Qed.

Lemma xsteps_length S w w' : xsteps S w w' -> length (w_st w') = length (w_st w).
Proof. intros H. apply (steps_length S). apply xsteps_steps. exact H. Qed.

Lemma valid_assignable_source a new : assignable a = true -> valid a new = true -> new = Assigned.
Proof. destruct a, new; cbn; intros H1 H2; try discriminate; reflexivity. Qed.

(* an operator that could be put into a new container (PENDING or FAILED) is left alone *)
Lemma xsteps_assignable_frame S w w' o :
  xsteps S w w' -> assignable (st_of w o) = true -> st_of w' o = st_of w o.
Proof.
  induction 1 as [w|w op new w1 w2 Hn T _ IH]; intros A; [reflexivity|].
  assert (Ne : o <> op).
  { intros ->. apply transition_ok in T. destruct T as [V _].
    apply Hn. eapply valid_assignable_source; eauto. }
  pose proof (transition_st_other _ _ _ _ _ _ T Ne) as E. rewrite IH; [exact E|]. rewrite E. exact A.
Qed.

Lemma xsteps_failed S w w' o : xsteps S w w' -> st_of w o = Failed -> st_of w' o = Failed.
Proof. intros H F. rewrite (xsteps_assignable_frame _ _ _ o H); [exact F|]. rewrite F. reflexivity. Qed.

Lemma xsteps_completed S w w' o : xsteps S w w' -> st_of w o = Completed -> st_of w' o = Completed.
Proof. intros H. apply (completed_final S). apply xsteps_steps. exact H. Qed.

Lemma transition_all_xsteps S new : new <> Assigned -> forall ops w w',
  transition_all S w ops new = Ok w' -> xsteps S w w'.
Proof.
  intros Hn. induction ops as [|o t IH]; intros w w' H; cbn [transition_all] in H.
  - inversion H. constructor.
  - apply bind_ok_inv in H. destruct H as [w1 [T H]]. econstructor; eauto.
Qed.

Lemma ctick_xsteps C w cons c w' cons' c' :
  ctick C w cons c = Ok (w', cons', c') -> xsteps (cf_static C) w w'.
Proof.
  unfold ctick. intros H.
  destruct (c_completed c); [inversion H; constructor|].
  destruct (c_frozen c); [inversion H; constructor|].
  destruct (nth_error (c_ops c) (c_opidx c)) as [op|]; [|discriminate].
  apply bind_ok_inv in H. destruct H as [[w1 rest] [E H]].
  assert (X1 : xsteps (cf_static C) w w1).
  { destruct (c_rest c) as [r|].
    - inversion E; subst. constructor.
    - apply bind_ok_inv in E. destruct E as [w0 [T E]]. inversion E; subst.
      eapply xsteps_one; [|exact T]. discriminate. }
  destruct rest as [|m rest']; [discriminate|].
  destruct (set_mem C c cons m) as [c1 cons1].
  destruct (Qltb (c_ram c) m); [inversion H; subst; exact X1|].
  destruct rest' as [|m' r'']; [|inversion H; subst; exact X1].
  apply bind_ok_inv in H. destruct H as [w2 [T H]].
  assert (X2 : xsteps (cf_static C) w w2).
  { eapply xsteps_trans; [exact X1|]. eapply xsteps_one; [|exact T]. discriminate. }
  destruct (Nat.eqb _ _).
  - destruct (mark_completed C _ cons1 false). inversion H; subst. exact X2.
  - inversion H; subst. exact X2.
Qed.

Lemma ckill_xsteps C w cons c w' cons' c' :
  ckill C w cons c = Ok (w', cons', c') -> xsteps (cf_static C) w w'.
Proof.
  unfold ckill. intros H. destruct (c_completed c); [discriminate|].
  apply bind_ok_inv in H. destruct H as [w1 [T H]].
  destruct (mark_completed C c cons true). inversion H; subst.
  eapply transition_all_xsteps; [|exact T]. discriminate.
Qed.

Lemma csuspend_xsteps C w c w' c' : csuspend C w c = Ok (w', c') -> xsteps (cf_static C) w w'.
Proof.
  unfold csuspend. intros H. apply bind_ok_inv in H. destruct H as [w1 [T H]]. inversion H; subst.
  eapply transition_all_xsteps; [|exact T]. discriminate.
Qed.

Lemma csuspend_tick_xsteps C w c w' c' : csuspend_tick C w c = Ok (w', c') -> xsteps (cf_static C) w w'.
Proof.
  unfold csuspend_tick. cbv zeta. intros H. destruct (_ =? 0)%Z.
  - apply bind_ok_inv in H. destruct H as [w1 [T H]]. inversion H; subst.
    eapply transition_all_xsteps; [|exact T]. discriminate.
  - inversion H. constructor.
Qed.

Lemma tick_suspending_xsteps C : forall sing w w' sing',
  tick_suspending C w sing = Ok (w', sing') -> xsteps (cf_static C) w w'.
Proof.
  induction sing as [|c t IH]; intros w w' sing' H; cbn [tick_suspending] in H.
  - inversion H. constructor.
  - apply bind_ok_inv in H. destruct H as [[w1 c1] [E1 H]].
    apply bind_ok_inv in H. destruct H as [[w2 t2] [E2 H]]. inversion H; subst.
    eapply xsteps_trans; [eapply csuspend_tick_xsteps; eauto | eapply IH; eauto].
Qed.

Lemma tick_active_xsteps C : forall act w cons w' cons' act',
  tick_active C w cons act = Ok (w', cons', act') -> xsteps (cf_static C) w w'.
Proof.
  induction act as [|c t IH]; intros w cons w' cons' act' H; cbn [tick_active] in H.
  - inversion H. constructor.
  - apply bind_ok_inv in H. destruct H as [[[w1 cons1] c1] [E1 H]].
    apply bind_ok_inv in H. destruct H as [[[w2 cons2] t2] [E2 H]]. inversion H; subst.
    eapply xsteps_trans; [eapply ctick_xsteps; eauto | eapply IH; eauto].
Qed.

Lemma kill_over_limit_xsteps C : forall act w cons w' cons' act',
  kill_over_limit C w cons act = Ok (w', cons', act') -> xsteps (cf_static C) w w'.
Proof.
  induction act as [|c t IH]; intros w cons w' cons' act' H; cbn [kill_over_limit] in H.
  - inversion H. constructor.
  - apply bind_ok_inv in H. destruct H as [[[w1 cons1] c1] [E1 H]].
    apply bind_ok_inv in H. destruct H as [[[w2 cons2] t2] [E2 H]]. inversion H; subst.
    eapply xsteps_trans; [|eapply IH; eauto].
    destruct (Qltb (c_ram c) (c_mem c)); [eapply ckill_xsteps; eauto|inversion E1; constructor].
Qed.

Lemma kill_until_fits_xsteps C mx : forall order w cons act w' cons' act',
  kill_until_fits C mx w cons act order = Ok (w', cons', act') -> xsteps (cf_static C) w w'.
Proof.
  induction order as [|cid t IH]; intros w cons act w' cons' act' H; cbn [kill_until_fits] in H.
  - inversion H. constructor.
  - destruct (Qleb cons mx); [inversion H; constructor|].
    destruct (find_container cid act) as [c|]; [|discriminate].
    apply bind_ok_inv in H. destruct H as [[[w1 cons1] c1] [E1 H]].
    eapply xsteps_trans; [eapply ckill_xsteps; eauto | eapply IH; eauto].
Qed.

Lemma oom_killer_xsteps C mx w cons act w' cons' act' :
  oom_killer C mx w cons act = Ok (w', cons', act') -> xsteps (cf_static C) w w'.
Proof.
  unfold oom_killer. intros H. apply bind_ok_inv in H. destruct H as [[[w1 cons1] act1] [E1 H]].
  pose proof (kill_over_limit_xsteps _ _ _ _ _ _ _ E1) as X1.
  destruct (Qleb cons1 mx); [inversion H; subst; exact X1|].
  eapply xsteps_trans; [exact X1 | eapply kill_until_fits_xsteps; eauto].
Qed.

Lemma apply_suspends_xsteps C : forall ss w act sing w' act' sing',
  apply_suspends C w act sing ss = Ok (w', act', sing') -> xsteps (cf_static C) w w'.
Proof.
  induction ss as [|s t IH]; intros w act sing w' act' sing' H; cbn [apply_suspends] in H.
  - inversion H. constructor.
  - destruct (find_container (su_cid s) act) as [c|]; [|discriminate].
    apply bind_ok_inv in H. destruct H as [[w1 c1] [E1 H]].
    eapply xsteps_trans; [eapply csuspend_xsteps; eauto | eapply IH; eauto].
Qed.

Lemma pool_tick_xsteps C w next p ss asgs w' next' p' res :
  pool_tick C w next p ss asgs = Ok (w', next', p', res) -> xsteps (cf_static C) w w'.
Proof.
  unfold pool_tick. intros H.
  apply bind_ok_inv in H. destruct H as [[[[w1 act1] sing1] cons1] [E1 H]].
  assert (X1 : xsteps (cf_static C) w w1).
  { destruct ss as [|s0 ss'].
    - inversion E1. constructor.
    - apply bind_ok_inv in E1. destruct E1 as [u [_ E1]].
      apply bind_ok_inv in E1. destruct E1 as [[[wa acta] singa] [A E1]]. inversion E1; subst.
      eapply apply_suspends_xsteps; eauto. }
  apply bind_ok_inv in H. destruct H as [[[[next2 acpu2] aram2] act2] [_ H]].
  apply bind_ok_inv in H. destruct H as [[w3 sing3] [E3 H]]. cbv zeta in H.
  apply bind_ok_inv in H. destruct H as [[[w4 cons4] act4] [E4 H]].
  apply bind_ok_inv in H. destruct H as [[[w5 cons5] act5] [E5 H]].
  inversion H; subst.
  eapply xsteps_trans; [exact X1|].
  eapply xsteps_trans; [eapply tick_suspending_xsteps; eauto|].
  eapply xsteps_trans; [eapply tick_active_xsteps; eauto | eapply oom_killer_xsteps; eauto].
Qed.

Lemma pools_tick_xsteps C ss asgs : forall ps w next w' next' ps' res,
  pools_tick C w next ps ss asgs = Ok (w', next', ps', res) -> xsteps (cf_static C) w w'.
Proof.
  induction ps as [|p t IH]; intros w next w' next' ps' res H; cbn [pools_tick] in H.
  - inversion H. constructor.
  - cbv zeta in H. apply bind_ok_inv in H. destruct H as [[[[w1 next1] p1] res1] [E1 H]].
    apply bind_ok_inv in H. destruct H as [[[[w2 next2] t2] res2] [E2 H]]. inversion H; subst.
    eapply xsteps_trans; [eapply pool_tick_xsteps; eauto | eapply IH; eauto].
Qed.

(* an executor tick opened: the three range checks passed, then the pools one after the other *)
Lemma exec_tick_ok_inv C s ss asgs s' res :
  exec_tick C s ss asgs = Ok (s', res) ->
  forallb (fun x => pool_in_range (length (e_pools s)) (su_pool x)) ss = true /\
  forallb (fun a => pool_in_range (length (e_pools s)) (a_pool a)) asgs = true /\
  pools_tick C (e_world s) (e_next s) (e_pools s) ss asgs = Ok (e_world s', e_next s', e_pools s', res).
Proof.
  unfold exec_tick. cbv zeta. intros H.
  destruct (forallb _ ss && forallb _ asgs) eqn:B; cbn [negb] in H; [|discriminate].
  apply andb_true_iff in B. destruct B as [B1 B2].
  apply bind_ok_inv in H. destruct H as [[[[w next] ps] res1] [E H]]. inversion H; subst.
  cbn [e_world e_next e_pools]. auto.
Qed.

Theorem exec_tick_xsteps C s ss asgs s' res :
  exec_tick C s ss asgs = Ok (s', res) -> xsteps (cf_static C) (e_world s) (e_world s').
Proof.
  intros H. apply exec_tick_ok_inv in H. destruct H as (_ & _ & H). eapply pools_tick_xsteps; eauto.
Qed.

(* ------------------------------------------------------------------------------------------ *)
(* A2. the simulator loop, opened once                                                          *)
(* ------------------------------------------------------------------------------------------ *)

Lemma sim_tick_ok_inv C a t s newp s' lg :
  sim_tick C a t s newp = Ok (s', lg) ->
  exists arr ss' w' susps asgs e2 res,
    record_arrivals t newp (sm_arrival s) = Ok arr /\
    sched_step C a (sm_sched s) (sm_exec s) (sm_results s) newp = Ok (ss', w', susps, asgs) /\
    exec_tick C {| e_world := w'; e_pools := e_pools (sm_exec s); e_next := e_next (sm_exec s) |}
              susps asgs = Ok (e2, res) /\
    sm_exec s' = e2 /\ sm_sched s' = ss' /\ sm_results s' = res /\ sm_arrival s' = arr /\
    tl_new lg = newp /\ tl_susp lg = susps /\ tl_asgs lg = asgs /\ tl_results lg = res.
Proof.
  unfold sim_tick. intros H.
  apply bind_ok_inv in H. destruct H as [arr [Ea H]].
  apply bind_ok_inv in H. destruct H as [[[[ss' w'] susps] asgs] [Es H]].
  apply bind_ok_inv in H. destruct H as [[e2 res] [Ee H]]. inversion H; subst.
  exists arr, ss', w', susps, asgs, e2, res. cbn. repeat split; auto.
Qed.

Lemma record_arrivals_fst t : forall newp arr arr',
  record_arrivals t newp arr = Ok arr' -> map fst arr' = map fst arr ++ newp.
Proof.
  induction newp as [|p r IH]; intros arr arr' H; cbn [record_arrivals] in H.
  - inversion H. rewrite app_nil_r. reflexivity.
  - destruct (existsb _ arr); [discriminate|]. apply IH in H. rewrite H, map_app. cbn [map fst].
    rewrite <- app_assoc. reflexivity.
Qed.

(* the states a run passes through *)
Inductive sim_reach (C : cfg) (a : algo) : Z -> sim -> Z -> sim -> Prop :=
| sr_here t s : sim_reach C a t s t s
| sr_step t0 s0 t s newp s' lg :
    sim_reach C a t0 s0 t s -> sim_tick C a t s newp = Ok (s', lg) -> sim_reach C a t0 s0 (t + 1)%Z s'.

Lemma sim_reach_front C a t0 s0 newp s1 lg t s :
  sim_tick C a t0 s0 newp = Ok (s1, lg) -> sim_reach C a (t0 + 1)%Z s1 t s -> sim_reach C a t0 s0 t s.
Proof.
  intros T R. remember (t0 + 1)%Z as t1 eqn:Et. revert T.
  induction R as [t1 s1|t1 s1 t s np s' lg' R IH T']; intros T.
  - subst t1. econstructor; [constructor|exact T].
  - econstructor; [apply IH; assumption|exact T'].
Qed.

(* the state a run ends in (normally or at the tick that raised) is reachable *)
Lemma sim_run_reach C a : forall arrivals t s sf logs oe,
  sim_run C a t s arrivals = (sf, logs, oe) -> exists t', sim_reach C a t s t' sf.
Proof.
  induction arrivals as [|newp r IH]; intros t s sf logs oe H; cbn [sim_run] in H.
  - inversion H; subst. eexists. constructor.
  - destruct (sim_tick C a t s newp) as [[s1 lg]|e] eqn:E.
    + destruct (sim_run C a (t + 1)%Z s1 r) as [[sf' logs'] e'] eqn:R. inversion H; subst.
      destruct (IH _ _ _ _ _ R) as [t' R']. exists t'. eapply sim_reach_front; eauto.
    + inversion H; subst. eexists. constructor.
Qed.

Lemma sim_reach_inv C a (P : sim -> Prop) :
  (forall t s newp s' lg, P s -> sim_tick C a t s newp = Ok (s', lg) -> P s') ->
  forall t0 s0 t s, sim_reach C a t0 s0 t s -> P s0 -> P s.
Proof.
  intros Hp t0 s0 t s R. induction R as [t s|t0 s0 t s newp s' lg R IH T]; intros P0; [exact P0|].
  eapply Hp; [apply IH; exact P0|exact T].
Qed.

(* pipelines of a run arrive from the given batches only *)
Lemma sim_run_logs_length C a : forall arrivals t s sf logs,
  sim_run C a t s arrivals = (sf, logs, None) -> length logs = length arrivals.
Proof.
  induction arrivals as [|newp r IH]; intros t s sf logs R; cbn [sim_run] in R.
  - inversion R. reflexivity.
  - destruct (sim_tick C a t s newp) as [[s1 lg]|e]; [|discriminate].
    destruct (sim_run C a (t + 1)%Z s1 r) as [[sf' logs'] e'] eqn:R'. inversion R; subst.
    cbn [length]. f_equal. eapply IH; eauto.
Qed.

(* ------------------------------------------------------------------------------------------ *)
(* B1. containers and results through one executor tick                                         *)
(* ------------------------------------------------------------------------------------------ *)

Definition cpos (c : container) : Prop := (0 < c_cpu c)%Z /\ (0 < c_ram c)%Q.

(* positive sizes; a container that is not finished has not failed and still has an operator to run;
   one that failed ("OOM") has an operator that is FAILED *)
Definition cgood (w : world) (c : container) : Prop :=
  cpos c /\
  (c_completed c = false -> c_error c = false /\ c_opidx c < length (c_ops c)) /\
  (c_error c = true -> exists o, In o (c_ops c) /\ st_of w o = Failed).

(* a container as it sits in a pool between two ticks *)
Definition cact (c : container) : Prop :=
  cpos c /\ c_completed c = false /\ c_error c = false /\ c_opidx c < length (c_ops c).

Lemma cact_good w c : cact c -> cgood w c.
Proof.
  intros (P & Cc & Ce & Li). split; [exact P|]. split; [intros _; auto|]. intros E. congruence.
Qed.

Lemma cgood_cact w c : cgood w c -> c_completed c = false -> cact c.
Proof. intros (P & L & _) Cc. destruct (L Cc) as [Ce Li]. repeat split; auto; apply P. Qed.

Lemma cgood_stable S w w' c : xsteps S w w' -> cgood w c -> cgood w' c.
Proof.
  intros X (P & L & F). split; [exact P|]. split; [exact L|].
  intros E. destruct (F E) as (o & Ho & Hf). exists o. split; [exact Ho|]. eapply xsteps_failed; eauto.
Qed.

Lemma Forall_cgood_stable S w w' l : xsteps S w w' -> Forall (cgood w) l -> Forall (cgood w') l.
Proof. intros X. apply Forall_impl. intros c. apply (cgood_stable S); exact X. Qed.

Lemma ctick_good C w cons c w' cons' c' :
  ctick C w cons c = Ok (w', cons', c') -> cgood w c -> cgood w' c'.
Proof.
  intros H G. unfold ctick in H.
  destruct (c_completed c) eqn:Cc; [inversion H; subst; exact G|].
  destruct G as (P & L & _). destruct (L Cc) as [Er Li]. destruct P as [Pc Pr].
  destruct (c_frozen c).
  { inversion H; subst. split; [split; cproj; assumption|]. split; cproj; [intros _; auto|congruence]. }
  destruct (nth_error (c_ops c) (c_opidx c)) as [op|] eqn:N; [|discriminate].
  apply bind_ok_inv in H. destruct H as [[w1 rest] [_ H]].
  destruct rest as [|m rest']; [discriminate|].
  unfold set_mem in H. cbv beta iota zeta in H.
  destruct (Qltb (c_ram c) m).
  { inversion H; subst. split; [split; cproj; assumption|]. split; cproj; [intros _; auto|congruence]. }
  destruct rest' as [|m' r''].
  2:{ inversion H; subst. split; [split; cproj; assumption|]. split; cproj; [intros _; auto|congruence]. }
  apply bind_ok_inv in H. destruct H as [w2 [_ H]].
  destruct (Nat.eqb (S (c_opidx c)) (length (c_ops c))) eqn:El.
  - unfold mark_completed, set_mem in H. cbv beta iota zeta in H. inversion H; subst.
    split; [split; cproj; assumption|]. split; cproj; [discriminate|discriminate].
  - inversion H; subst. apply Nat.eqb_neq in El.
    split; [split; cproj; assumption|]. split; cproj; [intros _; split; [exact Er|lia]|congruence].
Qed.

Lemma transition_all_failed_head S o t w w' :
  transition_all S w (o :: t) Failed = Ok w' -> st_of w' o = Failed.
Proof.
  cbn [transition_all]. intros H. apply bind_ok_inv in H. destruct H as [w1 [T H]].
  assert (L : o < length (w_st w)).
  { apply busy_in_range. pose proof T as T0. apply transition_ok in T0. destruct T0 as [V _].
    unfold busy. destruct (st_of w o); cbn in V; try discriminate; auto. }
  pose proof (transition_st_same _ _ _ _ _ T L) as F.
  eapply xsteps_failed; [|exact F]. eapply transition_all_xsteps; [|exact H]. discriminate.
Qed.

Lemma ckill_good C w cons c w' cons' c' :
  ckill C w cons c = Ok (w', cons', c') -> cgood w c -> cgood w' c'.
Proof.
  intros H (P & L & _). apply ckill_ok in H. destruct H as (Cc & -> & _ & T).
  destruct (L Cc) as [_ Li].
  split; [exact P|]. split; [discriminate|]. intros _. unfold dead. cproj.
  destruct (skipn (c_opidx c) (c_ops c)) as [|o t] eqn:Sk.
  - exfalso. assert (Ln : length (skipn (c_opidx c) (c_ops c)) = 0) by (rewrite Sk; reflexivity).
    rewrite skipn_length in Ln. lia.
  - exists o. split.
    + apply (In_skipn o (c_opidx c)). rewrite Sk. left. reflexivity.
    + eapply transition_all_failed_head; eauto.
Qed.

Lemma tick_active_good C : forall act w cons w' cons' act',
  tick_active C w cons act = Ok (w', cons', act') -> Forall (cgood w) act -> Forall (cgood w') act'.
Proof.
  induction act as [|c t IH]; intros w cons w' cons' act' H F; cbn [tick_active] in H.
  - inversion H; subst. constructor.
  - inversion F as [|? ? Fc Ft]; subst.
    apply bind_ok_inv in H. destruct H as [[[w1 cons1] c1] [E1 H]].
    apply bind_ok_inv in H. destruct H as [[[w2 cons2] t2] [E2 H]]. inversion H; subst.
    pose proof (ctick_xsteps _ _ _ _ _ _ _ E1) as X1.
    pose proof (tick_active_xsteps _ _ _ _ _ _ _ E2) as X2.
    constructor.
    + eapply cgood_stable; [exact X2|]. eapply ctick_good; eauto.
    + eapply IH; [exact E2|]. eapply Forall_cgood_stable; eauto.
Qed.

Lemma kill_over_limit_good C : forall act w cons w' cons' act',
  kill_over_limit C w cons act = Ok (w', cons', act') -> Forall (cgood w) act -> Forall (cgood w') act'.
Proof.
  induction act as [|c t IH]; intros w cons w' cons' act' H F; cbn [kill_over_limit] in H.
  - inversion H; subst. constructor.
  - inversion F as [|? ? Fc Ft]; subst.
    apply bind_ok_inv in H. destruct H as [[[w1 cons1] c1] [E1 H]].
    apply bind_ok_inv in H. destruct H as [[[w2 cons2] t2] [E2 H]]. inversion H; subst.
    pose proof (kill_over_limit_xsteps _ _ _ _ _ _ _ E2) as X2.
    assert (G1 : cgood w1 c1 /\ xsteps (cf_static C) w w1).
    { destruct (Qltb (c_ram c) (c_mem c)).
      - split; [eapply ckill_good; eauto | eapply ckill_xsteps; eauto].
      - inversion E1; subst. split; [exact Fc|constructor]. }
    destruct G1 as [G1 X1]. constructor.
    + eapply cgood_stable; eauto.
    + eapply IH; [exact E2|]. eapply Forall_cgood_stable; eauto.
Qed.

Lemma Forall_replace_container (P : container -> Prop) c' : forall l,
  Forall P l -> P c' -> Forall P (replace_container c' l).
Proof.
  induction l as [|c t IH]; intros F Pc; cbn [replace_container]; [constructor|].
  inversion F as [|? ? Fc Ft]; subst.
  destruct (Nat.eqb (c_id c) (c_id c')); constructor; auto.
Qed.

Lemma kill_until_fits_good C mx : forall order w cons act w' cons' act',
  kill_until_fits C mx w cons act order = Ok (w', cons', act') ->
  Forall (cgood w) act -> Forall (cgood w') act'.
Proof.
  induction order as [|cid t IH]; intros w cons act w' cons' act' H F; cbn [kill_until_fits] in H.
  - inversion H; subst. exact F.
  - destruct (Qleb cons mx); [inversion H; subst; exact F|].
    destruct (find_container cid act) as [c|] eqn:Fc; [|discriminate].
    apply bind_ok_inv in H. destruct H as [[[w1 cons1] c1] [E1 H]].
    apply find_container_In in Fc. destruct Fc as [Hc _].
    rewrite Forall_forall in F. pose proof (F c Hc) as Gc. rewrite <- Forall_forall in F.
    eapply IH; [exact H|]. apply Forall_replace_container.
    + eapply Forall_cgood_stable; [eapply ckill_xsteps; eauto|exact F].
    + eapply ckill_good; eauto.
Qed.

Lemma oom_killer_good C mx w cons act w' cons' act' :
  oom_killer C mx w cons act = Ok (w', cons', act') -> Forall (cgood w) act -> Forall (cgood w') act'.
Proof.
  unfold oom_killer. intros H F. apply bind_ok_inv in H. destruct H as [[[w1 cons1] act1] [E1 H]].
  pose proof (kill_over_limit_good _ _ _ _ _ _ _ E1 F) as F1.
  destruct (Qleb cons1 mx); [inversion H; subst; exact F1|].
  eapply kill_until_fits_good; eauto.
Qed.

Lemma apply_assignments_good C w : forall asgs next acpu aram act next' acpu' aram' act',
  apply_assignments C next acpu aram act asgs = Ok (next', acpu', aram', act') ->
  Forall (cgood w) act -> Forall args_ok asgs -> Forall (cgood w) act'.
Proof.
  induction asgs as [|a t IH]; intros next acpu aram act next' acpu' aram' act' H F A;
    cbn [apply_assignments] in H.
  - inversion H; subst. exact F.
  - destruct (opcount_ok C a); [|discriminate]. inversion A as [|? ? Aa At]; subst.
    eapply IH; [exact H| |exact At]. apply Forall_app. split; [exact F|]. constructor; [|constructor].
    apply cact_good. apply args_ok_pos in Aa. destruct Aa as (A1 & A2 & A3).
    unfold cact, cpos, new_container. cproj. repeat split; auto.
    destruct (a_ops a); [congruence|cbn; lia].
Qed.

(* a result: positive sizes; a failed one still has a FAILED operator *)
Definition rgood (w : world) (r : result) : Prop :=
  (0 < r_cpu r)%Z /\ (0 < r_ram r)%Q /\
  (r_err r = true -> exists o, In o (r_ops r) /\ st_of w o = Failed).

Lemma rgood_stable S w w' r : xsteps S w w' -> rgood w r -> rgood w' r.
Proof.
  intros X (A & B & F). split; [exact A|]. split; [exact B|]. intros E.
  destruct (F E) as (o & Ho & Hf). exists o. split; [exact Ho|]. eapply xsteps_failed; eauto.
Qed.

Lemma rgood_not_completed w r :
  rgood w r -> r_err r = true -> not_completed_ops w (r_ops r) <> [].
Proof.
  intros (_ & _ & F) E N. destruct (F E) as (o & Ho & Hf).
  assert (Hin : In o (not_completed_ops w (r_ops r))).
  { unfold not_completed_ops. apply filter_In. split; [exact Ho|]. rewrite Hf. reflexivity. }
  rewrite N in Hin. destruct Hin.
Qed.

(* ------------------------------------------------------------------------------------------ *)
(* B2. one pool, all pools: a tick without suspensions                                          *)
(* ------------------------------------------------------------------------------------------ *)

(* a pool between two ticks of a run that never suspends: both-or-none, nothing negative *)
Definition pgood (p : pool) : Prop :=
  p_suspending p = [] /\ p_suspended p = [] /\ Forall cact (p_active p) /\
  (0 <= p_avail_cpu p)%Z /\ (0 <= p_avail_ram p)%Q /\
  (p_avail_cpu p = 0%Z <-> (p_avail_ram p == 0)%Q).

(* what one tick does to a pool that received the batch [asgs]: the batch is taken out of the free
   amounts, and what the finished containers held comes back: nothing, or something in both
   dimensions *)
Definition pool_post (asgs : list asg) (p p' : pool) : Prop :=
  p_id p' = p_id p /\ p_max_cpu p' = p_max_cpu p /\ p_max_ram p' = p_max_ram p /\
  p_suspending p' = [] /\ p_suspended p' = [] /\ Forall cact (p_active p') /\
  exists rc rr,
    p_avail_cpu p' = (p_avail_cpu p - sumZ (map a_cpu asgs) + rc)%Z /\
    (p_avail_ram p' == p_avail_ram p - sumQ (map a_ram asgs) + rr)%Q /\
    ((rc = 0%Z /\ (rr == 0)%Q) \/ ((0 < rc)%Z /\ (0 < rr)%Q)).

Lemma released_both (l : list container) :
  Forall cpos l ->
  (sumZ (map c_cpu l) = 0%Z /\ (sumQ (map c_ram l) == 0)%Q) \/
  ((0 < sumZ (map c_cpu l))%Z /\ (0 < sumQ (map c_ram l))%Q).
Proof.
  induction 1 as [|c t [Pc Pr] _ IH]; cbn [map sumZ sumQ].
  - left. split; [reflexivity|lra].
  - right. destruct IH as [[A B]|[A B]]; split; try lia; lra.
Qed.

Lemma pool_tick_good C w next p asgs w' next' p' res :
  pool_tick C w next p [] asgs = Ok (w', next', p', res) ->
  p_suspending p = [] -> p_suspended p = [] -> Forall cact (p_active p) -> Forall args_ok asgs ->
  pool_post asgs p p' /\ Forall (rgood w') res.
Proof.
  intros H Hs Hd Fa Aa. unfold pool_tick in H. cbn [bind] in H. rewrite Hs, Hd in H.
  apply bind_ok_inv in H. destruct H as [[[[next2 acpu2] aram2] act2] [E2 H]].
  assert (G2 : Forall (cgood w) act2).
  { destruct asgs as [|a0 t].
    - inversion E2; subst. eapply Forall_impl; [|exact Fa]. intros c. apply cact_good.
    - apply bind_ok_inv in E2. destruct E2 as [u [_ E2]].
      eapply apply_assignments_good; [exact E2| |exact Aa].
      eapply Forall_impl; [|exact Fa]. intros c. apply cact_good. }
  change (phase2 C next p (p_active p) asgs = Ok (next2, acpu2, aram2, act2)) in E2.
  apply phase2_spec in E2. destruct E2 as (_ & Ec & Er & _ & _).
  cbn [tick_suspending bind filter map sumZ fold_left app] in H.
  apply bind_ok_inv in H. destruct H as [[[w4 cons4] act4] [E4 H]].
  apply bind_ok_inv in H. destruct H as [[[w5 cons5] act5] [E5 H]].
  pose proof (tick_active_good _ _ _ _ _ _ _ E4 G2) as G4.
  pose proof (oom_killer_good _ _ _ _ _ _ _ _ E5 G4) as G5.
  inversion H; subst w' next' p' res. clear H.
  set (fin := filter c_completed act5) in *.
  assert (Gf : Forall (cgood w5) fin) by (apply Forall_filter_keep; exact G5).
  assert (Pf : Forall cpos fin) by (eapply Forall_impl; [|exact Gf]; intros c Gc; apply Gc).
  split.
  - unfold pool_post, upd_pool.
    cbn [p_id p_max_cpu p_max_ram p_suspending p_suspended p_active p_avail_cpu p_avail_ram].
    split; [reflexivity|]. split; [reflexivity|]. split; [reflexivity|]. split; [reflexivity|].
    split; [reflexivity|]. split.
    + apply Forall_forall. intros c Hc. apply filter_In in Hc. destruct Hc as [Hc Nc].
      rewrite Forall_forall in G5. apply (cgood_cact w5); [apply G5; exact Hc|].
      destruct (c_completed c); [discriminate|reflexivity].
    + exists (sumZ (map c_cpu fin)), (sumQ (map c_ram fin)).
      split; [rewrite Ec; lia|]. split; [rewrite fold_ram_sum, Er; lra|].
      apply released_both. exact Pf.
  - apply Forall_forall. intros r Hr. apply in_map_iff in Hr. destruct Hr as [c [<- Hc]].
    rewrite Forall_forall in Gf. destruct (Gf c Hc) as ([Pc Pr] & _ & F).
    unfold rgood, result_of. cbn [r_cpu r_ram r_err r_ops]. auto.
Qed.

(* the pools one after the other *)
Lemma pools_tick_good C asgs : forall ps w next w' next' ps' res,
  pools_tick C w next ps [] asgs = Ok (w', next', ps', res) ->
  Forall pgood ps -> Forall args_ok asgs ->
  Forall2 (fun p p' => pool_post (mine_of p asgs) p p') ps ps' /\ Forall (rgood w') res.
Proof.
  induction ps as [|p t IH]; intros w next w' next' ps' res H F A; cbn [pools_tick] in H.
  - inversion H; subst. split; constructor.
  - cbv zeta in H. cbn [filter] in H. inversion F as [|? ? Fp Ft]; subst.
    apply bind_ok_inv in H. destruct H as [[[[w1 next1] p1] res1] [E1 H]].
    apply bind_ok_inv in H. destruct H as [[[[w2 next2] t2] res2] [E2 H]]. inversion H; subst.
    destruct Fp as (Hs & Hd & Fa & _).
    assert (Am : Forall args_ok (mine_of p asgs)) by (apply Forall_filter_keep; exact A).
    destruct (pool_tick_good _ _ _ _ _ _ _ _ _ E1 Hs Hd Fa Am) as [P1 R1].
    destruct (IH _ _ _ _ _ _ E2 Ft A) as [P2 R2].
    split; [constructor; assumption|]. apply Forall_app. split; [|exact R2].
    eapply Forall_impl; [|exact R1]. intros r. apply (rgood_stable (cf_static C)).
    eapply pools_tick_xsteps; eauto.
Qed.

(* ------------------------------------------------------------------------------------------ *)
(* B3. one round of priority-pool from a good state                                             *)
(* ------------------------------------------------------------------------------------------ *)

(* a queued job has operators, and a retry remembers positive sizes *)
Definition jgood (j : job) : Prop :=
  j_ops j <> [] /\
  match j_retry j with Some rs => (0 < rt_cpu rs)%Z /\ (0 < rt_ram rs)%Q | None => True end.
Definition sgood (s : sstate) : Prop := forall p j, In j (queue_of s p) -> jgood j.

Lemma sgood_init : sgood init_sstate.
Proof. intros p j H. destruct p; destruct H. Qed.

Lemma new_job_size_pos C x :
  (0 < ps_acpu x)%Z -> (0 < ps_aram x)%Q ->
  (0 < fst (new_job_size C x))%Z /\ (0 < snd (new_job_size C x))%Q.
Proof.
  intros A B. unfold new_job_size. cbv zeta.
  destruct ((ps_acpu x <=? _)%Z || Qleb (ps_aram x) _); cbn [fst snd]; [auto|].
  split; [lia|]. change 0%Q with (inject_Z 0). rewrite <- Zlt_Qlt. lia.
Qed.

Lemma pp_size_pos C x j :
  (0 < ps_acpu x)%Z -> (0 < ps_aram x)%Q -> jgood j ->
  (0 < fst (pp_size C x j))%Z /\ (0 < snd (pp_size C x j))%Q.
Proof.
  intros A B [_ J]. unfold pp_size. destruct (j_retry j) as [rs|]; [|apply new_job_size_pos; assumption].
  destruct J as [Jc Jr]. destruct (rt_err rs).
  - destruct ((ps_acpu x <=? 2 * rt_cpu rs)%Z || Qleb (ps_aram x) (2 * rt_ram rs)%Q); cbn [fst snd];
      [auto|]. split; [lia|lra].
  - destruct ((rt_cpu rs <=? ps_acpu x)%Z && Qleb (rt_ram rs) (ps_aram x));
      [|apply new_job_size_pos; assumption].
    destruct ((rt_cpu rs =? ps_acpu x)%Z || Qeqb (rt_ram rs) (ps_aram x)); cbn [fst snd]; auto.
Qed.

Lemma bump_n_err r a e : bump_n r a = Err e -> r = Err e.
Proof.
  unfold bump_n, bind. destruct r as [[[[[n0 x0] w0] a0] o0]|e0]; [discriminate|].
  intros H. inversion H. reflexivity.
Qed.

(* from a both-or-none, non-negative snapshot and good jobs the scan can only be refused by an
   ASSIGNED request on an operator that is not assignable *)
Lemma pp_scan_err C pid : forall queue w x oom e,
  both_or_none x -> (0 <= ps_acpu x)%Z -> (0 <= ps_aram x)%Q -> Forall jgood queue ->
  pp_scan C w pid x queue oom = Err e -> e = ETransition.
Proof.
  induction queue as [|j rest IH]; intros w x oom e B Nc Nr F H; [discriminate H|].
  inversion F as [|? ? Fj Fr]; subst. rewrite pp_scan_cons in H.
  destruct (pp_dead x) eqn:D.
  - destruct (pp_both x) eqn:Bo; [discriminate H|]. exfalso.
    unfold pp_dead in D. unfold pp_both in Bo. unfold both_or_none in B.
    destruct (Qeqb (ps_aram x) 0) eqn:E1; destruct (ps_acpu x =? 0)%Z eqn:E2; cbn in D, Bo; try discriminate.
    + apply Qeqb_true in E1. apply Z.eqb_neq in E2. tauto.
    + apply Qeqb_false in E1. apply Z.eqb_eq in E2. tauto.
  - apply pp_dead_false in D. destruct D as [D1 D2].
    assert (Pc : (0 < ps_acpu x)%Z) by lia.
    assert (Pr : (0 < ps_aram x)%Q).
    { apply Qle_lteq in Nr. destruct Nr as [Lt|Eq]; [exact Lt|]. exfalso. apply D1. symmetry. exact Eq. }
    destruct (pp_drop C x j).
    + apply bump_n_err in H. eapply IH; eauto.
    + cbv zeta in H. destruct (pp_size_pos C x j Pc Pr Fj) as [Sc Sr].
      set (a := mk_asg j pid (fst (pp_size C x j)) (snd (pp_size C x j))) in *.
      assert (Ao : args_ok a).
      { unfold args_ok, a, mk_asg. cbn [a_ops a_cpu a_ram]. destruct Fj as [Fo _]. split; [|split].
        - destruct (j_ops j); [congruence|reflexivity].
        - apply Z.leb_gt. exact Sc.
        - apply Qleb_false. exact Sr. }
      rewrite (mk_assignment_args_ok C w a Ao) in H. unfold bind at 1 in H.
      destruct (transition_all (cf_static C) w (a_ops a) Assigned) as [w1|e0] eqn:T.
      * apply bump_n_err in H. destruct (pp_size_fits C x j) as [F1 F2].
        eapply IH; [| | |exact Fr|exact H].
        -- unfold a, mk_asg. cbn [a_cpu a_ram]. apply both_or_none_take.
        -- rewrite ps_take_acpu. unfold a, mk_asg. cbn [a_cpu]. lia.
        -- rewrite ps_take_aram. unfold a, mk_asg. cbn [a_ram]. lra.
      * inversion H; subst. eapply transition_all_assigned_err; eauto.
Qed.

(* the round in two halves: the queues are prepared, then the three scans run *)
Definition pp_prep (C : cfg) (s : sstate) (e : estate) (results : list result) (newp : list nat)
  : res sstate :=
  let w := e_world e in
  let s1 := fold_left (fun st p =>
              push_job st {| j_prio := prio_of_pipe C p; j_pipe := p;
                             j_ops := pd_order (pipe_of (S_of C) p); j_retry := None |}
                       (prio_of_pipe C p)) newp s in
  do s2 <- pp_failures C w results s1;
  do m <- note_suspending_pools C w (e_pools e) (ss_suspending s2);
  let s3 := {| ss_queue := ss_queue s2; ss_fail := ss_fail s2; ss_q := ss_q s2; ss_i := ss_i s2; ss_b := ss_b s2;
               ss_suspending := m; ss_requeued := ss_requeued s2; ss_oom := ss_oom s2 |} in
  Ok (fold_left (fun st p => pp_requeue (p_suspended p) st) (e_pools e) s3).

Definition pp_scans (C : cfg) (e : estate) (s4 : sstate) : res (sstate * world * list susp * list asg) :=
  let w := e_world e in
  let stats := snapshot e in
  let x0 := nth 0 stats dummy_stat in
  let x1 := nth 1 stats dummy_stat in
  do r1 <- pp_scan C w 0 x0 (ss_q s4) (ss_oom s4);
  let '(n1, x0a, w1, a1, o1) := r1 in
  do r2 <- pp_scan C w1 0 x0a (ss_i s4) o1;
  let '(n2, x0b, w2, a2, o2) := r2 in
  do r3 <- pp_scan C w2 1 x1 (ss_b s4) o2;
  let '(n3, x1a, w3, a3, o3) := r3 in
  Ok ({| ss_queue := ss_queue s4; ss_fail := ss_fail s4; ss_q := skipn n1 (ss_q s4);
         ss_i := skipn n2 (ss_i s4); ss_b := skipn n3 (ss_b s4); ss_suspending := ss_suspending s4;
         ss_requeued := ss_requeued s4; ss_oom := o3 |}, w3, [], a1 ++ a2 ++ a3).

Lemma pp_step_split C s e results newp :
  priority_pool_step C s e results newp = (do s4 <- pp_prep C s e results newp; pp_scans C e s4).
Proof.
  unfold priority_pool_step, pp_prep, pp_scans. cbv zeta.
  destruct (pp_failures C (e_world e) results _) as [s2|e2]; cbn [bind]; [|reflexivity].
  destruct (note_suspending_pools C (e_world e) (e_pools e) (ss_suspending s2)); reflexivity.
Qed.

Lemma pp_pre_jgood C s e results newp lq p j :
  sgood s -> (forall k, In k newp -> pd_order (pipe_of (S_of C) k) <> []) ->
  Forall (rgood (e_world e)) results -> (forall j0, ~ In j0 lq) ->
  In j (pp_pre C s e results newp lq p) -> jgood j.
Proof.
  intros Sg Hn Rg Lq H. unfold pp_pre in H. apply in_app_or in H. destruct H as [H|H]; [eapply Sg; eauto|].
  apply filter_In in H. destruct H as [H _].
  apply in_app_or in H. destruct H as [H|H]; [|apply in_app_or in H; destruct H as [H|H]].
  - apply in_map_iff in H. destruct H as [k [<- Hk]]. split; [apply Hn; exact Hk|exact I].
  - apply in_map_iff in H. destruct H as [r [<- Hr]]. apply filter_In in Hr. destruct Hr as [Hr Er].
    rewrite Forall_forall in Rg. pose proof (Rg r Hr) as G.
    split; [cbn [fail_job j_ops]; apply (rgood_not_completed _ _ G Er)|].
    cbn [fail_job j_retry retry_of_result rt_cpu rt_ram]. destruct G as (A & B & _). auto.
  - exfalso. eapply Lq; eauto.
Qed.

Lemma pgood_nothing_suspended (ps : list pool) :
  Forall pgood ps -> forall p c, In p ps -> ~ In c (p_suspended p) /\ ~ In c (p_suspending p).
Proof.
  intros F p c Hp. rewrite Forall_forall in F. destruct (F p Hp) as (Hs & Hd & _).
  rewrite Hs, Hd. split; intros [].
Qed.

Lemma pp_prep_good C s e results newp :
  Forall pgood (e_pools e) -> Forall (rgood (e_world e)) results -> sgood s ->
  (forall k, In k newp -> pd_order (pipe_of (S_of C) k) <> []) ->
  exists s4, pp_prep C s e results newp = Ok s4 /\ sgood s4.
Proof.
  intros Pg Rg Sg Hn. unfold pp_prep. cbv zeta.
  pose proof (pp_new_queue C newp s) as N. cbv zeta in N.
  set (s1 := fold_left _ newp s) in *. destruct N as [N1 _].
  assert (HF : forall r, In r results -> r_err r = true -> not_completed_ops (e_world e) (r_ops r) <> []).
  { intros r Hr Er. rewrite Forall_forall in Rg. apply (rgood_not_completed _ _ (Rg r Hr) Er). }
  destruct (pp_failures_total C (e_world e) results HF s1) as [s2 F]. rewrite F. cbn [bind].
  apply pp_failures_ok in F. destruct F as [F1 _].
  assert (HS : forall p c, In p (e_pools e) -> In c (p_suspending p) ->
                           not_completed_ops (e_world e) (c_ops c) <> []).
  { intros p c Hp Hc. exfalso. destruct (pgood_nothing_suspended _ Pg p c Hp) as [_ A]. exact (A Hc). }
  destruct (note_suspending_pools_total C (e_world e) (e_pools e) HS (ss_suspending s2)) as [m NS].
  rewrite NS. cbn [bind].
  match goal with
  | |- context [fold_left ?f (e_pools e) ?s3] =>
      pose proof (pp_requeue_pools_queue (e_pools e) s3) as R; cbv zeta in R;
      set (s4 := fold_left f (e_pools e) s3) in *
  end.
  destruct R as [lq [R1 [_ [_ [_ [_ [_ R7]]]]]]]. cbn [ss_suspending] in R7.
  exists s4. split; [reflexivity|]. intros p j Hj. rewrite R1 in Hj.
  assert (Lq : forall j0, ~ In j0 lq).
  { intros j0 Hj0. destruct (R7 j0 Hj0) as (p0 & c & Hp0 & Hc & _).
    destruct (pgood_nothing_suspended _ Pg p0 c Hp0) as [A _]. exact (A Hc). }
  apply (pp_pre_jgood C s e results newp lq p j Sg Hn Rg Lq).
  unfold pp_pre. rewrite !filter_app', !app_assoc. rewrite <- N1, <- F1.
  destruct p; exact Hj.
Qed.

(* the per-pool snapshot entry of a pool, and what it says when the pool is good *)
Definition pstat_of (p : pool) : pstat := (p_avail_cpu p, p_avail_ram p, p_max_cpu p, p_max_ram p).

Lemma snapshot_nth e i :
  nth i (snapshot e) dummy_stat = pstat_of (nth i (e_pools e) (new_pool 0 0%Z 0%Q)).
Proof.
  unfold snapshot. change dummy_stat with (pstat_of (new_pool 0 0%Z 0%Q)).
  exact (map_nth pstat_of (e_pools e) (new_pool 0 0%Z 0%Q) i).
Qed.

Lemma snapshot_overflow e i : length (e_pools e) <= i -> nth i (snapshot e) dummy_stat = dummy_stat.
Proof. intros L. apply nth_overflow. unfold snapshot. rewrite map_length. exact L. Qed.

Definition xgood (x : pstat) : Prop := both_or_none x /\ (0 <= ps_acpu x)%Z /\ (0 <= ps_aram x)%Q.

Lemma xgood_dummy : xgood dummy_stat.
Proof. split; [apply both_or_none_dummy|]. unfold dummy_stat. cbn. split; [lia|lra]. Qed.

Lemma pgood_xgood p : pgood p -> xgood (pstat_of p).
Proof. intros (_ & _ & _ & A & B & D). unfold xgood, both_or_none, pstat_of. cbn. auto. Qed.

Lemma snapshot_xgood e i : Forall pgood (e_pools e) -> xgood (nth i (snapshot e) dummy_stat).
Proof.
  intros F. destruct (Nat.lt_ge_cases i (length (e_pools e))) as [L|L].
  - rewrite snapshot_nth. apply pgood_xgood. rewrite Forall_forall in F. apply F. apply nth_In. exact L.
  - rewrite snapshot_overflow by exact L. apply xgood_dummy.
Qed.

Lemma pp_rel_xgood C pid w x queue oom n x' w' asgs oom' :
  pp_rel C pid w x queue oom n x' w' asgs oom' -> xgood x -> xgood x'.
Proof.
  intros H (B & Nc & Nr). split; [eapply pp_rel_both; eauto|]. eapply pp_rel_nonneg; eauto.
Qed.

Lemma pp_scans_err C e s4 er :
  Forall pgood (e_pools e) -> sgood s4 -> pp_scans C e s4 = Err er -> er = ETransition.
Proof.
  intros Pg Sg H. unfold pp_scans in H. cbv zeta in H.
  pose proof (snapshot_xgood e 0 Pg) as X0. pose proof (snapshot_xgood e 1 Pg) as X1.
  assert (Fq : Forall jgood (ss_q s4)) by (apply Forall_forall; intros j Hj; apply (Sg Query j Hj)).
  assert (Fi : Forall jgood (ss_i s4)) by (apply Forall_forall; intros j Hj; apply (Sg Interactive j Hj)).
  assert (Fb : Forall jgood (ss_b s4)) by (apply Forall_forall; intros j Hj; apply (Sg Batch j Hj)).
  destruct (pp_scan C (e_world e) 0 (nth 0 (snapshot e) dummy_stat) (ss_q s4) (ss_oom s4))
    as [[[[[n1 x0a] w1] a1] o1]|e1] eqn:S1; cbn [bind] in H.
  2:{ inversion H; subst. destruct X0 as (B & Nc & Nr). exact (pp_scan_err C 0 _ _ _ _ _ B Nc Nr Fq S1). }
  cbv beta iota in H. apply pp_scan_rel in S1. pose proof (pp_rel_xgood _ _ _ _ _ _ _ _ _ _ _ S1 X0) as X0a.
  destruct (pp_scan C w1 0 x0a (ss_i s4) o1) as [[[[[n2 x0b] w2] a2] o2]|e2] eqn:S2; cbn [bind] in H.
  2:{ inversion H; subst. destruct X0a as (B & Nc & Nr). exact (pp_scan_err C 0 _ _ _ _ _ B Nc Nr Fi S2). }
  cbv beta iota in H.
  destruct (pp_scan C w2 1 (nth 1 (snapshot e) dummy_stat) (ss_b s4) o2)
    as [[[[[n3 x1a] w3] a3] o3]|e3] eqn:S3; cbn [bind] in H.
  2:{ inversion H; subst. destruct X1 as (B & Nc & Nr). exact (pp_scan_err C 1 _ _ _ _ _ B Nc Nr Fb S3). }
  cbv beta iota in H. discriminate H.
Qed.

(* the round is refused only by Assignment.__init__ finding an operator that is not assignable *)
Theorem pp_round_err C s e results newp er :
  Forall pgood (e_pools e) -> Forall (rgood (e_world e)) results -> sgood s ->
  (forall k, In k newp -> pd_order (pipe_of (S_of C) k) <> []) ->
  priority_pool_step C s e results newp = Err er -> er = ETransition.
Proof.
  intros Pg Rg Sg Hn H. rewrite pp_step_split in H.
  destruct (pp_prep_good C s e results newp Pg Rg Sg Hn) as (s4 & E & Sg4). rewrite E in H.
  cbn [bind] in H. eapply pp_scans_err; eauto.
Qed.

(* ---- the accepted round: what each pool is left with ---- *)

Lemma pool_by_id (ps : list pool) n p d :
  map p_id ps = seq 0 n -> In p ps -> nth (p_id p) ps d = p /\ p_id p < length ps.
Proof.
  intros E Hp. destruct (In_nth _ _ d Hp) as (i & Li & Ei).
  assert (Ln : length ps = n) by (rewrite <- (map_length p_id), E, seq_length; reflexivity).
  assert (Hi : p_id p = i).
  { rewrite <- Ei. rewrite <- (map_nth p_id ps d i), E.
    rewrite (nth_indep _ (p_id d) 0) by (rewrite seq_length; lia). rewrite seq_nth by lia. reflexivity. }
  rewrite Hi. auto.
Qed.

Lemma mine_of_app p l1 l2 : mine_of p (l1 ++ l2) = mine_of p l1 ++ mine_of p l2.
Proof. unfold mine_of. apply filter_app'. Qed.

Lemma mine_of_pool p k l :
  (forall a, In a l -> a_pool a = Z.of_nat k) -> mine_of p l = if Nat.eqb (p_id p) k then l else [].
Proof.
  intros H. unfold mine_of. destruct (Nat.eqb (p_id p) k) eqn:E.
  - apply Nat.eqb_eq in E. apply PriorityPoolFacts.filter_all. intros a Ha. rewrite (H a Ha), E.
    apply Z.eqb_refl.
  - apply Nat.eqb_neq in E. apply filter_none. intros a Ha. rewrite (H a Ha). apply Z.eqb_neq.
    intros X. apply Nat2Z.inj in X. congruence.
Qed.

Lemma pp_rel_dummy C pid w queue oom n x' w' asgs oom' :
  pp_rel C pid w dummy_stat queue oom n x' w' asgs oom' -> x' = dummy_stat /\ asgs = [].
Proof.
  intros H. destruct queue as [|j rest].
  - inversion H; subst. auto.
  - apply pp_rel_dead_noop in H; [tauto|reflexivity|reflexivity].
Qed.

Lemma args_ok_opcount C a : cf_multi C = true -> args_ok a -> opcount_ok C a = true.
Proof.
  intros M (A & _). unfold opcount_ok. rewrite M. destruct (a_ops a); [discriminate|reflexivity].
Qed.

Theorem pp_round_ok C np s e results newp s' w' susps asgs :
  map p_id (e_pools e) = seq 0 np -> Forall pgood (e_pools e) ->
  Forall (rgood (e_world e)) results -> sgood s ->
  (forall k, In k newp -> pd_order (pipe_of (S_of C) k) <> []) ->
  priority_pool_step C s e results newp = Ok (s', w', susps, asgs) ->
  susps = [] /\ sgood s' /\ Forall args_ok asgs /\
  forallb (fun a => pool_in_range (length (e_pools e)) (a_pool a)) asgs = true /\
  (forall p, In p (e_pools e) -> exists xf,
     ps_acpu xf = (p_avail_cpu p - sumZ (map a_cpu (mine_of p asgs)))%Z /\
     (ps_aram xf == p_avail_ram p - sumQ (map a_ram (mine_of p asgs)))%Q /\ xgood xf).
Proof.
  intros Ids Pg Rg Sg Hn H. apply pp_step_inv in H.
  destruct H as (m & lq & n1 & n2 & n3 & x0a & x0b & x1a & w1 & w2 & a1 & a2 & a3 & o1 & o2 & H).
  destruct H as (_ & Lq & _ & S1 & S2 & S3 & Es & Ea & Eq & Ei & Eb & _).
  assert (Lq' : forall j0, ~ In j0 lq).
  { intros j0 Hj0. destruct (Lq j0 Hj0) as (p0 & c & Hp0 & Hc & _).
    destruct (pgood_nothing_suspended _ Pg p0 c Hp0) as [A _]. exact (A Hc). }
  pose proof (snapshot_xgood e 0 Pg) as X0. pose proof (snapshot_xgood e 1 Pg) as X1.
  pose proof (pp_rel_xgood _ _ _ _ _ _ _ _ _ _ _ S1 X0) as X0a.
  pose proof (pp_rel_xgood _ _ _ _ _ _ _ _ _ _ _ S2 X0a) as X0b.
  pose proof (pp_rel_xgood _ _ _ _ _ _ _ _ _ _ _ S3 X1) as X1a.
  assert (P1 : forall a, In a a1 -> a_pool a = Z.of_nat 0)
    by (intros a Ha; apply (pp_rel_pool _ _ _ _ _ _ _ _ _ _ _ _ S1 Ha)).
  assert (P2 : forall a, In a a2 -> a_pool a = Z.of_nat 0)
    by (intros a Ha; apply (pp_rel_pool _ _ _ _ _ _ _ _ _ _ _ _ S2 Ha)).
  assert (P3 : forall a, In a a3 -> a_pool a = Z.of_nat 1)
    by (intros a Ha; apply (pp_rel_pool _ _ _ _ _ _ _ _ _ _ _ _ S3 Ha)).
  split; [exact Es|]. split; [|split; [|split]].
  - (* the queues that are left *)
    intros p j Hj.
    assert (Hin : In j (pp_pre C s e results newp lq p)).
    { destruct p; cbn [queue_of] in Hj; [rewrite Eq in Hj|rewrite Ei in Hj|rewrite Eb in Hj];
        eapply In_skipn; eauto. }
    eapply pp_pre_jgood; eauto.
  - subst asgs. apply Forall_app. split; [apply (pp_rel_world _ _ _ _ _ _ _ _ _ _ _ S1)|].
    apply Forall_app. split; [apply (pp_rel_world _ _ _ _ _ _ _ _ _ _ _ S2)|apply (pp_rel_world _ _ _ _ _ _ _ _ _ _ _ S3)].
  - (* pool numbers: a pool that does not exist hands out nothing *)
    subst asgs. apply forallb_forall. intros a Ha. unfold pool_in_range.
    assert (G : forall k, a_pool a = Z.of_nat k -> k < length (e_pools e) ->
                (0 <=? a_pool a)%Z && (a_pool a <? Z.of_nat (length (e_pools e)))%Z = true).
    { intros k Ek Lk. rewrite Ek. apply andb_true_iff. split; [apply Z.leb_le|apply Z.ltb_lt]; lia. }
    apply in_app_or in Ha. destruct Ha as [Ha|Ha]; [|apply in_app_or in Ha; destruct Ha as [Ha|Ha]].
    + apply (G 0 (P1 a Ha)). destruct (Nat.lt_ge_cases 0 (length (e_pools e))) as [L|L]; [exact L|].
      rewrite (snapshot_overflow e 0 L) in S1. apply pp_rel_dummy in S1. destruct S1 as [_ ->]. destruct Ha.
    + apply (G 0 (P2 a Ha)). destruct (Nat.lt_ge_cases 0 (length (e_pools e))) as [L|L]; [exact L|].
      rewrite (snapshot_overflow e 0 L) in S1. apply pp_rel_dummy in S1. destruct S1 as [-> _].
      apply pp_rel_dummy in S2. destruct S2 as [_ ->]. destruct Ha.
    + apply (G 1 (P3 a Ha)). destruct (Nat.lt_ge_cases 1 (length (e_pools e))) as [L|L]; [exact L|].
      rewrite (snapshot_overflow e 1 L) in S3. apply pp_rel_dummy in S3. destruct S3 as [_ ->]. destruct Ha.
  - (* accounting, pool by pool *)
    intros p Hp. destruct (pool_by_id _ _ p (new_pool 0 0%Z 0%Q) Ids Hp) as [En _].
    subst asgs. rewrite !mine_of_app.
    rewrite (mine_of_pool p 0 a1 P1), (mine_of_pool p 0 a2 P2), (mine_of_pool p 1 a3 P3).
    destruct (pp_rel_snapshot _ _ _ _ _ _ _ _ _ _ _ S1) as [C1 R1].
    destruct (pp_rel_snapshot _ _ _ _ _ _ _ _ _ _ _ S2) as [C2 R2].
    destruct (pp_rel_snapshot _ _ _ _ _ _ _ _ _ _ _ S3) as [C3 R3].
    destruct (p_id p) as [|[|k]] eqn:Ep; cbn [Nat.eqb].
    + exists x0b. rewrite snapshot_nth, En in C1, R1. unfold pstat_of in C1, R1.
      cbn [ps_acpu ps_aram fst snd] in C1, R1.
      rewrite app_nil_r, !map_app, sumZ_app', sumQ_app'. split; [lia|]. split; [lra|exact X0b].
    + exists x1a. rewrite snapshot_nth, En in C3, R3. unfold pstat_of in C3, R3.
      cbn [ps_acpu ps_aram fst snd] in C3, R3. cbn [app]. split; [lia|]. split; [lra|exact X1a].
    + exists (pstat_of p). cbn [app map sumZ sumQ]. unfold pstat_of at 1 2. cbn [ps_acpu ps_aram fst snd].
      split; [lia|]. split; [lra|]. apply pgood_xgood. rewrite Forall_forall in Pg. apply Pg, Hp.
Qed.

(* ------------------------------------------------------------------------------------------ *)
(* C. the closed loop                                                                           *)
(* ------------------------------------------------------------------------------------------ *)

Definition pp_inv (np : nat) (s : sim) : Prop :=
  map p_id (e_pools (sm_exec s)) = seq 0 np /\
  Forall pgood (e_pools (sm_exec s)) /\
  Forall (rgood (e_world (sm_exec s))) (sm_results s) /\
  sgood (sm_sched s).

Lemma pp_inv_init C np cpu ram :
  (0 < cpu)%Z -> (0 < ram)%Q -> pp_inv np (init_sim C np cpu ram).
Proof.
  intros Hc Hr. unfold pp_inv, init_sim, init_estate. cbn [sm_exec sm_results sm_sched e_pools e_world].
  split; [rewrite map_map; cbn [new_pool p_id]; apply map_id|]. split; [|split; [constructor|apply sgood_init]].
  apply Forall_forall. intros p Hp. apply in_map_iff in Hp. destruct Hp as [i [<- _]].
  unfold pgood, new_pool. cbn [p_suspending p_suspended p_active p_avail_cpu p_avail_ram].
  split; [reflexivity|]. split; [reflexivity|]. split; [constructor|]. split; [lia|]. split; [lra|].
  split; intros H; [lia|]. rewrite H in Hr. exfalso. apply (Qlt_irrefl _ Hr).
Qed.

(* what the pool is left with after its tick is both-or-none again *)
Lemma pool_post_pgood asgs p p' xf :
  pool_post asgs p p' ->
  ps_acpu xf = (p_avail_cpu p - sumZ (map a_cpu asgs))%Z ->
  (ps_aram xf == p_avail_ram p - sumQ (map a_ram asgs))%Q -> xgood xf -> pgood p'.
Proof.
  intros (_ & _ & _ & Hs & Hd & Fa & rc & rr & Ec & Er & Rel) Xc Xr (B & Nc & Nr).
  split; [exact Hs|]. split; [exact Hd|]. split; [exact Fa|].
  assert (Ec' : p_avail_cpu p' = (ps_acpu xf + rc)%Z) by lia.
  assert (Er' : (p_avail_ram p' == ps_aram xf + rr)%Q) by (rewrite Er, Xr; ring).
  unfold both_or_none in B.
  destruct Rel as [[R1 R2]|[R1 R2]].
  - split; [lia|]. split; [rewrite Er', R2; lra|]. rewrite Ec', Er', R1, R2, Z.add_0_r.
    split; intros H.
    + apply B in H. rewrite H. ring.
    + apply B. rewrite <- H. ring.
  - split; [lia|]. split; [rewrite Er'; lra|]. rewrite Ec', Er'. split; intros H; [lia|].
    exfalso. assert (0 < ps_aram xf + rr)%Q by lra. rewrite H in H0. apply (Qlt_irrefl _ H0).
Qed.

Section Loop.
Variable C : cfg.
Hypothesis Hmulti : cf_multi C = true.

Lemma pp_tick_step np t s newp :
  pp_inv np s -> (forall k, In k newp -> pd_order (pipe_of (cf_static C) k) <> []) ->
  match sim_tick C APriorityPool t s newp with
  | Ok (s', _) => pp_inv np s'
  | Err er => inner_err er
  end.
Proof.
  intros (Ids & Pg & Rg & Sg) Hn.
  destruct (sim_tick C APriorityPool t s newp) as [[s' lg]|er] eqn:E.
  - apply sim_tick_ok_inv in E.
    destruct E as (arr & ss' & w' & susps & asgs & e2 & res & _ & Es & Ee & <- & <- & <- & _).
    cbn [sched_step] in Es.
    destruct (pp_round_ok C np _ _ _ _ _ _ _ _ Ids Pg Rg Sg Hn Es) as (-> & Sg' & Aa & _ & Acc).
    apply exec_tick_ok_inv in Ee. destruct Ee as (_ & _ & Ee). cbn [e_world e_next e_pools] in Ee.
    destruct (pools_tick_good _ _ _ _ _ _ _ _ _ Ee Pg Aa) as [Post Rg'].
    destruct (pools_tick_static _ _ _ _ _ _ _ _ _ _ Ee) as [Ids' _].
    split; [rewrite Ids'; exact Ids|]. split; [|split; [exact Rg'|exact Sg']].
    apply Forall_forall. intros p' Hp'.
    destruct (Forall2_In_r _ _ _ _ Post Hp') as (p & Hp & Pp).
    destruct (Acc p Hp) as (xf & Xc & Xr & Xg). eapply pool_post_pgood; eauto.
  - pose proof (sim_tick_cases C APriorityPool t s newp) as X. rewrite E in X. cbn [sched_step] in X.
    destruct X as [[-> _]|[X|(ss' & w' & susps & asgs & X1 & X2)]].
    + unfold inner_err. auto.
    + rewrite (pp_round_err C _ _ _ _ _ Pg Rg Sg Hn X). unfold inner_err. auto.
    + destruct (pp_round_ok C np _ _ _ _ _ _ _ _ Ids Pg Rg Sg Hn X1) as (-> & _ & Aa & Rn & Acc).
      eapply exec_tick_checked_err; [exact X2|]. cbn [e_pools]. split; [exact Rn|]. split.
      * intros p Hp. destruct (Acc p Hp) as (xf & Xc & Xr & (_ & Nc & Nr)). right.
        apply verify_assignments_ok. split; [lia|]. intros _. lra.
      * intros a Ha. apply args_ok_opcount; [exact Hmulti|]. rewrite Forall_forall in Aa. apply Aa, Ha.
Qed.

Lemma pp_run_inv np : forall arrivals t s sf logs oe,
  pp_inv np s ->
  (forall k, In k (concat arrivals) -> pd_order (pipe_of (cf_static C) k) <> []) ->
  sim_run C APriorityPool t s arrivals = (sf, logs, oe) ->
  pp_inv np sf /\ match oe with Some er => inner_err er | None => True end.
Proof.
  induction arrivals as [|newp r IH]; intros t s sf logs oe I Hn H; cbn [sim_run] in H.
  - inversion H; subst. auto.
  - cbn [concat] in Hn.
    pose proof (pp_tick_step np t s newp I (fun k Hk => Hn k (in_or_app _ _ k (or_introl Hk)))) as X.
    destruct (sim_tick C APriorityPool t s newp) as [[s1 lg]|e] eqn:E.
    + destruct (sim_run C APriorityPool (t + 1)%Z s1 r) as [[sf' logs'] e'] eqn:R. inversion H; subst.
      eapply IH; [exact X| |exact R]. intros k Hk. apply Hn. apply in_or_app. right. exact Hk.
    + inversion H; subst. auto.
Qed.

End Loop.

(* priority-pool with multi-operator containers, positive pool sizes, pipelines with at least one
   operator: along the whole run the both-or-none snapshot hypothesis of C16_no_internal_assertion holds,
   failed results keep an unfinished operator, and whatever stops the run is raised inside a container
   tick or by an ASSIGNED request on an operator that is not assignable: never the scheduler's
   assertion, never a refusal of the scheduler's commands by the executor *)
Theorem pp_run_errors C np cpu ram arrivals sf logs er :
  cf_multi C = true -> (0 < cpu)%Z -> (0 < ram)%Q ->
  (forall k, In k (concat arrivals) -> pd_order (pipe_of (cf_static C) k) <> []) ->
  sim_run C APriorityPool 0%Z (init_sim C np cpu ram) arrivals = (sf, logs, Some er) ->
  inner_err er.
Proof.
  intros M Hc Hr Hn H.
  destruct (pp_run_inv C M np arrivals 0%Z _ sf logs (Some er) (pp_inv_init C np cpu ram Hc Hr) Hn H) as [_ X].
  exact X.
Qed.

(* spelled out: none of the executor's command checks, no scheduler assertion, no Assignment argument check *)
Corollary pp_run_errors_spelled C np cpu ram arrivals sf logs er :
  cf_multi C = true -> (0 < cpu)%Z -> (0 < ram)%Q ->
  (forall k, In k (concat arrivals) -> pd_order (pipe_of (cf_static C) k) <> []) ->
  sim_run C APriorityPool 0%Z (init_sim C np cpu ram) arrivals = (sf, logs, Some er) ->
  inner_err er /\
  er <> EBadPool /\ er <> EOversellCpu /\ er <> EOversellRam /\ er <> EBadSuspend /\ er <> EOpCount /\
  er <> EBadAssignArgs /\ er <> ESchedAssert.
Proof.
  intros M Hc Hr Hn H. pose proof (pp_run_errors C np cpu ram arrivals sf logs er M Hc Hr Hn H) as I.
  split; [exact I|]. apply inner_not_command. exact I.
Qed.

(* the hypotheses of C16_no_internal_assertion hold in the state the run has reached (every state the
   loop passes through is the final state of the run over a prefix of the arrival batches) *)
Theorem pp_run_snapshot C np cpu ram arrivals sf logs oe :
  cf_multi C = true -> (0 < cpu)%Z -> (0 < ram)%Q ->
  (forall k, In k (concat arrivals) -> pd_order (pipe_of (cf_static C) k) <> []) ->
  sim_run C APriorityPool 0%Z (init_sim C np cpu ram) arrivals = (sf, logs, oe) ->
  let e := sm_exec sf in
  (forall r, In r (sm_results sf) -> r_err r = true -> not_completed_ops (e_world e) (r_ops r) <> []) /\
  (forall p, In p (e_pools e) -> p_suspending p = [] /\ p_suspended p = []) /\
  (forall i, both_or_none (nth i (snapshot e) dummy_stat) /\
             (0 <= ps_acpu (nth i (snapshot e) dummy_stat))%Z /\
             (0 <= ps_aram (nth i (snapshot e) dummy_stat))%Q) /\
  (forall newp, priority_pool_step C (sm_sched sf) e (sm_results sf) newp <> Err ESchedAssert).
Proof.
  intros M Hc Hr Hn H. cbv zeta.
  destruct (pp_run_inv C M np arrivals 0%Z _ sf logs oe (pp_inv_init C np cpu ram Hc Hr) Hn H)
    as [(Ids & Pg & Rg & Sg) _].
  assert (HF : forall r, In r (sm_results sf) -> r_err r = true ->
                         not_completed_ops (e_world (sm_exec sf)) (r_ops r) <> []).
  { intros r Hr0 Er. rewrite Forall_forall in Rg. apply (rgood_not_completed _ _ (Rg r Hr0) Er). }
  split; [exact HF|]. split; [|split].
  - intros p Hp. rewrite Forall_forall in Pg. destruct (Pg p Hp) as (A & B & _). auto.
  - intros i. apply (snapshot_xgood (sm_exec sf) i Pg).
  - intros newp. apply pp_step_no_assert.
    + exact HF.
    + intros p c Hp Hin. exfalso. destruct (pgood_nothing_suspended _ Pg p c Hp) as [_ A]. exact (A Hin).
    + apply (snapshot_xgood (sm_exec sf) 0 Pg).
    + apply (snapshot_xgood (sm_exec sf) 1 Pg).
Qed.

(* ------------------------------------------------------------------------------------------ *)
(* D. the closed loop: priority-pool with multi-operator containers runs to the end             *)
(* ------------------------------------------------------------------------------------------ *)

(* list helpers *)
Lemma skipn_cons_nth_error {A} : forall (l : list A) n x t, skipn n l = x :: t -> nth_error l n = Some x.
Proof.
  induction l as [|a l IH]; intros [|n] x t H; cbn in *; try discriminate.
  - inversion H. reflexivity.
  - eapply IH; eauto.
Qed.

Lemma skipn_cons_S {A} : forall (l : list A) n x t, skipn n l = x :: t -> skipn (S n) l = t.
Proof.
  induction l as [|a l IH]; intros [|n] x t H; cbn in *; try discriminate.
  - inversion H. reflexivity.
  - destruct l as [|b l']; [destruct n; discriminate|]. eapply IH; eauto.
Qed.

Lemma firstn_S_skipn {A} : forall (l : list A) n x t,
  skipn n l = x :: t -> firstn (S n) l = firstn n l ++ [x].
Proof.
  induction l as [|a l IH]; intros [|n] x t H; cbn in *; try discriminate.
  - inversion H. reflexivity.
  - f_equal. eapply IH; eauto.
Qed.

Lemma skipn_lt_nonnil {A} (l : list A) n : n < length l -> skipn n l <> [].
Proof.
  intros L E. assert (X : length (skipn n l) = 0) by (rewrite E; reflexivity).
  rewrite skipn_length in X. lia.
Qed.

Section PPLoop.
Variable C : cfg.
Let St := cf_static C.
Hypothesis Hscript : forall op cpu, cf_script C op cpu <> [].

(* every parent of every operator of [ops] is COMPLETED, or earlier in the list, or in [seen] *)
Fixpoint deps (w : world) (seen ops : list nat) : Prop :=
  match ops with
  | [] => True
  | o :: t => (forall p, In p (op_parents St o) -> st_of w p = Completed \/ In p seen) /\ deps w (o :: seen) t
  end.

Definition cmono (w w' : world) : Prop := forall o, st_of w o = Completed -> st_of w' o = Completed.

Lemma cmono_refl w : cmono w w.
Proof. intros o H. exact H. Qed.
Lemma cmono_trans a b c : cmono a b -> cmono b c -> cmono a c.
Proof. intros H1 H2 o H. auto. Qed.
Lemma xsteps_cmono w w' : xsteps St w w' -> cmono w w'.
Proof. intros X o H. eapply xsteps_completed; eauto. Qed.
Lemma steps_cmono w w' : steps St w w' -> cmono w w'.
Proof. intros X o H. eapply completed_final; eauto. Qed.

Lemma deps_weaken w w' : cmono w w' -> forall ops seen seen',
  (forall x, In x seen -> st_of w' x = Completed \/ In x seen') -> deps w seen ops -> deps w' seen' ops.
Proof.
  intros M. induction ops as [|o t IH]; intros seen seen' Hs D; cbn [deps] in *; [exact I|].
  destruct D as [Dh Dt]. split.
  - intros p Hp. destruct (Dh p Hp) as [Hc|Hi]; [left; apply M; exact Hc|apply Hs; exact Hi].
  - apply (IH (o :: seen)); [|exact Dt]. intros x [->|Hx]; [right; left; reflexivity|].
    destruct (Hs x Hx) as [Hc|Hi]; [left; exact Hc|right; right; exact Hi].
Qed.

Lemma deps_mono w w' seen ops : cmono w w' -> deps w seen ops -> deps w' seen ops.
Proof. intros M. apply (deps_weaken w w' M). intros x Hx. right. exact Hx. Qed.

Lemma deps_head_ready w o t : deps w [] (o :: t) -> parents_complete St w o = true.
Proof.
  intros [Dh _]. apply parents_complete_spec. intros p Hp. destruct (Dh p Hp) as [Hc|[]]. exact Hc.
Qed.

Lemma deps_tail w w' o t : cmono w w' -> st_of w' o = Completed -> deps w [] (o :: t) -> deps w' [] t.
Proof.
  intros M Hc [_ Dt]. apply (deps_weaken w w' M t [o] []); [|exact Dt].
  intros x [->|[]]. left. exact Hc.
Qed.

(* ---- containers ---- *)
Definition rem (c : container) : list nat := skipn (c_opidx c) (c_ops c).

Definition cbase (w : world) (c : container) : Prop :=
  c_completed c = false /\ cpos c /\ (forall o, In o (c_ops c) -> o < length (s_ops St)) /\
  NoDup (rem c) /\ (forall x, In x (firstn (c_opidx c) (c_ops c)) -> st_of w x = Completed) /\
  deps w [] (rem c).

(* between two ticks *)
Definition crun (w : world) (c : container) : Prop :=
  cbase w c /\ c_frozen c = false /\ c_error c = false /\
  exists o t, rem c = o :: t /\ (forall x, In x t -> st_of w x = Assigned) /\
    match c_rest c with None => st_of w o = Assigned | Some r => st_of w o = Running /\ r <> [] end.

(* kill("OOM") accepts it *)
Definition ckillable (w : world) (c : container) : Prop :=
  cbase w c /\ c_error c = false /\
  exists o t, rem c = o :: t /\ (forall x, In x t -> st_of w x = Assigned) /\
    (st_of w o = Assigned \/ st_of w o = Running).

(* finished; a failed one: operators before the position COMPLETED, the others FAILED *)
Definition cfin (w : world) (c : container) : Prop :=
  c_completed c = true /\ cpos c /\ Qltb (c_ram c) (c_mem c) = false /\
  (c_error c = true ->
     (forall x, In x (firstn (c_opidx c) (c_ops c)) -> st_of w x = Completed) /\
     (forall x, In x (rem c) -> x < length (s_ops St) /\ st_of w x = Failed) /\
     rem c <> [] /\ NoDup (rem c) /\ deps w [] (rem c)).

Definition cafter (w : world) (c : container) : Prop :=
  cfin w c \/ (ckillable w c /\ (Qltb (c_ram c) (c_mem c) = false -> crun w c)).
Definition csettled (w : world) (c : container) : Prop := cfin w c \/ crun w c.

Lemma own_rem c : c_completed c = false -> own c = rem c.
Proof. intros H. unfold own, rem. rewrite H. reflexivity. Qed.

Lemma crun_killable w c : crun w c -> ckillable w c.
Proof.
  intros (B & _ & He & o & t & Sk & Ht & Hs). split; [exact B|]. split; [exact He|].
  exists o, t. split; [exact Sk|]. split; [exact Ht|].
  destruct (c_rest c); [right; apply Hs|left; exact Hs].
Qed.

Lemma cbase_stable w w' c :
  cmono w w' -> cbase w c -> cbase w' c.
Proof.
  intros M (Cc & P & R & N & Fc & D). repeat split; auto; try apply P.
  eapply deps_mono; eauto.
Qed.

Lemma crun_stable w w' c :
  cmono w w' -> (forall o, In o (rem c) -> st_of w' o = st_of w o) -> crun w c -> crun w' c.
Proof.
  intros M F (B & Hf & He & o & t & Sk & Ht & Hs).
  split; [eapply cbase_stable; eauto|]. split; [exact Hf|]. split; [exact He|].
  exists o, t. split; [exact Sk|]. split.
  - intros x Hx. rewrite F; [apply Ht; exact Hx|]. rewrite Sk. right. exact Hx.
  - rewrite F; [exact Hs|]. rewrite Sk. left. reflexivity.
Qed.

Lemma ckillable_stable w w' c :
  cmono w w' -> (forall o, In o (rem c) -> st_of w' o = st_of w o) -> ckillable w c -> ckillable w' c.
Proof.
  intros M F (B & He & o & t & Sk & Ht & Hs).
  split; [eapply cbase_stable; eauto|]. split; [exact He|].
  exists o, t. split; [exact Sk|]. split.
  - intros x Hx. rewrite F; [apply Ht; exact Hx|]. rewrite Sk. right. exact Hx.
  - rewrite F; [exact Hs|]. rewrite Sk. left. reflexivity.
Qed.

Lemma cfin_stable w w' c : xsteps St w w' -> cfin w c -> cfin w' c.
Proof.
  intros X (Cc & P & Q & F). split; [exact Cc|]. split; [exact P|]. split; [exact Q|].
  intros E. destruct (F E) as (F1 & F2 & F3 & F4 & F5). split; [|split; [|split; [exact F3|split; [exact F4|]]]].
  - intros x Hx. eapply xsteps_completed; eauto.
  - intros x Hx. destruct (F2 x Hx) as [A B]. split; [exact A|]. eapply xsteps_failed; eauto.
  - eapply deps_mono; [apply xsteps_cmono; exact X|exact F5].
Qed.

Lemma cafter_stable w w' c :
  xsteps St w w' -> (forall o, In o (own c) -> st_of w' o = st_of w o) -> cafter w c -> cafter w' c.
Proof.
  intros X F [H|[K R]]; [left; eapply cfin_stable; eauto|right].
  assert (Cc : c_completed c = false) by apply K. rewrite (own_rem c Cc) in F.
  split; [eapply ckillable_stable; eauto; apply xsteps_cmono; exact X|].
  intros Q. eapply crun_stable; eauto. apply xsteps_cmono; exact X.
Qed.

Lemma csettled_stable w w' c :
  xsteps St w w' -> (forall o, In o (own c) -> st_of w' o = st_of w o) -> csettled w c -> csettled w' c.
Proof.
  intros X F [H|R]; [left; eapply cfin_stable; eauto|right].
  assert (Cc : c_completed c = false) by apply R. rewrite (own_rem c Cc) in F.
  eapply crun_stable; eauto. apply xsteps_cmono; exact X.
Qed.

Lemma Qltb_pos_0 a : (0 < a)%Q -> Qltb a 0%Q = false.
Proof. intros H. apply PriorityPoolFacts.Qltb_false. apply Qlt_le_weak. exact H. Qed.

(* ---- one container tick ---- *)
Lemma ctick_tail_crun w1 cons c o t m rest' :
  wlen St w1 -> cbase w1 c -> c_error c = false -> rem c = o :: t ->
  (forall x, In x t -> st_of w1 x = Assigned) -> st_of w1 o = Running ->
  exists w' cons' c', ctick_tail C w1 cons c o m rest' = Ok (w', cons', c') /\ cafter w' c'.
Proof.
  intros L B He Sk Ht Hs. pose proof B as (Cc & P & R & N & Fc & D).
  unfold ctick_tail, set_mem.
  destruct (Qltb (c_ram c) m) eqn:Q.
  - eexists _, _, _. split; [reflexivity|]. right. split.
    + split; [exact B|]. split; [cproj; exact He|]. exists o, t. unfold rem. cproj. fold (rem c). auto.
    + cproj. intros X. congruence.
  - destruct rest' as [|m' r''].
    + assert (T : transition (cf_static C) w1 o Completed = Ok (world_after (cf_static C) w1 o Completed)).
      { apply transition_ok. rewrite Hs. split; [reflexivity|]. split; [discriminate|reflexivity]. }
      rewrite T. cbn [bind]. cbv zeta.
      set (w2 := world_after (cf_static C) w1 o Completed) in *.
      assert (Lo : o < length (w_st w1)).
      { unfold wlen in L. rewrite L. apply R. apply (In_skipn o (c_opidx c)). fold (rem c). rewrite Sk. left. reflexivity. }
      assert (So : st_of w2 o = Completed) by (apply (transition_st_same _ _ _ _ _ T Lo)).
      assert (M : cmono w1 w2) by (intros x Hx; eapply completed_stays_step; eauto).
      destruct (Nat.eqb (S (c_opidx c)) (length (c_ops c))) eqn:El.
      * unfold mark_completed, set_mem. cproj.
        eexists _, _, _. split; [reflexivity|]. left. split; [reflexivity|]. cproj.
        split; [exact P|]. split; [apply Qltb_pos_0, P|discriminate].
      * apply Nat.eqb_neq in El.
        assert (Li : c_opidx c < length (c_ops c)).
        { destruct (Nat.lt_ge_cases (c_opidx c) (length (c_ops c))) as [X|X]; [exact X|].
          unfold rem in Sk. rewrite skipn_all2 in Sk by exact X. discriminate. }
        assert (Sk' : skipn (S (c_opidx c)) (c_ops c) = t) by (eapply skipn_cons_S; exact Sk).
        assert (Nt : t <> []).
        { rewrite <- Sk'. apply skipn_lt_nonnil. lia. }
        destruct t as [|o2 t2]; [congruence|].
        rewrite Sk in N. inversion N as [|? ? Hno Nt2]; subst.
        assert (Fo : forall x, In x (o2 :: t2) -> st_of w2 x = st_of w1 x).
        { intros x Hx. apply (transition_st_other _ _ _ _ _ _ T). intros ->. contradiction. }
        assert (B2 : cbase w2 (tick_elapsed (with_pos
                       {| c_id := c_id c; c_ops := c_ops c; c_cpu := c_cpu c; c_ram := c_ram c; c_prio := c_prio c;
                          c_opidx := c_opidx c; c_rest := c_rest c; c_frozen := c_frozen c; c_mem := m;
                          c_can_suspend := c_can_suspend c; c_completed := c_completed c; c_error := c_error c;
                          c_ticks := c_ticks c; c_susp_left := c_susp_left c |}
                       (S (c_opidx c)) None false true))).
        { unfold cbase, rem. cproj. rewrite Sk'. split; [exact Cc|]. split; [exact P|]. split; [exact R|].
          split; [exact Nt2|]. split.
          - intros x Hx. rewrite (firstn_S_skipn _ _ _ _ Sk) in Hx. apply in_app_or in Hx.
            destruct Hx as [Hx|[<-|[]]]; [apply M, Fc; exact Hx|exact So].
          - rewrite Sk in D. eapply deps_tail; eauto. }
        eexists _, _, _. split; [reflexivity|]. right.
        assert (Rn : crun w2 (tick_elapsed (with_pos
                       {| c_id := c_id c; c_ops := c_ops c; c_cpu := c_cpu c; c_ram := c_ram c; c_prio := c_prio c;
                          c_opidx := c_opidx c; c_rest := c_rest c; c_frozen := c_frozen c; c_mem := m;
                          c_can_suspend := c_can_suspend c; c_completed := c_completed c; c_error := c_error c;
                          c_ticks := c_ticks c; c_susp_left := c_susp_left c |}
                       (S (c_opidx c)) None false true))).
        { split; [exact B2|]. split; [reflexivity|]. split; [cproj; exact He|].
          exists o2, t2. unfold rem. cproj. split; [exact Sk'|]. split.
          - intros x Hx. rewrite Fo by (right; exact Hx). apply Ht. right. exact Hx.
          - rewrite Fo by (left; reflexivity). apply Ht. left. reflexivity. }
        split; [apply crun_killable; exact Rn|intros _; exact Rn].
    + eexists _, _, _. split; [reflexivity|]. right.
      assert (Rn : crun w1 (tick_elapsed (with_pos
                       {| c_id := c_id c; c_ops := c_ops c; c_cpu := c_cpu c; c_ram := c_ram c; c_prio := c_prio c;
                          c_opidx := c_opidx c; c_rest := c_rest c; c_frozen := c_frozen c; c_mem := m;
                          c_can_suspend := c_can_suspend c; c_completed := c_completed c; c_error := c_error c;
                          c_ticks := c_ticks c; c_susp_left := c_susp_left c |}
                       (c_opidx c) (Some (m' :: r'')) false false))).
      { split; [exact B|]. split; [reflexivity|]. split; [cproj; exact He|].
        exists o, t. unfold rem. cproj. fold (rem c). split; [exact Sk|]. split; [exact Ht|].
        split; [exact Hs|discriminate]. }
      split; [apply crun_killable; exact Rn|intros _; exact Rn].
Qed.

Lemma ctick_crun w cons c :
  wlen St w -> crun w c -> exists w' cons' c', ctick C w cons c = Ok (w', cons', c') /\ cafter w' c'.
Proof.
  intros L (B & Hf & He & o & t & Sk & Ht & Hs). pose proof B as (Cc & P & R & N & Fc & D).
  unfold ctick. rewrite Cc, Hf.
  assert (Nx : nth_error (c_ops c) (c_opidx c) = Some o) by (eapply skipn_cons_nth_error; exact Sk).
  rewrite Nx. destruct (c_rest c) as [r|] eqn:Hrest.
  - destruct Hs as [Hs Hne]. cbn [bind]. destruct r as [|m rest']; [congruence|].
    apply (ctick_tail_crun w cons c o t m rest'); assumption.
  - assert (T : transition (cf_static C) w o Running = Ok (world_after (cf_static C) w o Running)).
    { apply transition_ok. rewrite Hs. split; [reflexivity|]. split; [|reflexivity].
      intros _. rewrite Sk in D. eapply deps_head_ready; eauto. }
    rewrite T. cbn [bind].
    assert (Lo : o < length (w_st w)).
    { unfold wlen in L. rewrite L. apply R. apply (In_skipn o (c_opidx c)). fold (rem c). rewrite Sk. left. reflexivity. }
    assert (M : cmono w (world_after (cf_static C) w o Running))
      by (intros x Hx; eapply completed_stays_step; eauto).
    destruct (cf_script C o (c_cpu c)) as [|m rest'] eqn:Sc; [exfalso; eapply Hscript; eauto|].
    rewrite Sk in N. inversion N as [|? ? Hno Nt]; subst.
    apply (ctick_tail_crun _ cons c o t m rest').
    + unfold wlen in *. rewrite (transition_length _ _ _ _ _ T). exact L.
    + eapply cbase_stable; eauto.
    + exact He.
    + exact Sk.
    + intros x Hx. rewrite (transition_st_other _ _ _ _ _ _ T); [apply Ht; exact Hx|].
      intros ->. contradiction.
    + apply (transition_st_same _ _ _ _ _ T Lo).
Qed.

(* ---- kill ---- *)
Lemma transition_all_total new : new <> Running -> forall ops w,
  NoDup ops -> (forall o, In o ops -> valid (st_of w o) new = true) ->
  exists w', transition_all St w ops new = Ok w'.
Proof.
  intros Hn. induction ops as [|o t IH]; intros w N A; cbn [transition_all]; [eauto|].
  inversion N as [|? ? No Nt]; subst.
  assert (T : transition St w o new = Ok (world_after St w o new)).
  { apply transition_ok. split; [apply A; left; reflexivity|]. split; [intros E; contradiction|reflexivity]. }
  rewrite T. cbn [bind]. apply IH; [exact Nt|].
  intros o' Ho'. rewrite (transition_st_other _ _ _ _ _ _ T); [apply A; right; exact Ho'|].
  intros ->. contradiction.
Qed.

Lemma ckill_ckillable w cons c :
  wlen St w -> ckillable w c -> exists w' cons' c', ckill C w cons c = Ok (w', cons', c') /\ cfin w' c'.
Proof.
  intros L (B & He & o & t & Sk & Ht & Hs). pose proof B as (Cc & P & R & N & Fc & D).
  destruct (transition_all_total Failed (fun E => ltac:(discriminate E)) (rem c) w N) as [w1 T].
  { intros x Hx. rewrite Sk in Hx. destruct Hx as [<-|Hx].
    - destruct Hs as [-> | ->]; reflexivity.
    - rewrite (Ht x Hx). reflexivity. }
  unfold ckill. rewrite Cc. unfold rem in T. fold St. rewrite T. cbn [bind].
  unfold mark_completed, set_mem. eexists _, _, _. split; [reflexivity|].
  pose proof (transition_all_xsteps St Failed (fun E => ltac:(discriminate E)) _ _ _ T) as X.
  split; [reflexivity|]. cproj. split; [exact P|]. split; [apply Qltb_pos_0, P|].
  intros _. unfold rem. cproj. fold (rem c). split; [|split; [|split; [|split; [exact N|]]]].
  - intros x Hx. eapply xsteps_completed; eauto.
  - intros x Hx. assert (Rx : x < length (s_ops St)) by (apply R; eapply In_skipn; exact Hx).
    split; [exact Rx|]. eapply transition_all_set; eauto. unfold wlen in L. rewrite L. exact Rx.
  - rewrite Sk. discriminate.
  - eapply deps_mono; [apply xsteps_cmono; exact X|exact D].
Qed.

(* ---- phase 4 ---- *)
Lemma wlen_xsteps w w' : xsteps St w w' -> wlen St w -> wlen St w'.
Proof. intros X L. unfold wlen in *. rewrite (xsteps_length _ _ _ X). exact L. Qed.

Lemma tick_active_tot : forall act w cons,
  wlen St w -> NoDup (owns act) -> Forall (crun w) act ->
  exists w' cons' act', tick_active C w cons act = Ok (w', cons', act') /\ Forall (cafter w') act'.
Proof.
  induction act as [|c t IH]; intros w cons L N F; cbn [tick_active].
  - eexists _, _, _. split; [reflexivity|constructor].
  - inversion F as [|? ? Fc Ft]; subst. rewrite owns_cons in N.
    destruct (ctick_crun w cons c L Fc) as (w1 & cons1 & c1 & E1 & A1).
    pose proof (ctick_xsteps _ _ _ _ _ _ _ E1) as X1.
    pose proof (wlen_xsteps _ _ X1 L) as L1.
    pose proof (Step_frame _ _ _ _ (ctick_own _ _ _ _ _ _ _ E1)) as F1.
    assert (Ft1 : Forall (crun w1) t).
    { rewrite Forall_forall in *. intros x Hx.
      eapply crun_stable; [apply xsteps_cmono; exact X1| |apply Ft, Hx].
      intros o Ho. apply F1. intros Hin.
      assert (Cx : c_completed x = false) by apply (Ft x Hx). rewrite <- (own_rem x Cx) in Ho.
      eapply NoDup_app_disj; [exact N|exact Hin|]. eapply own_in_owns; eauto. }
    destruct (IH w1 cons1 L1 (NoDup_app_r _ _ N) Ft1) as (w2 & cons2 & t2 & E2 & A2).
    rewrite E1. cbn [bind]. rewrite E2. cbn [bind]. eexists _, _, _. split; [reflexivity|].
    constructor; [|exact A2].
    pose proof (Step_frame _ _ _ _ (tick_active_own _ _ _ _ _ _ _ E2)) as F2.
    eapply cafter_stable; [eapply tick_active_xsteps; exact E2| |exact A1].
    intros o Ho. apply F2. intros Hin.
    assert (Ho' : In o (own c)).
    { destruct (ctick_own _ _ _ _ _ _ _ E1) as (Ms & _). eapply msub_In; eauto. }
    eapply NoDup_app_disj; eauto.
Qed.

(* ---- phase 5, step 1 ---- *)
Lemma kill_over_limit_tot : forall act w cons,
  wlen St w -> NoDup (owns act) -> Forall (cafter w) act ->
  exists w' cons' act', kill_over_limit C w cons act = Ok (w', cons', act') /\ Forall (csettled w') act'.
Proof.
  induction act as [|c t IH]; intros w cons L N F; cbn [kill_over_limit].
  - eexists _, _, _. split; [reflexivity|constructor].
  - inversion F as [|? ? Fc Ft]; subst. rewrite owns_cons in N.
    assert (X : exists w1 cons1 c1,
               (if Qltb (c_ram c) (c_mem c) then ckill C w cons c else Ok (w, cons, c)) = Ok (w1, cons1, c1) /\
               csettled w1 c1 /\ xsteps St w w1 /\
               (forall o, ~ In o (own c) -> st_of w1 o = st_of w o) /\ msub (own c1) (own c)).
    { destruct (Qltb (c_ram c) (c_mem c)) eqn:Q.
      - destruct Fc as [(_ & _ & Fq & _)|[K _]]; [congruence|].
        destruct (ckill_ckillable w cons c L K) as (w1 & cons1 & c1 & E1 & Fin).
        destruct (ckill_own _ _ _ _ _ _ _ E1) as [St1 Ow].
        exists w1, cons1, c1. split; [exact E1|]. split; [left; exact Fin|].
        split; [eapply ckill_xsteps; eauto|]. split; [apply (Step_frame _ _ _ _ St1)|].
        rewrite Ow. apply msub_nil.
      - exists w, cons, c. split; [reflexivity|]. split.
        + destruct Fc as [Fin|[_ Rn]]; [left; exact Fin|right; apply Rn; exact Q].
        + split; [constructor|]. split; [reflexivity|apply msub_refl]. }
    destruct X as (w1 & cons1 & c1 & E1 & A1 & X1 & F1 & Ms1).
    pose proof (wlen_xsteps _ _ X1 L) as L1.
    assert (Ft1 : Forall (cafter w1) t).
    { rewrite Forall_forall in *. intros x Hx. eapply cafter_stable; [exact X1| |apply Ft, Hx].
      intros o Ho. apply F1. intros Hin. eapply NoDup_app_disj; [exact N|exact Hin|].
      eapply own_in_owns; eauto. }
    destruct (IH w1 cons1 L1 (NoDup_app_r _ _ N) Ft1) as (w2 & cons2 & t2 & E2 & A2).
    rewrite E1. cbn [bind]. rewrite E2. cbn [bind]. eexists _, _, _. split; [reflexivity|].
    constructor; [|exact A2].
    pose proof (Step_frame _ _ _ _ (kill_over_limit_own _ _ _ _ _ _ _ E2)) as F2.
    eapply csettled_stable; [eapply kill_over_limit_xsteps; exact E2| |exact A1].
    intros o Ho. apply F2. intros Hin.
    assert (Ho' : In o (own c)) by (eapply msub_In; eauto).
    eapply NoDup_app_disj; eauto.
Qed.

(* ---- phase 5, step 2 ---- *)
Lemma kill_until_fits_tot mx : forall order act w cons,
  wlen St w -> NoDup (owns act) -> NoDup (map c_id act) ->
  Forall (csettled w) act -> NoDup order ->
  (forall cid, In cid order -> exists c, In c act /\ c_id c = cid /\ c_completed c = false) ->
  exists w' cons' act', kill_until_fits C mx w cons act order = Ok (w', cons', act') /\
                        Forall (csettled w') act'.
Proof.
  induction order as [|cid t IH]; intros act w cons L N Ni F No Hv; cbn [kill_until_fits].
  - eexists _, _, _. split; [reflexivity|exact F].
  - destruct (Qleb cons mx); [eexists _, _, _; split; [reflexivity|exact F]|].
    destruct (Hv cid (or_introl eq_refl)) as (c & Hc & Hid & Hnc).
    assert (Fc : find_container cid act = Some c) by (rewrite <- Hid; apply find_container_in; assumption).
    rewrite Fc. rewrite Forall_forall in F.
    assert (Rn : crun w c).
    { destruct (F c Hc) as [(X & _)|X]; [congruence|exact X]. }
    pose proof (crun_killable _ _ Rn) as K.
    destruct (ckill_ckillable w cons c L K) as (w1 & cons1 & c1 & E1 & Fin).
    pose proof (ckill_xsteps _ _ _ _ _ _ _ E1) as X1.
    destruct (ckill_own _ _ _ _ _ _ _ E1) as [St1 _].
    pose proof (ckill_ok _ _ _ _ _ _ _ E1) as (_ & Ed & _ & _). subst c1.
    rewrite E1. cbn [bind]. rewrite (replace_container_spec cid c act Ni Fc).
    apply NoDup_cons_iff in No. destruct No as [Ncid Nt].
    apply IH.
    + eapply wlen_xsteps; eauto.
    + eapply msub_NoDup; [apply owns_kill_when_msub|exact N].
    + unfold kill_if. rewrite map_kill_when_ids. exact Ni.
    + apply Forall_forall. intros y Hy. apply in_map_iff in Hy. destruct Hy as [x [<- Hx]].
      destruct (Nat.eq_dec (c_id x) cid) as [E|Ne].
      * assert (x = c) by (eapply NoDup_ids_inj; eauto; congruence). subst x.
        rewrite kill_if_hit by (left; symmetry; exact E). left. exact Fin.
      * rewrite kill_if_miss by (intros [X|[]]; congruence).
        eapply csettled_stable; [exact X1| |apply F, Hx].
        intros o Ho. apply (Step_frame _ _ _ _ St1).
        eapply owns_disjoint; eauto. intros ->. congruence.
    + exact Nt.
    + intros cid' Hcid'. destruct (Hv cid' (or_intror Hcid')) as (c' & Hc' & Hid' & Hnc').
      exists c'. split; [|auto]. apply in_map_iff. exists c'. split; [|exact Hc'].
      apply kill_if_miss. intros [X|[]]. apply Ncid. congruence.
Qed.

Lemma oom_killer_tot mx w cons act :
  wlen St w -> NoDup (owns act) -> NoDup (map c_id act) -> Forall (cafter w) act ->
  exists w' cons' act', oom_killer C mx w cons act = Ok (w', cons', act') /\ Forall (csettled w') act'.
Proof.
  intros L N Ni F. unfold oom_killer.
  destruct (kill_over_limit_tot act w cons L N F) as (w1 & cons1 & act1 & E1 & A1).
  rewrite E1. cbn [bind]. destruct (Qleb cons1 mx); [eexists _, _, _; split; [reflexivity|exact A1]|].
  destruct (kill_over_limit_own _ _ _ _ _ _ _ E1) as (Ms & _).
  pose proof (kill_over_limit_spec _ _ _ _ _ _ _ E1) as (Ea & _ & _).
  apply kill_until_fits_tot.
  - eapply wlen_xsteps; [eapply kill_over_limit_xsteps; eauto|exact L].
  - eapply msub_NoDup; eauto.
  - rewrite Ea, map_kill_when_ids. exact Ni.
  - exact A1.
  - apply victims_order_NoDup. rewrite Ea, map_kill_when_ids. exact Ni.
  - intros cid Hcid. apply victims_order_not_completed in Hcid.
    destruct Hcid as (c & H1 & H2 & H3 & _). exists c. auto.
Qed.

(* ---- the remaining lists only shrink (no hypotheses) ---- *)
Definition rems (l : list container) : list nat := flat_map rem l.

Lemma rems_cons c l : rems (c :: l) = rem c ++ rems l.
Proof. reflexivity. Qed.
Lemma rems_app a b : rems (a ++ b) = rems a ++ rems b.
Proof. unfold rems. apply flat_map_app. Qed.

Lemma msub_skipn_S n (l : list nat) : msub (skipn (S n) l) (skipn n l).
Proof.
  intros x. destruct (skipn n l) as [|h t] eqn:E.
  - assert (X : skipn (S n) l = []).
    { apply skipn_all2. destruct (Nat.lt_ge_cases n (length l)) as [Lt|Ge]; [|lia].
      exfalso. apply (skipn_lt_nonnil l n Lt). exact E. }
    rewrite X. cbn. lia.
  - rewrite (skipn_cons_S _ _ _ _ E). change (h :: t) with ([h] ++ t). rewrite cnt_app. lia.
Qed.

Lemma ctick_rem w cons c w' cons' c' :
  ctick C w cons c = Ok (w', cons', c') -> msub (rem c') (rem c).
Proof.
  unfold ctick. intros H.
  destruct (c_completed c); [inversion H; subst; apply msub_refl|].
  destruct (c_frozen c); [inversion H; subst; apply msub_refl|].
  destruct (nth_error (c_ops c) (c_opidx c)) as [op|]; [|discriminate].
  apply bind_ok_inv in H. destruct H as [[w1 rest] [_ H]].
  destruct rest as [|m rest']; [discriminate|].
  unfold set_mem in H. cbv beta iota zeta in H.
  destruct (Qltb (c_ram c) m); [inversion H; subst; apply msub_refl|].
  destruct rest' as [|m' r'']; [|inversion H; subst; apply msub_refl].
  apply bind_ok_inv in H. destruct H as [w2 [_ H]].
  destruct (Nat.eqb (S (c_opidx c)) (length (c_ops c))).
  - unfold mark_completed, set_mem in H. cbv beta iota zeta in H. inversion H; subst.
    unfold rem. cproj. apply msub_skipn_S.
  - inversion H; subst. unfold rem. cproj. apply msub_skipn_S.
Qed.

Lemma tick_active_rems : forall act w cons w' cons' act',
  tick_active C w cons act = Ok (w', cons', act') -> msub (rems act') (rems act).
Proof.
  induction act as [|c t IH]; intros w cons w' cons' act' H; cbn [tick_active] in H.
  - inversion H; subst. apply msub_refl.
  - apply bind_ok_inv in H. destruct H as [[[w1 cons1] c1] [E1 H]].
    apply bind_ok_inv in H. destruct H as [[[w2 cons2] t2] [E2 H]]. inversion H; subst.
    rewrite !rems_cons. pose proof (ctick_rem _ _ _ _ _ _ E1) as M1. pose proof (IH _ _ _ _ _ E2) as M2.
    msub_tac.
Qed.

Lemma rem_kill_when f c : rem (kill_when f c) = rem c.
Proof. unfold kill_when. destruct (f c); reflexivity. Qed.

Lemma rems_kill_when f l : rems (map (kill_when f) l) = rems l.
Proof. induction l as [|c t IH]; [reflexivity|]. cbn [map]. rewrite !rems_cons, IH, rem_kill_when. reflexivity. Qed.

Lemma oom_killer_rems mx w cons act w' cons' act' :
  NoDup (map c_id act) -> oom_killer C mx w cons act = Ok (w', cons', act') -> rems act' = rems act.
Proof.
  intros N H. apply (oom_killer_spec _ _ _ _ _ _ _ _ N) in H.
  destruct H as (w1 & cons1 & act1 & k & vs & _ & E1 & _ & _ & E2 & _).
  rewrite E2, E1. unfold kill_if. rewrite !rems_kill_when. reflexivity.
Qed.

Lemma rems_owns l : Forall (fun c => c_completed c = false) l -> rems l = owns l.
Proof.
  induction 1 as [|c t Hc _ IH]; [reflexivity|]. rewrite rems_cons, owns_cons, IH, (own_rem c Hc). reflexivity.
Qed.

Lemma rems_news : forall asgs next, rems (news next asgs) = aops asgs.
Proof. induction asgs as [|a t IH]; intros next; [reflexivity|]. cbn [news]. rewrite rems_cons, IH. reflexivity. Qed.

(* ---- assignments, results, one pool ---- *)
Definition aready (w : world) (a : asg) : Prop :=
  args_ok a /\ NoDup (a_ops a) /\
  (forall o, In o (a_ops a) -> o < length (s_ops St) /\ st_of w o = Assigned) /\ deps w [] (a_ops a).

Definition rrun (w : world) (r : result) : Prop :=
  r_err r = true -> exists n,
    (forall x, In x (firstn n (r_ops r)) -> st_of w x = Completed) /\
    (forall x, In x (skipn n (r_ops r)) -> x < length (s_ops St) /\ st_of w x = Failed) /\
    skipn n (r_ops r) <> [] /\ NoDup (skipn n (r_ops r)) /\ deps w [] (skipn n (r_ops r)).

(* the operators a failed result hands back *)
Definition frem (w : world) (r : result) : list nat :=
  if r_err r then not_completed_ops w (r_ops r) else [].

Lemma nc_split w ops n :
  (forall x, In x (firstn n ops) -> st_of w x = Completed) ->
  (forall x, In x (skipn n ops) -> st_of w x = Failed) ->
  not_completed_ops w ops = skipn n ops.
Proof.
  intros A B. unfold not_completed_ops. rewrite <- (firstn_skipn n ops) at 1. rewrite filter_app'.
  rewrite filter_none, PriorityPoolFacts.filter_all; [reflexivity| |].
  - intros x Hx. rewrite (B x Hx). reflexivity.
  - intros x Hx. rewrite (A x Hx). reflexivity.
Qed.

Lemma rrun_stable w w' r : xsteps St w w' -> rrun w r -> rrun w' r.
Proof.
  intros X R E. destruct (R E) as (n & A & B & D & N & P). exists n.
  split; [intros x Hx; eapply xsteps_completed; eauto|]. split.
  - intros x Hx. destruct (B x Hx) as [B1 B2]. split; [exact B1|eapply xsteps_failed; eauto].
  - split; [exact D|]. split; [exact N|]. eapply deps_mono; [apply xsteps_cmono; exact X|exact P].
Qed.

Lemma frem_stable w w' r : xsteps St w w' -> rrun w r -> frem w' r = frem w r.
Proof.
  intros X R. unfold frem. destruct (r_err r) eqn:E; [|reflexivity].
  destruct (R E) as (n & A & B & _).
  rewrite (nc_split w _ n A (fun x Hx => proj2 (B x Hx))).
  apply nc_split.
  - intros x Hx. eapply xsteps_completed; eauto.
  - intros x Hx. eapply xsteps_failed; [exact X|]. apply (B x Hx).
Qed.

Lemma news_crun w : forall asgs next, Forall (aready w) asgs -> Forall (crun w) (news next asgs).
Proof.
  induction asgs as [|a t IH]; intros next F; [constructor|]. inversion F as [|? ? Fa Ft]; subst.
  cbn [news]. constructor; [|apply IH; exact Ft].
  destruct Fa as (Ao & Nd & Ra & Dp). apply args_ok_pos in Ao. destruct Ao as (A1 & A2 & A3).
  destruct (a_ops a) as [|o t'] eqn:Eo; [congruence|].
  unfold crun, cbase, rem, cpos, new_container. cproj. cbn [skipn firstn].
  split; [|split; [reflexivity|split; [reflexivity|]]].
  - split; [reflexivity|]. split; [auto|]. split; [intros x Hx; apply Ra; exact Hx|].
    split; [exact Nd|]. split; [intros x []|exact Dp].
  - exists o, t'. split; [reflexivity|]. split.
    + intros x Hx. apply Ra. right. exact Hx.
    + apply Ra. left. reflexivity.
Qed.

Definition pool_cinv (w : world) (next : nat) (p : pool) : Prop :=
  p_suspending p = [] /\ Forall (crun w) (p_active p) /\ ids_ok next p.

Lemma crun_ncompl w l : Forall (crun w) l -> Forall (fun c => c_completed c = false) l.
Proof. apply Forall_impl. intros c R. apply R. Qed.

Lemma pool_cinv_live w next p : pool_cinv w next p -> pool_live p.
Proof.
  intros (Hs & Fa & _). split; [|rewrite Hs; constructor].
  eapply Forall_impl; [|exact Fa]. intros c R. apply R.
Qed.

Lemma pool_tick_tot w next p asgs :
  wlen St w -> pool_cinv w next p -> Forall (aready w) asgs ->
  NoDup (pown p ++ aops asgs) ->
  (asgs = [] \/ verify_assignments C p asgs = Ok tt) ->
  (forall a, In a asgs -> opcount_ok C a = true) ->
  exists w' next' p' res,
    pool_tick C w next p [] asgs = Ok (w', next', p', res) /\ pool_cinv w' next' p' /\
    Forall (rrun w') res /\ msub (flat_map (frem w') res) (pown p ++ aops asgs).
Proof.
  intros L (Hs & Fa & Hi) Fr N V O.
  set (act2 := p_active p ++ news next asgs).
  destruct (apply_assignments_ok C asgs next (p_avail_cpu p) (p_avail_ram p) (p_active p) O)
    as (acpu2 & aram2 & Ea).
  assert (E2 : exists next2 acpu2' aram2',
             match asgs with
             | [] => Ok (next, p_avail_cpu p, p_avail_ram p, p_active p)
             | _ => do _ <- verify_assignments C p asgs;
                    apply_assignments C next (p_avail_cpu p) (p_avail_ram p) (p_active p) asgs
             end = Ok (next2, acpu2', aram2', act2)).
  { destruct asgs as [|a0 t].
    - unfold act2. cbn [news]. rewrite app_nil_r. eauto.
    - destruct V as [V|V]; [discriminate|]. rewrite V. cbn [bind]. rewrite Ea. eauto. }
  destruct E2 as (next2 & acpu2' & aram2' & E2).
  assert (F2 : Forall (crun w) act2).
  { unfold act2. apply Forall_app. split; [exact Fa|apply news_crun; exact Fr]. }
  assert (Ro : rems act2 = pown p ++ aops asgs).
  { unfold act2, pown. rewrite rems_app, rems_news, (rems_owns _ (crun_ncompl _ _ Fa)), Hs.
    cbn [owns flat_map]. rewrite app_nil_r. reflexivity. }
  assert (N2 : NoDup (owns act2)).
  { rewrite <- (rems_owns _ (crun_ncompl _ _ F2)), Ro. exact N. }
  assert (I2 : NoDup (map c_id act2)).
  { unfold act2. rewrite map_app, news_ids. destruct Hi as [Nl Bl]. unfold live in Nl, Bl.
    rewrite Hs, app_nil_r in Nl, Bl. apply ConserveFacts.NoDup_app_intro; [exact Nl|apply seq_NoDup|].
    intros x Hx Hq. apply in_seq in Hq. apply in_map_iff in Hx. destruct Hx as [c [<- Hc]].
    specialize (Bl c Hc). lia. }
  destruct (tick_active_tot act2 w (p_consumed p) L N2 F2) as (w4 & cons4 & act4 & E4 & A4).
  pose proof (tick_active_xsteps _ _ _ _ _ _ _ E4) as X4.
  pose proof (wlen_xsteps _ _ X4 L) as L4.
  assert (N4 : NoDup (owns act4)).
  { destruct (tick_active_own _ _ _ _ _ _ _ E4) as (Ms & _). eapply msub_NoDup; eauto. }
  assert (I4 : NoDup (map c_id act4)).
  { rewrite ids_keys, (tick_active_keys _ _ _ _ _ _ _ E4), <- ids_keys. exact I2. }
  destruct (oom_killer_tot (p_max_ram p) w4 cons4 act4 L4 N4 I4 A4) as (w5 & cons5 & act5 & E5 & A5).
  assert (E : exists p' res,
            pool_tick C w next p [] asgs = Ok (w5, next2, p', res) /\
            p_suspending p' = [] /\ p_active p' = filter (fun c => negb (c_completed c)) act5 /\
            res = map (result_of (p_id p)) (filter c_completed act5)).
  { eexists _, _. split.
    - unfold pool_tick. eapply bind_ok; [reflexivity|]. cbv beta iota.
      eapply bind_ok; [exact E2|]. cbv beta iota.
      eapply bind_ok; [rewrite Hs; reflexivity|]. cbv beta iota zeta.
      eapply bind_ok; [exact E4|]. cbv beta iota.
      eapply bind_ok; [exact E5|]. cbv beta iota. reflexivity.
    - cbn [upd_pool p_suspending p_active filter]. repeat split; reflexivity. }
  destruct E as (p' & res & E & Hs' & Ha' & Er).
  exists w5, next2, p', res. split; [exact E|]. split; [|split].
  - split; [exact Hs'|]. split.
    + rewrite Ha'. apply Forall_forall. intros x Hx. apply filter_In in Hx. destruct Hx as [Hx Hc].
      rewrite Forall_forall in A5. destruct (A5 x Hx) as [(X & _)|X]; [rewrite X in Hc; discriminate|exact X].
    + apply (pool_tick_ids _ _ _ _ _ _ _ _ _ _ E Hi).
  - rewrite Er. apply Forall_forall. intros r Hr. apply in_map_iff in Hr. destruct Hr as [c [<- Hc]].
    apply filter_In in Hc. destruct Hc as [Hc Cc]. rewrite Forall_forall in A5.
    destruct (A5 c Hc) as [(_ & _ & _ & Fe)|Rn]; [|destruct Rn as ((X & _) & _); congruence].
    intros Ee. cbn [result_of r_err r_ops] in *. destruct (Fe Ee) as (G1 & G2 & G3 & G4 & G5).
    exists (c_opidx c). fold (rem c). auto.
  - (* the operators handed back were owned at the start of the tick *)
    assert (M5 : msub (rems act5) (rems act2)).
    { rewrite (oom_killer_rems _ _ _ _ _ _ _ I4 E5). eapply tick_active_rems; eauto. }
    rewrite <- Ro. eapply msub_trans; [|exact M5].
    rewrite Er. clear - A5. induction act5 as [|c t IH]; [apply msub_refl|].
    inversion A5 as [|? ? Ac At]; subst. specialize (IH At). cbn [filter]. rewrite rems_cons.
    destruct (c_completed c) eqn:Cc; [|msub_tac].
    cbn [map flat_map]. unfold frem at 1. cbn [result_of r_err r_ops].
    destruct (c_error c) eqn:Ee; [|msub_tac].
    destruct Ac as [(_ & _ & _ & Fe)|Rn]; [|destruct Rn as ((X & _) & _); congruence].
    destruct (Fe Ee) as (G1 & G2 & _).
    rewrite (nc_split w5 _ (c_opidx c) G1 (fun x Hx => proj2 (G2 x Hx))). fold (rem c). msub_tac.
Qed.

(* ---- all pools ---- *)
Lemma aready_stable w w' a :
  cmono w w' -> (forall o, In o (a_ops a) -> st_of w' o = st_of w o) -> aready w a -> aready w' a.
Proof.
  intros M F (Ao & Nd & Ra & Dp). split; [exact Ao|]. split; [exact Nd|]. split.
  - intros o Ho. destruct (Ra o Ho) as [R1 R2]. split; [exact R1|]. rewrite (F o Ho). exact R2.
  - eapply deps_mono; eauto.
Qed.

Lemma pool_cinv_stable w next w' next' q :
  cmono w w' -> next <= next' -> (forall o, In o (pown q) -> st_of w' o = st_of w o) ->
  pool_cinv w next q -> pool_cinv w' next' q.
Proof.
  intros M Ln F (Hs & Fa & Hi). split; [exact Hs|]. split; [|eapply ids_ok_mono; eauto].
  rewrite Forall_forall in *. intros c Hc. eapply crun_stable; [exact M| |apply Fa, Hc].
  intros o Ho. apply F. unfold pown. apply in_or_app. left.
  assert (Cc : c_completed c = false) by apply (Fa c Hc). rewrite <- (own_rem c Cc) in Ho.
  eapply own_in_owns; eauto.
Qed.

Lemma flat_map_frem_stable w w' : xsteps St w w' -> forall res,
  Forall (rrun w) res -> flat_map (frem w') res = flat_map (frem w) res.
Proof.
  intros X. induction 1 as [|r t Hr _ IH]; [reflexivity|]. cbn [flat_map].
  rewrite IH, (frem_stable w w' r X Hr). reflexivity.
Qed.

Lemma pools_tick_tot asgs : forall ps w next,
  wlen St w -> Forall (pool_cinv w next) ps ->
  Forall (aready w) (rel asgs ps) ->
  NoDup (flat_map pown ps ++ aops (rel asgs ps)) ->
  (forall p, In p ps -> mine_of p asgs = [] \/ verify_assignments C p (mine_of p asgs) = Ok tt) ->
  (forall a, In a asgs -> opcount_ok C a = true) ->
  exists w' next' ps' res,
    pools_tick C w next ps [] asgs = Ok (w', next', ps', res) /\
    Forall (pool_cinv w' next') ps' /\ next <= next' /\
    Forall (rrun w') res /\ msub (flat_map (frem w') res) (flat_map pown ps ++ aops (rel asgs ps)).
Proof.
  induction ps as [|p t IH]; intros w next L F Fr N V O.
  - cbn [pools_tick]. eexists _, _, _, _. split; [reflexivity|]. split; [constructor|]. split; [lia|].
    split; [constructor|apply msub_refl].
  - inversion F as [|? ? Fp Ft]; subst. unfold rel in Fr, N. cbn [flat_map] in Fr, N. fold (rel asgs t) in Fr, N.
    apply Forall_app in Fr. destruct Fr as [Frp Frt]. rewrite aops_app in N.
    assert (N' : NoDup ((pown p ++ aops (mine_of p asgs)) ++ (flat_map pown t ++ aops (rel asgs t)))).
    { eapply Permutation_NoDup; [|exact N]. rewrite <- !app_assoc. apply Permutation_app_head.
      rewrite !app_assoc. apply Permutation_app_tail. apply Permutation_app_comm. }
    destruct (pool_tick_tot w next p (mine_of p asgs) L Fp Frp (NoDup_app_l _ _ N')
                (V p (or_introl eq_refl))) as (w1 & next1 & p1 & res1 & E1 & PI1 & RR1 & MS1).
    { intros a Ha. apply filter_In in Ha. apply O. tauto. }
    destruct (pool_tick_own _ _ _ _ _ _ _ _ _ _ E1 (pool_cinv_live _ _ _ Fp)) as [St1 [Lv1 _]].
    pose proof (pool_tick_xsteps _ _ _ _ _ _ _ _ _ _ E1) as X1.
    pose proof (xsteps_cmono _ _ X1) as M1. pose proof (wlen_xsteps _ _ X1 L) as L1.
    destruct Fp as (Hsp & Fap & Hip).
    destruct (pool_tick_ids _ _ _ _ _ _ _ _ _ _ E1 Hip) as (_ & Hn1 & _).
    assert (Ln1 : next <= next1) by lia.
    assert (F1 : forall o, In o (flat_map pown t ++ aops (rel asgs t)) -> st_of w1 o = st_of w o).
    { intros o Ho. apply (Step_frame _ _ _ _ St1). intros Hin. eapply NoDup_app_disj; eauto. }
    assert (Ft1 : Forall (pool_cinv w1 next1) t).
    { rewrite Forall_forall in *. intros q Hq. eapply pool_cinv_stable; [exact M1|exact Ln1| |apply Ft, Hq].
      intros o Ho. apply F1. apply in_or_app. left. apply in_flat_map. exists q. auto. }
    assert (Frt1 : Forall (aready w1) (rel asgs t)).
    { rewrite Forall_forall in *. intros a Ha. eapply aready_stable; [exact M1| |apply Frt, Ha].
      intros o Ho. apply F1. apply in_or_app. right. unfold aops. apply in_flat_map. exists a. auto. }
    destruct (IH w1 next1 L1 Ft1 Frt1 (NoDup_app_r _ _ N')) as (w2 & next2 & t2 & res2 & E2 & PI2 & Ln2 & RR2 & MS2).
    { intros q Hq. apply V. right. exact Hq. }
    { exact O. }
    pose proof (pools_tick_xsteps _ _ _ _ _ _ _ _ _ _ E2) as X2.
    cbn [pools_tick]. cbv zeta. cbn [filter]. unfold mine_of in E1. rewrite E1. cbn [bind].
    rewrite E2. cbn [bind]. eexists _, _, _, _. split; [reflexivity|].
    split; [|split; [lia|split]].
    + constructor; [|exact PI2].
      assert (Lt1 : Forall pool_live t).
      { eapply Forall_impl; [|exact Ft1]. intros q. apply pool_cinv_live. }
      destruct (pools_tick_own _ _ _ _ _ _ _ _ _ _ E2 Lt1) as [St2 _].
      eapply pool_cinv_stable; [apply xsteps_cmono; exact X2|exact Ln2| |exact PI1].
      intros o Ho. apply (Step_frame _ _ _ _ St2). intros Hin. apply in_step_source in Hin.
      destruct St1 as (Ms1 & _). eapply NoDup_app_disj; [exact N'| |exact Hin].
      eapply msub_In; eauto.
    + apply Forall_app. split; [|exact RR2].
      eapply Forall_impl; [|exact RR1]. intros r. apply rrun_stable. exact X2.
    + rewrite flat_map_app, (flat_map_frem_stable w1 w2 X2 res1 RR1).
      unfold rel. cbn [flat_map]. fold (rel asgs t). rewrite aops_app.
      fold (mine_of p asgs) in MS1. msub_tac.
Qed.

(* ------------------------------------------------------------------------------------------ *)
(* D2. the scheduler side                                                                       *)
(* ------------------------------------------------------------------------------------------ *)

(* the operators of a queued job: distinct, known, assignable, in an order that respects the DAG *)
Definition jrun (w : world) (ops : list nat) : Prop :=
  NoDup ops /\ (forall o, In o ops -> o < length (s_ops St) /\ assignable (st_of w o) = true) /\
  deps w [] ops.

Lemma jrun_stable w w' ops :
  cmono w w' -> (forall o, In o ops -> st_of w' o = st_of w o) -> jrun w ops -> jrun w' ops.
Proof.
  intros M F (N & A & D). split; [exact N|]. split; [|eapply deps_mono; eauto].
  intros o Ho. destruct (A o Ho) as [A1 A2]. split; [exact A1|]. rewrite (F o Ho). exact A2.
Qed.

Definition fm (l : list job) : list nat := flat_map j_ops l.

Lemma fm_app a b : fm (a ++ b) = fm a ++ fm b.
Proof. unfold fm. apply flat_map_app. Qed.

Lemma fm_In o l : In o (fm l) <-> exists j, In j l /\ In o (j_ops j).
Proof. unfold fm. apply in_flat_map. Qed.

Lemma fm_split n l : fm l = fm (firstn n l) ++ fm (skipn n l).
Proof. rewrite <- fm_app, firstn_skipn. reflexivity. Qed.

Lemma pp_asg_args_ok pid x j :
  xgood x -> pp_dead x = false -> jgood j ->
  args_ok (mk_asg j pid (fst (pp_size C x j)) (snd (pp_size C x j))).
Proof.
  intros (_ & Nc & Nr) D Fj. apply pp_dead_false in D. destruct D as [D1 D2].
  assert (Pc : (0 < ps_acpu x)%Z) by lia.
  assert (Pr : (0 < ps_aram x)%Q).
  { apply Qle_lteq in Nr. destruct Nr as [Lt|Eq]; [exact Lt|]. exfalso. apply D1. symmetry. exact Eq. }
  destruct (pp_size_pos C x j Pc Pr Fj) as [Sc Sr].
  unfold args_ok, mk_asg. cbn [a_ops a_cpu a_ram]. destruct Fj as [Fo _]. split; [|split].
  - destruct (j_ops j); [congruence|reflexivity].
  - apply Z.leb_gt. exact Sc.
  - apply Qleb_false. exact Sr.
Qed.

Lemma xgood_take x j : xgood x -> xgood (ps_take x (fst (pp_size C x j)) (snd (pp_size C x j))).
Proof.
  intros (_ & Nc & Nr). destruct (pp_size_fits C x j) as [F1 F2]. split; [apply both_or_none_take|].
  rewrite ps_take_acpu, ps_take_aram. split; [lia|lra].
Qed.

Lemma xgood_dead_both x : xgood x -> pp_dead x = true -> pp_both x = true.
Proof.
  intros (B & _) D. unfold pp_dead in D. unfold pp_both. unfold both_or_none in B.
  destruct (Qeqb (ps_aram x) 0) eqn:E1; destruct (ps_acpu x =? 0)%Z eqn:E2; cbn in *; try reflexivity;
    try discriminate.
  - apply Qeqb_true in E1. apply Z.eqb_neq in E2. tauto.
  - apply Qeqb_false in E1. apply Z.eqb_eq in E2. tauto.
Qed.

(* one scan never raises *)
Lemma pp_scan_tot pid : forall queue w x oom,
  xgood x -> Forall jgood queue -> Forall (fun j => jrun w (j_ops j)) queue -> NoDup (fm queue) ->
  exists r, pp_scan C w pid x queue oom = Ok r.
Proof.
  induction queue as [|j rest IH]; intros w x oom X Fg Fr N; [eexists; reflexivity|].
  inversion Fg as [|? ? Gj Gr]; subst. inversion Fr as [|? ? Rj Rr]; subst.
  rewrite pp_scan_cons. destruct (pp_dead x) eqn:D.
  - rewrite (xgood_dead_both x X D). eexists; reflexivity.
  - cbn [fm flat_map] in N. fold (fm rest) in N.
    destruct (pp_drop C x j).
    + destruct (IH w x (oom + 1)%Z X Gr Rr (NoDup_app_r _ _ N)) as [[[[[n0 x0] w0] a0] o0] E].
      rewrite E. eexists; reflexivity.
    + cbv zeta. set (a := mk_asg j pid (fst (pp_size C x j)) (snd (pp_size C x j))).
      pose proof (pp_asg_args_ok pid x j X D Gj) as Ao. fold a in Ao.
      rewrite (mk_assignment_args_ok C w a Ao).
      destruct Rj as (Nj & Aj & Dj).
      destruct (get_ops_assignable_ok (cf_static C) (j_ops j) w Nj (fun o Ho => proj2 (Aj o Ho))) as [w1 T].
      change (a_ops a) with (j_ops j). rewrite T. cbn [bind].
      assert (Rr1 : Forall (fun j0 => jrun w1 (j_ops j0)) rest).
      { rewrite Forall_forall in *. intros j0 Hj0. eapply jrun_stable; [| |apply Rr, Hj0].
        - apply steps_cmono. apply asteps_steps. eapply transition_all_asteps; eauto.
        - intros o Ho. eapply transition_all_frame; [exact T|]. intros Hin.
          eapply NoDup_app_disj; [exact N|exact Hin|]. apply fm_In. exists j0. auto. }
      destruct (IH w1 (ps_take x (a_cpu a) (a_ram a)) oom (xgood_take x j X) Gr Rr1 (NoDup_app_r _ _ N))
        as [[[[[n0 x0] w0] a0] o0] E].
      rewrite E. eexists; reflexivity.
Qed.

(* what a scan does to the operator states *)
Lemma pp_rel_frame pid w x queue oom n x' w' asgs oom' :
  pp_rel C pid w x queue oom n x' w' asgs oom' ->
  asteps St w w' /\ (forall o, ~ In o (fm (firstn n queue)) -> st_of w' o = st_of w o).
Proof.
  induction 1 as [w x oom|w x j rest oom H1 H2|w x j rest oom n x' w' asgs oom' H1 H2 Dr _ IH
                 |w x j rest oom a w1 n x' w' asgs oom' H1 H2 Dr Ea M _ IH].
  - split; [constructor|reflexivity].
  - split; [constructor|reflexivity].
  - destruct IH as [A F]. split; [exact A|]. intros o Ho. apply F. intros Hin. apply Ho.
    cbn [firstn fm flat_map]. apply in_or_app. right. exact Hin.
  - destruct IH as [A F]. pose proof (mk_assignment_asteps _ _ _ _ M) as A1.
    apply mk_assignment_transition_all in M. destruct M as [_ T].
    split; [eapply asteps_trans; eauto|]. intros o Ho. cbn [firstn fm flat_map] in Ho.
    rewrite F by (intros Hin; apply Ho; apply in_or_app; right; exact Hin).
    eapply transition_all_frame; [exact T|]. intros Hin. apply Ho. apply in_or_app. left.
    rewrite Ea in Hin. exact Hin.
Qed.

Lemma pp_rel_assigned pid w x queue oom n x' w' asgs oom' :
  pp_rel C pid w x queue oom n x' w' asgs oom' -> wlen St w ->
  (forall o, In o (fm (firstn n queue)) -> o < length (s_ops St)) ->
  forall a o, In a asgs -> In o (a_ops a) -> st_of w' o = Assigned.
Proof.
  induction 1 as [w x oom|w x j rest oom H1 H2|w x j rest oom n x' w' asgs oom' H1 H2 Dr _ IH
                 |w x j rest oom a w1 n x' w' asgs oom' H1 H2 Dr Ea M R IH]; intros L Rg b o Hb Ho.
  - destruct Hb.
  - destruct Hb.
  - apply (IH L) with (a := b); auto. intros o' Ho'. apply Rg. cbn [firstn fm flat_map]. apply in_or_app. right. exact Ho'.
  - pose proof (mk_assignment_asteps _ _ _ _ M) as A1.
    assert (L1 : wlen St w1) by (unfold wlen in *; rewrite (asteps_length _ _ _ A1); exact L).
    assert (Rg' : forall o', In o' (fm (firstn n rest)) -> o' < length (s_ops St)).
    { intros o' Ho'. apply Rg. cbn [firstn fm flat_map]. apply in_or_app. right. exact Ho'. }
    destruct Hb as [<-|Hb]; [|apply (IH L1 Rg' b o Hb Ho)].
    apply mk_assignment_transition_all in M. destruct M as [_ T].
    assert (S1 : st_of w1 o = Assigned).
    { eapply transition_all_set; [exact T|exact Ho|]. unfold wlen in L. rewrite L. apply Rg.
      cbn [firstn fm flat_map]. apply in_or_app. left. rewrite Ea in Ho. exact Ho. }
    destruct (pp_rel_frame _ _ _ _ _ _ _ _ _ _ R) as [A2 _].
    destruct (asteps_st _ _ _ o A2) as [E|[As _]]; [rewrite E; exact S1|].
    rewrite S1 in As. discriminate.
Qed.

(* the operators assigned and those left in the queue are, together, at most those of the queue *)
Lemma pp_rel_msub pid w x queue oom n x' w' asgs oom' :
  pp_rel C pid w x queue oom n x' w' asgs oom' ->
  msub (aops asgs) (fm (firstn n queue)).
Proof.
  induction 1 as [w x oom|w x j rest oom H1 H2|w x j rest oom n x' w' asgs oom' H1 H2 Dr _ IH
                 |w x j rest oom a w1 n x' w' asgs oom' H1 H2 Dr Ea M _ IH].
  - apply msub_refl.
  - apply msub_refl.
  - cbn [firstn fm flat_map]. fold (fm (firstn n rest)). msub_tac.
  - cbn [firstn fm flat_map aops]. fold (fm (firstn n rest)). fold (aops asgs). rewrite Ea.
    cbn [mk_asg a_ops]. msub_tac.
Qed.

Lemma NoDup_app_not_in (a b : list nat) x : NoDup (a ++ b) -> In x b -> ~ In x a.
Proof. intros N Hb Ha. eapply NoDup_app_disj; eauto. Qed.

Lemma in_fm_firstn o n l : In o (fm (firstn n l)) -> In o (fm l).
Proof. intros H. rewrite (fm_split n l). apply in_or_app. left. exact H. Qed.
Lemma in_fm_skipn o n l : In o (fm (skipn n l)) -> In o (fm l).
Proof. intros H. rewrite (fm_split n l). apply in_or_app. right. exact H. Qed.

Lemma queued_ops_fm s : queued_ops s = fm (ss_q s) ++ fm (ss_i s) ++ fm (ss_b s).
Proof. reflexivity. Qed.

(* the three scans never raise *)
Lemma pp_scans_tot e s4 :
  Forall pgood (e_pools e) -> sgood s4 -> wlen St (e_world e) ->
  (forall p j, In j (queue_of s4 p) -> jrun (e_world e) (j_ops j)) -> NoDup (queued_ops s4) ->
  exists r, pp_scans C e s4 = Ok r.
Proof.
  intros Pg Sg L Jr N. rewrite queued_ops_fm in N. unfold pp_scans. cbv zeta.
  pose proof (snapshot_xgood e 0 Pg) as X0. pose proof (snapshot_xgood e 1 Pg) as X1.
  assert (Fq : Forall jgood (ss_q s4)) by (apply Forall_forall; intros j Hj; apply (Sg Query j Hj)).
  assert (Fi : Forall jgood (ss_i s4)) by (apply Forall_forall; intros j Hj; apply (Sg Interactive j Hj)).
  assert (Fb : Forall jgood (ss_b s4)) by (apply Forall_forall; intros j Hj; apply (Sg Batch j Hj)).
  assert (Rq : Forall (fun j => jrun (e_world e) (j_ops j)) (ss_q s4))
    by (apply Forall_forall; intros j Hj; apply (Jr Query j Hj)).
  destruct (pp_scan_tot 0 (ss_q s4) (e_world e) _ (ss_oom s4) X0 Fq Rq (NoDup_app_l _ _ N))
    as [[[[[n1 x0a] w1] a1] o1] E1].
  rewrite E1. cbn [bind]. pose proof E1 as S1. apply pp_scan_rel in S1.
  destruct (pp_rel_frame _ _ _ _ _ _ _ _ _ _ S1) as [A1 F1].
  pose proof (pp_rel_xgood _ _ _ _ _ _ _ _ _ _ _ S1 X0) as X0a.
  assert (M1 : cmono (e_world e) w1) by (apply steps_cmono, asteps_steps; exact A1).
  assert (Ri : Forall (fun j => jrun w1 (j_ops j)) (ss_i s4)).
  { apply Forall_forall. intros j Hj. eapply jrun_stable; [exact M1| |apply (Jr Interactive j Hj)].
    intros o Ho. apply F1. intros Hin. apply in_fm_firstn in Hin.
    eapply NoDup_app_disj; [exact N|exact Hin|]. apply in_or_app. left. apply fm_In. exists j. auto. }
  destruct (pp_scan_tot 0 (ss_i s4) w1 x0a o1 X0a Fi Ri (NoDup_app_l _ _ (NoDup_app_r _ _ N)))
    as [[[[[n2 x0b] w2] a2] o2] E2].
  rewrite E2. cbn [bind]. pose proof E2 as S2. apply pp_scan_rel in S2.
  destruct (pp_rel_frame _ _ _ _ _ _ _ _ _ _ S2) as [A2 F2].
  assert (M2 : cmono w1 w2) by (apply steps_cmono, asteps_steps; exact A2).
  assert (Rb : Forall (fun j => jrun w2 (j_ops j)) (ss_b s4)).
  { apply Forall_forall. intros j Hj.
    assert (Hb : forall o, In o (j_ops j) -> In o (fm (ss_b s4))) by (intros o Ho; apply fm_In; exists j; auto).
    eapply jrun_stable; [exact M2| |eapply jrun_stable; [exact M1| |apply (Jr Batch j Hj)]].
    - intros o Ho. apply F2. intros Hin. apply in_fm_firstn in Hin.
      eapply NoDup_app_disj; [exact (NoDup_app_r _ _ N)|exact Hin|]. apply Hb, Ho.
    - intros o Ho. apply F1. intros Hin. apply in_fm_firstn in Hin.
      eapply NoDup_app_disj; [exact N|exact Hin|]. apply in_or_app. right. apply Hb, Ho. }
  destruct (pp_scan_tot 1 (ss_b s4) w2 _ o2 X1 Fb Rb (NoDup_app_r _ _ (NoDup_app_r _ _ N)))
    as [[[[[n3 x1a] w3] a3] o3] E3].
  rewrite E3. cbn [bind]. eexists; reflexivity.
Qed.

(* the queues when the scans start *)
Definition newfail (w : world) (results : list result) (newp : list nat) : list job :=
  map (new_job C) newp ++ map (fail_job C w) (filter r_err results).

Lemma pp_pre_nil s e results newp p :
  pp_pre C s e results newp [] p = queue_of s p ++ filter (is_class p) (newfail (e_world e) results newp).
Proof. unfold pp_pre, newfail. rewrite app_nil_r. reflexivity. Qed.

Lemma pp_prep_queues s e results newp s4 :
  pp_prep C s e results newp = Ok s4 -> (forall p, In p (e_pools e) -> p_suspended p = []) ->
  forall p, queue_of s4 p = pp_pre C s e results newp [] p.
Proof.
  intros H Hd. unfold pp_prep in H. cbv zeta in H.
  pose proof (pp_new_queue C newp s) as N. cbv zeta in N.
  set (s1 := fold_left _ newp s) in *. destruct N as [N1 _].
  apply bind_ok_inv in H. destruct H as [s2 [F H]].
  apply pp_failures_ok in F. destruct F as [F1 _].
  apply bind_ok_inv in H. destruct H as [m [_ H]].
  match type of H with
  | context [fold_left ?f (e_pools e) ?s3] =>
      pose proof (pp_requeue_pools_queue (e_pools e) s3) as R; cbv zeta in R
  end.
  destruct R as [lq [R1 [_ [_ [_ [_ [_ R7]]]]]]].
  assert (Lq : lq = []).
  { destruct lq as [|j0 t]; [reflexivity|]. exfalso.
    destruct (R7 j0 (or_introl eq_refl)) as (p0 & c & Hp0 & Hc & _). rewrite (Hd p0 Hp0) in Hc. destruct Hc. }
  subst lq. inversion H; subst s4. intros p. rewrite R1. unfold pp_pre.
  rewrite !filter_app', !app_assoc. cbn [filter]. rewrite !app_nil_r. rewrite <- N1, <- F1.
  destruct p; reflexivity.
Qed.

Lemma cnt_class_partition x : forall X,
  cnt x (fm (filter (is_class Query) X)) + cnt x (fm (filter (is_class Interactive) X))
  + cnt x (fm (filter (is_class Batch) X)) = cnt x (fm X).
Proof.
  induction X as [|j t IH]; [reflexivity|]. cbn [filter].
  assert (E : forall p, is_class p j = prio_eqb (j_prio j) p) by reflexivity. rewrite !E.
  destruct (j_prio j);
    change (prio_eqb Query Query) with true; change (prio_eqb Query Interactive) with false;
    change (prio_eqb Query Batch) with false; change (prio_eqb Interactive Query) with false;
    change (prio_eqb Interactive Interactive) with true; change (prio_eqb Interactive Batch) with false;
    change (prio_eqb Batch Query) with false; change (prio_eqb Batch Interactive) with false;
    change (prio_eqb Batch Batch) with true; cbv iota;
    change (fm (j :: ?l)) with (j_ops j ++ fm l); rewrite !cnt_app; lia.
Qed.

Lemma cnt_queues s s4 X x :
  (forall p, queue_of s4 p = queue_of s p ++ filter (is_class p) X) ->
  cnt x (queued_ops s4) = cnt x (queued_ops s) + cnt x (fm X).
Proof.
  intros Q. rewrite !queued_ops_fm.
  change (ss_q s4) with (queue_of s4 Query). change (ss_i s4) with (queue_of s4 Interactive).
  change (ss_b s4) with (queue_of s4 Batch). rewrite !Q. cbn [queue_of].
  rewrite !fm_app, !cnt_app. pose proof (cnt_class_partition x X). lia.
Qed.

(* ---- the static description ---- *)
Hypothesis Hnodup : orders_nodup St.
Hypothesis Hrange : forall k o, In o (pd_order (pipe_of St k)) -> o < length (s_ops St).
Hypothesis Hpipe : forall k o, In o (pd_order (pipe_of St k)) -> op_pipe St o = k.
Hypothesis Htopo : forall k w, deps w [] (pd_order (pipe_of St k)).

Definition pdo (k : nat) : list nat := pd_order (pipe_of St k).

(* the scheduler's queues against the world and the results still to be processed; [arrived]: the
   pipelines that have arrived *)
Definition sinv (w : world) (arrived : list nat) (s : sstate) (results : list result) : Prop :=
  (forall p j, In j (queue_of s p) -> jrun w (j_ops j)) /\
  NoDup (queued_ops s ++ flat_map (frem w) results) /\
  Forall (rrun w) results /\
  (forall o, In o (queued_ops s) -> In (op_pipe St o) arrived) /\
  (forall o, st_of w o <> Pending -> In (op_pipe St o) arrived).

Lemma fm_newfail w results newp :
  fm (newfail w results newp) = flat_map pdo newp ++ flat_map (frem w) results.
Proof.
  unfold newfail. rewrite fm_app. f_equal.
  - induction newp as [|k t IH]; [reflexivity|]. cbn [map fm flat_map]. fold (fm (map (new_job C) t)).
    rewrite IH. reflexivity.
  - induction results as [|r t IH]; [reflexivity|]. cbn [filter flat_map]. unfold frem at 1.
    destruct (r_err r); [|exact IH]. cbn [map fm flat_map]. fold (fm (map (fail_job C w) (filter r_err t))).
    rewrite IH. reflexivity.
Qed.

Lemma NoDup_pdo : forall newp, NoDup newp -> NoDup (flat_map pdo newp).
Proof.
  induction 1 as [|k t Hk _ IH]; [constructor|]. cbn [flat_map].
  apply NoDup_app_intro_nat; [apply Hnodup|exact IH|].
  intros o H1 H2. apply in_flat_map in H2. destruct H2 as (k' & Hk' & H2).
  apply Hpipe in H1. apply Hpipe in H2. apply Hk. congruence.
Qed.

Lemma prep_sinv w arrived s results newp :
  sinv w arrived s results -> NoDup newp -> (forall k, In k newp -> ~ In k arrived) ->
  (forall j, In j (newfail w results newp) -> jrun w (j_ops j)) /\
  NoDup (queued_ops s ++ fm (newfail w results newp)) /\
  (forall o, In o (fm (newfail w results newp)) -> In (op_pipe St o) (arrived ++ newp)).
Proof.
  intros (Jr & Nd & Rr & Ia & Ic) Nn Fr.
  assert (Pend : forall k o, In k newp -> In o (pdo k) -> st_of w o = Pending).
  { intros k o Hk Ho. destruct (st_of w o) eqn:E; try reflexivity; exfalso; apply (Fr k Hk);
      rewrite <- (Hpipe k o Ho); apply Ic; rewrite E; discriminate. }
  assert (Fail : forall r o, In r results -> In o (frem w r) -> st_of w o = Failed /\ o < length (s_ops St)).
  { intros r o Hr Ho. unfold frem in Ho. destruct (r_err r) eqn:E; [|destruct Ho].
    rewrite Forall_forall in Rr. destruct (Rr r Hr E) as (n & A & B & _).
    rewrite (nc_split w _ n A (fun x Hx => proj2 (B x Hx))) in Ho. destruct (B o Ho). auto. }
  split; [|split].
  - intros j Hj. unfold newfail in Hj. apply in_app_or in Hj. destruct Hj as [Hj|Hj].
    + apply in_map_iff in Hj. destruct Hj as [k [<- Hk]]. cbn [new_job j_ops]. fold St. fold (pdo k).
      split; [apply Hnodup|]. split; [|apply Htopo].
      intros o Ho. split; [eapply Hrange; exact Ho|]. rewrite (Pend k o Hk Ho). reflexivity.
    + apply in_map_iff in Hj. destruct Hj as [r [<- Hr]]. apply filter_In in Hr. destruct Hr as [Hr Er].
      cbn [fail_job j_ops]. rewrite Forall_forall in Rr. destruct (Rr r Hr Er) as (n & A & B & D & N & P).
      rewrite (nc_split w _ n A (fun x Hx => proj2 (B x Hx))).
      split; [exact N|]. split; [|exact P]. intros o Ho. destruct (B o Ho) as [B1 B2].
      split; [exact B1|]. rewrite B2. reflexivity.
  - rewrite fm_newfail.
    pose proof (ConserveFacts.NoDup_app_inv _ _ Nd) as (N1 & N2 & N3).
    apply NoDup_app_intro_nat; [exact N1| |].
    + apply NoDup_app_intro_nat; [apply NoDup_pdo; exact Nn|exact N2|].
      intros o H1 H2. apply in_flat_map in H1. destruct H1 as (k & Hk & H1).
      apply in_flat_map in H2. destruct H2 as (r & Hr & H2).
      pose proof (Pend k o Hk H1) as Y. destruct (Fail r o Hr H2) as [X _]. congruence.
    + intros o H1 H2. apply in_app_or in H2. destruct H2 as [H2|H2]; [|exact (N3 o H1 H2)].
      apply in_flat_map in H2. destruct H2 as (k & Hk & H2). apply (Fr k Hk).
      rewrite <- (Hpipe k o H2). apply Ia. exact H1.
  - intros o Ho. rewrite fm_newfail in Ho. apply in_or_app. apply in_app_or in Ho. destruct Ho as [Ho|Ho].
    + apply in_flat_map in Ho. destruct Ho as (k & Hk & Ho). right. rewrite (Hpipe k o Ho). exact Hk.
    + apply in_flat_map in Ho. destruct Ho as (r & Hr & Ho). left. apply Ic.
      destruct (Fail r o Hr Ho) as [X _]. rewrite X. discriminate.
Qed.

(* all operators queued when the scans start *)
Definition allq (s : sstate) (X : list job) : list nat :=
  fm (queue_of s Query ++ filter (is_class Query) X) ++
  fm (queue_of s Interactive ++ filter (is_class Interactive) X) ++
  fm (queue_of s Batch ++ filter (is_class Batch) X).

Lemma cnt_allq s X x : cnt x (allq s X) = cnt x (queued_ops s) + cnt x (fm X).
Proof.
  unfold allq. rewrite queued_ops_fm. cbn [queue_of]. rewrite !fm_app, !cnt_app.
  pose proof (cnt_class_partition x X). lia.
Qed.

Lemma NoDup_allq s X : NoDup (queued_ops s ++ fm X) -> NoDup (allq s X).
Proof.
  intros N. rewrite (NoDup_count_occ Nat.eq_dec) in *. intros x. specialize (N x).
  fold (cnt x (queued_ops s ++ fm X)) in N. fold (cnt x (allq s X)). rewrite cnt_app in N.
  rewrite cnt_allq. exact N.
Qed.

Lemma In_allq s X o : In o (allq s X) -> In o (queued_ops s) \/ In o (fm X).
Proof.
  intros H. apply cnt_In in H. rewrite cnt_allq in H.
  destruct (in_dec Nat.eq_dec o (queued_ops s)) as [Hi|Hn]; [left; exact Hi|right].
  apply cnt_In. assert (cnt o (queued_ops s) = 0); [|lia].
  destruct (cnt o (queued_ops s)) eqn:E; [reflexivity|]. exfalso. apply Hn. apply cnt_In. lia.
Qed.

Lemma pp_round_tot s e results newp arrived :
  Forall pgood (e_pools e) -> Forall (rgood (e_world e)) results -> sgood s ->
  (forall k, In k newp -> pd_order (pipe_of St k) <> []) ->
  wlen St (e_world e) -> sinv (e_world e) arrived s results ->
  NoDup newp -> (forall k, In k newp -> ~ In k arrived) ->
  exists r, priority_pool_step C s e results newp = Ok r.
Proof.
  intros Pg Rg Sg Hn L Si Nn Fr. rewrite pp_step_split.
  destruct (pp_prep_good C s e results newp Pg Rg Sg Hn) as (s4 & E & Sg4). rewrite E. cbn [bind].
  assert (Hd : forall p, In p (e_pools e) -> p_suspended p = []).
  { intros p Hp. rewrite Forall_forall in Pg. apply (Pg p Hp). }
  pose proof (pp_prep_queues s e results newp s4 E Hd) as Q.
  destruct (prep_sinv _ _ _ _ _ Si Nn Fr) as (Jx & Nx & _).
  destruct Si as (Jr & _).
  apply pp_scans_tot; [exact Pg|exact Sg4|exact L| |].
  - intros p j Hj. rewrite Q, pp_pre_nil in Hj. apply in_app_or in Hj. destruct Hj as [Hj|Hj].
    + eapply Jr; eauto.
    + apply filter_In in Hj. apply Jx. apply Hj.
  - apply NoDup_allq in Nx. unfold allq in Nx. rewrite queued_ops_fm.
    change (ss_q s4) with (queue_of s4 Query). change (ss_i s4) with (queue_of s4 Interactive).
    change (ss_b s4) with (queue_of s4 Batch). rewrite !Q, !pp_pre_nil. exact Nx.
Qed.

Lemma mk_assignments_app : forall l1 l2 w w1 w2,
  mk_assignments C w l1 = Ok w1 -> mk_assignments C w1 l2 = Ok w2 -> mk_assignments C w (l1 ++ l2) = Ok w2.
Proof.
  induction l1 as [|a t IH]; intros l2 w w1 w2 H1 H2; cbn [mk_assignments app] in *.
  - inversion H1; subst. exact H2.
  - apply bind_ok_inv in H1. destruct H1 as [wa [Ea H1]]. rewrite Ea. cbn [bind]. eapply IH; eauto.
Qed.

Lemma asteps_keeps_assigned w w' o : asteps St w w' -> st_of w o = Assigned -> st_of w' o = Assigned.
Proof.
  intros A H. destruct (asteps_st _ _ _ o A) as [E|[As _]]; [congruence|]. rewrite H in As. discriminate.
Qed.

(* the accepted round: the assignments are ready for the executor, the queues that are left are in order *)
Lemma pp_round_post s e results newp arrived s' w' susps asgs :
  Forall pgood (e_pools e) -> wlen St (e_world e) -> sinv (e_world e) arrived s results ->
  NoDup newp -> (forall k, In k newp -> ~ In k arrived) ->
  priority_pool_step C s e results newp = Ok (s', w', susps, asgs) ->
  mk_assignments C (e_world e) asgs = Ok w' /\ asteps St (e_world e) w' /\
  Forall (aready w') asgs /\ sinv w' (arrived ++ newp) s' [].
Proof.
  intros Pg L Si Nn Fr H.
  destruct (prep_sinv _ _ _ _ _ Si Nn Fr) as (Jx & Nx & Ix).
  destruct Si as (Jr & _ & _ & Ia & Ic).
  apply pp_step_inv in H.
  destruct H as (m & lq & n1 & n2 & n3 & x0a & x0b & x1a & w1 & w2 & a1 & a2 & a3 & o1 & o2 & H).
  destruct H as (_ & Lq & _ & S1 & S2 & S3 & _ & Ea & Eq & Ei & Eb & _).
  assert (El : lq = []).
  { destruct lq as [|j0 t]; [reflexivity|]. exfalso.
    destruct (Lq j0 (or_introl eq_refl)) as (p0 & c & Hp0 & Hc & _).
    destruct (pgood_nothing_suspended _ Pg p0 c Hp0) as [A _]. exact (A Hc). }
  subst lq. rewrite !pp_pre_nil in *.
  set (w := e_world e) in *. set (X := newfail w results newp) in *.
  set (Q := queue_of s Query ++ filter (is_class Query) X) in *.
  set (I := queue_of s Interactive ++ filter (is_class Interactive) X) in *.
  set (B := queue_of s Batch ++ filter (is_class Batch) X) in *.
  assert (NA : NoDup (fm Q ++ fm I ++ fm B)) by (apply (NoDup_allq s X); exact Nx).
  assert (JQ : forall j, In j Q -> jrun w (j_ops j)).
  { intros j Hj. apply in_app_or in Hj. destruct Hj as [Hj|Hj]; [eapply Jr; eauto|].
    apply filter_In in Hj. apply Jx, Hj. }
  assert (JI : forall j, In j I -> jrun w (j_ops j)).
  { intros j Hj. apply in_app_or in Hj. destruct Hj as [Hj|Hj]; [eapply Jr; eauto|].
    apply filter_In in Hj. apply Jx, Hj. }
  assert (JB : forall j, In j B -> jrun w (j_ops j)).
  { intros j Hj. apply in_app_or in Hj. destruct Hj as [Hj|Hj]; [eapply Jr; eauto|].
    apply filter_In in Hj. apply Jx, Hj. }
  assert (Rng : forall l, (forall j, In j l -> jrun w (j_ops j)) ->
                forall n o, In o (fm (firstn n l)) -> o < length (s_ops St)).
  { intros l Jl n o Ho. apply fm_In in Ho. destruct Ho as (j & Hj & Ho).
    apply In_firstn in Hj. destruct (Jl j Hj) as (_ & A & _). apply (A o Ho). }
  destruct (pp_rel_frame _ _ _ _ _ _ _ _ _ _ S1) as [A1 F1].
  destruct (pp_rel_frame _ _ _ _ _ _ _ _ _ _ S2) as [A2 F2].
  destruct (pp_rel_frame _ _ _ _ _ _ _ _ _ _ S3) as [A3 F3].
  assert (L1 : wlen St w1) by (unfold wlen in *; rewrite (asteps_length _ _ _ A1); exact L).
  assert (L2 : wlen St w2) by (unfold wlen in *; rewrite (asteps_length _ _ _ A2); exact L1).
  assert (A13 : asteps St w w') by (eapply asteps_trans; [exact A1|eapply asteps_trans; eauto]).
  assert (M : cmono w w') by (apply steps_cmono, asteps_steps; exact A13).
  set (U := fm (firstn n1 Q) ++ fm (firstn n2 I) ++ fm (firstn n3 B)).
  set (R := fm (skipn n1 Q) ++ fm (skipn n2 I) ++ fm (skipn n3 B)).
  assert (NUR : NoDup (U ++ R)).
  { rewrite (NoDup_count_occ Nat.eq_dec) in *. intros x. specialize (NA x).
    fold (cnt x (fm Q ++ fm I ++ fm B)) in NA. fold (cnt x (U ++ R)). unfold U, R.
    rewrite (fm_split n1 Q), (fm_split n2 I), (fm_split n3 B) in NA. rewrite !cnt_app in *. lia. }
  assert (UA : forall o, In o U -> In o (fm Q ++ fm I ++ fm B)).
  { intros o Ho. unfold U in Ho. rewrite !in_app_iff in *.
    destruct Ho as [Ho|[Ho|Ho]]; apply in_fm_firstn in Ho; auto. }
  assert (RA : forall o, In o R -> In o (fm Q ++ fm I ++ fm B)).
  { intros o Ho. unfold R in Ho. rewrite !in_app_iff in *.
    destruct Ho as [Ho|[Ho|Ho]]; apply in_fm_skipn in Ho; auto. }
  assert (Fall : forall o, ~ In o U -> st_of w' o = st_of w o).
  { intros o Ho. unfold U in Ho. rewrite !in_app_iff in Ho.
    rewrite F3, F2, F1; [reflexivity| | |]; intros Hin; apply Ho; auto. }
  assert (Arr : forall o, In o (fm Q ++ fm I ++ fm B) -> In (op_pipe St o) (arrived ++ newp)).
  { intros o Ho. apply (In_allq s X) in Ho. destruct Ho as [Ho|Ho]; [|apply Ix; exact Ho].
    apply in_or_app. left. apply Ia. exact Ho. }
  assert (Hq' : queued_ops s' = R).
  { rewrite queued_ops_fm, Eq, Ei, Eb. reflexivity. }
  split; [|split; [exact A13|split]].
  - (* the Assignment objects, in the order they were created *)
    subst asgs. destruct (pp_rel_world _ _ _ _ _ _ _ _ _ _ _ S1) as [W1 _].
    destruct (pp_rel_world _ _ _ _ _ _ _ _ _ _ _ S2) as [W2 _].
    destruct (pp_rel_world _ _ _ _ _ _ _ _ _ _ _ S3) as [W3 _].
    eapply mk_assignments_app; [exact W1|]. eapply mk_assignments_app; eauto.
  - (* every assignment: a whole job, all its operators ASSIGNED *)
    assert (G : forall pid wa x l oom n x' wb al oom',
              pp_rel C pid wa x l oom n x' wb al oom' -> wlen St wa -> cmono w wa -> asteps St wb w' ->
              (forall j, In j l -> jrun w (j_ops j)) -> Forall (aready w') al).
    { intros pid wa x l oom n x' wb al oom' S La Ma Ab Jl. apply Forall_forall. intros a Ha.
      destruct (pp_rel_from _ _ _ _ _ _ _ _ _ _ _ _ S Ha) as (j & Hj & _ & (Fo & _ & _)).
      destruct (pp_rel_world _ _ _ _ _ _ _ _ _ _ _ S) as [_ Wa]. rewrite Forall_forall in Wa.
      destruct (Jl j (In_firstn _ _ _ Hj)) as (Nj & Aj & Dj).
      split; [apply Wa, Ha|]. rewrite Fo. split; [exact Nj|]. split; [|eapply deps_mono; eauto].
      intros o Ho. split; [apply (Aj o Ho)|]. apply (asteps_keeps_assigned wb w' o Ab).
      eapply (pp_rel_assigned _ _ _ _ _ _ _ _ _ _ S La (Rng l Jl n)); [exact Ha|]. rewrite Fo. exact Ho. }
    subst asgs. apply Forall_app. split; [|apply Forall_app; split].
    + eapply (G _ _ _ _ _ _ _ _ _ _ S1 L (cmono_refl w)); [exact (asteps_trans _ _ _ _ A2 A3)|exact JQ].
    + eapply (G _ _ _ _ _ _ _ _ _ _ S2 L1); [apply steps_cmono, asteps_steps; exact A1|exact A3|exact JI].
    + eapply (G _ _ _ _ _ _ _ _ _ _ S3 L2); [|constructor|exact JB].
      apply steps_cmono, asteps_steps. exact (asteps_trans _ _ _ _ A1 A2).
  - (* the queues that are left *)
    split; [|split; [|split; [constructor|split]]].
    + intros p j Hj.
      assert (Hin : exists l n, In j (skipn n l) /\ (forall j0, In j0 l -> jrun w (j_ops j0)) /\
                                forall o, In o (fm (skipn n l)) -> In o R).
      { destruct p; cbn [queue_of] in Hj; [rewrite Eq in Hj|rewrite Ei in Hj|rewrite Eb in Hj].
        - exists Q, n1. split; [exact Hj|]. split; [exact JQ|]. intros o Ho. unfold R. rewrite !in_app_iff. auto.
        - exists I, n2. split; [exact Hj|]. split; [exact JI|]. intros o Ho. unfold R. rewrite !in_app_iff. auto.
        - exists B, n3. split; [exact Hj|]. split; [exact JB|]. intros o Ho. unfold R. rewrite !in_app_iff. auto. }
      destruct Hin as (l & n & Hjn & Jl & HR).
      eapply jrun_stable; [exact M| |apply Jl; eapply In_skipn; exact Hjn].
      intros o Ho. apply Fall. apply (NoDup_app_not_in U R o NUR). apply HR. apply fm_In. exists j. auto.
    + rewrite app_nil_r, Hq'. eapply NoDup_app_r; exact NUR.
    + intros o Ho. rewrite Hq' in Ho. apply Arr, RA, Ho.
    + intros o Ho. destruct (in_dec Nat.eq_dec o U) as [Hi|Hn]; [apply Arr, UA, Hi|].
      rewrite (Fall o Hn) in Ho. apply in_or_app. left. apply Ic, Ho.
Qed.

(* ------------------------------------------------------------------------------------------ *)
(* D3. one tick and the whole run                                                               *)
(* ------------------------------------------------------------------------------------------ *)
Hypothesis Hmulti : cf_multi C = true.

Definition loop_inv (np : nat) (s : sim) : Prop :=
  pp_inv np s /\ inv C (sm_exec s) /\ own_inv (sm_exec s) /\
  Forall (pool_cinv (e_world (sm_exec s)) (e_next (sm_exec s))) (e_pools (sm_exec s)) /\
  sinv (e_world (sm_exec s)) (map fst (sm_arrival s)) (sm_sched s) (sm_results s).

Lemma aready_range w a : aready w a -> ops_in_range St (a_ops a).
Proof. intros (_ & _ & R & _). apply Forall_forall. intros o Ho. apply (R o Ho). Qed.

Lemma pp_tick_tot np t s newp :
  loop_inv np s -> NoDup newp -> (forall k, In k newp -> ~ In k (map fst (sm_arrival s))) ->
  (forall k, In k newp -> pd_order (pipe_of St k) <> []) ->
  exists s' lg, sim_tick C APriorityPool t s newp = Ok (s', lg) /\ loop_inv np s' /\
                map fst (sm_arrival s') = map fst (sm_arrival s) ++ newp.
Proof.
  intros (PI & Iv & Ow & Pc & Si) Nn Fr Hn.
  pose proof PI as (Ids & Pg & Rg & Sg). pose proof Iv as [L Rgc]. pose proof Ow as (Nid & Plv & [Ns Ab]).
  set (e := sm_exec s) in *. set (w := e_world e) in *.
  (* the scheduler *)
  destruct (pp_round_tot (sm_sched s) e (sm_results s) newp _ Pg Rg Sg Hn L Si Nn Fr) as [[[[ss' w'] susps] asgs] Es].
  destruct (pp_round_ok C np _ _ _ _ _ _ _ _ Ids Pg Rg Sg Hn Es) as (-> & Sg' & Aa & Rn & Acc).
  destruct (pp_round_post _ _ _ _ _ _ _ _ _ Pg L Si Nn Fr Es) as (Emk & A13 & Far & Si').
  assert (Ra : forall a, In a asgs -> ops_in_range St (a_ops a)).
  { intros a Ha. rewrite Forall_forall in Far. apply aready_range with (w := w'). apply Far, Ha. }
  assert (M' : cmono w w') by (apply steps_cmono, asteps_steps; exact A13).
  assert (L' : wlen St w') by (unfold wlen in *; rewrite (asteps_length _ _ _ A13); exact L).
  destruct (mk_assignments_good _ _ _ _ _ Emk Ra L (conj Ns Ab)) as [Ng Abg].
  (* the pools in the world the scheduler leaves *)
  assert (Pc' : Forall (pool_cinv w' (e_next e)) (e_pools e)).
  { rewrite Forall_forall in *. intros q Hq. eapply pool_cinv_stable; [exact M'|apply le_n| |apply Pc, Hq].
    intros o Ho. assert (Bo : busy (st_of w o)).
    { apply Ab. unfold sown. apply in_flat_map. exists q. auto. }
    apply busy_not_assignable in Bo. destruct (asteps_st _ _ _ o A13) as [E|[As _]]; [exact E|].
    exfalso. exact (eq_true_false_abs _ As Bo). }
  assert (Frel : Forall (aready w') (rel asgs (e_pools e))).
  { rewrite Forall_forall in *. intros a Ha. apply Far. eapply rel_incl; eauto. }
  assert (Mrel : msub (flat_map pown (e_pools e) ++ aops (rel asgs (e_pools e))) (sown e ++ aops asgs)).
  { intros x. rewrite cnt_rel. apply (pending_msub (e_pools e) asgs Nid x). }
  assert (Nrel : NoDup (flat_map pown (e_pools e) ++ aops (rel asgs (e_pools e)))).
  { eapply msub_NoDup; [exact Mrel|exact Ng]. }
  destruct (pools_tick_tot asgs (e_pools e) w' (e_next e) L' Pc' Frel Nrel)
    as (w2 & next2 & ps2 & res & Ept & Pc2 & _ & RR & MS).
  { intros p Hp. destruct (Acc p Hp) as (xf & Xc & Xr & (_ & Nc & Nr)). right.
    apply verify_assignments_ok. split; [lia|]. intros _. lra. }
  { intros a Ha. apply args_ok_opcount; [exact Hmulti|]. rewrite Forall_forall in Aa. apply Aa, Ha. }
  set (e2 := {| e_world := w2; e_pools := ps2; e_next := next2 |}).
  assert (Eex : exec_tick C {| e_world := w'; e_pools := e_pools e; e_next := e_next e |} [] asgs
                = Ok (e2, res)).
  { unfold exec_tick. cbv zeta. cbn [e_pools e_world e_next forallb andb]. rewrite Rn. cbn [negb].
    rewrite Ept. reflexivity. }
  assert (Est : exec_step C e [] asgs = Ok (e2, res)).
  { unfold exec_step. replace (mk_assignments C (e_world e) asgs) with (@Ok world w') by (symmetry; exact Emk).
    cbn [bind]. exact Eex. }
  (* the tick *)
  assert (Et : exists s' lg, sim_tick C APriorityPool t s newp = Ok (s', lg) /\
             sm_exec s' = e2 /\ sm_sched s' = ss' /\ sm_results s' = res /\
             sm_arrival s' = sm_arrival s ++ map (fun p => (p, t)) newp).
  { unfold sim_tick. rewrite (record_arrivals_ok t newp (sm_arrival s) Nn Fr). cbn [bind sched_step].
    fold e. rewrite Es. cbn [bind]. rewrite Eex. cbn [bind]. eexists _, _. split; [reflexivity|].
    cbn [sm_exec sm_sched sm_results sm_arrival]. auto. }
  destruct Et as (s' & lg & Et & E1 & E2 & E3 & E4).
  exists s', lg. split; [exact Et|]. split.
  2:{ rewrite E4, map_app, map_map. cbn [fst]. rewrite map_id. reflexivity. }
  pose proof (pp_tick_step C Hmulti np t s newp PI Hn) as PI'. rewrite Et in PI'.
  pose proof (pools_tick_xsteps _ _ _ _ _ _ _ _ _ _ Ept) as X2.
  split; [exact PI'|]. rewrite E1, E2, E3. cbn [e2 e_world e_next e_pools].
  destruct (exec_step_steps_in _ _ _ _ _ _ Est (conj L Rgc) Ra) as [_ Iv2].
  split; [exact Iv2|]. split; [eapply exec_step_own_inv; eauto; split; assumption|].
  split; [exact Pc2|].
  (* the queues against the new world and the new results *)
  destruct Si' as (Jr' & Nd' & _ & Ia' & Ic'). rewrite app_nil_r in Nd'.
  assert (Aq : forall o, In o (queued_ops ss') -> assignable (st_of w' o) = true).
  { intros o Ho. rewrite queued_ops_fm in Ho.
    assert (G : forall p, In o (fm (queue_of ss' p)) -> assignable (st_of w' o) = true).
    { intros p Hp. apply fm_In in Hp. destruct Hp as (j & Hj & Hoj). destruct (Jr' p j Hj) as (_ & A & _).
      apply (A o Hoj). }
    rewrite !in_app_iff in Ho. destruct Ho as [Ho|[Ho|Ho]];
      [apply (G Query)|apply (G Interactive)|apply (G Batch)]; exact Ho. }
  rewrite E4, map_app, map_map. cbn [fst]. rewrite map_id.
  split; [|split; [|split; [exact RR|split; [exact Ia'|]]]].
  - intros p j Hj. eapply jrun_stable; [apply xsteps_cmono; exact X2| |apply (Jr' p j Hj)].
    intros o Ho. apply (xsteps_assignable_frame _ _ _ o X2).
    destruct (Jr' p j Hj) as (_ & A & _). apply (A o Ho).
  - apply NoDup_app_intro_nat; [exact Nd'|eapply msub_NoDup; [exact MS|exact Nrel]|].
    intros o H1 H2. pose proof (Aq o H1) as As.
    assert (Hin : In o (sown e ++ aops asgs)).
    { eapply msub_In; [exact Mrel|]. eapply msub_In; [exact MS|exact H2]. }
    apply Abg in Hin. apply busy_not_assignable in Hin. exact (eq_true_false_abs _ As Hin).
  - intros o Ho. apply Ic'. intros Hp. apply Ho.
    rewrite (xsteps_assignable_frame _ _ _ o X2); [exact Hp|]. rewrite Hp. reflexivity.
Qed.

Lemma pp_run_tot np : forall arrivals t s,
  loop_inv np s -> NoDup (concat arrivals) ->
  (forall k, In k (concat arrivals) -> ~ In k (map fst (sm_arrival s))) ->
  (forall k, In k (concat arrivals) -> pd_order (pipe_of St k) <> []) ->
  exists sf logs, sim_run C APriorityPool t s arrivals = (sf, logs, None).
Proof.
  induction arrivals as [|newp r IH]; intros t s Li N D Hn; cbn [sim_run].
  - eauto.
  - cbn [concat] in N, D, Hn. apply ConserveFacts.NoDup_app_inv in N. destruct N as (N1 & N2 & N3).
    destruct (pp_tick_tot np t s newp Li N1) as (s1 & lg & E & Li1 & Ea).
    { intros k Hk. apply D. apply in_or_app. left. exact Hk. }
    { intros k Hk. apply Hn. apply in_or_app. left. exact Hk. }
    rewrite E. destruct (IH (t + 1)%Z s1 Li1 N2) as (sf & logs & R).
    { intros k Hk Hin. rewrite Ea in Hin. apply in_app_or in Hin. destruct Hin as [Hin|Hin].
      - apply (D k); [apply in_or_app; right; exact Hk|exact Hin].
      - apply (N3 k Hin Hk). }
    { intros k Hk. apply Hn. apply in_or_app. right. exact Hk. }
    rewrite R. eauto.
Qed.

Lemma loop_inv_init np cpu ram :
  (0 < cpu)%Z -> (0 < ram)%Q -> loop_inv np (init_sim C np cpu ram).
Proof.
  intros Hc Hr. split; [apply pp_inv_init; assumption|].
  unfold init_sim. cbn [sm_exec sm_arrival sm_sched sm_results map].
  split; [apply inv_init|]. split; [apply own_inv_init|]. split.
  - unfold init_estate. cbn [e_pools e_world e_next]. apply Forall_forall. intros p Hp.
    apply in_map_iff in Hp. destruct Hp as [i [<- _]]. split; [reflexivity|]. split; [constructor|].
    split; [constructor|intros ? []].
  - unfold sinv. cbn [queued_ops init_sstate ss_q ss_i ss_b flat_map app].
    split; [intros p j Hj; destruct p; destruct Hj|]. split; [constructor|]. split; [constructor|].
    split; [intros o []|]. intros o Ho. exfalso. apply Ho. unfold init_estate, init_world, st_of.
    cbn [e_world w_st]. destruct (Nat.lt_ge_cases o (length (s_ops (cf_static C)))) as [Lt|Ge].
    + apply nth_repeat.
    + apply nth_overflow. rewrite repeat_length. exact Ge.
Qed.

End PPLoop.

(* ---- the static description built by [mk_static] from well-formed DAGs ---- *)
Lemma mk_static_pdef l k :
  dags_wf l -> k < length (s_pipes (mk_static l)) ->
  let p := pipe_of (mk_static l) k in
  wf_dag (pd_dag p) /\ pd_order p = map (fun i => pd_first p + i) (iterate (pd_dag p)).
Proof.
  intros W Lk. cbv zeta. unfold pipe_of. cbn [mk_static s_pipes] in *.
  pose proof (nth_In _ dummy_pipe Lk) as Hin.
  destruct (mk_pipes_in _ _ _ Hin) as (pr & g & Hl & E & _).
  set (p := nth k (mk_pipes 0 l) dummy_pipe) in *. rewrite E. cbn [mk_pdef pd_dag pd_order pd_first].
  split; [|reflexivity]. unfold dags_wf in W. rewrite Forall_forall in W. apply (W (pr, g) Hl).
Qed.

Lemma mk_static_pd_order_cases l k :
  pd_order (pipe_of (mk_static l) k) = [] \/ k < length (s_pipes (mk_static l)).
Proof.
  destruct (Nat.lt_ge_cases k (length (s_pipes (mk_static l)))) as [Lt|Ge]; [right; exact Lt|left].
  unfold pipe_of. rewrite nth_overflow by exact Ge. reflexivity.
Qed.

Lemma mk_static_op_pipe l k o :
  dags_wf l -> In o (pd_order (pipe_of (mk_static l) k)) -> op_pipe (mk_static l) o = k.
Proof.
  intros W Ho. destruct (mk_static_pd_order_cases l k) as [E|Lk]; [rewrite E in Ho; destruct Ho|].
  destruct (mk_static_pdef l k W Lk) as [Wg E]. rewrite E in Ho.
  apply in_map_iff in Ho. destruct Ho as [i [<- Hi]].
  apply (Permutation_in _ (DagProof.dag_iter_perm _ Wg)) in Hi. apply DagProof.In_nodes in Hi.
  unfold op_pipe. rewrite (mk_static_nth l k i Lk Hi). reflexivity.
Qed.

Lemma mk_static_deps C l k w :
  cf_static C = mk_static l -> dags_wf l -> deps C w [] (pd_order (pipe_of (cf_static C) k)).
Proof.
  intros Ec W. rewrite Ec.
  destruct (mk_static_pd_order_cases l k) as [E|Lk]; [rewrite E; exact I|].
  destruct (mk_static_pdef l k W Lk) as [Wg E]. rewrite E.
  set (p := pipe_of (mk_static l) k) in *. set (g := pd_dag p) in *. set (f := pd_first p) in *.
  assert (G : forall suf pre seen, iterate g = pre ++ suf -> (forall i, In i pre -> In (f + i) seen) ->
              deps C w seen (map (fun i => f + i) suf)).
  { induction suf as [|x t IH]; intros pre seen Ei Hs; cbn [map deps]; [exact I|]. split.
    - intros q Hq. right.
      assert (Lx : x < pd_n p).
      { assert (Hx : In x (iterate g)) by (rewrite Ei; apply in_or_app; right; left; reflexivity).
        apply (Permutation_in _ (DagProof.dag_iter_perm _ Wg)) in Hx. apply DagProof.In_nodes in Hx. exact Hx. }
      unfold op_parents in Hq. rewrite Ec in Hq. unfold f, p in Hq. rewrite (mk_static_nth l k x Lk Lx) in Hq.
      cbn [od_parents] in Hq. apply in_map_iff in Hq. destruct Hq as [i [<- Hi]].
      apply Hs. eapply (DagProof.dag_iter_topo g Wg pre x t Ei). exact Hi.
    - apply (IH (pre ++ [x])); [rewrite <- app_assoc; exact Ei|].
      intros i Hi. apply in_app_or in Hi. destruct Hi as [Hi|[<-|[]]]; [right; apply Hs; exact Hi|left; reflexivity]. }
  apply (G (iterate g) [] []); [reflexivity|intros i []].
Qed.

(* priority-pool, multi-operator containers: with non-empty operator scripts, pipelines built from
   well-formed DAGs with at least one operator, positive pool sizes and a workload in which no pipeline
   arrives twice, the run reaches its last tick: no scheduler decision is refused, no assertion fires and
   no container tick raises *)
Theorem pp_runs_to_end C l np cpu ram arrivals :
  cf_static C = mk_static l -> dags_wf l ->
  (forall op c, cf_script C op c <> []) -> cf_multi C = true ->
  (0 < cpu)%Z -> (0 < ram)%Q ->
  (forall k, In k (concat arrivals) -> pd_order (pipe_of (cf_static C) k) <> []) ->
  NoDup (concat arrivals) ->
  exists sf logs,
    sim_run C APriorityPool 0%Z (init_sim C np cpu ram) arrivals = (sf, logs, None) /\
    length logs = length arrivals.
Proof.
  intros Ec W Hs Hm Hc Hr Hn Na.
  assert (Ho : orders_nodup (cf_static C)) by (rewrite Ec; apply mk_static_orders_nodup, W).
  assert (Hg : forall k o, In o (pd_order (pipe_of (cf_static C) k)) -> o < length (s_ops (cf_static C)))
    by (rewrite Ec; apply mk_static_orders_in_range, W).
  assert (Hp : forall k o, In o (pd_order (pipe_of (cf_static C) k)) -> op_pipe (cf_static C) o = k)
    by (rewrite Ec; intros k o; apply mk_static_op_pipe, W).
  assert (Ht : forall k w, deps C w [] (pd_order (pipe_of (cf_static C) k)))
    by (intros k w; apply (mk_static_deps C l k w Ec W)).
  destruct (pp_run_tot C Hs Ho Hg Hp Ht Hm np arrivals 0%Z (init_sim C np cpu ram)) as (sf & logs & R).
  - apply loop_inv_init; assumption.
  - exact Na.
  - intros k _ [].
  - exact Hn.
  - exists sf, logs. split; [exact R|]. eapply sim_run_logs_length; eauto.
Qed.

(* ------------------------------------------------------------------------------------------ *)
(* Examples                                                                                     *)
(* ------------------------------------------------------------------------------------------ *)
Module RunExamples.

(* one query pipeline with one operator that needs 2 GB in its only tick; two pools of 10 CPUs / 10 GB.
   Tick 0: the new job gets max(1, int(10/10)) = 1 CPU and 1 GB, the container exceeds its limit and is
   killed ("OOM") in the same tick. Tick 1: the retry is assigned the doubled request (2 CPUs, 2 GB), the
   container completes and the pipeline is recorded as finished. *)
Definition S1 : static := mk_static [(Query, [[]])].
Definition C1 : cfg :=
  {| cf_static := S1; cf_script := fun _ _ => [2%Q]; cf_tps := 10%Z; cf_overcommit := false;
     cf_multi := true; cf_rnd := fun q => q |}.

Example ex_retry_after_oom :
  let '(sf, logs, oe) := sim_run C1 APriorityPool 0%Z (init_sim C1 2 10%Z 10%Q) [[0]; []; []; []] in
  oe = None /\ sm_nfail sf = 1%Z /\ sm_nasg sf = 2%Z /\
  map p_num_completed (e_pools (sm_exec sf)) = [1%Z; 0%Z] /\
  map (fun lg => (map (fun a => (a_ops a, a_cpu a, a_ram a, a_pool a)) (tl_asgs lg),
                  map (fun r => (r_ops r, r_err r)) (tl_results lg), tl_finished lg)) logs
  = [([([0], 1%Z, 1%Q, 0%Z)], [([0], true)], []);
     ([([0], 2%Z, 2%Q, 0%Z)], [([0], false)], [0]); ([], [], []); ([], [], [])].
Proof. vm_compute. repeat split. Qed.

(* F10: with single-operator containers (cf_multi = false) the whole-pipeline job of priority-pool is
   refused by the pool's operator-count assertion as soon as a pipeline has two operators *)
Definition S2 : static := mk_static [(Query, [[]; [0]])].
Definition C2 : cfg :=
  {| cf_static := S2; cf_script := fun _ _ => [1%Q]; cf_tps := 10%Z; cf_overcommit := false;
     cf_multi := false; cf_rnd := fun q => q |}.

Example F10_single_operator_mode_refuted :
  sim_run C2 APriorityPool 0%Z (init_sim C2 2 10%Z 10%Q) [[0]; []; []]
  = (init_sim C2 2 10%Z 10%Q, [], Some EOpCount).
Proof. vm_compute. reflexivity. Qed.

(* the hypothesis "every arriving pipeline has an operator" is needed: a pipeline without operators
   (or an unknown pipeline number) makes Assignment.__init__ raise on the empty operator list *)
Definition S3 : static := mk_static [(Query, [])].
Definition C3 : cfg :=
  {| cf_static := S3; cf_script := fun _ _ => [1%Q]; cf_tps := 10%Z; cf_overcommit := false;
     cf_multi := true; cf_rnd := fun q => q |}.

Example empty_pipeline_refuted :
  snd (sim_run C3 APriorityPool 0%Z (init_sim C3 2 10%Z 10%Q) [[0]; []; []]) = Some EBadAssignArgs /\
  snd (sim_run C1 APriorityPool 0%Z (init_sim C1 2 10%Z 10%Q) [[5]; []; []]) = Some EBadAssignArgs.
Proof. split; vm_compute; reflexivity. Qed.

(* the hypothesis on the pool sizes is needed: a pool with RAM but no CPU (or CPUs but no RAM) is not
   both-or-none and trips the scheduler's internal assertion at the first arrival; a negative size makes
   Assignment.__init__ raise *)
Example degenerate_pool_refuted :
  snd (sim_run C1 APriorityPool 0%Z (init_sim C1 2 0%Z 10%Q) [[0]; []; []]) = Some ESchedAssert /\
  snd (sim_run C1 APriorityPool 0%Z (init_sim C1 2 10%Z 0%Q) [[0]; []; []]) = Some ESchedAssert /\
  snd (sim_run C1 APriorityPool 0%Z (init_sim C1 2 10%Z (-(1))%Q) [[0]; []; []]) = Some EBadAssignArgs.
Proof. repeat split; vm_compute; reflexivity. Qed.

(* pp_run_errors applies to the first workload *)
Example ex_run_errors_applies er sf logs :
  sim_run C1 APriorityPool 0%Z (init_sim C1 2 10%Z 10%Q) [[0]; []; []; []] = (sf, logs, Some er) ->
  inner_err er.
Proof.
  apply pp_run_errors; [reflexivity|reflexivity|reflexivity|].
  intros k [<-|[]]. vm_compute. discriminate.
Qed.

(* pp_runs_to_end applies to the first workload (and to any number of ticks) *)
Lemma wf_single : wf_dag [[]].
Proof. intros j Hj. cbn in Hj. assert (j = 0) by lia. subst. split; [constructor|intros ? []]. Qed.

Example ex_runs_to_end n :
  exists sf logs,
    sim_run C1 APriorityPool 0%Z (init_sim C1 2 10%Z 10%Q) ([0] :: repeat [] n) = (sf, logs, None) /\
    length logs = S n.
Proof.
  destruct (pp_runs_to_end C1 [(Query, [[]])] 2 10%Z 10%Q ([0] :: repeat [] n)) as (sf & logs & R & Ln).
  - reflexivity.
  - constructor; [exact wf_single|constructor].
  - intros op c. discriminate.
  - reflexivity.
  - reflexivity.
  - reflexivity.
  - cbn [concat]. intros k Hk. apply in_app_or in Hk. destruct Hk as [[<-|[]]|Hk].
    + vm_compute. discriminate.
    + exfalso. induction n as [|n IH]; cbn in Hk; [exact Hk|exact (IH Hk)].
  - cbn [concat]. assert (E : concat (repeat (@nil nat) n) = []) by (induction n; cbn; auto).
    rewrite E. cbn. constructor; [intros []|constructor].
  - exists sf, logs. split; [exact R|]. rewrite Ln. cbn [length]. rewrite repeat_length. reflexivity.
Qed.

End RunExamples.
