(* The simulator loop (Model/Simulator.v) and the executor-level reachability relations.

   The executor-level property theorems (C01, C02, C03, C04, C09) quantify over the states an executor
   reaches under ARBITRARY commands: [ConserveFacts.reach_exec], [ExecLifeFacts.reach_exec_r],
   [LedgerFacts.reach_hist] / [reach_count], [MemoryFacts.reach_exec]; every step of these relations is an
   [exec_step] (create the Assignment objects, then tick the executor).  The simulator does not call
   [exec_step]: a scheduler creates its Assignment objects one by one inside [sched_step] and hands the
   resulting world to [exec_tick].  This file closes the gap (audit A, P7):

   1. [sched_step_world]  for EVERY algorithm the world a scheduler returns is the world in which exactly
      its assignments were created, in order: [mk_assignments C (e_world e) asgs = Ok w'];
   2. [sim_tick_exec_step]  hence one simulator tick IS one [exec_step] on the executor state;
   3. [sim_reach_*]  hence every state a simulation passes through is reachable in the sense of each of the
      relations above, for every algorithm ([reach_exec_r] additionally needs every assignment to name known
      operators: proved for every algorithm from [pipes_in_range], in particular for [mk_static] of
      well-formed DAGs, by the invariant [sim_range]);
   4. the main invariants of C01, C02, C03, C09 restated for the states of a simulation run. *)
From Coq Require Import ZArith QArith List Bool Arith Lia Lqa Permutation.
Import ListNotations.
From Eudoxia Require Import Num.Rnd64 Model.Types Model.Dag Model.Lifecycle Model.Container Model.Pool
  Model.Executor Model.Sched Model.Simulator
  Proofs.ListFacts Proofs.LifecycleFacts Proofs.ConserveFacts Proofs.ExecLifeFacts Proofs.MemoryFacts
  Proofs.LedgerFacts Proofs.NaiveFacts Proofs.OverbookFacts Proofs.PriorityFacts Proofs.SafetyFacts
  Proofs.PriorityPoolFacts Proofs.PriorityPoolRunFacts Proofs.PriorityRunFacts.
Close Scope Q_scope.
Close Scope Z_scope.

(* ------------------------------------------------------------------------------------------ *)
(* 1. the world returned by a scheduler                                                         *)
(* ------------------------------------------------------------------------------------------ *)

(* naive / starter: the events of a round, in order (no such lemma existed without side conditions) *)
Lemma nv_run_world C single w ps q rest rq w' ev :
  nv_run C single w ps q rest rq w' ev -> mk_assignments C w (map ev_asg ev) = Ok w'.
Proof.
  induction 1 as [w q|w p ps q rest rq w' ev _ _ IH|w p ps q rest rq w' ev _ _ _ IH
                 |w p ps pre k q1 w1 rest rq w' ev _ _ _ _ M _ IH].
  - reflexivity.
  - exact IH.
  - exact IH.
  - cbn [map ev_asg mk_assignments]. rewrite M. cbn [bind]. exact IH.
Qed.

Lemma naive_step_world C starter s e results newp s' w' susps asgs :
  naive_step C starter s e results newp = Ok (s', w', susps, asgs) ->
  mk_assignments C (e_world e) asgs = Ok w'.
Proof.
  intros H. apply naive_step_cases in H.
  destruct H as [(_ & _ & _ & -> & _ & ->)|(rest & rq & ev & R & _ & _ & ->)].
  - reflexivity.
  - eapply nv_run_world; eauto.
Qed.

(* overbook (no such lemma existed) *)
Lemma ob_run_world C fails w snap q q' w' snap' ev :
  ob_run C fails w snap q q' w' snap' ev -> mk_assignments C w (map oe_asg ev) = Ok w'.
Proof.
  induction 1 as [w snap|w snap op rest q' w' snap' ev _ _ IH|w snap op rest _ _ _
                 |w snap op rest pid mr snap1 w1 q' w' snap' ev _ _ _ M _ IH].
  - reflexivity.
  - exact IH.
  - reflexivity.
  - cbn [map oe_asg mk_assignments]. rewrite M. cbn [bind]. exact IH.
Qed.

Lemma overbook_step_world C s e results newp s' w' susps asgs :
  overbook_step C s e results newp = Ok (s', w', susps, asgs) ->
  mk_assignments C (e_world e) asgs = Ok w'.
Proof.
  intros H. apply overbook_step_cases in H.
  destruct H as [(_ & _ & _ & -> & _ & ->)|(_ & proc & fails & q' & snap' & ev & _ & R & _ & _ & ->)].
  - reflexivity.
  - eapply ob_run_world; eauto.
Qed.

(* priority: [PriorityFacts.priority_admissible]; priority-pool: the three scans ([pp_rel_world]) *)
Lemma priority_pool_step_world C s e results newp s' w' susps asgs :
  priority_pool_step C s e results newp = Ok (s', w', susps, asgs) ->
  mk_assignments C (e_world e) asgs = Ok w'.
Proof.
  intros H. apply pp_step_inv in H.
  destruct H as (m & lq & n1 & n2 & n3 & x0a & x0b & x1a & w1 & w2 & a1 & a2 & a3 & o1 & o2 & H).
  destruct H as (_ & _ & _ & S1 & S2 & S3 & _ & Ea & _). subst asgs.
  destruct (pp_rel_world _ _ _ _ _ _ _ _ _ _ _ S1) as [W1 _].
  destruct (pp_rel_world _ _ _ _ _ _ _ _ _ _ _ S2) as [W2 _].
  destruct (pp_rel_world _ _ _ _ _ _ _ _ _ _ _ S3) as [W3 _].
  eapply PriorityFacts.mk_assignments_app; [exact W1|].
  eapply PriorityFacts.mk_assignments_app; eauto.
Qed.

(* the key fact, for every algorithm *)
Theorem sched_step_world C a ss e results newp ss' w' susps asgs :
  sched_step C a ss e results newp = Ok (ss', w', susps, asgs) ->
  mk_assignments C (e_world e) asgs = Ok w'.
Proof.
  destruct a; cbn [sched_step]; intros H.
  - eapply naive_step_world; eauto.
  - eapply naive_step_world; eauto.
  - eapply overbook_step_world; eauto.
  - apply priority_admissible in H. tauto.
  - eapply priority_pool_step_world; eauto.
Qed.

(* ------------------------------------------------------------------------------------------ *)
(* 2. one simulator tick is one [exec_step]                                                     *)
(* ------------------------------------------------------------------------------------------ *)

Theorem sim_tick_exec_step C a t s newp s' lg :
  sim_tick C a t s newp = Ok (s', lg) ->
  exec_step C (sm_exec s) (tl_susp lg) (tl_asgs lg) = Ok (sm_exec s', tl_results lg) /\
  sm_results s' = tl_results lg.
Proof.
  intros H. apply PriorityPoolRunFacts.sim_tick_ok_inv in H.
  destruct H as (arr & ss' & w' & susps & asgs & e2 & res & _ & Sch & Ex & E1 & _ & E3 & _ & _ & E6 & E7 & E8).
  rewrite E1, E3, E6, E7, E8. split; [|reflexivity].
  unfold exec_step. rewrite (sched_step_world _ _ _ _ _ _ _ _ _ _ Sch). cbn [bind]. exact Ex.
Qed.

(* the counters of the loop *)
Lemma sim_tick_counters C a t s newp s' lg :
  sim_tick C a t s newp = Ok (s', lg) ->
  sm_nasg s' = (sm_nasg s + Z.of_nat (length (tl_asgs lg)))%Z /\
  sm_nsusp s' = (sm_nsusp s + Z.of_nat (length (tl_susp lg)))%Z /\
  sm_nfail s' = (sm_nfail s + Z.of_nat (length (filter r_err (tl_results lg))))%Z.
Proof.
  unfold sim_tick. intros H.
  apply bind_ok_inv in H. destruct H as [arr [_ H]].
  apply bind_ok_inv in H. destruct H as [[[[ss' w'] susps] asgs] [_ H]].
  apply bind_ok_inv in H. destruct H as [[e2 res] [_ H]]. inversion H; subst.
  cbn [sm_nasg sm_nsusp sm_nfail tl_asgs tl_susp tl_results]. auto.
Qed.

(* ------------------------------------------------------------------------------------------ *)
(* 3. reachable simulator states are reachable executor states (every algorithm, no hypothesis) *)
(* ------------------------------------------------------------------------------------------ *)

Section Links.
Variable C : cfg.
Variable a : algo.

(* C03 *)
Theorem sim_reach_conserve_from e0 t0 s0 t s :
  sim_reach C a t0 s0 t s -> ConserveFacts.reach_exec C e0 (sm_exec s0) ->
  ConserveFacts.reach_exec C e0 (sm_exec s).
Proof.
  intros R. apply (sim_reach_inv C a (fun s => ConserveFacts.reach_exec C e0 (sm_exec s))) with (1 := fun t s newp s' lg P T =>
    ConserveFacts.reach_step C e0 _ _ _ _ _ P (proj1 (sim_tick_exec_step C a t s newp s' lg T))) (2 := R).
Qed.

Theorem sim_reach_conserve np cpu ram t s :
  sim_reach C a 0%Z (init_sim C np cpu ram) t s ->
  ConserveFacts.reach_exec C (init_estate C np cpu ram) (sm_exec s).
Proof. intros R. eapply sim_reach_conserve_from; [exact R|]. cbn [init_sim sm_exec]. constructor. Qed.

(* C04 *)
Theorem sim_reach_memory_from np cpu ram t0 s0 t s :
  sim_reach C a t0 s0 t s -> MemoryFacts.reach_exec C np cpu ram (sm_exec s0) ->
  MemoryFacts.reach_exec C np cpu ram (sm_exec s).
Proof.
  intros R. apply (sim_reach_inv C a (fun s => MemoryFacts.reach_exec C np cpu ram (sm_exec s))) with (1 := fun t s newp s' lg P T =>
    MemoryFacts.reach_step C np cpu ram _ _ _ _ _ P (proj1 (sim_tick_exec_step C a t s newp s' lg T))) (2 := R).
Qed.

Theorem sim_reach_memory np cpu ram t s :
  sim_reach C a 0%Z (init_sim C np cpu ram) t s -> MemoryFacts.reach_exec C np cpu ram (sm_exec s).
Proof. intros R. eapply sim_reach_memory_from; [exact R|]. cbn [init_sim sm_exec]. constructor. Qed.

(* C09: the history is the concatenation of the results of the ticks; the number of accepted assignments
   and of failures are the loop's own counters *)
Definition sim_ledger (e0 : estate) (s : sim) : Prop :=
  exists h, reach_count C e0 (sm_exec s) h (Z.to_nat (sm_nasg s)) /\ (0 <= sm_nasg s)%Z /\
            sm_nfail s = Z.of_nat (length (filter r_err h)).

Lemma sim_tick_ledger e0 t s newp s' lg :
  sim_ledger e0 s -> sim_tick C a t s newp = Ok (s', lg) -> sim_ledger e0 s'.
Proof.
  intros (h & R & N & F) T. destruct (sim_tick_exec_step _ _ _ _ _ _ _ T) as [X _].
  destruct (sim_tick_counters _ _ _ _ _ _ _ T) as (A1 & _ & A3).
  exists (h ++ tl_results lg). split; [|split].
  - rewrite A1, Z2Nat.inj_add, Nat2Z.id by lia. econstructor; eauto.
  - lia.
  - rewrite A3, F, filter_app, app_length. lia.
Qed.

Theorem sim_reach_ledger np cpu ram t s :
  sim_reach C a 0%Z (init_sim C np cpu ram) t s ->
  exists h, reach_count C (init_estate C np cpu ram) (sm_exec s) h (Z.to_nat (sm_nasg s)) /\
            (0 <= sm_nasg s)%Z /\ sm_nfail s = Z.of_nat (length (filter r_err h)).
Proof.
  intros R. apply (sim_reach_inv C a (sim_ledger (init_estate C np cpu ram))) with (2 := R).
  - intros t1 s1 newp s' lg P T. eapply sim_tick_ledger; eauto.
  - exists []. cbn [init_sim sm_exec sm_nasg sm_nfail filter length]. split; [constructor|]. split; [lia|reflexivity].
Qed.

Theorem sim_reach_hist np cpu ram t s :
  sim_reach C a 0%Z (init_sim C np cpu ram) t s ->
  exists h, reach_hist C (init_estate C np cpu ram) (sm_exec s) h.
Proof.
  intros R. destruct (sim_reach_ledger _ _ _ _ _ R) as (h & X & _). exists h. eapply reach_count_hist; eauto.
Qed.

(* the run as a whole: the history and the count read off the logs *)
Lemma sim_run_count_from e0 : forall arrivals t s sf logs oe h n,
  reach_count C e0 (sm_exec s) h n -> sim_run C a t s arrivals = (sf, logs, oe) ->
  reach_count C e0 (sm_exec sf) (h ++ flat_map tl_results logs) (n + length (flat_map tl_asgs logs)).
Proof.
  induction arrivals as [|newp r IH]; intros t s sf logs oe h n R H; cbn [sim_run] in H.
  - inversion H; subst. cbn [flat_map length]. rewrite app_nil_r, Nat.add_0_r. exact R.
  - destruct (sim_tick C a t s newp) as [[s1 lg]|e] eqn:E.
    + destruct (sim_run C a (t + 1)%Z s1 r) as [[sf' logs'] e'] eqn:R'. inversion H; subst.
      destruct (sim_tick_exec_step _ _ _ _ _ _ _ E) as [X _].
      cbn [flat_map]. rewrite app_assoc, app_length, Nat.add_assoc.
      eapply IH; [|exact R']. econstructor; eauto.
    + inversion H; subst. cbn [flat_map length]. rewrite app_nil_r, Nat.add_0_r. exact R.
Qed.

Theorem sim_run_count np cpu ram arrivals sf logs oe :
  sim_run C a 0%Z (init_sim C np cpu ram) arrivals = (sf, logs, oe) ->
  reach_count C (init_estate C np cpu ram) (sm_exec sf)
              (flat_map tl_results logs) (length (flat_map tl_asgs logs)).
Proof.
  intros H.
  apply (sim_run_count_from (init_estate C np cpu ram) arrivals 0%Z (init_sim C np cpu ram) sf logs oe [] 0);
    [constructor | exact H].
Qed.

(* every accepted request of a run is a lifecycle step: no static hypothesis is needed for finality *)
Lemma mk_assignments_steps : forall asgs w w',
  mk_assignments C w asgs = Ok w' -> steps (cf_static C) w w'.
Proof.
  induction asgs as [|x t IH]; intros w w' H; cbn [mk_assignments] in H.
  - inversion H; subst. constructor.
  - apply bind_ok_inv in H. destruct H as [w1 [E H]].
    eapply steps_trans; [|eapply IH; exact H]. apply asteps_steps. eapply mk_assignment_asteps; eauto.
Qed.

Lemma sim_tick_steps t s newp s' lg :
  sim_tick C a t s newp = Ok (s', lg) ->
  steps (cf_static C) (e_world (sm_exec s)) (e_world (sm_exec s')).
Proof.
  intros H. destruct (sim_tick_exec_step _ _ _ _ _ _ _ H) as [X _]. unfold exec_step in X.
  apply bind_ok_inv in X. destruct X as [w1 [E X]].
  eapply steps_trans; [eapply mk_assignments_steps; exact E|].
  apply xsteps_steps. apply exec_tick_xsteps in X. exact X.
Qed.

Theorem sim_reach_steps t0 s0 t s :
  sim_reach C a t0 s0 t s -> steps (cf_static C) (e_world (sm_exec s0)) (e_world (sm_exec s)).
Proof.
  induction 1 as [t s|t0 s0 t s newp s' lg R IH T]; [constructor|].
  eapply steps_trans; [exact IH|]. eapply sim_tick_steps; eauto.
Qed.

End Links.

(* ------------------------------------------------------------------------------------------ *)
(* 4. every assignment of every shipped scheduler names known operators                         *)
(* ------------------------------------------------------------------------------------------ *)

(* [ExecLifeFacts.reach_exec_r] asks every assignment to name operators below [length (s_ops St)].
   The schedulers take operators from [pd_order] of a pipeline ([pipes_in_range]), from their own
   queues, from the operator lists of suspending / suspended containers and from the results of the
   previous tick; so "known operators only" is an invariant of executor state + pending results +
   scheduler state. *)

Section Range.
Variable C : cfg.
Local Notation St := (cf_static C).
Hypothesis Hrange : pipes_in_range St.

(* ---- executor side: all three container lists of a pool, and the results ---- *)

Definition pool_ok3 (p : pool) : Prop :=
  conts_in_range St (p_active p) /\ conts_in_range St (p_suspending p) /\
  conts_in_range St (p_suspended p).

Definition res_range (rs : list result) : Prop := Forall (fun r => ops_in_range St (r_ops r)) rs.

Lemma pool_ok3_ok p : pool_ok3 p -> pool_ok St p.
Proof. intros (A & B & _). split; assumption. Qed.

Lemma pool_tick_range3 w next p ss asgs w' next' p' res :
  pool_tick C w next p ss asgs = Ok (w', next', p', res) ->
  wlen St w -> pool_ok3 p ->
  (forall x, In x asgs -> ops_in_range St (a_ops x)) ->
  pool_ok3 p' /\ res_range res.
Proof.
  unfold pool_tick. intros H L (PA & PS & PD) RA. unfold bind in H.
  dres H as [[[w1 act1] sing1] cons1] eqn:E1.
  assert (P1 : steps_in St w w1 /\ conts_in_range St act1 /\ conts_in_range St sing1).
  { destruct ss as [|s0 ss'].
    - inversion E1; subst. split; [constructor|auto].
    - dres E1 as u eqn:V. dres E1 as [[wa acta] singa] eqn:A. inversion E1; subst.
      eapply apply_suspends_steps_in; eauto. }
  destruct P1 as [S1 [A1 B1]]. pose proof (steps_in_wlen _ _ _ S1 L) as L1.
  dres H as [[[next2 acpu2] aram2] act2] eqn:E2.
  assert (A2 : conts_in_range St act2).
  { destruct asgs as [|a0 asgs'].
    - inversion E2; subst. exact A1.
    - dres E2 as u eqn:V. eapply apply_assignments_in_range; eauto. }
  dres H as [w3 sing3] eqn:E3.
  destruct (tick_suspending_steps_in _ _ _ _ _ E3 B1 L1) as [S3 O3].
  pose proof (steps_in_wlen _ _ _ S3 L1) as L3.
  dres H as [[w4 cons4] act4] eqn:E4.
  destruct (tick_active_steps_in _ _ _ _ _ _ _ E4 A2 L3) as [S4 O4].
  pose proof (steps_in_wlen _ _ _ S4 L3) as L4.
  dres H as [[w5 cons5] act5] eqn:E5.
  destruct (oom_killer_steps_in _ _ _ _ _ _ _ _ E5 (conts_in_range_map _ _ _ O4 A2) L4) as [S5 O5].
  assert (A5 : conts_in_range St act5).
  { eapply conts_in_range_map; [exact O5|]. eapply conts_in_range_map; [exact O4|exact A2]. }
  assert (B3 : conts_in_range St sing3) by (eapply conts_in_range_map; [exact O3|exact B1]).
  inversion H; subst. split.
  - unfold pool_ok3, upd_pool. cbn [p_active p_suspending p_suspended]. split; [|split].
    + apply Forall_filter_keep. exact A5.
    + apply Forall_filter_keep. exact B3.
    + apply Forall_app. split; [exact PD|]. apply Forall_filter_keep. exact B3.
  - unfold res_range. apply Forall_forall. intros r Hr. apply in_map_iff in Hr.
    destruct Hr as (c & <- & Hc). apply filter_In in Hc. destruct Hc as [Hc _].
    cbn [result_of r_ops]. unfold conts_in_range in A5. rewrite Forall_forall in A5. apply A5. exact Hc.
Qed.

Lemma pools_tick_range3 ss asgs : forall ps w next w' next' ps' res,
  pools_tick C w next ps ss asgs = Ok (w', next', ps', res) ->
  wlen St w -> Forall pool_ok3 ps ->
  (forall x, In x asgs -> ops_in_range St (a_ops x)) ->
  Forall pool_ok3 ps' /\ res_range res.
Proof.
  induction ps as [|p t IH]; intros w next w' next' ps' res H L R RA.
  - cbn in H. inversion H; subst. split; constructor.
  - cbn [pools_tick] in H. cbv zeta in H. unfold bind in H.
    inversion R as [|? ? Rp Rt]; subst.
    dres H as [[[w1 next1] p1] res1] eqn:E1.
    assert (RA' : forall x, In x (filter (fun x => Z.eqb (a_pool x) (Z.of_nat (p_id p))) asgs) ->
                            ops_in_range St (a_ops x)).
    { intros x Hx. apply filter_In in Hx. apply RA. tauto. }
    destruct (pool_tick_range3 _ _ _ _ _ _ _ _ _ E1 L Rp RA') as [P1 Q1].
    destruct (pool_tick_steps_in _ _ _ _ _ _ _ _ _ _ E1 L (pool_ok3_ok _ Rp) RA') as [S1 _].
    dres H as [[[w2 next2] t2] res2] eqn:E2.
    destruct (IH _ _ _ _ _ _ E2 (steps_in_wlen _ _ _ S1 L) Rt RA) as [P2 Q2].
    inversion H; subst. split; [constructor; auto|]. apply Forall_app. split; assumption.
Qed.

Lemma exec_tick_range3 s ss asgs s' res :
  exec_tick C s ss asgs = Ok (s', res) ->
  wlen St (e_world s) -> Forall pool_ok3 (e_pools s) ->
  (forall x, In x asgs -> ops_in_range St (a_ops x)) ->
  Forall pool_ok3 (e_pools s') /\ res_range res.
Proof.
  unfold exec_tick. intros H L R RA. cbv zeta in H.
  match type of H with (if ?b then _ else _) = _ => destruct b end; [discriminate|].
  unfold bind in H. dres H as [[[w1 next1] ps1] res1] eqn:E1.
  destruct (pools_tick_range3 _ _ _ _ _ _ _ _ _ E1 L R RA) as [P1 Q1].
  inversion H; subst. cbn [e_pools]. auto.
Qed.

(* ---- scheduler side ---- *)

Definition jr (j : job) : Prop := ops_in_range St (j_ops j).

(* what a scheduler keeps between rounds: overbook queues operators ([ss_queue]; naive and the starter keep
   pipeline ids there), priority and priority-pool keep jobs in the class queues and in the map of
   suspending containers *)
Definition sched_range (a : algo) (s : sstate) : Prop :=
  (a = AOverbook -> ops_in_range St (ss_queue s)) /\
  (forall p j, In j (queue_of s p) -> jr j) /\
  (forall kv, In kv (ss_suspending s) -> jr (snd kv)).

Lemma sched_range_init a : sched_range a init_sstate.
Proof. split; [intros _; constructor|]. split; [intros [] j []|intros kv []]. Qed.

Lemma get_ops_range w k allowed req : ops_in_range St (get_ops St w k allowed req).
Proof.
  apply Forall_forall. intros o Ho. apply get_ops_In in Ho. destruct Ho as [Ho _]. eapply Hrange; eauto.
Qed.

Lemma not_completed_range w l : ops_in_range St l -> ops_in_range St (not_completed_ops w l).
Proof. intros H. unfold not_completed_ops. apply Forall_filter_keep. exact H. Qed.

(* naive, starter *)
Lemma naive_step_range a starter s e results newp s' w' susps asgs :
  naive_step C starter s e results newp = Ok (s', w', susps, asgs) ->
  a <> AOverbook -> sched_range a s ->
  sched_range a s' /\ forall x, In x asgs -> ops_in_range St (a_ops x).
Proof.
  intros H Na (_ & Gq & Gs). split.
  - apply naive_step_cases in H.
    destruct H as [(_ & _ & -> & _)|(rest & rq & ev & _ & -> & _)].
    + split; [intros X; contradiction|]. split; assumption.
    + split; [intros X; contradiction|]. split; [|exact Gs].
      intros p j Hj. apply (Gq p j). destruct p; exact Hj.
  - intros x Hx. destruct (naive_ops _ _ _ _ _ _ _ _ _ _ H x Hx) as (k & wk & _ & _ & _ & _ & _ & _ & _ & E & _).
    rewrite E. apply Forall_forall. intros o Ho. apply nv_ops_In in Ho. destruct Ho as [Ho _].
    eapply Hrange; eauto.
Qed.

(* overbook *)
Lemma overbook_step_range s e results newp s' w' susps asgs :
  overbook_step C s e results newp = Ok (s', w', susps, asgs) ->
  sched_range AOverbook s ->
  sched_range AOverbook s' /\ forall x, In x asgs -> ops_in_range St (a_ops x).
Proof.
  intros H (Gq0 & Gq & Gs). specialize (Gq0 eq_refl). apply overbook_step_cases in H.
  destruct H as [(_ & _ & -> & _ & _ & ->)|(_ & proc & fails & q' & snap' & ev & _ & R & -> & _ & ->)].
  - split; [|intros x []]. split; [intros _; exact Gq0|]. split; assumption.
  - assert (Qr : ops_in_range St (ob_queue C (e_world e) (ss_queue s) proc)).
    { unfold ob_queue. destruct (ob_enqueue_fold C (e_world e) proc (ss_queue s)) as (added & -> & I & _).
      apply Forall_app. split; [exact Gq0|]. apply Forall_forall. intros o Ho.
      destruct (I o Ho) as (p & _ & Hg). pose proof (get_ops_range (e_world e) p assignable true) as G.
      unfold ops_in_range in G. rewrite Forall_forall in G. apply G. exact Hg. }
    destruct (ob_run_queue _ _ _ _ _ _ _ _ _ R) as (pre & Eq & SL & _).
    rewrite Eq in Qr. apply Forall_app in Qr. destruct Qr as [Qp Qq]. split.
    + split; [intros _; exact Qq|]. split; [|exact Gs].
      intros p j Hj. apply (Gq p j). destruct p; exact Hj.
    + intros x Hx. apply in_map_iff in Hx. destruct Hx as (ev0 & <- & Hev).
      pose proof (ob_run_events _ _ _ _ _ _ _ _ _ R) as EV. rewrite Forall_forall in EV.
      destruct (EV ev0 Hev) as (_ & _ & _ & _ & mr & Ea & _). rewrite Ea. cbn [ob_asg a_ops].
      constructor; [|constructor]. unfold ops_in_range in Qp. rewrite Forall_forall in Qp. apply Qp.
      eapply sublist_In; [exact SL|]. apply in_map. exact Hev.
Qed.

(* priority and priority-pool: the jobs noted for suspending containers *)
Lemma noted_range e m :
  Forall pool_ok3 (e_pools e) ->
  (forall kv, In kv m -> jr (snd kv)) ->
  forall m', note_suspending_pools C (e_world e) (e_pools e) m = Ok m' ->
  forall kv, In kv m' -> jr (snd kv).
Proof.
  intros P Gs m' NS kv Hkv.
  destruct (note_suspending_pools_spec _ _ _ _ _ NS kv Hkv) as [Hold|(p & c & Hp & Hc & _ & N)].
  - apply Gs. exact Hold.
  - apply noted_job_fields in N. destruct N as (E1 & _). unfold jr. rewrite E1.
    apply not_completed_range. rewrite Forall_forall in P. destruct (P p Hp) as (_ & B & _).
    unfold conts_in_range in B. rewrite Forall_forall in B. apply B. exact Hc.
Qed.

Lemma pr_new_jobs_range w s results newp j : In j (pr_new_jobs C w s results newp) -> jr j.
Proof.
  intros Hj. unfold pr_new_jobs in Hj. cbv zeta in Hj.
  apply in_flat_map in Hj. destruct Hj as [p [_ Hj]].
  assert (R0 : forall o, In o (if cf_multi C then get_ops (S_of C) w p assignable false
                               else get_ops (S_of C) w p assignable true) ->
                         o < length (s_ops St)).
  { intros o Ho. destruct (cf_multi C); apply get_ops_In in Ho; eapply Hrange; apply Ho. }
  match type of Hj with In _ (match ?X with _ => _ end) => remember X as ops eqn:Eops end.
  assert (R1 : forall o, In o ops -> o < length (s_ops St)).
  { intros o Ho. rewrite Eops in Ho. apply filter_In in Ho. apply R0. tauto. }
  clear Eops R0. destruct ops as [|o t]; [destruct Hj|].
  destruct (cf_multi C).
  - destruct Hj as [<-|[]]. unfold jr. cbn [j_ops]. apply Forall_forall. exact R1.
  - apply in_map_iff in Hj. destruct Hj as [o' [<- Ho']]. unfold jr. cbn [j_ops].
    constructor; [apply R1; exact Ho' | constructor].
Qed.

Lemma priority_step_range s e results newp s' w' susps asgs :
  priority_step C s e results newp = Ok (s', w', susps, asgs) ->
  Forall pool_ok3 (e_pools e) -> sched_range APriority s ->
  sched_range APriority s' /\ forall x, In x asgs -> ops_in_range St (a_ops x).
Proof.
  intros H P (_ & Gq & Gs). pose proof H as H0. apply pr_step_inv in H0.
  destruct H0 as (m & lq & n1 & n2 & n3 & st1 & st2 & st3 & w1 & w2 & a1 & a2 & a3 & o1 & o2 & H0).
  destruct H0 as (NS & R8 & _ & _ & _ & S1 & S2 & S3 & Ea & Eq & Ei & Eb & _).
  pose proof (noted_range e _ P Gs m NS) as Gm.
  assert (Gp : forall q j, In j (pr_pre C s e results newp lq q) -> jr j).
  { intros q j Hj. unfold pr_pre in Hj. apply in_app_or in Hj.
    destruct Hj as [Hj|Hj]; [eapply Gq; eauto|].
    apply filter_In in Hj. destruct Hj as [Hj _]. apply in_app_or in Hj. destruct Hj as [Hj|Hj].
    - unfold pr_jobs in Hj.
      destruct newp as [|k newp']; [destruct results as [|r results']; [destruct Hj|]|];
        eapply pr_new_jobs_range; eauto.
    - destruct (R8 j Hj) as (p & c & Hp & Hc & _ & [Hin|N]).
      + apply (Gm _ Hin).
      + apply noted_job_fields in N. destruct N as (E1 & _). unfold jr. rewrite E1.
        apply not_completed_range. rewrite Forall_forall in P. destruct (P p Hp) as (_ & _ & D).
        unfold conts_in_range in D. rewrite Forall_forall in D. apply D. exact Hc. }
  split; [split; [intros X; discriminate|split]|].
  - intros p j Hj. destruct p; cbn [queue_of] in Hj;
      [rewrite Eq in Hj | rewrite Ei in Hj | rewrite Eb in Hj]; apply ExecLifeFacts.In_skipn in Hj;
      eapply Gp; eauto.
  - intros kv Hkv. apply Gm. eapply pr_step_suspending; eauto.
  - intros x Hx. subst asgs.
    assert (X : forall w0 st0 q o0 n st' w'' al o',
              pr_rel C w0 st0 (pr_pre C s e results newp lq q) o0 n st' w'' al o' ->
              In x al -> ops_in_range St (a_ops x)).
    { intros w0 st0 q o0 n st' w'' al o' R Hin. apply pr_rel_sub in R.
      destruct (scan_sub_In_r _ _ _ R Hin) as (j & Hj & Fo & _). rewrite Fo.
      eapply Gp. eapply In_firstn. exact Hj. }
    apply in_app_or in Hx. destruct Hx as [Hx|Hx]; [exact (X _ _ _ _ _ _ _ _ _ S1 Hx)|].
    apply in_app_or in Hx. destruct Hx as [Hx|Hx];
      [exact (X _ _ _ _ _ _ _ _ _ S2 Hx) | exact (X _ _ _ _ _ _ _ _ _ S3 Hx)].
Qed.

(* priority-pool: the noted map only shrinks in the re-queue loop *)
Lemma pp_step_suspending s e results newp s' w' susps asgs m :
  priority_pool_step C s e results newp = Ok (s', w', susps, asgs) ->
  note_suspending_pools C (e_world e) (e_pools e) (ss_suspending s) = Ok m ->
  forall kv, In kv (ss_suspending s') -> In kv m.
Proof.
  intros H NS0. unfold priority_pool_step in H. cbv zeta in H.
  pose proof (pp_new_queue C newp s) as N. cbv zeta in N.
  set (s1 := fold_left _ newp s) in *.
  destruct N as [_ [N2 _]].
  bok H s2 F.
  apply pp_failures_ok in F. destruct F as [_ [F2 _]].
  bok H m0 NS. rewrite F2, N2, NS0 in NS. inversion NS; subst m0.
  match type of H with
  | context [fold_left ?f (e_pools e) ?s3] =>
      pose proof (pp_requeue_pools_queue (e_pools e) s3) as R; cbv zeta in R;
      set (s4 := fold_left f (e_pools e) s3) in *
  end.
  destruct R as [lq [_ [_ [_ [_ [_ [R6 _]]]]]]]. cbn [ss_suspending] in R6.
  bok H r1 S1. destruct r1 as [[[[n1 x0a] w1] a1] o1]. cbv beta iota in H.
  bok H r2 S2. destruct r2 as [[[[n2 x0b] w2] a2] o2]. cbv beta iota in H.
  bok H r3 S3. destruct r3 as [[[[n3 x1a] w3] a3] o3]. cbv beta iota in H.
  injection H as Hs _ _ _. subst s'. cbn [ss_suspending]. exact R6.
Qed.

Lemma priority_pool_step_range s e results newp s' w' susps asgs :
  priority_pool_step C s e results newp = Ok (s', w', susps, asgs) ->
  Forall pool_ok3 (e_pools e) -> res_range results -> sched_range APriorityPool s ->
  sched_range APriorityPool s' /\ forall x, In x asgs -> ops_in_range St (a_ops x).
Proof.
  intros H P RR (_ & Gq & Gs). pose proof H as H0. apply pp_step_inv in H0.
  destruct H0 as (m & lq & n1 & n2 & n3 & x0a & x0b & x1a & w1 & w2 & a1 & a2 & a3 & o1 & o2 & H0).
  destruct H0 as (NS & Lq & _ & S1 & S2 & S3 & _ & Ea & Eq & Ei & Eb & _).
  pose proof (noted_range e _ P Gs m NS) as Gm.
  assert (Gp : forall q j, In j (pp_pre C s e results newp lq q) -> jr j).
  { intros q j Hj. unfold pp_pre in Hj. apply in_app_or in Hj.
    destruct Hj as [Hj|Hj]; [eapply Gq; eauto|].
    apply filter_In in Hj. destruct Hj as [Hj _]. apply in_app_or in Hj. destruct Hj as [Hj|Hj].
    - apply in_map_iff in Hj. destruct Hj as (k & <- & _). unfold jr, new_job. cbn [j_ops].
      apply Forall_forall. intros o Ho. eapply Hrange; eauto.
    - apply in_app_or in Hj. destruct Hj as [Hj|Hj].
      + apply in_map_iff in Hj. destruct Hj as (r & <- & Hr). apply filter_In in Hr. destruct Hr as [Hr _].
        unfold jr, fail_job. cbn [j_ops]. apply not_completed_range.
        unfold res_range in RR. rewrite Forall_forall in RR. apply RR. exact Hr.
      + destruct (Lq j Hj) as (p & c & _ & _ & Hin). apply (Gm _ Hin). }
  split; [split; [intros X; discriminate|split]|].
  - intros p j Hj. destruct p; cbn [queue_of] in Hj;
      [rewrite Eq in Hj | rewrite Ei in Hj | rewrite Eb in Hj]; apply ExecLifeFacts.In_skipn in Hj;
      eapply Gp; eauto.
  - intros kv Hkv. apply Gm. eapply pp_step_suspending; eauto.
  - intros x Hx. subst asgs.
    assert (X : forall pid w0 x0 q o0 n x' w'' al o',
              pp_rel C pid w0 x0 (pp_pre C s e results newp lq q) o0 n x' w'' al o' ->
              In x al -> ops_in_range St (a_ops x)).
    { intros pid w0 x0 q o0 n x' w'' al o' R Hin.
      destruct (pp_rel_from _ _ _ _ _ _ _ _ _ _ _ _ R Hin) as (j & Hj & _ & (Fo & _)). rewrite Fo.
      eapply Gp. eapply In_firstn. exact Hj. }
    apply in_app_or in Hx. destruct Hx as [Hx|Hx]; [exact (X _ _ _ _ _ _ _ _ _ _ S1 Hx)|].
    apply in_app_or in Hx. destruct Hx as [Hx|Hx];
      [exact (X _ _ _ _ _ _ _ _ _ _ S2 Hx) | exact (X _ _ _ _ _ _ _ _ _ _ S3 Hx)].
Qed.

(* every algorithm *)
Theorem sched_step_range a ss e results newp ss' w' susps asgs :
  sched_step C a ss e results newp = Ok (ss', w', susps, asgs) ->
  Forall pool_ok3 (e_pools e) -> res_range results -> sched_range a ss ->
  sched_range a ss' /\ forall x, In x asgs -> ops_in_range St (a_ops x).
Proof.
  destruct a; cbn [sched_step]; intros H P RR G.
  - eapply naive_step_range; eauto. discriminate.
  - eapply naive_step_range; eauto. discriminate.
  - eapply overbook_step_range; eauto.
  - eapply priority_step_range; eauto.
  - eapply priority_pool_step_range; eauto.
Qed.

(* ---- the invariant of the loop ---- *)

Definition sim_range (a : algo) (s : sim) : Prop :=
  wlen St (e_world (sm_exec s)) /\ Forall pool_ok3 (e_pools (sm_exec s)) /\
  res_range (sm_results s) /\ sched_range a (sm_sched s).

Lemma sim_range_init a np cpu ram : sim_range a (init_sim C np cpu ram).
Proof.
  unfold sim_range, init_sim, init_estate. cbn [sm_exec sm_results sm_sched e_world e_pools].
  split; [|split; [|split]].
  - unfold wlen, init_world. cbn [w_st]. apply repeat_length.
  - apply Forall_forall. intros p Hp. apply in_map_iff in Hp. destruct Hp as [i [<- _]].
    unfold pool_ok3, new_pool. cbn [p_active p_suspending p_suspended]. repeat split; constructor.
  - constructor.
  - apply sched_range_init.
Qed.

Lemma sim_range_inv a s : sim_range a s -> ExecLifeFacts.inv C (sm_exec s).
Proof.
  intros (L & P & _). split; [exact L|]. unfold containers_in_range.
  eapply Forall_impl; [|exact P]. intros p. apply pool_ok3_ok.
Qed.

(* one tick: the invariant survives and the assignments of the tick name known operators *)
Lemma sim_tick_range a t s newp s' lg :
  sim_range a s -> sim_tick C a t s newp = Ok (s', lg) ->
  sim_range a s' /\ forall x, In x (tl_asgs lg) -> ops_in_range St (a_ops x).
Proof.
  intros (L & P & RR & G) H. apply PriorityPoolRunFacts.sim_tick_ok_inv in H.
  destruct H as (arr & ss' & w' & susps & asgs & e2 & res & _ & Sch & Ex & E1 & E2 & E3 & _ & _ & _ & E7 & _).
  destruct (sched_step_range _ _ _ _ _ _ _ _ _ Sch P RR G) as [G' RA].
  pose proof (sched_step_world _ _ _ _ _ _ _ _ _ _ Sch) as Emk.
  assert (L' : wlen St w').
  { eapply steps_in_wlen; [|exact L]. eapply mk_assignments_steps_in; eauto. }
  destruct (exec_tick_range3 _ _ _ _ _ Ex L' P RA) as [P2 R2].
  assert (I1 : ExecLifeFacts.inv C {| e_world := w'; e_pools := e_pools (sm_exec s); e_next := e_next (sm_exec s) |}).
  { split; [exact L'|]. unfold containers_in_range. cbn [e_pools].
    eapply Forall_impl; [|exact P]. intros p. apply pool_ok3_ok. }
  destruct (exec_tick_steps_in _ _ _ _ _ _ Ex I1 RA) as [_ [L2 _]].
  rewrite E7. split; [|exact RA].
  unfold sim_range. rewrite E1, E2, E3. auto.
Qed.

(* C01, C02: every state of a run is reachable through in-range commands, for every algorithm *)
Theorem sim_reach_exec_r_from a e0 t0 s0 t s :
  sim_reach C a t0 s0 t s -> sim_range a s0 -> reach_exec_r C e0 (sm_exec s0) ->
  reach_exec_r C e0 (sm_exec s) /\ sim_range a s.
Proof.
  induction 1 as [t s|t0 s0 t s newp s' lg R IH T]; intros I0 R0; [auto|].
  destruct (IH I0 R0) as [R1 I1].
  destruct (sim_tick_range _ _ _ _ _ _ I1 T) as [I2 RA].
  split; [|exact I2]. destruct (sim_tick_exec_step _ _ _ _ _ _ _ T) as [X _].
  eapply rr_step; [exact R1|exact RA|exact X].
Qed.

Theorem sim_reach_exec_r_gen a np cpu ram t s :
  sim_reach C a 0%Z (init_sim C np cpu ram) t s ->
  reach_exec_r C (init_estate C np cpu ram) (sm_exec s).
Proof.
  intros R. eapply sim_reach_exec_r_from; [exact R|apply sim_range_init|]. cbn [init_sim sm_exec]. constructor.
Qed.

(* between two states of one run *)
Theorem sim_reach_exec_r_between a np cpu ram t s t' s' :
  sim_reach C a 0%Z (init_sim C np cpu ram) t s -> sim_reach C a t s t' s' ->
  reach_exec_r C (sm_exec s) (sm_exec s').
Proof.
  intros R1 R2.
  destruct (sim_reach_exec_r_from _ _ _ _ _ _ R1 (sim_range_init a np cpu ram) (rr_init C _)) as [_ I].
  eapply sim_reach_exec_r_from; [exact R2|exact I|constructor].
Qed.

(* the commands of every tick of a run name known operators *)
Theorem sim_run_asgs_in_range a : forall arrivals t s sf logs oe,
  sim_range a s -> sim_run C a t s arrivals = (sf, logs, oe) ->
  Forall (fun lg => forall x, In x (tl_asgs lg) -> ops_in_range St (a_ops x)) logs.
Proof.
  induction arrivals as [|newp r IH]; intros t s sf logs oe I H; cbn [sim_run] in H.
  - inversion H; subst. constructor.
  - destruct (sim_tick C a t s newp) as [[s1 lg]|e] eqn:E.
    + destruct (sim_run C a (t + 1)%Z s1 r) as [[sf' logs'] e'] eqn:R'. inversion H; subst.
      destruct (sim_tick_range _ _ _ _ _ _ I E) as [I1 RA]. constructor; [exact RA|]. eapply IH; eauto.
    + inversion H; subst. constructor.
Qed.

End Range.

(* ------------------------------------------------------------------------------------------ *)
(* 5. static data built by [mk_static]; the final state of [sim_run]                            *)
(* ------------------------------------------------------------------------------------------ *)

Theorem sim_reach_exec_r C a l np cpu ram t s :
  cf_static C = mk_static l -> dags_wf l ->
  sim_reach C a 0%Z (init_sim C np cpu ram) t s ->
  reach_exec_r C (init_estate C np cpu ram) (sm_exec s).
Proof.
  intros E W. apply sim_reach_exec_r_gen. rewrite E. apply mk_static_pipes_in_range. exact W.
Qed.

Theorem sim_reach_exec_r_run C a l np cpu ram t s t' s' :
  cf_static C = mk_static l -> dags_wf l ->
  sim_reach C a 0%Z (init_sim C np cpu ram) t s -> sim_reach C a t s t' s' ->
  reach_exec_r C (sm_exec s) (sm_exec s').
Proof.
  intros E W. apply sim_reach_exec_r_between. rewrite E. apply mk_static_pipes_in_range. exact W.
Qed.

Theorem sim_run_conserve C a np cpu ram arrivals sf logs oe :
  sim_run C a 0%Z (init_sim C np cpu ram) arrivals = (sf, logs, oe) ->
  ConserveFacts.reach_exec C (init_estate C np cpu ram) (sm_exec sf).
Proof. intros H. destruct (sim_run_reach _ _ _ _ _ _ _ _ H) as [t R]. eapply sim_reach_conserve; eauto. Qed.

Theorem sim_run_memory C a np cpu ram arrivals sf logs oe :
  sim_run C a 0%Z (init_sim C np cpu ram) arrivals = (sf, logs, oe) ->
  MemoryFacts.reach_exec C np cpu ram (sm_exec sf).
Proof. intros H. destruct (sim_run_reach _ _ _ _ _ _ _ _ H) as [t R]. eapply sim_reach_memory; eauto. Qed.

Theorem sim_run_hist C a np cpu ram arrivals sf logs oe :
  sim_run C a 0%Z (init_sim C np cpu ram) arrivals = (sf, logs, oe) ->
  reach_hist C (init_estate C np cpu ram) (sm_exec sf) (flat_map tl_results logs).
Proof. intros H. eapply reach_count_hist. eapply sim_run_count; eauto. Qed.

Theorem sim_run_exec_r C a l np cpu ram arrivals sf logs oe :
  cf_static C = mk_static l -> dags_wf l ->
  sim_run C a 0%Z (init_sim C np cpu ram) arrivals = (sf, logs, oe) ->
  reach_exec_r C (init_estate C np cpu ram) (sm_exec sf).
Proof.
  intros E W H. destruct (sim_run_reach _ _ _ _ _ _ _ _ H) as [t R]. eapply sim_reach_exec_r; eauto.
Qed.

(* ------------------------------------------------------------------------------------------ *)
(* 6. the executor-level invariants of C01, C02, C03, C09 in every state of every simulation    *)
(* ------------------------------------------------------------------------------------------ *)

(* C01 *)
Theorem sim_dep_inv C a l np cpu ram t s :
  cf_static C = mk_static l -> dags_wf l ->
  sim_reach C a 0%Z (init_sim C np cpu ram) t s ->
  DepInv (cf_static C) (e_world (sm_exec s)).
Proof. intros E W R. eapply exec_dep_inv_mk_static; eauto. eapply sim_reach_exec_r; eauto. Qed.

Theorem sim_run_dep_inv C a l np cpu ram arrivals sf logs oe :
  cf_static C = mk_static l -> dags_wf l ->
  sim_run C a 0%Z (init_sim C np cpu ram) arrivals = (sf, logs, oe) ->
  DepInv (cf_static C) (e_world (sm_exec sf)).
Proof. intros E W H. eapply exec_dep_inv_mk_static; eauto. eapply sim_run_exec_r; eauto. Qed.

(* C02: finality between any two states of one run; needs no hypothesis on the static data, because every
   request of a run (the scheduler's ASSIGNED requests and the executor's) is an accepted [transition] *)
Theorem sim_completed_final C a t s t' s' o :
  sim_reach C a t s t' s' ->
  st_of (e_world (sm_exec s)) o = Completed -> st_of (e_world (sm_exec s')) o = Completed.
Proof. intros R. apply (completed_final (cf_static C)). eapply sim_reach_steps; eauto. Qed.

(* the same through [ExecLifeFacts.exec_completed_final_run] and the reachability link *)
Theorem sim_completed_final_r C a l np cpu ram t s t' s' o :
  cf_static C = mk_static l -> dags_wf l ->
  sim_reach C a 0%Z (init_sim C np cpu ram) t s -> sim_reach C a t s t' s' ->
  st_of (e_world (sm_exec s)) o = Completed -> st_of (e_world (sm_exec s')) o = Completed.
Proof.
  intros E W R1 R2. eapply exec_completed_final_run.
  - eapply sim_reach_exec_r; eauto.
  - eapply sim_reach_exec_r_run; eauto.
Qed.

(* C02: an operator belongs to at most one live container, and an owned operator is busy *)
Theorem sim_unique_owner C a l np cpu ram t s :
  cf_static C = mk_static l -> dags_wf l ->
  sim_reach C a 0%Z (init_sim C np cpu ram) t s ->
  NoDup (sown (sm_exec s)) /\
  forall o, In o (sown (sm_exec s)) -> busy (st_of (e_world (sm_exec s)) o).
Proof.
  intros E W R. pose proof (sim_reach_exec_r _ _ _ _ _ _ _ _ E W R) as X. split.
  - eapply unique_owner; eauto.
  - intros o. eapply owned_busy; eauto.
Qed.

(* C03 *)
Theorem sim_conservation C a np cpu ram t s p :
  (0 <= cpu)%Z -> (0 <= ram)%Q ->
  sim_reach C a 0%Z (init_sim C np cpu ram) t s -> In p (e_pools (sm_exec s)) ->
  (p_avail_cpu p + sumZ (map c_cpu (p_active p ++ p_suspending p)) = cpu)%Z /\
  (p_avail_ram p + sumQ (map c_ram (p_active p ++ p_suspending p)) == ram)%Q /\
  (0 <= p_avail_cpu p <= cpu)%Z /\
  (cf_overcommit C = false -> (0 <= p_avail_ram p <= ram)%Q).
Proof.
  intros Hc Hr R Hp. apply (C03_reachable C np cpu ram (sm_exec s) p Hc Hr); [|exact Hp].
  eapply sim_reach_conserve; eauto.
Qed.

(* C09: the loop's own counters obey the ledger: assignments = successes + failures + suspended + live *)
Theorem sim_ledger_count C a np cpu ram t s :
  sim_reach C a 0%Z (init_sim C np cpu ram) t s ->
  exists h,
    reach_hist C (init_estate C np cpu ram) (sm_exec s) h /\
    sm_nfail s = Z.of_nat (length (filter r_err h)) /\
    sm_nasg s = Z.of_nat (length (filter (fun r => negb (r_err r)) h) + length (filter r_err h)
                          + live_count (sm_exec s) + suspended_count (sm_exec s)).
Proof.
  intros R. destruct (sim_reach_ledger _ _ _ _ _ _ _ R) as (h & X & N & F). exists h.
  split; [eapply reach_count_hist; eauto|]. split; [exact F|].
  rewrite <- (ledger_count _ _ _ _ _ _ _ X). rewrite Z2Nat.id by exact N. reflexivity.
Qed.

(* ... and for a whole run the history is what the logs recorded *)
Theorem sim_run_ledger C a np cpu ram arrivals sf logs oe :
  sim_run C a 0%Z (init_sim C np cpu ram) arrivals = (sf, logs, oe) ->
  let h := flat_map tl_results logs in
  length (flat_map tl_asgs logs) =
    length (filter (fun r => negb (r_err r)) h) + length (filter r_err h)
    + live_count (sm_exec sf) + suspended_count (sm_exec sf) /\
  NoDup (map r_cid h).
Proof.
  intros H h. split.
  - eapply ledger_count. eapply sim_run_count; eauto.
  - eapply results_once. eapply sim_run_hist; eauto.
Qed.

(* ------------------------------------------------------------------------------------------ *)
(* Examples (non-vacuity): one workload under all five schedulers                                *)
(* ------------------------------------------------------------------------------------------ *)
Module SimReachExamples.

(* pipeline 0: the diamond 0 -> {1, 2} -> 3 (query); pipeline 1: one operator that asks for 100 GB in its
   only tick and is OOM-killed whenever it runs (batch). Two pools of 10 CPUs / 10 GB, RAM overcommit
   allowed (overbook hands out the whole pool RAM to every container). *)
Definition Lx : list (prio * dag) := [(Query, [[]; [0]; [0]; [1; 2]]); (Batch, [[]])].
Definition Cx : cfg :=
  {| cf_static := mk_static Lx; cf_script := fun op _ => if Nat.eqb op 4 then [100%Q] else [1%Q];
     cf_tps := 10%Z; cf_overcommit := true; cf_multi := true; cf_rnd := fun q => q |}.

Lemma Lx_wf : dags_wf Lx.
Proof.
  unfold dags_wf, Lx.
  apply Forall_cons; [|apply Forall_cons; [|apply Forall_nil]];
    cbn [snd]; intros j Hj; cbn [length] in Hj;
    (destruct j as [|[|[|[|j]]]]; try lia); cbn;
    (split; [repeat constructor; cbn; intuition lia | intros p Hp; intuition lia]).
Qed.

Definition s_init : sim := init_sim Cx 2 10%Z 10%Q.
Definition run (a : algo) := sim_run Cx a 0%Z s_init [[0; 1]; []; []; []; []; []; []; []].
Definition final (a : algo) : sim := fst (fst (run a)).
Definition logs_of (a : algo) : list tick_log := snd (fst (run a)).
(* the state after three ticks *)
Definition mid (a : algo) : sim := fst (fst (sim_run Cx a 0%Z s_init [[0; 1]; []; []])).

(* what happens: every scheduler finishes the diamond, the big operator fails (once under naive and the
   starter, which never retry; three times under the others) *)
Example runs :
  map (fun a => (snd (run a), sm_nasg (final a), sm_nfail (final a), w_st (e_world (sm_exec (final a)))))
      [ANaive; AStarter; AOverbook; APriority; APriorityPool] =
  [ (None, 2%Z, 1%Z, [Completed; Completed; Completed; Completed; Failed]);
    (None, 5%Z, 1%Z, [Completed; Completed; Completed; Completed; Failed]);
    (None, 7%Z, 3%Z, [Completed; Completed; Completed; Completed; Failed]);
    (None, 4%Z, 3%Z, [Completed; Completed; Completed; Completed; Failed]);
    (None, 4%Z, 3%Z, [Completed; Completed; Completed; Completed; Failed]) ].
Proof. vm_compute. reflexivity. Qed.

(* after three ticks: live containers under naive, priority and priority-pool *)
Example mids :
  map (fun a => (w_st (e_world (sm_exec (mid a))), sm_nasg (mid a),
                 map (fun p => map c_ops (p_active p)) (e_pools (sm_exec (mid a)))))
      [ANaive; AStarter; AOverbook; APriority; APriorityPool] =
  [ ([Completed; Completed; Completed; Assigned; Failed], 2%Z, [[[0; 1; 2; 3]]; []]);
    ([Completed; Completed; Completed; Pending; Failed], 4%Z, [[]; []]);
    ([Completed; Completed; Completed; Completed; Failed], 7%Z, [[]; []]);
    ([Completed; Completed; Completed; Assigned; Failed], 4%Z, [[[0; 1; 2; 3]]; []]);
    ([Completed; Completed; Completed; Assigned; Failed], 4%Z, [[[0; 1; 2; 3]]; []]) ].
Proof. vm_compute. reflexivity. Qed.

Lemma run_eq a : run a = (final a, logs_of a, snd (run a)).
Proof. unfold final, logs_of. destruct (run a) as [[sf logs] oe]. reflexivity. Qed.

Lemma final_reach a : exists t, sim_reach Cx a 0%Z s_init t (final a).
Proof. eapply sim_run_reach. apply run_eq. Qed.

Lemma mid_reach a : exists t, sim_reach Cx a 0%Z s_init t (mid a).
Proof.
  unfold mid. destruct (sim_run Cx a 0%Z s_init [[0; 1]; []; []]) as [[sf logs] oe] eqn:E.
  eapply sim_run_reach. exact E.
Qed.

(* the run continues from [mid a] to [final a] *)
Lemma mid_final_reach a : exists t', sim_reach Cx a 3%Z (mid a) t' (final a).
Proof.
  apply (sim_run_reach Cx a [[]; []; []; []; []] 3%Z (mid a) (final a)
           (skipn 3 (logs_of a)) None).
  destruct a; vm_compute; reflexivity.
Qed.

(* the links, applied *)
Example final_reach_exec_r a : reach_exec_r Cx (init_estate Cx 2 10%Z 10%Q) (sm_exec (final a)).
Proof. eapply sim_run_exec_r; [reflexivity|exact Lx_wf|apply run_eq]. Qed.

Example final_reach_count a :
  reach_count Cx (init_estate Cx 2 10%Z 10%Q) (sm_exec (final a))
              (flat_map tl_results (logs_of a)) (length (flat_map tl_asgs (logs_of a))).
Proof. eapply sim_run_count. apply run_eq. Qed.

(* the four invariants on these states *)
Example mid_dep_inv a : DepInv (cf_static Cx) (e_world (sm_exec (mid a))).
Proof. destruct (mid_reach a) as [t R]. exact (sim_dep_inv Cx a Lx 2 10%Z 10%Q t (mid a) eq_refl Lx_wf R). Qed.

Example mid_final_finality a o :
  st_of (e_world (sm_exec (mid a))) o = Completed -> st_of (e_world (sm_exec (final a))) o = Completed.
Proof. destruct (mid_final_reach a) as [t' R]. exact (sim_completed_final Cx a 3%Z (mid a) t' (final a) o R). Qed.

Example mid_conservation a p :
  In p (e_pools (sm_exec (mid a))) ->
  (p_avail_cpu p + sumZ (map c_cpu (p_active p ++ p_suspending p)) = 10)%Z /\
  (p_avail_ram p + sumQ (map c_ram (p_active p ++ p_suspending p)) == 10)%Q.
Proof.
  intros Hp. destruct (mid_reach a) as [t R].
  destruct (sim_conservation Cx a 2 10%Z 10%Q t (mid a) p ltac:(lia) ltac:(lra) R Hp) as (A & B & _).
  split; assumption.
Qed.

Example mid_ledger a :
  exists h, reach_hist Cx (init_estate Cx 2 10%Z 10%Q) (sm_exec (mid a)) h /\
            sm_nasg (mid a) = Z.of_nat (length (filter (fun r => negb (r_err r)) h) + length (filter r_err h)
                                        + live_count (sm_exec (mid a)) + suspended_count (sm_exec (mid a))).
Proof.
  destruct (mid_reach a) as [t R]. destruct (sim_ledger_count Cx a 2 10%Z 10%Q t (mid a) R) as (h & H1 & _ & H3).
  exists h. split; assumption.
Qed.

End SimReachExamples.
