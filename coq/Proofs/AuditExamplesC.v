(* Audit C: witnesses for the theorem families added last (SimCorollaryFacts, NaiveRunFacts, SimTimelineFacts,
   CsvLazy/TraceFile, ChoiceFloat). Every statement here is closed by computation or a short proof; no new
   definition enters the model. See /tmp/w_audit/AUDIT_C.md for what each witness shows. *)
From Coq Require Import List Arith ZArith QArith Qabs Bool Lia Lqa Sorted.
Import ListNotations.
From Eudoxia Require Import Num.Rnd64 Model.Types Model.Dag Model.Lifecycle Model.Timing Model.Container
  Model.Pool Model.Executor Model.Sched Model.Simulator
  Proofs.OomFacts Proofs.LedgerFacts Proofs.MemoryFacts Proofs.PriorityPoolRunFacts Proofs.SimReachFacts
  Proofs.SimCorollaryFacts.
Close Scope Q_scope.
Close Scope Z_scope.

(* ====================================================================================================== *)
(* C04 / C11 at simulator level                                                                           *)
(* ====================================================================================================== *)
Module C04.
Import SimCorExamples.

(* P1. The conclusion of C04_sim_kill_own_limit_without_overcommit,
         exists c, r = result_of (r_pool r) (dead c) /\ c_completed c = false /\ c_ram c < c_mem c,
       holds of EVERY result with the error flag, whatever run, tick or scheduler it comes from and whether or
       not overcommit is on: [c] is not tied to any state, [result_of] does not look at [c_mem], so one may
       simply choose c_mem := c_ram + 1. The theorem therefore says nothing. *)
Lemma own_limit_conclusion_is_a_tautology : forall r, r_err r = true ->
  exists c, r = result_of (r_pool r) (dead c) /\ c_completed c = false /\ (c_ram c < c_mem c)%Q.
Proof.
  intros [cid ops cpu ram pr pool e] H. cbn in H. subst e.
  exists {| c_id := cid; c_ops := ops; c_cpu := cpu; c_ram := ram; c_prio := pr; c_opidx := 0;
            c_rest := None; c_frozen := false; c_mem := (ram + 1)%Q; c_can_suspend := false;
            c_completed := false; c_error := false; c_ticks := 0%Z; c_susp_left := 0%Z |}.
  split; [reflexivity|]. split; [reflexivity|]. cbn. lra.
Qed.

(* ... in particular of the failed result of the witness run of Properties/C04.v, which has overcommit ON and
   whose container was within its allocation (6 GB of 10 GB) *)
Example own_limit_conclusion_on_a_pool_level_victim :
  cf_overcommit Ck = true /\
  forall r, In r (tl_results klg0) -> r_err r = true ->
  exists c, r = result_of (r_pool r) (dead c) /\ c_completed c = false /\ (c_ram c < c_mem c)%Q.
Proof. split; [reflexivity|]. intros r _. apply own_limit_conclusion_is_a_tautology. Qed.

(* P2. C04_sim_kill_justified / C11_sim_kills: the containers [act4] "as they enter the killer" are bound by
   an existential that is tied to the pool only through the RESULTS and the world after the tick; their
   memory figures are not tied to the containers of the pool. Tick 0 of the witness run: both containers use
   6 GB of their 10 GB, container 0 is taken by the pool-level loop. *)
Definition kp : pool := Eval vm_compute in hd (new_pool 0 0%Z 0%Q) (e_pools (sm_exec k0)).
Definition kp' : pool := Eval vm_compute in hd (new_pool 0 0%Z 0%Q) (e_pools (sm_exec k1)).
Definition kasgs : list asg := Eval vm_compute in tl_asgs klg0.
Definition kw0 : world :=
  Eval vm_compute in match mk_assignments Ck (e_world (sm_exec k0)) kasgs with Ok w => w | Err _ => e_world (sm_exec k0) end.
Definition kres : list result := Eval vm_compute in tl_results klg0.
Definition kr : result := Eval vm_compute in hd {| r_cid := 9; r_ops := []; r_cpu := 0%Z; r_ram := 0%Q; r_prio := Batch; r_pool := 9; r_err := false |} kres.
Definition kw' : world := Eval vm_compute in e_world (sm_exec k1).

(* the real pool tick and the real containers after their [ctick]s *)
Definition real4 := Eval vm_compute in tick_active Ck kw0 0%Q (new_containers 0 kasgs).
Definition w4 : world := match real4 with Ok (w, _, _) => w | Err _ => kw0 end.
Definition act4r : list container := match real4 with Ok (_, _, a) => a | Err _ => [] end.

Example real_tick :
  pool_tick Ck kw0 0 kp [] kasgs = Ok (kw', 2, kp', kres) /\ In kr kres /\ r_err kr = true /\
  map (fun c => (c_id c, Qred (c_mem c), Qred (c_ram c), c_completed c)) act4r
    = [(0, 6%Q, 10%Q, false); (1, 6%Q, 10%Q, false)].
Proof. vm_compute. repeat split; try reflexivity. left; reflexivity. Qed.

(* fabricated containers: container 0 "uses" 11 GB; both are frozen so that one [ctick] only counts a tick *)
Definition fab (c : container) : container :=
  {| c_id := c_id c; c_ops := c_ops c; c_cpu := c_cpu c; c_ram := c_ram c; c_prio := c_prio c;
     c_opidx := c_opidx c; c_rest := c_rest c; c_frozen := true;
     c_mem := if Nat.eqb (c_id c) 0 then 11%Q else c_mem c;
     c_can_suspend := c_can_suspend c; c_completed := false; c_error := false; c_ticks := 0%Z;
     c_susp_left := c_susp_left c |}.
Definition act2f : list container := Eval vm_compute in map fab act4r.
Definition act4f : list container := Eval vm_compute in map tick_elapsed act2f.
Definition kill1f := Eval vm_compute in kill_over_limit Ck w4 17%Q act4f.
Definition act1f : list container := match kill1f with Ok (_, _, a) => a | Err _ => [] end.
Definition cons1f : Q := match kill1f with Ok (_, c, _) => c | Err _ => 0%Q end.
Definition c0f : container := Eval vm_compute in hd (new_container 9 [] 0%Z 0%Q Batch) act4f.

(* the whole existential body of C04_sim_kill_justified (for the real s = k0, s' = k1, the real pool tick and the
   real failed result kr), satisfied by the fabricated containers, with the OWN-LIMIT disjunct for a container
   that in the run stayed within its allocation and was a pool-level victim *)
Example kill_justified_body_accepts_fabricated_containers :
  exists i p p' w next ss asgs w' next' res,
    nth_error (e_pools (sm_exec k0)) i = Some p /\ nth_error (e_pools (sm_exec k1)) i = Some p' /\
    pool_tick Ck w next p ss asgs = Ok (w', next', p', res) /\ In kr res /\
    exists act2 w3 cons3 w4 cons4 act4 w1 cons1 act1 cons5 act5 vs,
      tick_active Ck w3 cons3 act2 = Ok (w4, cons4, act4) /\
      oom_killer Ck (p_max_ram p) w4 cons4 act4 = Ok (w', cons5, act5) /\
      res = map (result_of (p_id p)) (filter c_completed act5) /\
      kill_over_limit Ck w4 cons4 act4 = Ok (w1, cons1, act1) /\
      act1 = map (kill_when over_limit) act4 /\
      (cons4 == sumQ (map c_mem act4))%Q /\ (cons1 == sumQ (map c_mem act1))%Q /\
      (vs <> [] -> (p_max_ram p < cons1)%Q /\ cf_overcommit Ck = true) /\
      Forall (fun v => In v act4 /\ c_completed v = false /\
                       (c_mem v <= c_ram v)%Q /\ (0 < c_mem v)%Q) vs /\
      exists c, In c act4 /\ c_completed c = false /\ kr = result_of (p_id p) (dead c) /\
        (c_ram c < c_mem c)%Q.
Proof.
  exists 0, kp, kp', kw0, 0, [], kasgs, kw', 2, kres.
  split; [reflexivity|]. split; [reflexivity|]. split; [vm_compute; reflexivity|].
  split; [left; reflexivity|].
  exists act2f, w4, 17%Q, w4, 17%Q, act4f, kw', cons1f, act1f, cons1f, act1f, (@nil container).
  split; [vm_compute; reflexivity|]. split; [vm_compute; reflexivity|].
  split; [vm_compute; reflexivity|]. split; [vm_compute; reflexivity|].
  split; [vm_compute; reflexivity|]. split; [vm_compute; reflexivity|].
  split; [vm_compute; reflexivity|]. split; [intros H; congruence|]. split; [constructor|].
  exists c0f. split; [left; reflexivity|]. split; [reflexivity|]. split; [vm_compute; reflexivity|].
  vm_compute. reflexivity.
Qed.

(* the same for C11_sim_kills: its body (pool 0 of tick 0) is satisfied with NO pool-level victim at all
   (k = 0, vs = []), although in the run container 0 was the victim of the pool-level loop. Here the running
   list after the tick is part of the statement, so container 1 is the real one; container 0 is fabricated *)
Definition c1r : container := Eval vm_compute in nth 1 act4r (new_container 9 [] 0%Z 0%Q Batch).
Definition c0g : container := Eval vm_compute in
  match act4r with
  | c :: _ => {| c_id := c_id c; c_ops := c_ops c; c_cpu := c_cpu c; c_ram := c_ram c; c_prio := c_prio c;
                 c_opidx := c_opidx c; c_rest := c_rest c; c_frozen := c_frozen c; c_mem := 11%Q;
                 c_can_suspend := c_can_suspend c; c_completed := false; c_error := false;
                 c_ticks := c_ticks c; c_susp_left := c_susp_left c |}
  | [] => new_container 9 [] 0%Z 0%Q Batch
  end.
Definition act4g : list container := [c0g; c1r].
Definition kill1g := Eval vm_compute in kill_over_limit Ck w4 17%Q act4g.
Definition act1g : list container := match kill1g with Ok (_, _, a) => a | Err _ => [] end.
Definition cons1g : Q := match kill1g with Ok (_, c, _) => c | Err _ => 0%Q end.

Example C11_sim_kills_body_accepts_no_pool_level_victim :
  exists p' res w4 cons4 act4 w5 cons5 act5,
    nth_error (e_pools (sm_exec k1)) 0 = Some p' /\ p_id p' = p_id kp /\ p_max_ram p' = p_max_ram kp /\
    incl res (tl_results klg0) /\
    NoDup (map c_id act4) /\
    oom_killer Ck (p_max_ram kp) w4 cons4 act4 = Ok (w5, cons5, act5) /\
    p_active p' = filter (fun c => negb (c_completed c)) act5 /\
    res = map (result_of (p_id kp)) (filter c_completed act5) /\
    exists w1 cons1 act1 k vs,
      kill_over_limit Ck w4 cons4 act4 = Ok (w1, cons1, act1) /\
      act1 = map (kill_when over_limit) act4 /\
      k <= length (victims_order Ck act1) /\
      map c_id vs = firstn k (victims_order Ck act1) /\
      act5 = map (kill_if (firstn k (victims_order Ck act1))) act1 /\
      k = 0 /\ vs = [] /\
      cons5 = fold_left (cons_after Ck) vs cons1 /\
      Qle_bool cons5 (p_max_ram kp) = true.
Proof.
  exists kp', kres, w4, 17%Q, act4g, kw', cons1g, act1g.
  split; [reflexivity|]. split; [reflexivity|]. split; [reflexivity|].
  split; [intros x Hx; exact Hx|].
  split; [vm_compute; repeat constructor; cbn; intuition lia|].
  split; [vm_compute; reflexivity|]. split; [vm_compute; reflexivity|]. split; [vm_compute; reflexivity|].
  exists kw', cons1g, act1g, 0, (@nil container).
  split; [vm_compute; reflexivity|]. split; [vm_compute; reflexivity|]. split; [lia|].
  split; [reflexivity|]. split; [vm_compute; reflexivity|]. split; [reflexivity|]. split; [reflexivity|].
  split; [reflexivity|]. vm_compute. reflexivity.
Qed.

End C04.

(* ====================================================================================================== *)
(* missing hypothesis instances                                                                            *)
(* ====================================================================================================== *)
From Eudoxia Require Import Proofs.NaiveRunFacts.

Module C17.
Import NaiveRunExamples.

(* C17_run_failed_container_final had no instance of its hypothesis "a result with the error flag is among
   [sm_results s]": the state after tick 3 of the witness run (operator 2 was OOM-killed in that tick) *)
Definition run4 := sim_run Cx ANaive 0%Z s_init (firstn 4 arrs_a).
Definition s4 : sim := fst (fst run4).

Lemma run4_eq : sim_run Cx ANaive 0%Z s_init (firstn 4 arrs_a) = (s4, snd (fst run4), snd run4).
Proof. unfold s4, run4. destruct (sim_run Cx ANaive 0%Z s_init (firstn 4 arrs_a)) as [[a b] c]. reflexivity. Qed.

Lemma reach4 : sim_reach Cx (nalgo false) 0%Z s_init 4%Z s4.
Proof.
  pose proof (sim_run_reach_exact _ _ _ _ _ _ _ _ run4_eq) as R.
  assert (L : length (snd (fst run4)) = 4) by (vm_compute; reflexivity).
  rewrite L in R. exact R.
Qed.

Example failed_container_final_applies :
  map (fun r => (r_ops r, r_err r)) (sm_results s4) = [([2], true)] /\
  forall r, In r (sm_results s4) -> r_err r = true ->
    exists o, In o (r_ops r) /\ st_of (wof s4) o = Failed /\
      forall newp s'' lg, sim_tick Cx ANaive 4%Z s4 newp = Ok (s'', lg) ->
        forall a o', In a (tl_asgs lg) -> In o' (a_ops a) ->
          op_pipe (cf_static Cx) o' <> op_pipe (cf_static Cx) o.
Proof.
  split; [vm_compute; reflexivity|]. intros r Hr Er.
  destruct (run_failed_container_final Cx false Lx 1 4%Z 8%Q 4%Z s4 4%Z s4 r eq_refl Lx_wf reach4
              (sr_here _ _ _ _) Hr Er) as (o & A & B & _ & D).
  exists o. split; [exact A|]. split; [exact B|exact D].
Qed.

(* this run has RAM overcommit OFF and an own-limit kill: what a non-tautological version of
   C04_sim_kill_own_limit_without_overcommit should be instantiated on *)
Example overcommit_off_own_limit_kill :
  cf_overcommit Cx = false /\ map (fun r => (r_cid r, r_ops r, r_err r)) (sm_results s4) = [(1, [2], true)].
Proof. vm_compute. split; reflexivity. Qed.

End C17.

From Eudoxia Require Import Model.Csv Model.CsvLazy Model.Trace Model.TraceFile Proofs.CsvFacts Proofs.CsvLazyFacts
  Proofs.TraceFileFacts.

Module C13file.
Import CsvFacts.Examples CsvLazyFacts.LazyExamples TraceFileFacts.FileExamples.

(* C13_file_malformed_tick: all hypotheses at once on [six_bad] (the well-formed prefix is accepted AND in
   arrival order, the refusal surfaces in call 30), and the theorem applied *)
Definition ps5 : list pipeline_m := [at_ 0%Q; at_ a007; at_ a007; at_ a03; at_ 1%Q].

Lemma prefix_ok : read_rows_c (good_prefix six_bad) = inr ps5.
Proof. vm_compute. reflexivity. Qed.

Lemma prefix_sorted : StronglySorted Qle (map pm_arr ps5).
Proof.
  repeat (constructor; [|repeat (constructor; [vm_compute; discriminate|]); try constructor]). constructor.
Qed.

Example malformed_tick_applies :
  30 < 32 /\ forall x, In x (last (fst (lazy_batches six_bad)) []) -> file_tick rnd64 100 x = 30%Z.
Proof.
  apply (file_malformed_tick 100 32 six_bad RUnknownLaw ps5); [reflexivity| | exact prefix_ok | exact prefix_sorted |].
  - vm_compute. reflexivity.
  - vm_compute. reflexivity.
Qed.

(* C13_file_malformed_never_silent: its three hypotheses on [six_bad], 32 calls (the prefix alone hands out 4
   pipelines, the batches before the last delivered one hold 3), and the theorem applied *)
Example malformed_never_silent_applies :
  snd (file_replay_with rnd64 100 32 six_bad) = Some RUnknownLaw.
Proof.
  apply (file_malformed_never_silent rnd64 100 32 six_bad RUnknownLaw).
  - vm_compute. reflexivity.
  - vm_compute. discriminate.
  - vm_compute. lia.
Qed.

(* C13_file_float_window: hypotheses on [six] (pipeline 1, arrival the double 0.07, returned by call 8) *)
Definition ps6 : list pipeline_m := [at_ 0%Q; at_ a007; at_ a007; at_ a03; at_ 1%Q; at_ 1%Q].
Example float_window_applies :
  (ceilQ (a007 * inject_Z 100 * (1 - (4 # 9007199254740992))) <= 8
   <= ceilQ (a007 * inject_Z 100 * (1 + (4 # 9007199254740992))))%Z.
Proof.
  apply (file_float_window 100 32 six ps6 eq_refl (proj1 ex_hyps) (proj2 ex_hyps) 8 (1, at_ a007)).
  - vm_compute. left. reflexivity.
  - vm_compute. discriminate.
Qed.

(* totalisation: the file theorems without a hypothesis on tps (C13_file_replay_is_replay,
   C13_file_once_in_file_order, the C13_file_malformed_* family except _tick) also speak about tps = 0, where
   WorkloadTrace.__init__ raises ZeroDivisionError: the model divides by tick_length = rnd64 (1/0) = 0, gets
   tick 0 for every arrival and hands the whole file out in the first call *)
Example tps_zero_is_totalised :
  file_replay 0 2 six = ([[(0, at_ 0%Q); (1, at_ a007); (2, at_ a007); (3, at_ a03); (4, at_ 1%Q); (5, at_ 1%Q)]; []], None).
Proof. vm_compute. reflexivity. Qed.

End C13file.

From Eudoxia Require Import Model.Generator Proofs.GeneratorFacts Proofs.ChoiceFloatFacts.

Module C15.
Open Scope Q_scope.

(* C15_choice_float_prio_probs_close_3: the hypotheses on the default mix 0.3 / 0.1 / 0.6 (the doubles) and
   u = 0.35 (the double), and the conclusion computed independently *)
Definition d03 : Q := rnd64 (3 # 10).
Definition d01 : Q := rnd64 (1 # 10).
Definition d06 : Q := rnd64 (6 # 10).
Definition u035 : Q := rnd64 (35 # 100).
Definition user : list Q := [d03; d01; d06].

Example close_3_hyps :
  length user = 3%nat /\ nonnegl user /\ 0 < sumQl user /\
  (forall k, (k < 3)%nat -> (1 # 562949953421312) < Qabs (u035 - cdf (exact_norm user) (S k))) /\
  choice_float (prio_probs user) u035 = 1%nat /\ choice_of (exact_norm user) u035 = 1%nat.
Proof.
  split; [reflexivity|]. split; [repeat constructor; vm_compute; discriminate|].
  split; [vm_compute; reflexivity|]. split.
  - intros k Hk. destruct k as [|[|[|k]]]; try lia; vm_compute; reflexivity.
  - split; vm_compute; reflexivity.
Qed.

Example close_3_applies : choice_float (prio_probs user) u035 = choice_of (exact_norm user) u035.
Proof.
  destruct close_3_hyps as (A & B & D & E & _).
  exact (choice_float_prio_probs_close_3 user u035 A B D E).
Qed.

(* C15_gen_u_zero_prob_never applied to the run of C15_ex_run_u (interactive 0, query 1/2, batch 1/2) *)
Definition P0 : gparams := {| g_np := 2; g_nops := 3 # 1; g_ratio := 1 # 2; g_wmean := 2 |}.
Definition ds0 : list udraw := [UUniform (1 # 5); UUniform (7 # 10); UNormal (3 # 1) (6 # 5); UNormal (2 # 1) (2 # 5)].
Definition res0 : list (list gpipe) * gstate :=
  Eval vm_compute in match gen_run_u P0 [0; 1 # 2; 1 # 2] 1 ds0 with Some x => x | None => ([], gen_init []) end.

Lemma run0 : gen_run_u P0 [0; 1 # 2; 1 # 2] 1 ds0 = Some (fst res0, snd res0).
Proof. vm_compute. reflexivity. Qed.

Example gen_u_zero_prob_never_applies :
  length (concat (fst res0)) = 2%nat /\
  forall p, In p (concat (fst res0)) ->
    exists k, nth_error priority_values k = Some (gp_prio p) /\ ~ nth k [0; 1 # 2; 1 # 2] 0 == 0.
Proof.
  split; [reflexivity|].
  apply (gen_u_zero_prob_never P0 [0; 1 # 2; 1 # 2] 1%nat ds0 (fst res0) (snd res0) eq_refl); [|exact run0].
  repeat constructor; vm_compute; discriminate.
Qed.

(* the model of choice has no counterpart of numpy's input validation (ValueError for a negative entry): with
   user probabilities (-1/2, 1, 1/2) the model draws classes where the implementation raises *)
Example negative_probability_is_not_refused :
  option_map (fun x => map (map gp_prio) (fst x)) (gen_run_u P0 [-1 # 2; 1; 1 # 2] 1 ds0) = Some [[1%Z; 3%Z]].
Proof. vm_compute. reflexivity. Qed.

End C15.

(* ====================================================================================================== *)
(* Repair of P1: what C04_sim_kill_own_limit_without_overcommit was meant to say, in the words of the       *)
(* property ("without overcommit a container that stays within its allocation is never killed"), about the *)
(* REAL containers of the run: [cstep C c] (Proofs/SimTimelineFacts.v) is the state of the running         *)
(* container [c] after this tick's [ctick].                                                                *)
(* ====================================================================================================== *)
From Eudoxia Require Import Proofs.ConserveFacts Proofs.ExecLifeFacts Proofs.SimTimelineFacts.

Module Repair.

Lemma pool_tick_within_alloc_survives C w next p ss asgs w' next' p' res c :
  (forall x, (cf_rnd C x == x)%Q) ->
  cf_overcommit C = false ->
  pool_tick C w next p ss asgs = Ok (w', next', p', res) ->
  MemoryFacts.usage_ok p -> MemoryFacts.ids_ok next p -> all_running p -> ram_ok p ->
  (forall a, In a asgs -> (0 <= a_ram a)%Q) ->
  In c (p_active p) -> ~ In (c_id c) (map su_cid ss) ->
  c_completed (cstep C c) = false -> (c_mem (cstep C c) <= c_ram (cstep C c))%Q ->
  In (cstep C c) (p_active p').
Proof.
  intros Ex Ho H U I A R Hasg Hc Hn Hc0 Hle.
  destruct (ram_chain _ _ _ _ _ _ _ _ _ _ H I (proj1 R)) as [_ Hentry].
  apply MemoryFacts.pool_tick_view in H. destruct H.
  specialize (Hentry _ _ _ _ _ _ _ _ _ _ _ tv_p1 tv_p2 tv_p4).
  destruct (act4_ram_bound _ _ _ _ _ _ _ _ _ _ _ _ _ _ _ _ _ _ Ho R Hasg tv_p1 tv_p2 tv_p4)
    as (Ha2 & Hn4 & Hn1).
  destruct (usage_chain C Ex _ _ _ _ _ _ _ _ _ _ _ _ _ _ _ _ _ _ _ _ U tv_p1 tv_p2 tv_p4 tv_p5)
    as (_ & H4 & _).
  assert (Hs1 : (0 <= sumQ (map c_ram sing1))%Q) by (apply MemoryFacts.sumQ_nonneg; exact Hn1).
  assert (Hmax : (sumQ (map c_ram act4) <= p_max_ram p)%Q) by lra.
  assert (Hn4' : forall x, In x act4 -> (0 <= c_ram x)%Q).
  { intros x Hx. apply Hn4. apply in_map. exact Hx. }
  destruct (oom_no_pool_kill _ _ _ _ _ _ _ _ Ex H4 Hn4' Hmax tv_p5) as (K & E5 & _).
  assert (H1 : In c act1).
  { unfold MemoryFacts.phase1 in tv_p1. destruct ss as [|s0 t0]; [inversion tv_p1; subst; exact Hc|].
    sbok tv_p1 u V. sbok tv_p1 r1 B. destruct r1 as [[wa acta] singa]. inversion tv_p1; subst.
    eapply apply_suspends_keeps; eauto. }
  assert (H2 : In c act2).
  { apply MemoryFacts.phase2_spec in tv_p2. destruct tv_p2 as (_ & _ & _ & news & -> & _).
    apply in_or_app. left. exact H1. }
  pose proof (tick_active_spec _ _ _ _ _ _ _ tv_p4) as (_ & _ & F2).
  destruct (Forall2_in_l' _ _ _ F2 _ H2) as (c1 & Hc4 & wa & ca & wb & cb & _ & T & _).
  pose proof (ctick_cstep _ _ _ _ _ _ _ T) as E1. subst c1.
  rewrite tv_active. apply filter_In. split; [|rewrite Hc0; reflexivity].
  rewrite E5. apply Qltb_false in Hle. rewrite <- (kill_when_other over_limit (cstep C c) Hle).
  apply in_map. exact Hc4.
Qed.

Theorem sim_no_overcommit_within_alloc_never_killed : forall C a np cpu ram,
  (forall x, (cf_rnd C x == x)%Q) -> script_nonneg C -> (0 <= ram)%Q ->
  forall t s newp s' lg i p c,
  sim_reach C a 0%Z (init_sim C np cpu ram) t s ->
  sim_tick C a t s newp = Ok (s', lg) ->
  cf_overcommit C = false ->
  nth_error (e_pools (sm_exec s)) i = Some p -> In c (p_active p) ->
  (forall su, In su (tl_susp lg) -> su_cid su <> c_id c) ->
  c_completed (cstep C c) = false -> (c_mem (cstep C c) <= c_ram (cstep C c))%Q ->
  exists p', nth_error (e_pools (sm_exec s')) i = Some p' /\ In (cstep C c) (p_active p') /\
             forall r, In r (tl_results lg) -> r_cid r <> c_id c.
Proof.
  intros C a np cpu ram Ex SN Hram t s newp s' lg i p c R T Ho Hi Hc Hq Hc0 Hle.
  destruct (sim_tick_pool_at _ _ _ _ _ _ _ _ _ T Hi) as (w0 & p' & res & M & Hi' & _ & P).
  destruct P as (w & n & w' & n' & Ln & _ & _ & PT). cbn [fst snd] in PT.
  pose proof (sim_pool_inv C a np cpu ram Ex SN Hram _ _ R) as J. rewrite Forall_forall in J.
  pose proof (MemoryFacts.pool_inv_mono C _ _ p Ln (J p (nth_error_In _ _ Hi))) as (U & I & A & _ & _ & _ & _ & RO).
  assert (Hasg : forall x, In x (mine_a p (tl_asgs lg)) -> (0 <= a_ram x)%Q).
  { intros x Hx. apply filter_In in Hx. apply Qlt_le_weak. eapply mk_assignments_ram; [exact M|tauto]. }
  assert (Hn : ~ In (c_id c) (map su_cid (mine_s p (tl_susp lg)))).
  { intros X. apply in_map_iff in X. destruct X as (su & E & Hsu). apply filter_In in Hsu.
    apply (Hq su); tauto. }
  pose proof (pool_tick_within_alloc_survives _ _ _ _ _ _ _ _ _ _ c Ex Ho PT U I A (RO Ho) Hasg Hc Hn Hc0 Hle) as S.
  exists p'. split; [exact Hi'|]. split; [exact S|].
  intros r Hr E.
  pose proof (sim_tick_present_no_result C a np cpu ram _ _ _ _ _ _ _ _ R T Hi' S r Hr) as X.
  apply X. rewrite E. destruct (cstep_static C c) as (Eid & _). symmetry. exact Eid.
Qed.

(* it applies: the naive run of Properties/C05.v Part 4 (overcommit off), state x3 at tick 3, container 1 (one tick
   old, second tick of operator 1 at 1 GB of 8 GB): within its allocation, so it runs on and nothing is reported *)
Import SimTimelineExamples.

Lemma xC_exact : forall x, (cf_rnd xC x == x)%Q.
Proof. intros x. reflexivity. Qed.
Lemma xC_nonneg : script_nonneg xC.
Proof.
  intros op cpus m H. cbn in H.
  destruct (Nat.eqb op 0); [|destruct (Nat.eqb op 1)]; cbn in H; intuition (subst; lra).
Qed.

Definition x4 : sim := Eval vm_compute in SimCorExamples.ok_state x3 (sim_tick xC ANaive 3%Z x3 []).
Definition xlg3 : tick_log := Eval vm_compute in SimCorExamples.ok_log (sim_tick xC ANaive 3%Z x3 []).
Lemma x_tick3 : sim_tick xC ANaive 3%Z x3 [] = Ok (x4, xlg3).
Proof. vm_compute. reflexivity. Qed.

Example repaired_theorem_applies :
  cf_overcommit xC = false /\
  exists p', nth_error (e_pools (sm_exec x4)) 0 = Some p' /\ In (cstep xC xc1) (p_active p') /\
             forall r, In r (tl_results xlg3) -> r_cid r <> c_id xc1.
Proof.
  split; [reflexivity|].
  apply (sim_no_overcommit_within_alloc_never_killed xC ANaive 1 4%Z 8%Q xC_exact xC_nonneg ltac:(discriminate)
           3%Z x3 [] x4 xlg3 0 xp3 xc1 x_reach3 x_tick3 eq_refl x_pool3 x_active3).
  - intros su Hsu. vm_compute in Hsu. destruct Hsu.
  - vm_compute. reflexivity.
  - vm_compute. discriminate.
Qed.

End Repair.
