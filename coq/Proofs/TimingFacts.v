(* Tick arithmetic facts for Model/Timing.v: how far the float pipeline of ticks_of / io_secs /
   io_mem can be from the exact specification (spec_io_ticks, spec_io_mem), for an abstract
   rounding function with relative error 2^-53, its instances for rnd64 and for exact arithmetic,
   and the length / "at least one tick" facts of op_seg_ticks and op_script. *)
From Coq Require Import ZArith QArith Qabs Qround List Bool Arith Lia Lqa Psatz.
From Eudoxia Require Import Num.Rnd64 Model.Types Model.Timing Proofs.Rnd64Facts.
Import ListNotations.
Open Scope Q_scope.

Lemma floorQ_Qfloor x : floorQ x = Qfloor x.
Proof. destruct x; reflexivity. Qed.

Lemma truncQ_floorQ x : 0 <= x -> truncQ x = floorQ x.
Proof.
  intros H. unfold truncQ, floorQ. apply Z.quot_div_nonneg.
  - unfold Qle in H; simpl in H; lia.
  - reflexivity.
Qed.

Lemma floorQ_comp x y : x == y -> floorQ x = floorQ y.
Proof. intros H. rewrite !floorQ_Qfloor. apply Qfloor_comp, H. Qed.

Lemma floorQ_nonneg x : 0 <= x -> (0 <= floorQ x)%Z.
Proof.
  intros H. unfold floorQ. apply Z.div_pos; [|reflexivity].
  unfold Qle in H; simpl in H; lia.
Qed.

Lemma inject_Z_pos z : (0 < z)%Z -> 0 < inject_Z z.
Proof. intros H. unfold Qlt; simpl; lia. Qed.

Local Notation u53 := (1 # 9007199254740992).

(* pure arithmetic cores *)
Lemma close_core (y w q : Q) :
  0 <= y -> 1 - u53 <= w -> w <= 1 + u53 ->
  y * (1 - u53) <= q -> q <= y * (1 + u53) ->
  - (y * w * (4 # 9007199254740992)) <= q - y * w /\ q - y * w <= y * w * (4 # 9007199254740992).
Proof.
  intros Hy Hw1 Hw2 Hq1 Hq2. split; nra.
Qed.

Lemma floorQ_pm1 (q x : Q) : Qabs (q - x) <= 1 ->
  (floorQ x - 1 <= floorQ q <= floorQ x + 1)%Z.
Proof.
  intros H. apply Qabs_Qle_condition in H. destruct H as [A B].
  rewrite !floorQ_Qfloor.
  pose proof (Qfloor_le x) as X1. pose proof (Qlt_floor x) as X2.
  pose proof (Qfloor_le q) as Q1. pose proof (Qlt_floor q) as Q2.
  rewrite inject_Z_plus in X2, Q2. change (inject_Z 1) with 1 in X2, Q2.
  split.
  - assert (L : inject_Z (Qfloor x) < inject_Z (Qfloor q + 2)).
    { rewrite !inject_Z_plus. change (inject_Z 2) with 2. lra. }
    rewrite <- Zlt_Qlt in L. lia.
  - assert (L : inject_Z (Qfloor q) < inject_Z (Qfloor x + 2)).
    { rewrite !inject_Z_plus. change (inject_Z 2) with 2. lra. }
    rewrite <- Zlt_Qlt in L. lia.
Qed.

Lemma floorQ_away (q x e : Q) : Qabs (q - x) <= e ->
  (forall k : Z, ~ Qabs (inject_Z k - x) <= e) -> floorQ q = floorQ x.
Proof.
  intros H Hk. apply Qabs_Qle_condition in H. destruct H as [A B].
  rewrite !floorQ_Qfloor.
  pose proof (Qfloor_le x) as X1. pose proof (Qlt_floor x) as X2.
  pose proof (Qfloor_le q) as Q1. pose proof (Qlt_floor q) as Q2.
  destruct (Z.lt_trichotomy (Qfloor q) (Qfloor x)) as [L|[L|L]]; [exfalso| exact L |exfalso].
  - (* q < floor x <= x *)
    apply (Hk (Qfloor x)). apply Qabs_Qle_condition.
    assert (L' : (Qfloor q + 1 <= Qfloor x)%Z) by lia.
    rewrite Zle_Qle in L'. lra.
  - (* x < floor q <= q *)
    apply (Hk (Qfloor q)). apply Qabs_Qle_condition.
    assert (L' : (Qfloor x + 1 <= Qfloor q)%Z) by lia.
    rewrite Zle_Qle in L'. lra.
Qed.

Section TickArith.
Variable rnd : Q -> Q.
Hypothesis H1 : forall x y, x <= y -> rnd x <= rnd y.
Hypothesis H2 : forall x, Qabs (rnd x - x) <= Qabs x * (1 # 9007199254740992).
Hypothesis H3 : forall x y, x == y -> rnd x == rnd y.
(* Every lemma of this section turns out to need H2 only (rnd-terms are never rewritten, only
   bounded), so after the section they take the single premise H2; H1 and H3 stay unused. *)

Lemma rnd_rel x : 0 <= x -> x * (1 - u53) <= rnd x /\ rnd x <= x * (1 + u53).
Proof.
  intros Hx. pose proof (H2 x) as He. rewrite (Qabs_pos x Hx) in He.
  apply Qabs_Qle_condition in He. destruct He as [A B]. split; lra.
Qed.

Lemma rnd_nonneg x : 0 <= x -> 0 <= rnd x.
Proof. intros Hx. destruct (rnd_rel x Hx) as [A _]. lra. Qed.

(* the reciprocal tick length *)
Lemma tick_len_facts tps : (0 < tps)%Z ->
  let t := rnd (1 / inject_Z tps) in
  0 < t /\ 1 - u53 <= t * inject_Z tps /\ t * inject_Z tps <= 1 + u53 /\
  1 / inject_Z tps * (1 - u53) <= t /\ t <= 1 / inject_Z tps * (1 + u53).
Proof.
  intros Htps t. pose proof (inject_Z_pos tps Htps) as HT.
  set (T := inject_Z tps) in *.
  assert (Ha : (1 / T) * T == 1) by (field; lra).
  assert (Ha0 : 0 < 1 / T) by (apply Qlt_shift_div_l; lra).
  destruct (rnd_rel (1 / T) (Qlt_le_weak _ _ Ha0)) as [A B]. fold t in A, B.
  set (a := 1 / T) in *.
  split; [lra|]. split; [nra|]. split; [nra|]. split; assumption.
Qed.

Lemma ticks_of_close tps secs : 0 <= secs -> (0 < tps)%Z ->
  Qabs (rnd (secs / rnd (1 / inject_Z tps)) - secs * inject_Z tps)
    <= secs * inject_Z tps * (4 # 9007199254740992).
Proof.
  intros Hs Htps. destruct (tick_len_facts tps Htps) as (Ht & W1 & W2 & _ & _).
  pose proof (inject_Z_pos tps Htps) as HT.
  set (T := inject_Z tps) in *. set (t := rnd (1 / T)) in *.
  assert (Hy : secs / t * t == secs) by (field; lra).
  assert (Hy0 : 0 <= secs / t) by (apply Qle_shift_div_l; lra).
  destruct (rnd_rel _ Hy0) as [Q1 Q2].
  set (y := secs / t) in *. set (q := rnd y) in *.
  assert (Hx : secs * T == y * (t * T)) by (rewrite <- Hy; ring).
  rewrite Hx. apply Qabs_Qle_condition.
  apply close_core; assumption.
Qed.

Lemma ticks_of_arg_nonneg tps secs : 0 <= secs -> (0 < tps)%Z ->
  0 <= rnd (secs / rnd (1 / inject_Z tps)).
Proof.
  intros Hs Htps. destruct (tick_len_facts tps Htps) as (Ht & _).
  apply rnd_nonneg. apply Qle_shift_div_l; [exact Ht | lra].
Qed.

Lemma ticks_of_floor tps secs : 0 <= secs -> (0 < tps)%Z ->
  ticks_of rnd tps secs = floorQ (rnd (secs / rnd (1 / inject_Z tps))).
Proof.
  intros Hs Htps. unfold ticks_of. apply truncQ_floorQ, ticks_of_arg_nonneg; assumption.
Qed.

Lemma ticks_of_nonneg tps secs : 0 <= secs -> (0 < tps)%Z -> (0 <= ticks_of rnd tps secs)%Z.
Proof.
  intros Hs Htps. rewrite ticks_of_floor by assumption.
  apply floorQ_nonneg, ticks_of_arg_nonneg; assumption.
Qed.

Lemma ticks_of_pm1 tps secs : 0 <= secs -> (0 < tps)%Z ->
  secs * inject_Z tps * (4 # 9007199254740992) <= 1 ->
  (floorQ (secs * inject_Z tps) - 1 <= ticks_of rnd tps secs <= floorQ (secs * inject_Z tps) + 1)%Z.
Proof.
  intros Hs Htps Hsmall. rewrite ticks_of_floor by assumption.
  apply floorQ_pm1. eapply Qle_trans; [apply ticks_of_close; assumption | exact Hsmall].
Qed.

Lemma ticks_of_exact_away tps secs : 0 <= secs -> (0 < tps)%Z ->
  (forall k : Z, ~ Qabs (inject_Z k - secs * inject_Z tps)
                    <= secs * inject_Z tps * (4 # 9007199254740992)) ->
  ticks_of rnd tps secs = floorQ (secs * inject_Z tps).
Proof.
  intros Hs Htps Hk. rewrite ticks_of_floor by assumption.
  eapply floorQ_away; [apply ticks_of_close; assumption | exact Hk].
Qed.

Lemma ticks_of_pm1_cases tps secs : 0 <= secs -> (0 < tps)%Z ->
  secs * inject_Z tps * (4 # 9007199254740992) <= 1 ->
  ticks_of rnd tps secs = (floorQ (secs * inject_Z tps) - 1)%Z \/
  ticks_of rnd tps secs = floorQ (secs * inject_Z tps) \/
  ticks_of rnd tps secs = (floorQ (secs * inject_Z tps) + 1)%Z.
Proof.
  intros Hs Htps Hsmall. pose proof (ticks_of_pm1 tps secs Hs Htps Hsmall). lia.
Qed.

(* ---- (e) I/O ticks: three roundings ---- *)
Lemma io_secs_nonneg s : 0 <= sg_read s -> 0 <= io_secs rnd s.
Proof.
  intros Hr. unfold io_secs, disk_scan. apply rnd_nonneg.
  apply Qle_shift_div_l; lra.
Qed.

Lemma io_ticks_close tps s : 0 <= sg_read s -> (0 < tps)%Z ->
  Qabs (rnd (io_secs rnd s / rnd (1 / inject_Z tps)) - sg_read s / 20 * inject_Z tps)
    <= sg_read s / 20 * inject_Z tps * (6 # 9007199254740992).
Proof.
  intros Hr Htps.
  pose proof (ticks_of_close tps (io_secs rnd s) (io_secs_nonneg s Hr) Htps) as Hc.
  apply Qabs_Qle_condition in Hc. destruct Hc as [C1 C2].
  pose proof (inject_Z_pos tps Htps) as HT.
  assert (Hr20 : 0 <= sg_read s / 20) by (apply Qle_shift_div_l; lra).
  destruct (rnd_rel _ Hr20) as [S1 S2].
  change (rnd (sg_read s / 20)) with (io_secs rnd s) in S1, S2.
  set (q := rnd (io_secs rnd s / rnd (1 / inject_Z tps))) in *.
  set (s' := io_secs rnd s) in *. set (r := sg_read s / 20) in *. set (T := inject_Z tps) in *.
  assert (X0 : 0 <= r * T) by (apply Qmult_le_0_compat; lra).
  assert (X1 : r * T * (1 - u53) <= s' * T) by nra.
  assert (X2 : s' * T <= r * T * (1 + u53)) by nra.
  set (x := r * T) in *. set (x' := s' * T) in *.
  apply Qabs_Qle_condition. split; lra.
Qed.

Lemma io_ticks_floor tps s : 0 <= sg_read s -> (0 < tps)%Z ->
  ticks_of rnd tps (io_secs rnd s) = floorQ (rnd (io_secs rnd s / rnd (1 / inject_Z tps))).
Proof. intros Hr Htps. apply ticks_of_floor; [apply io_secs_nonneg|]; assumption. Qed.

Lemma io_ticks_pm1 tps s : 0 <= sg_read s -> (0 < tps)%Z ->
  sg_read s / 20 * inject_Z tps * (6 # 9007199254740992) <= 1 ->
  (spec_io_ticks tps s - 1 <= ticks_of rnd tps (io_secs rnd s) <= spec_io_ticks tps s + 1)%Z.
Proof.
  intros Hr Htps Hsmall. rewrite io_ticks_floor by assumption. unfold spec_io_ticks.
  apply floorQ_pm1. eapply Qle_trans; [apply io_ticks_close; assumption | exact Hsmall].
Qed.

Lemma io_ticks_pm1_cases tps s : 0 <= sg_read s -> (0 < tps)%Z ->
  sg_read s / 20 * inject_Z tps * (6 # 9007199254740992) <= 1 ->
  ticks_of rnd tps (io_secs rnd s) = (spec_io_ticks tps s - 1)%Z \/
  ticks_of rnd tps (io_secs rnd s) = spec_io_ticks tps s \/
  ticks_of rnd tps (io_secs rnd s) = (spec_io_ticks tps s + 1)%Z.
Proof.
  intros Hr Htps Hsmall. pose proof (io_ticks_pm1 tps s Hr Htps Hsmall). lia.
Qed.

Lemma io_ticks_exact_away tps s : 0 <= sg_read s -> (0 < tps)%Z ->
  (forall k : Z, ~ Qabs (inject_Z k - sg_read s / 20 * inject_Z tps)
                    <= sg_read s / 20 * inject_Z tps * (6 # 9007199254740992)) ->
  ticks_of rnd tps (io_secs rnd s) = spec_io_ticks tps s.
Proof.
  intros Hr Htps Hk. rewrite io_ticks_floor by assumption. unfold spec_io_ticks.
  eapply floorQ_away; [apply io_ticks_close; assumption | exact Hk].
Qed.

(* ---- (f) memory during an I/O tick ---- *)
Lemma io_mem_close tps s i : (0 <= i)%Z -> (0 < tps)%Z -> sg_mem s = None ->
  Qabs (io_mem rnd tps s i - spec_io_mem tps s i) <= spec_io_mem tps s i * (4 # 9007199254740992).
Proof.
  intros Hi Htps Hnone. unfold io_mem, spec_io_mem, disk_scan. rewrite Hnone.
  destruct (tick_len_facts tps Htps) as (Ht & _ & _ & A1 & A2).
  pose proof (inject_Z_pos tps Htps) as HT.
  assert (Hn : 0 <= inject_Z (i + 1)) by (rewrite <- (Zle_Qle 0); lia).
  set (n := inject_Z (i + 1)) in *. set (T := inject_Z tps) in *. set (t := rnd (1 / T)) in *.
  assert (Ha0 : 0 < 1 / T) by (apply Qlt_shift_div_l; lra).
  assert (HS : n * 20 / T == 20 * (n * (1 / T))) by (field; lra).
  rewrite HS. set (a := 1 / T) in *.
  assert (Z0 : 0 <= n * a) by (apply Qmult_le_0_compat; lra).
  assert (N1 : n * a * (1 - u53) <= n * t) by nra.
  assert (N2 : n * t <= n * a * (1 + u53)) by nra.
  assert (N0 : 0 <= n * t) by (apply Qmult_le_0_compat; lra).
  destruct (rnd_rel _ N0) as [P1 P2].
  assert (P0 : 0 <= rnd (n * t) * 20) by (pose proof (rnd_nonneg _ N0); lra).
  destruct (rnd_rel _ P0) as [R1 R2].
  set (p2 := rnd (rnd (n * t) * 20)) in *. set (p1 := rnd (n * t)) in *.
  set (nt := n * t) in *. set (z := n * a) in *.
  apply Qabs_Qle_condition. split; lra.
Qed.

End TickArith.

(* ---- (g) exact rounding: rnd := identity ---- *)
Lemma id_err : forall x : Q, Qabs ((fun x => x) x - x) <= Qabs x * (1 # 9007199254740992).
Proof.
  intros x. cbv beta. assert (E : x - x == 0) by ring. rewrite E. simpl Qabs.
  apply Qmult_le_0_compat; [apply Qabs_nonneg | discriminate].
Qed.

Lemma ticks_of_exact_id tps secs : 0 <= secs -> (0 < tps)%Z ->
  ticks_of (fun x => x) tps secs = floorQ (secs * inject_Z tps).
Proof.
  intros Hs Htps. rewrite (ticks_of_floor (fun x => x) id_err) by assumption. cbv beta.
  apply floorQ_comp. pose proof (inject_Z_pos tps Htps) as HT. field. lra.
Qed.

Lemma io_ticks_exact_id tps s : 0 <= sg_read s -> (0 < tps)%Z ->
  ticks_of (fun x => x) tps (io_secs (fun x => x) s) = spec_io_ticks tps s.
Proof.
  intros Hr Htps. rewrite ticks_of_exact_id; [reflexivity | | exact Htps].
  apply (io_secs_nonneg (fun x => x) id_err); exact Hr.
Qed.

Lemma io_mem_exact_id tps s i : io_mem (fun x => x) tps s i == spec_io_mem tps s i.
Proof.
  unfold io_mem, spec_io_mem, disk_scan. destruct (sg_mem s) as [m|]; [reflexivity|].
  destruct (Qeq_dec (inject_Z tps) 0) as [E|E].
  - rewrite E. unfold Qdiv. change (/ 0) with 0. ring.
  - field. exact E.
Qed.

(* ---- (h) instances for rnd64 ---- *)
Lemma ticks_of_close_rnd64 tps secs : 0 <= secs -> (0 < tps)%Z ->
  Qabs (rnd64 (secs / rnd64 (1 / inject_Z tps)) - secs * inject_Z tps)
    <= secs * inject_Z tps * (4 # 9007199254740992).
Proof. exact (ticks_of_close rnd64 rnd64_err tps secs). Qed.

Lemma ticks_of_floor_rnd64 tps secs : 0 <= secs -> (0 < tps)%Z ->
  ticks_of rnd64 tps secs = floorQ (rnd64 (secs / rnd64 (1 / inject_Z tps))).
Proof. exact (ticks_of_floor rnd64 rnd64_err tps secs). Qed.

Lemma ticks_of_nonneg_rnd64 tps secs : 0 <= secs -> (0 < tps)%Z -> (0 <= ticks_of rnd64 tps secs)%Z.
Proof. exact (ticks_of_nonneg rnd64 rnd64_err tps secs). Qed.

Lemma ticks_of_pm1_rnd64 tps secs : 0 <= secs -> (0 < tps)%Z ->
  secs * inject_Z tps * (4 # 9007199254740992) <= 1 ->
  (floorQ (secs * inject_Z tps) - 1 <= ticks_of rnd64 tps secs <= floorQ (secs * inject_Z tps) + 1)%Z.
Proof. exact (ticks_of_pm1 rnd64 rnd64_err tps secs). Qed.

Lemma ticks_of_pm1_cases_rnd64 tps secs : 0 <= secs -> (0 < tps)%Z ->
  secs * inject_Z tps * (4 # 9007199254740992) <= 1 ->
  ticks_of rnd64 tps secs = (floorQ (secs * inject_Z tps) - 1)%Z \/
  ticks_of rnd64 tps secs = floorQ (secs * inject_Z tps) \/
  ticks_of rnd64 tps secs = (floorQ (secs * inject_Z tps) + 1)%Z.
Proof. exact (ticks_of_pm1_cases rnd64 rnd64_err tps secs). Qed.

Lemma ticks_of_exact_away_rnd64 tps secs : 0 <= secs -> (0 < tps)%Z ->
  (forall k : Z, ~ Qabs (inject_Z k - secs * inject_Z tps)
                    <= secs * inject_Z tps * (4 # 9007199254740992)) ->
  ticks_of rnd64 tps secs = floorQ (secs * inject_Z tps).
Proof. exact (ticks_of_exact_away rnd64 rnd64_err tps secs). Qed.

Lemma io_ticks_close_rnd64 tps s : 0 <= sg_read s -> (0 < tps)%Z ->
  Qabs (rnd64 (io_secs rnd64 s / rnd64 (1 / inject_Z tps)) - sg_read s / 20 * inject_Z tps)
    <= sg_read s / 20 * inject_Z tps * (6 # 9007199254740992).
Proof. exact (io_ticks_close rnd64 rnd64_err tps s). Qed.

Lemma io_ticks_floor_rnd64 tps s : 0 <= sg_read s -> (0 < tps)%Z ->
  ticks_of rnd64 tps (io_secs rnd64 s) = floorQ (rnd64 (io_secs rnd64 s / rnd64 (1 / inject_Z tps))).
Proof. exact (io_ticks_floor rnd64 rnd64_err tps s). Qed.

Lemma io_ticks_pm1_rnd64 tps s : 0 <= sg_read s -> (0 < tps)%Z ->
  sg_read s / 20 * inject_Z tps * (6 # 9007199254740992) <= 1 ->
  (spec_io_ticks tps s - 1 <= ticks_of rnd64 tps (io_secs rnd64 s) <= spec_io_ticks tps s + 1)%Z.
Proof. exact (io_ticks_pm1 rnd64 rnd64_err tps s). Qed.

Lemma io_ticks_pm1_cases_rnd64 tps s : 0 <= sg_read s -> (0 < tps)%Z ->
  sg_read s / 20 * inject_Z tps * (6 # 9007199254740992) <= 1 ->
  ticks_of rnd64 tps (io_secs rnd64 s) = (spec_io_ticks tps s - 1)%Z \/
  ticks_of rnd64 tps (io_secs rnd64 s) = spec_io_ticks tps s \/
  ticks_of rnd64 tps (io_secs rnd64 s) = (spec_io_ticks tps s + 1)%Z.
Proof. exact (io_ticks_pm1_cases rnd64 rnd64_err tps s). Qed.

Lemma io_ticks_exact_away_rnd64 tps s : 0 <= sg_read s -> (0 < tps)%Z ->
  (forall k : Z, ~ Qabs (inject_Z k - sg_read s / 20 * inject_Z tps)
                    <= sg_read s / 20 * inject_Z tps * (6 # 9007199254740992)) ->
  ticks_of rnd64 tps (io_secs rnd64 s) = spec_io_ticks tps s.
Proof. exact (io_ticks_exact_away rnd64 rnd64_err tps s). Qed.

Lemma io_mem_close_rnd64 tps s i : (0 <= i)%Z -> (0 < tps)%Z -> sg_mem s = None ->
  Qabs (io_mem rnd64 tps s i - spec_io_mem tps s i) <= spec_io_mem tps s i * (4 # 9007199254740992).
Proof. exact (io_mem_close rnd64 rnd64_err tps s i). Qed.


(* ---- (i) list facts about op_seg_ticks / op_script (any rnd) ---- *)
Close Scope Q_scope.
Open Scope Z_scope.

Local Notation nn := (fun p : Z * Z => 0 <= fst p /\ 0 <= snd p).
Local Notation tot := (fun p : Z * Z => fst p + snd p).

Lemma bump_last_length l : length (bump_last l) = length l.
Proof.
  induction l as [|x t IH]; [reflexivity|].
  destruct x as [io cpu]. destruct t as [|y t']; [reflexivity|].
  change (bump_last ((io, cpu) :: y :: t')) with ((io, cpu) :: bump_last (y :: t')).
  exact (f_equal S IH).
Qed.

Lemma bump_last_nonneg l : Forall nn l -> Forall nn (bump_last l).
Proof.
  induction l as [|x t IH]; intros HF; [constructor|].
  inversion HF as [|x0 t0 Hx Ht]; subst.
  destruct x as [io cpu]. destruct t as [|y t'].
  - constructor; [|constructor]. simpl in *. lia.
  - change (bump_last ((io, cpu) :: y :: t')) with ((io, cpu) :: bump_last (y :: t')).
    constructor; [exact Hx | apply IH; exact Ht].
Qed.

Lemma sum_tot_nonneg l : Forall nn l -> 0 <= sumZ (map tot l).
Proof.
  induction l as [|x t IH]; intros HF; [simpl; lia|].
  inversion HF as [|x0 t0 Hx Ht]; subst. specialize (IH Ht).
  change (sumZ (map tot (x :: t))) with (fst x + snd x + sumZ (map tot t)). lia.
Qed.

Lemma bump_last_min_one l : l <> [] -> Forall nn l -> 1 <= sumZ (map tot (bump_last l)).
Proof.
  induction l as [|x t IH]; intros Hne HF; [congruence|].
  inversion HF as [|x0 t0 Hx Ht]; subst.
  destruct x as [io cpu]. destruct t as [|y t'].
  - simpl in *. lia.
  - change (bump_last ((io, cpu) :: y :: t')) with ((io, cpu) :: bump_last (y :: t')).
    assert (Hne' : y :: t' <> []) by discriminate.
    specialize (IH Hne' Ht).
    change (sumZ (map tot ((io, cpu) :: bump_last (y :: t'))))
      with (io + cpu + sumZ (map tot (bump_last (y :: t')))).
    simpl in Hx. lia.
Qed.

Lemma op_seg_ticks_length rnd mt tps cpus segs :
  length (op_seg_ticks rnd mt tps cpus segs) = length segs.
Proof.
  unfold op_seg_ticks.
  destruct (sumZ (map tot (map (seg_ticks rnd mt tps cpus) segs)) =? 0).
  - rewrite bump_last_length. apply map_length.
  - apply map_length.
Qed.

Lemma op_seg_ticks_nonneg rnd mt tps cpus segs :
  Forall (fun p => 0 <= fst p /\ 0 <= snd p) (map (seg_ticks rnd mt tps cpus) segs) ->
  Forall (fun p => 0 <= fst p /\ 0 <= snd p) (op_seg_ticks rnd mt tps cpus segs).
Proof.
  intros HF. unfold op_seg_ticks.
  destruct (sumZ (map tot (map (seg_ticks rnd mt tps cpus) segs)) =? 0).
  - apply bump_last_nonneg, HF.
  - exact HF.
Qed.

Lemma op_seg_ticks_min_one rnd mt tps cpus segs : segs <> [] ->
  Forall (fun p => 0 <= fst p /\ 0 <= snd p) (map (seg_ticks rnd mt tps cpus) segs) ->
  1 <= sumZ (map (fun p => fst p + snd p) (op_seg_ticks rnd mt tps cpus segs)).
Proof.
  intros Hne HF. unfold op_seg_ticks.
  destruct (Z.eqb_spec (sumZ (map tot (map (seg_ticks rnd mt tps cpus) segs))) 0) as [E|E].
  - apply bump_last_min_one; [|exact HF].
    destruct segs; [congruence | discriminate].
  - pose proof (sum_tot_nonneg _ HF). lia.
Qed.

Lemma seg_script_length rnd tps s io cpu : 0 <= io -> 0 <= cpu ->
  length (seg_script rnd tps s io cpu) = Z.to_nat (io + cpu).
Proof.
  intros Hio Hcpu. unfold seg_script.
  rewrite app_length, map_length, seq_length, repeat_length. lia.
Qed.

Lemma script_length_gen rnd tps segs : forall l, length l = length segs -> Forall nn l ->
  length (flat_map (fun st : seg * (Z * Z) => let '(s, (io, cpu)) := st in seg_script rnd tps s io cpu)
                   (combine segs l))
  = Z.to_nat (sumZ (map tot l)).
Proof.
  induction segs as [|s segs IH]; intros l Hlen HF.
  - destruct l; [reflexivity | discriminate].
  - destruct l as [|[io cpu] l]; [discriminate|].
    inversion HF as [|x0 t0 Hx Ht]; subst. simpl in Hx. destruct Hx as [Hio Hcpu].
    simpl in Hlen. injection Hlen as Hlen.
    change (combine (s :: segs) ((io, cpu) :: l)) with ((s, (io, cpu)) :: combine segs l).
    change (sumZ (map tot ((io, cpu) :: l))) with (io + cpu + sumZ (map tot l)).
    cbn [flat_map]. rewrite app_length, (IH l Hlen Ht), seg_script_length by assumption.
    pose proof (sum_tot_nonneg l Ht). lia.
Qed.

Lemma op_script_length rnd mt tps cpus segs :
  Forall (fun p => 0 <= fst p /\ 0 <= snd p) (map (seg_ticks rnd mt tps cpus) segs) ->
  length (op_script rnd mt tps cpus segs)
  = Z.to_nat (sumZ (map (fun p => fst p + snd p) (op_seg_ticks rnd mt tps cpus segs))).
Proof.
  intros HF. unfold op_script. apply script_length_gen.
  - apply op_seg_ticks_length.
  - apply op_seg_ticks_nonneg, HF.
Qed.

Lemma op_script_nonempty rnd mt tps cpus segs : segs <> [] ->
  Forall (fun p => 0 <= fst p /\ 0 <= snd p) (map (seg_ticks rnd mt tps cpus) segs) ->
  op_script rnd mt tps cpus segs <> [].
Proof.
  intros Hne HF E. pose proof (op_script_length rnd mt tps cpus segs HF) as HL.
  pose proof (op_seg_ticks_min_one rnd mt tps cpus segs Hne HF) as H1.
  rewrite E in HL. simpl length in HL. lia.
Qed.

(* ---- concrete boundary cases (vm_compute) ---- *)
(* the float 0.57 at 100 ticks/s: int(0.57 / 0.01) = 56 although 0.57 * 100 = 57 in decimals *)
Example ticks_057 : ticks_of rnd64 100 (rnd64 (57 # 100)) = 56.
Proof. vm_compute. reflexivity. Qed.
Example floor_057 : floorQ ((57 # 100) * 100)%Q = 57.
Proof. vm_compute. reflexivity. Qed.
(* with the exact rational 57/100 as input (no input rounding) the float pipeline gives 57 *)
Example ticks_057_exact_input : ticks_of rnd64 100 (57 # 100) = 57.
Proof. vm_compute. reflexivity. Qed.
(* same input on both sides, the "+1" case of ticks_of_pm1: the double 0.03 is below 3/100 *)
Example ticks_003 :
  ticks_of rnd64 100 (rnd64 (3 # 100)) = 3 /\ floorQ (rnd64 (3 # 100) * 100)%Q = 2.
Proof. vm_compute. split; reflexivity. Qed.
(* agreement *)
Example ticks_half : ticks_of rnd64 100 (1 # 2) = 50 /\ floorQ ((1 # 2) * 100)%Q = 50.
Proof. vm_compute. split; reflexivity. Qed.

