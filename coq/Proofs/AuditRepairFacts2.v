(* Repairs of the weaknesses found by audit D (AUDIT_D.md, P1 P2 P5).

   P2 / P5. [AuditRepairFacts.sim_kill_justified_linked] (C04_sim_kill_justified) now carries the victim link of
       [oom_killer_spec] and [incl res (tl_results lg)]. Here: the two audit-D witnesses as NEGATIONS. On the
       witness ticks the new conjuncts force [vs] to be the real victim list (the survivor is not in it) and
       [next] to be the real counter.
   P1. the guard of the runner of kind 25 is a domain restriction, not numpy's validation
       (AuditRepairFacts section 7). Here the positive direction that makes it harmless: on the domain (non-negative
       probabilities, positive float sum) the quotients numpy validates are non-negative, sum to something
       positive and their float cdf ends in exactly 1. *)
From Coq Require Import List Arith ZArith QArith Qabs Bool Lia Lqa Sorted.
Import ListNotations.
From Eudoxia Require Import Num.Rnd64 Model.Types Model.Dag Model.Lifecycle Model.Timing Model.Container
  Model.Pool Model.Executor Model.Sched Model.Simulator
  Proofs.ListFacts Proofs.OomFacts Proofs.LedgerFacts Proofs.MemoryFacts Proofs.PriorityPoolRunFacts
  Proofs.SimReachFacts Proofs.SimCorollaryFacts Proofs.SimTimelineFacts Proofs.AuditRepairFacts.
Close Scope Q_scope.
Close Scope Z_scope.

(* ------------------------------------------------------------------------------------------ *)
(* 1. general: the ids determine the victims                                                     *)
(* ------------------------------------------------------------------------------------------ *)

(* two lists of containers of [act] (distinct ids) with the same ids are the same list: together with
   [NoDup (map c_id act4)], [Forall (fun v => In v act4 /\ ..) vs] and
   [map c_id vs = firstn k (victims_order C act1)] the list [vs] of C04_sim_kill_justified is a function of
   [act4] and [k] *)
Lemma victims_determined act : NoDup (map c_id act) -> forall vs vs',
  Forall (fun v => In v act) vs -> Forall (fun v => In v act) vs' ->
  map c_id vs = map c_id vs' -> vs = vs'.
Proof.
  intros ND. induction vs as [|v t IH]; intros [|v' t'] F F' E; cbn in E; try discriminate; [reflexivity|].
  inversion F; subst. inversion F'; subst. injection E as E1 E2.
  f_equal; [eapply NoDup_ids_inj; eauto|apply IH; assumption].
Qed.

Lemma map_cstep_ids C l : map c_id (map (cstep C) l) = map c_id l.
Proof. rewrite map_map. apply map_ext. intros c. apply (cstep_static C c). Qed.

(* ------------------------------------------------------------------------------------------ *)
(* 2. P2: tick 0 of the witness run of Properties/C04.v - the victims are forced                 *)
(* ------------------------------------------------------------------------------------------ *)
(* overbook, RAM overcommit, one pool of 10 GB; containers 0 and 1 created in the tick, 6 GB of their 10 GB each;
   container 0 is the only pool-level victim, container 1 is the running list of the pool after the tick. Audit D
   (AuditExamplesD.VsFree) satisfied the body of C04_sim_kill_justified as it was - [vs] mentioned only by
   [vs <> [] -> ..], the [Forall] and [nth_error vs j = Some c] - with vs = [container 0; container 1]. With the
   conjuncts added now that is impossible: whatever pool, counter and lists the body is satisfied with on this
   tick, the counter is 0, one victim is taken, [vs] is exactly [container 0] and the survivor is not in it *)
Module VictimsForced.
Import SimCorExamples LinkExamples.

Definition kact4 : list container :=
  Eval vm_compute in map (cstep Ck) (new_containers 0 (tl_asgs klg0)).
Definition kc0 : container := Eval vm_compute in nth 0 kact4 (new_container 9 [] 0%Z 0%Q Batch).
Definition kc1 : container := Eval vm_compute in nth 1 kact4 (new_container 9 [] 0%Z 0%Q Batch).

Example real_containers :
  kact4 = [kc0; kc1] /\ (c_id kc0, c_id kc1) = (0, 1) /\ p_active kp' = [kc1] /\
  map r_cid (tl_results klg0) = [0] /\ e_next (sm_exec k0) = 0.
Proof. vm_compute. repeat split; reflexivity. Qed.

Example kill_justified_forces_victims :
  forall i p p' next act2 act4 act1 act5 vs k,
    nth_error (e_pools (sm_exec k0)) i = Some p -> nth_error (e_pools (sm_exec k1)) i = Some p' ->
    act2 = filter (fun c => negb (memb (c_id c) (map su_cid
                     (filter (fun x => (su_pool x =? Z.of_nat (p_id p))%Z) (tl_susp klg0))))) (p_active p)
           ++ new_containers next (filter (fun x => (a_pool x =? Z.of_nat (p_id p))%Z) (tl_asgs klg0)) ->
    act4 = map (cstep Ck) act2 ->
    act1 = map (kill_when over_limit) act4 ->
    k <= length (victims_order Ck act1) ->
    map c_id vs = firstn k (victims_order Ck act1) ->
    act5 = map (kill_if (map c_id vs)) act1 ->
    p_active p' = filter (fun c => negb (c_completed c)) act5 ->
    Forall (fun v => In v act4 /\ c_completed v = false /\ (c_mem v <= c_ram v)%Q /\ (0 < c_mem v)%Q) vs ->
    next = 0 /\ k = 1 /\ act4 = [kc0; kc1] /\ vs = [kc0] /\ ~ In kc1 vs /\ In kc1 (p_active p').
Proof.
  intros i p p' next act2 act4 act1 act5 vs k Hi Hi' E2 E4 E1 Hk Hids E5 Ea Hvs.
  assert (Ep : p = kp).
  { destruct i as [|i]; [vm_compute in Hi; inversion Hi; reflexivity|].
    vm_compute in Hi. destruct i; discriminate Hi. }
  assert (Ep' : p' = kp').
  { destruct i as [|i]; [vm_compute in Hi'; inversion Hi'; reflexivity|].
    vm_compute in Hi'. destruct i; discriminate Hi'. }
  subst p p'.
  (* the survivor has id 1 and is one of the two containers created with ids next, next + 1 *)
  assert (Hn : next = 0 \/ next = 1).
  { assert (H1 : In kc1 (filter (fun c => negb (c_completed c)) act5)).
    { rewrite <- Ea. vm_compute. left. reflexivity. }
    apply filter_In in H1. destruct H1 as [H1 _]. apply (in_map c_id) in H1.
    rewrite E5 in H1. unfold kill_if in H1. rewrite map_kill_when_ids, E1, map_kill_when_ids, E4, map_cstep_ids in H1.
    rewrite E2, map_app, new_containers_ids in H1.
    apply in_app_or in H1. destruct H1 as [H1|H1]; [vm_compute in H1; destruct H1|].
    apply in_seq in H1. change (c_id kc1) with 1 in H1.
    assert (L : length (filter (fun x => (a_pool x =? Z.of_nat (p_id kp))%Z) (tl_asgs klg0)) = 2)
      by (vm_compute; reflexivity).
    rewrite L in H1. lia. }
  destruct Hn as [-> | ->].
  - (* the real counter *)
    subst act2. assert (A4 : act4 = [kc0; kc1]) by (rewrite E4; vm_compute; reflexivity).
    clear E4. subst act4 act1.
    set (o := victims_order Ck _) in *. vm_compute in o. subst o. cbn [length] in Hk.
    destruct k as [|[|[|k]]]; [| | |lia]; cbn [firstn] in Hids.
    + exfalso. rewrite Hids in E5. subst act5. vm_compute in Ea. discriminate Ea.
    + assert (Ev : vs = [kc0]).
      { destruct vs as [|v [|v2 vs]]; try discriminate Hids. cbn in Hids. injection Hids as Hid.
        inversion Hvs as [|? ? (Hin & _) _]; subst.
        destruct Hin as [<-|[<-|[]]]; [reflexivity|vm_compute in Hid; discriminate Hid]. }
      split; [reflexivity|]. split; [reflexivity|]. split; [reflexivity|]. split; [exact Ev|].
      split; [rewrite Ev; intros [X|[]]; vm_compute in X; discriminate X|].
      vm_compute. left. reflexivity.
    + exfalso. rewrite Hids in E5. subst act5. vm_compute in Ea. discriminate Ea.
  - (* a counter one too high: the surviving container 1 would carry the operators of the first assignment *)
    exfalso. subst act2 act4 act1.
    set (o := victims_order Ck _) in *. vm_compute in o. subst o. cbn [length] in Hk.
    destruct k as [|[|[|k]]]; [| | |lia]; cbn [firstn] in Hids;
      rewrite Hids in E5; subst act5; vm_compute in Ea; discriminate Ea.
Qed.

(* in particular the list audit D used is refused *)
Example survivor_is_not_a_victim :
  forall i p p' next act2 act4 act1 act5 vs k,
    nth_error (e_pools (sm_exec k0)) i = Some p -> nth_error (e_pools (sm_exec k1)) i = Some p' ->
    act2 = filter (fun c => negb (memb (c_id c) (map su_cid
                     (filter (fun x => (su_pool x =? Z.of_nat (p_id p))%Z) (tl_susp klg0))))) (p_active p)
           ++ new_containers next (filter (fun x => (a_pool x =? Z.of_nat (p_id p))%Z) (tl_asgs klg0)) ->
    act4 = map (cstep Ck) act2 ->
    act1 = map (kill_when over_limit) act4 ->
    k <= length (victims_order Ck act1) ->
    map c_id vs = firstn k (victims_order Ck act1) ->
    act5 = map (kill_if (map c_id vs)) act1 ->
    p_active p' = filter (fun c => negb (c_completed c)) act5 ->
    Forall (fun v => In v act4 /\ c_completed v = false /\ (c_mem v <= c_ram v)%Q /\ (0 < c_mem v)%Q) vs ->
    vs <> [kc0; kc1].
Proof.
  intros i p p' next act2 act4 act1 act5 vs k H1 H2 H3 H4 H5 H6 H7 H8 H9 H10 X.
  destruct (kill_justified_forces_victims i p p' next act2 act4 act1 act5 vs k H1 H2 H3 H4 H5 H6 H7 H8 H9 H10)
    as (_ & _ & _ & E & _). rewrite E in X. discriminate X.
Qed.

End VictimsForced.

(* ------------------------------------------------------------------------------------------ *)
(* 3. P5: the counter is forced                                                                  *)
(* ------------------------------------------------------------------------------------------ *)
(* the run of AuditExamplesD.NextFree: overbook, one pool 10 CPU / 10 GB; operator 1 (6 GB, then 11 GB) arrives in
   tick 0 -> container 0; operator 0 (11 GB) arrives in tick 1 -> container 1. In tick 1 both exceed their 10 GB
   and are killed. Audit D satisfied the body as it was with next = 7 ("container 7", a result with id 7 that the
   tick never reported). With [incl res (tl_results lg)] the counter is the counter of the state: 1 *)
Module CounterForced.
Import SimCorExamples.

Definition Cn : cfg :=
  {| cf_static := mk_static Lk; cf_script := fun op _ => if Nat.eqb op 0 then [11%Q] else [6%Q; 11%Q];
     cf_tps := 10%Z; cf_overcommit := true; cf_multi := true; cf_rnd := fun q => q |}.

Definition n0 : sim := init_sim Cn 1 10%Z 10%Q.
Definition n1 : sim := Eval vm_compute in ok_state n0 (sim_tick Cn AOverbook 0%Z n0 [1]).
Definition nlg0 : tick_log := Eval vm_compute in ok_log (sim_tick Cn AOverbook 0%Z n0 [1]).
Definition n2 : sim := Eval vm_compute in ok_state n1 (sim_tick Cn AOverbook 1%Z n1 [0]).
Definition nlg1 : tick_log := Eval vm_compute in ok_log (sim_tick Cn AOverbook 1%Z n1 [0]).

Lemma n_tick0 : sim_tick Cn AOverbook 0%Z n0 [1] = Ok (n1, nlg0).
Proof. vm_compute. reflexivity. Qed.
Lemma n_tick1 : sim_tick Cn AOverbook 1%Z n1 [0] = Ok (n2, nlg1).
Proof. vm_compute. reflexivity. Qed.
Lemma n_reach1 : sim_reach Cn AOverbook 0%Z (init_sim Cn 1 10%Z 10%Q) 1%Z n1.
Proof. exact (sr_step Cn AOverbook 0%Z n0 0%Z n0 [1] n1 nlg0 (sr_here _ _ _ _) n_tick0). Qed.

Lemma Cn_exact : forall x, (cf_rnd Cn x == x)%Q.
Proof. intros x. reflexivity. Qed.
Lemma Cn_nonneg : script_nonneg Cn.
Proof.
  intros op cpus m H. cbn in H. destruct (Nat.eqb op 0); cbn in H; intuition (subst; lra).
Qed.

Definition np1 : pool := Eval vm_compute in hd (new_pool 0 0%Z 0%Q) (e_pools (sm_exec n1)).
Definition nr : result := Eval vm_compute in
  hd {| r_cid := 9; r_ops := []; r_cpu := 0%Z; r_ram := 0%Q; r_prio := Batch; r_pool := 9; r_err := false |}
     (tl_results nlg1).

(* the hypotheses of C04_sim_kill_justified hold of this tick and this result; what the tick really did *)
Example real_tick :
  (forall x, (cf_rnd Cn x == x)%Q) /\ script_nonneg Cn /\
  sim_reach Cn AOverbook 0%Z (init_sim Cn 1 10%Z 10%Q) 1%Z n1 /\
  sim_tick Cn AOverbook 1%Z n1 [0] = Ok (n2, nlg1) /\ In nr (tl_results nlg1) /\ r_err nr = true /\
  e_next (sm_exec n1) = 1 /\ e_next (sm_exec n2) = 2 /\
  map (fun r => (r_cid r, r_ops r, r_err r)) (tl_results nlg1) = [(0, [1], true); (1, [0], true)] /\
  r_cid nr = 0.
Proof.
  split; [exact Cn_exact|]. split; [exact Cn_nonneg|].
  split; [exact n_reach1|]. split; [exact n_tick1|]. split; [left; reflexivity|].
  vm_compute. repeat split; reflexivity.
Qed.

(* whatever pool, counter and lists the body of C04_sim_kill_justified is satisfied with on this tick: the counter
   is 1, the containers that enter the killer are 0 and 1, the pool-level loop has no victim, and the results of
   the pool are the two results of the log *)
Example kill_justified_forces_counter :
  forall i p next act2 act4 act1 act5 vs k res,
    nth_error (e_pools (sm_exec n1)) i = Some p ->
    act2 = filter (fun c => negb (memb (c_id c) (map su_cid
              (filter (fun x => (su_pool x =? Z.of_nat (p_id p))%Z) (tl_susp nlg1))))) (p_active p)
           ++ new_containers next (filter (fun x => (a_pool x =? Z.of_nat (p_id p))%Z) (tl_asgs nlg1)) ->
    act4 = map (cstep Cn) act2 -> act1 = map (kill_when over_limit) act4 ->
    map c_id vs = firstn k (victims_order Cn act1) ->
    act5 = map (kill_if (map c_id vs)) act1 ->
    res = map (result_of (p_id p)) (filter c_completed act5) ->
    incl res (tl_results nlg1) ->
    next = 1 /\ next = e_next (sm_exec n1) /\ map c_id act4 = [0; 1] /\ vs = [] /\ map r_cid res = [0; 1] /\
    next <> 7.
Proof.
  intros i p next act2 act4 act1 act5 vs k res Hi E2 E4 E1 Hids E5 Er Hinc.
  assert (Ep : p = np1).
  { destruct i as [|i]; [vm_compute in Hi; inversion Hi; reflexivity|].
    vm_compute in Hi. destruct i; discriminate Hi. }
  subst p.
  assert (V : victims_order Cn act1 = []) by (subst; vm_compute; reflexivity).
  rewrite V, firstn_nil in Hids. rewrite Hids in E5. subst act5 act1 act4 act2.
  assert (X : In next (map r_cid (tl_results nlg1))).
  { apply in_map_iff.
    eexists. split; [|apply Hinc; rewrite Er; vm_compute; right; left; reflexivity]. reflexivity. }
  assert (N : next = 1).
  { vm_compute in X. destruct X as [X|[X|[]]]; [|symmetry; exact X].
    (* next = 0: the results of the pool would be two results with ids 0, 1 carrying the operators [1], [0] of
       the log in the other order *)
    exfalso. subst next.
    set (r1 := nth 1 res nr).
    assert (H1 : In r1 res) by (unfold r1; rewrite Er; vm_compute; right; left; reflexivity).
    apply Hinc in H1. unfold r1 in H1. rewrite Er in H1. vm_compute in H1.
    destruct H1 as [H1|[H1|[]]]; discriminate H1. }
  subst next. split; [reflexivity|]. split; [reflexivity|]. split; [vm_compute; reflexivity|].
  split; [destruct vs; [reflexivity|discriminate Hids]|]. split; [rewrite Er; vm_compute; reflexivity|lia].
Qed.

End CounterForced.

(* ------------------------------------------------------------------------------------------ *)
(* 4. P1: on its domain the guard of the runner of kind 25 agrees with numpy's validation        *)
(* ------------------------------------------------------------------------------------------ *)
From Eudoxia Require Import Model.Generator Model.RunGen
  Proofs.Rnd64Facts Proofs.FloatBoundFacts Proofs.GeneratorFacts Proofs.ChoiceFloatFacts.

Module GenDomain.
Local Open Scope Q_scope.

(* the guard, as propositions *)
Lemma guard_spec user :
  forallb (Qle_bool 0) user && Qltb 0 (fsum user) = true <-> nonnegl user /\ 0 < fsum user.
Proof.
  rewrite andb_true_iff, forallb_forall, OomFacts.Qltb_true. unfold nonnegl. rewrite Forall_forall.
  split; intros [A B]; (split; [|exact B]); intros x Hx; apply Qle_bool_iff; apply A; exact Hx.
Qed.

(* a float sum of non-negative numbers is positive only if the exact sum is (no rounding of 0 + .. + 0 is positive) *)
Lemma fold_fadd_zero : forall l acc, nonnegl l -> acc == 0 -> sumQl l <= 0 -> fold_left fadd l acc == 0.
Proof.
  induction l as [|p t IH]; intros acc Hn Ha Hs; cbn [fold_left]; [exact Ha|].
  inversion Hn as [|p' t' Hp Ht]; subst. pose proof (sumQl_nonneg _ Ht) as Hs'.
  cbn [sumQl] in Hs. apply IH; [exact Ht| |lra].
  unfold fadd. rewrite (rnd64_zero (acc + p)) by lra. reflexivity.
Qed.

Lemma fsum_pos_inv user : nonnegl user -> 0 < fsum user -> 0 < sumQl user.
Proof.
  intros Hn Hs. destruct (Qlt_le_dec 0 (sumQl user)) as [G|G]; [exact G|exfalso].
  pose proof (fold_fadd_zero user 0 Hn ltac:(reflexivity) G) as Z. fold (fsum user) in Z. lra.
Qed.

(* every quotient p / s of a non-negative p by a positive s is non-negative after rounding, positive for p > 0 *)
Lemma sumQl_quotients_pos s : 0 < s -> forall l, nonnegl l -> 0 < sumQl l ->
  0 < sumQl (map (fun p => fdiv p s) l).
Proof.
  intros Hs. induction l as [|p t IH]; intros Hn Hl; cbn [sumQl map] in *; [lra|].
  inversion Hn as [|p' t' Hp Ht]; subst.
  assert (Ht' : 0 <= sumQl (map (fun p => fdiv p s) t)).
  { apply sumQl_nonneg. unfold nonnegl in *. apply Forall_forall. intros x Hx.
    apply in_map_iff in Hx. destruct Hx as [q [<- Hq]]. rewrite Forall_forall in Ht. specialize (Ht q Hq).
    apply rnd64_nonneg. apply Qle_shift_div_l; [exact Hs|lra]. }
  destruct (Qlt_le_dec 0 p) as [G|G].
  - assert (0 < fdiv p s); [|lra]. apply rnd64_pos_lt. apply Qlt_shift_div_l; [exact Hs|lra].
  - assert (0 <= fdiv p s) by (apply rnd64_nonneg; apply Qle_shift_div_l; [exact Hs|lra]).
    assert (0 < sumQl (map (fun p => fdiv p s) t)); [|lra]. apply IH; [exact Ht|lra].
Qed.

(* the positive direction (audit D P1). On the domain of the runner - every configured probability non-negative,
   float sum positive - what numpy's Generator.choice validates passes: the probabilities it receives
   ([prio_probs user] = the quotients by the float sum) are non-negative (and rationals: no NaN, the sum is not 0),
   not all zero, and the float cdf numpy builds from them ends in exactly 1. Moreover the exact sum of the user
   triple is positive, so every [Forall (0 <=) user -> 0 < sumQl user -> ..] theorem of C15 applies on the domain *)
Theorem domain_agrees user :
  nonnegl user -> 0 < fsum user ->
  nonnegl (prio_probs user) /\ 0 < sumQl (prio_probs user) /\
  last (float_cdf (prio_probs user)) 0 == 1 /\
  0 < sumQl user.
Proof.
  intros Hn Hs. pose proof (fsum_pos_inv user Hn Hs) as Hu.
  pose proof (prio_probs_nonneg user Hn Hs) as Hpn.
  assert (Hpp : 0 < sumQl (prio_probs user)) by (apply sumQl_quotients_pos; assumption).
  split; [exact Hpn|]. split; [exact Hpp|]. split; [|exact Hu].
  apply float_cdf_last; [|exact Hpn|exact Hpp].
  intros E. rewrite E in Hpp. cbn in Hpp. lra.
Qed.

(* x / x = 1 in binary64 for every positive x: the division that ends the cdf is exact *)
Lemma fdiv_self_pos x : 0 < x -> fdiv x x == 1.
Proof. exact (fdiv_self x). Qed.

(* the runner on the wire: inside the domain (numerators >= 0, float sum positive) the guard holds, so the
   refusal of [AuditRepairFacts.GenRefuse.run_gen_u_domain] is exactly the complement of the domain *)
Lemma wire_guard i_n i_d q_n q_d b_n b_d :
  (0 <= i_n)%Z -> (0 <= q_n)%Z -> (0 <= b_n)%Z ->
  0 < fsum [Qmake i_n (Z.to_pos i_d); Qmake q_n (Z.to_pos q_d); Qmake b_n (Z.to_pos b_d)] ->
  let user := [Qmake i_n (Z.to_pos i_d); Qmake q_n (Z.to_pos q_d); Qmake b_n (Z.to_pos b_d)] in
  forallb (Qle_bool 0) user && Qltb 0 (fsum user) = true /\
  nonnegl (prio_probs user) /\ 0 < sumQl (prio_probs user) /\ last (float_cdf (prio_probs user)) 0 == 1.
Proof.
  intros Hi Hq Hb Hs user.
  assert (Hn : nonnegl user).
  { unfold user, nonnegl. repeat constructor; unfold Qle; cbn; lia. }
  split; [apply guard_spec; split; assumption|].
  destruct (domain_agrees user Hn Hs) as (A & B & D & _). auto.
Qed.

(* the default mix on the wire *)
Example default_mix_in_domain :
  let user := [3 # 10; 1 # 10; 6 # 10] in
  nonnegl (prio_probs user) /\ 0 < sumQl (prio_probs user) /\ last (float_cdf (prio_probs user)) 0 == 1.
Proof.
  intros user.
  assert (Hn : nonnegl user) by (unfold user, nonnegl; repeat constructor; discriminate).
  assert (Hs : 0 < fsum user) by (vm_compute; reflexivity).
  destruct (domain_agrees user Hn Hs) as (A & B & D & _). auto.
Qed.

End GenDomain.
