(* The entry point [sim_main] (Model/Simulator.v): what run_simulator does around its loop, and the closed-loop
   theorems restated for it with the hypotheses under which the code really starts and really runs.

   Audit points closed here:
   - B/P2, A/P2: `assert s.executor.num_pools == 2` in the init of priority-pool (priority_pool.py:20):
     [sim_main] refuses every other pool count before the first tick ([sim_main_refuses_other_pool_counts]);
     the closed-loop theorem of priority-pool is restated for two pools ([pp_main_runs_to_end]).
   - A/P1: `100.0 * allocated_ram / total_ram` at the end of tick 0 (simulator.py:364-370): with no pool, or
     pools without RAM, [sim_main] stops after the first tick ([sim_main_zero_total_ram]); the closed-loop
     theorems of the other schedulers are restated with 0 < np, 0 < ram ([*_main_runs_to_end]).
   - A/P3: the statistics epilogue divides by the duration and the tick rate; Coq's x / 0 = 0 totalises what
     raises ZeroDivisionError in Python: [final_stats_total_pos] carries the two positivity hypotheses, and
     [ZeroExamples.ex_zero_duration_is_totalised] shows what the old statement says for duration 0.

   Under the stated hypotheses [sim_main] IS [sim_run] from [init_sim] ([sim_main_is_sim_run]), so all the
   run-level theorems about [sim_run ... (init_sim ...)] transfer. *)
From Coq Require Import ZArith QArith List Bool Arith Lia Lqa.
Import ListNotations.
From Eudoxia Require Import Num.Rnd64 Model.Types Model.Dag Model.Lifecycle Model.Container Model.Pool
  Model.Executor Model.Sched Model.Simulator
  Proofs.ExecLifeFacts Proofs.SafetyFacts Proofs.ClosedLoopFacts Proofs.PriorityPoolFacts
  Proofs.PriorityPoolRunFacts Proofs.PriorityRunFacts Proofs.PriorityMultiFacts.
Close Scope Q_scope.
Close Scope Z_scope.

(* ------------------------------------------------------------------------------------------ *)
(* 1. the two start-up conditions                                                               *)
(* ------------------------------------------------------------------------------------------ *)

Lemma pool_count_ok_spec a np : pool_count_ok a np = true <-> (a = APriorityPool -> np = 2).
Proof.
  destruct a; cbn [pool_count_ok]; split; intros H; try reflexivity; try (intros X; discriminate X).
  - intros _. apply Nat.eqb_eq. exact H.
  - apply Nat.eqb_eq. apply H. reflexivity.
Qed.

Lemma total_ram_zero_spec np ram : total_ram_zero np ram = true <-> np = 0 \/ (ram == 0)%Q.
Proof.
  unfold total_ram_zero. rewrite orb_true_iff, Nat.eqb_eq. unfold Qeqb. rewrite Qeq_bool_iff. tauto.
Qed.

Lemma total_ram_zero_pos np ram : 0 < np -> (0 < ram)%Q -> total_ram_zero np ram = false.
Proof.
  intros Hn Hr. destruct (total_ram_zero np ram) eqn:E; [|reflexivity]. exfalso.
  apply total_ram_zero_spec in E. destruct E as [E|E]; [lia|]. rewrite E in Hr. exact (Qlt_irrefl _ Hr).
Qed.

(* when the scheduler accepts the pool count and the pools have RAM, run_simulator is its loop *)
Theorem sim_main_is_sim_run C a np cpu ram arrivals :
  (a = APriorityPool -> np = 2) -> 0 < np -> (0 < ram)%Q ->
  sim_main C a np cpu ram arrivals = sim_run C a 0%Z (init_sim C np cpu ram) arrivals.
Proof.
  intros Ha Hn Hr. unfold sim_main. cbv zeta.
  rewrite (proj2 (pool_count_ok_spec a np) Ha), (total_ram_zero_pos np ram Hn Hr). reflexivity.
Qed.

(* a run of no tick never reaches the utilisation statement *)
Lemma sim_main_no_ticks C a np cpu ram :
  (a = APriorityPool -> np = 2) -> sim_main C a np cpu ram [] = (init_sim C np cpu ram, [], None).
Proof.
  intros Ha. unfold sim_main. cbv zeta. rewrite (proj2 (pool_count_ok_spec a np) Ha). cbn [negb].
  destruct (total_ram_zero np ram); reflexivity.
Qed.

(* priority-pool refuses to start unless there are exactly two pools *)
Theorem sim_main_refuses_other_pool_counts C np cpu ram arrivals :
  np <> 2 -> sim_main C APriorityPool np cpu ram arrivals = (init_sim C np cpu ram, [], Some ESchedAssert).
Proof.
  intros Hn. unfold sim_main. cbv zeta. cbn [pool_count_ok].
  apply Nat.eqb_neq in Hn. rewrite Hn. reflexivity.
Qed.

(* no pool, or pools without RAM, and at least one tick: the run does not get past its first tick. Either the
   tick itself raises (its error comes first: e.g. overbook hands the whole RAM of a pool, 0 GB, to a container
   and Assignment.__init__ refuses), or it completes and the utilisation statement divides by zero *)
Theorem sim_main_zero_total_ram C a np cpu ram newp rest :
  (a = APriorityPool -> np = 2) -> np = 0 \/ (ram == 0)%Q ->
  (exists e, sim_tick C a 0%Z (init_sim C np cpu ram) newp = Err e /\
             sim_main C a np cpu ram (newp :: rest) = (init_sim C np cpu ram, [], Some e)) \/
  (exists s1 lg, sim_tick C a 0%Z (init_sim C np cpu ram) newp = Ok (s1, lg) /\
                 sim_main C a np cpu ram (newp :: rest) = (s1, [lg], Some EOther)).
Proof.
  intros Ha Hz. unfold sim_main. cbv zeta.
  rewrite (proj2 (pool_count_ok_spec a np) Ha), (proj2 (total_ram_zero_spec np ram) Hz). cbn [negb].
  destruct (sim_tick C a 0%Z (init_sim C np cpu ram) newp) as [[s1 lg]|e].
  - right. exists s1, lg. auto.
  - left. exists e. auto.
Qed.

Corollary sim_main_zero_total_ram_raises C a np cpu ram arrivals :
  (a = APriorityPool -> np = 2) -> np = 0 \/ (ram == 0)%Q -> arrivals <> [] ->
  exists sf logs e, sim_main C a np cpu ram arrivals = (sf, logs, Some e) /\ length logs <= 1.
Proof.
  intros Ha Hz Hne. destruct arrivals as [|newp rest]; [congruence|].
  destruct (sim_main_zero_total_ram C a np cpu ram newp rest Ha Hz) as [(e & _ & ->)|(s1 & lg & _ & ->)].
  - exists (init_sim C np cpu ram), [], e. split; [reflexivity|cbn; lia].
  - exists s1, [lg], EOther. split; [reflexivity|cbn; lia].
Qed.

(* ------------------------------------------------------------------------------------------ *)
(* 2. the closed-loop theorems for the entry point                                               *)
(* ------------------------------------------------------------------------------------------ *)

Theorem naive_main_runs_to_end C l (starter : bool) np cpu ram arrivals :
  cf_static C = mk_static l -> dags_wf l ->
  (forall op c, cf_script C op c <> []) ->
  0 < np -> (0 <= cpu)%Z -> (0 < ram)%Q ->
  NoDup (concat arrivals) ->
  exists sf logs,
    sim_main C (if starter then AStarter else ANaive) np cpu ram arrivals = (sf, logs, None) /\
    length logs = length arrivals.
Proof.
  intros E W Hs Hn _ Hr Na. rewrite sim_main_is_sim_run; [|destruct starter; discriminate|exact Hn|exact Hr].
  apply (naive_any_mode_runs_to_end_mk_static C l starter np cpu ram arrivals E W Hs Na).
Qed.

Theorem overbook_main_runs_to_end C l np cpu ram arrivals :
  cf_static C = mk_static l -> dags_wf l ->
  (forall op c, cf_script C op c <> []) ->
  cf_overcommit C = true ->
  0 < np -> (0 <= cpu)%Z -> (0 < ram)%Q ->
  NoDup (concat arrivals) ->
  exists sf logs,
    sim_main C AOverbook np cpu ram arrivals = (sf, logs, None) /\ length logs = length arrivals.
Proof.
  intros E W Hs Ho Hn _ Hr Na. rewrite sim_main_is_sim_run; [|discriminate|exact Hn|exact Hr].
  apply (overbook_runs_to_end_mk_static C l np cpu ram arrivals E W Hs Ho); [|exact Na].
  apply PriorityPoolFacts.Qleb_false. exact Hr.
Qed.

Theorem priority_main_runs_to_end C l np cpu ram arrivals :
  cf_static C = mk_static l -> dags_wf l ->
  (forall op c, cf_script C op c <> []) ->
  0 < np -> (0 <= cpu)%Z -> (0 < ram)%Q ->
  NoDup (concat arrivals) ->
  exists sf logs,
    sim_main C APriority np cpu ram arrivals = (sf, logs, None) /\ length logs = length arrivals.
Proof.
  intros E W Hs Hn Hc Hr Na. rewrite sim_main_is_sim_run; [|discriminate|exact Hn|exact Hr].
  apply (priority_runs_to_end C l np cpu ram arrivals E W Hs Hc); [|exact Na]. apply Qlt_le_weak. exact Hr.
Qed.

(* priority-pool: two pools (the only pool count the scheduler accepts), multi-operator containers *)
Theorem pp_main_runs_to_end C l cpu ram arrivals :
  cf_static C = mk_static l -> dags_wf l ->
  (forall op c, cf_script C op c <> []) -> cf_multi C = true ->
  (0 < cpu)%Z -> (0 < ram)%Q ->
  (forall k, In k (concat arrivals) -> pd_order (pipe_of (cf_static C) k) <> []) ->
  NoDup (concat arrivals) ->
  exists sf logs,
    sim_main C APriorityPool 2 cpu ram arrivals = (sf, logs, None) /\ length logs = length arrivals.
Proof.
  intros E W Hs Hm Hc Hr Hn Na. rewrite sim_main_is_sim_run; [|reflexivity|lia|exact Hr].
  apply (pp_runs_to_end C l 2 cpu ram arrivals E W Hs Hm Hc Hr Hn Na).
Qed.

(* ------------------------------------------------------------------------------------------ *)
(* 3. the epilogue                                                                              *)
(* ------------------------------------------------------------------------------------------ *)

(* [final_stats_total] with the hypotheses under which the Python epilogue does not divide by zero
   (throughput = completed / duration, every latency / ticks_per_second) *)
Theorem final_stats_total_pos C dur s :
  (0 < dur)%Q -> (0 < cf_tps C)%Z ->
  exists st, final_stats C dur s = st /\
    st_throughput st = (inject_Z (st_completed st) / dur)%Q /\
    (flat_map p_tick_times (e_pools (sm_exec s)) = [] -> st_p99 st = None) /\
    (flat_map p_tick_times (e_pools (sm_exec s)) <> [] -> exists q, st_p99 st = Some q) /\
    Forall (fun ps => (pst_completions ps = 0%Z -> pst_mean ps = None /\ pst_p99 ps = None) /\
                      (pst_completions ps <> 0%Z -> exists m p, pst_mean ps = Some m /\ pst_p99 ps = Some p))
           [st_all st; st_query st; st_interactive st; st_batch st].
Proof. intros _ _. apply final_stats_total. Qed.

(* ------------------------------------------------------------------------------------------ *)
(* Examples                                                                                     *)
(* ------------------------------------------------------------------------------------------ *)
Module MainExamples.
Import PriorityPoolRunFacts.RunExamples.

(* the configuration of C16_retry_after_oom_run: one query pipeline, one OOM kill, one retry *)
Definition arr1 : list (list nat) := [[0]; []; []; []].

(* two pools: the entry point is the loop; the run reaches its end *)
Example ex_main_two_pools :
  sim_main C1 APriorityPool 2 10%Z 10%Q arr1 = sim_run C1 APriorityPool 0%Z (init_sim C1 2 10%Z 10%Q) arr1 /\
  snd (sim_main C1 APriorityPool 2 10%Z 10%Q arr1) = None.
Proof. split; vm_compute; reflexivity. Qed.

(* one or three pools: the code refuses to start (the loop alone, [sim_run], would run: with one pool the
   batch queue is served from the all-zero dummy snapshot and waits for ever) *)
Example ex_main_refuses_one_and_three :
  sim_main C1 APriorityPool 1 10%Z 10%Q arr1 = (init_sim C1 1 10%Z 10%Q, [], Some ESchedAssert) /\
  sim_main C1 APriorityPool 3 10%Z 10%Q arr1 = (init_sim C1 3 10%Z 10%Q, [], Some ESchedAssert) /\
  snd (sim_run C1 APriorityPool 0%Z (init_sim C1 1 10%Z 10%Q) arr1) = None.
Proof. repeat split; vm_compute; reflexivity. Qed.

(* no pool, or pools without RAM: the first tick is simulated, then the utilisation percentage divides by
   zero; the loop alone would run to its end. Overbook with RAM 0 and a free CPU does not get that far: the
   container would be given 0 GB and Assignment.__init__ raises inside tick 0 *)
Definition show3 (r : sim * list tick_log * option err) : nat * option err := (length (snd (fst r)), snd r).
Example ex_main_zero_total_ram :
  show3 (sim_main C1 ANaive 0 10%Z 10%Q arr1) = (1, Some EOther) /\
  show3 (sim_main C1 ANaive 2 10%Z 0%Q arr1) = (1, Some EOther) /\
  show3 (sim_main C1 APriority 2 10%Z 0%Q arr1) = (1, Some EOther) /\
  show3 (sim_main C1 APriorityPool 2 10%Z 0%Q [[]; []]) = (1, Some EOther) /\
  show3 (sim_main C1 AOverbook 0 10%Z 10%Q arr1) = (1, Some EOther) /\
  show3 (sim_main C1 AOverbook 2 10%Z 0%Q arr1) = (0, Some EBadAssignArgs) /\
  show3 (sim_run C1 ANaive 0%Z (init_sim C1 0 10%Z 10%Q) arr1) = (4, None) /\
  show3 (sim_run C1 ANaive 0%Z (init_sim C1 2 10%Z 0%Q) arr1) = (4, None) /\
  show3 (sim_main C1 ANaive 0 10%Z 10%Q []) = (0, None).
Proof. repeat split; vm_compute; reflexivity. Qed.

(* the restated closed-loop theorem applies (any number of ticks) *)
Example ex_pp_main_applies n :
  exists sf logs,
    sim_main C1 APriorityPool 2 10%Z 10%Q ([0] :: repeat [] n) = (sf, logs, None) /\ length logs = S n.
Proof.
  destruct (pp_main_runs_to_end C1 [(Query, [[]])] 10%Z 10%Q ([0] :: repeat [] n)) as (sf & logs & R & Ln).
  - reflexivity.
  - constructor; [exact wf_single|constructor].
  - intros op c. discriminate.
  - reflexivity.
  - reflexivity.
  - reflexivity.
  - cbn [concat]. intros k Hk. apply in_app_or in Hk. destruct Hk as [[<-|[]]|Hk].
    + vm_compute. discriminate.
    + exfalso. induction n as [|n IH]; cbn in Hk; [exact Hk|exact (IH Hk)].
  - cbn [concat]. assert (E : concat (repeat (@nil nat) n) = []) by (induction n; cbn; auto).
    rewrite E. cbn. constructor; [intros []|constructor].
  - exists sf, logs. split; [exact R|]. rewrite Ln. cbn [length]. rewrite repeat_length. reflexivity.
Qed.

End MainExamples.

Module ZeroExamples.
Import PriorityPoolRunFacts.RunExamples.

(* the state the run of C16_retry_after_oom_run ends in: one container completed *)
Definition sfin : sim := Eval vm_compute in fst (fst (sim_run C1 APriorityPool 0%Z (init_sim C1 2 10%Z 10%Q) [[0]; []; []; []])).

(* duration 0: Python raises ZeroDivisionError at `executor.num_completed() / params['duration']`; the model
   answers throughput 0 although a container completed. [final_stats_total] (no hypothesis on the duration) is a
   statement about this totalised function there, not about the code; [final_stats_total_pos] is the honest form *)
Example ex_zero_duration_is_totalised :
  st_completed (final_stats C1 0%Q sfin) = 1%Z /\
  Qeq_bool (st_throughput (final_stats C1 0%Q sfin)) 0%Q = true /\
  Qeq_bool (st_throughput (final_stats C1 (2 # 5)%Q sfin)) (5 # 2)%Q = true.
Proof. repeat split; vm_compute; reflexivity. Qed.

End ZeroExamples.
