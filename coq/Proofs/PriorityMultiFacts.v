(* C08 / C12, run level, multi-operator containers: the priority scheduler in the closed loop.

   P1  the executor half with suspensions (section 1): a pool tick with suspension commands naming distinct
       suspendable active containers, with suspending containers present, never raises when the active
       containers are [mrunnable] (ClosedLoopFacts), the suspendable ones stand at an operator boundary
       ([csb]) and the suspending ones hold SUSPENDING operators ([msusp]); the containers whose suspension
       ends hold PENDING operators afterwards ([mfresh]).  [spool_tick_total], [spools_tick_total],
       [exec_round_ok_s] -- the extension of ClosedLoopFacts.exec_round_ok to ticks with suspensions.
   P2  the scheduler half (section 2): every queued job holds distinct assignable operators forming a
       dependency-closed chain ([mjob]), so no scan is refused ([pr_scan_multi]); the re-queue loop files
       exactly one job per suspended container that has not been re-queued ([pr_requeue_pools_exact]); a
       whole round never fails ([multi_round]).
   P3  the one-holder invariant ([mp_inv], section 3): every holder -- queued job, live container,
       suspended container awaiting its re-queue -- holds ALL unfinished operators of one pipeline
       ([holds]), no operator is held twice, the pipelines of the last results and the pipelines that have
       not arrived have no holder ([quiet]).  [multi_tick_ok] preserves it through a whole tick;
       [priority_multi_runs_to_end]: CLOSED LOOP for multi-operator containers; [priority_runs_to_end]:
       either mode.
   P4  run-level queue invariants for multi-operator mode: [priority_multi_queues] (no duplicates, one
       holder), [priority_multi_no_loss] (no PENDING operator is lost; FAILED ones can be, see
       PriorityRunFacts.RunExamples.ex_failed_work_lost). *)
From Coq Require Import ZArith QArith List Bool Arith Lia Lqa Permutation.
Import ListNotations.
From Eudoxia Require Import Num.Rnd64 Model.Types Model.Dag Model.Lifecycle Model.Container Model.Pool
  Model.Executor Model.Sched Model.Simulator
  Proofs.ListFacts Proofs.LifecycleFacts Proofs.OomFacts Proofs.LedgerFacts Proofs.SuspendFacts
  Proofs.ConserveFacts Proofs.ExecLifeFacts Proofs.PriorityFacts Proofs.NaiveFacts Proofs.SafetyFacts
  Proofs.ClosedLoopFacts Proofs.PriorityRunFacts.
Close Scope Q_scope.
Close Scope Z_scope.

(* ------------------------------------------------------------------------------------------ *)
(* 1. the executor half with suspensions                                                        *)
(* ------------------------------------------------------------------------------------------ *)

Lemma find_remove_keep cid cid0 : forall l c,
  find_container cid l = Some c -> cid <> cid0 -> find_container cid (remove_container cid0 l) = Some c.
Proof.
  unfold find_container, remove_container. induction l as [|h t IH]; intros c F Ne; [discriminate|].
  cbn [find] in F. cbn [filter]. destruct (Nat.eqb (c_id h) cid) eqn:E.
  - inversion F; subst h. apply Nat.eqb_eq in E.
    assert (X : Nat.eqb (c_id c) cid0 = false) by (apply Nat.eqb_neq; congruence).
    rewrite X. cbn [negb find]. rewrite (proj2 (Nat.eqb_eq _ _) E). reflexivity.
  - destruct (Nat.eqb (c_id h) cid0); cbn [negb]; [apply IH; assumption|].
    cbn [find]. rewrite E. apply IH; assumption.
Qed.

Section MultiSusp.
Variable C : cfg.
Let St := cf_static C.
Hypothesis Hscript : forall op cpu, cf_script C op cpu <> [].

Definition susp_all (w : world) (l : list nat) : Prop := Forall (fun x => st_of w x = Suspending) l.
Definition pend_all (w : world) (l : list nat) : Prop := Forall (fun x => st_of w x = Pending) l.

(* a suspending container: its remaining operators are distinct, SUSPENDING, and a chain *)
Definition msusp (w : world) (c : container) : Prop :=
  c_completed c = false /\ ops_in_range St (c_ops c) /\
  exists o r, remops c = o :: r /\ NoDup (o :: r) /\ chain C w (o :: r) /\ susp_all w (o :: r).
(* a container whose suspension has ended: the same with PENDING operators *)
Definition mfresh (w : world) (c : container) : Prop :=
  c_completed c = false /\ ops_in_range St (c_ops c) /\
  exists o r, remops c = o :: r /\ NoDup (o :: r) /\ chain C w (o :: r) /\ pend_all w (o :: r).
(* a container that can be suspended has not started its current operator *)
Definition csb (c : container) : Prop := c_can_suspend c = true -> c_rest c = None.

Lemma own_msusp w c : msusp w c -> own c = remops c.
Proof. intros (Hc & _). unfold own, remops. rewrite Hc. reflexivity. Qed.

Lemma own_mrunnable w c : mrunnable C w c -> own c = remops c.
Proof. intros R. apply (own_mkillable C w). apply mrunnable_killable. exact R. Qed.

Lemma msusp_stable w w' c :
  mono_w w w' -> (forall o, In o (remops c) -> st_of w' o = st_of w o) -> msusp w c -> msusp w' c.
Proof.
  intros M F (Hc & Rg & o & r & Ho & Nd & Ch & Su). split; [exact Hc|]. split; [exact Rg|].
  exists o, r. split; [exact Ho|]. split; [exact Nd|]. split; [eapply chain_mono; eauto|].
  unfold susp_all in *. rewrite Forall_forall in *. intros x Hx. rewrite F; [apply Su, Hx|].
  rewrite Ho. exact Hx.
Qed.

Lemma mfresh_steps_na w w' c : steps_na St w w' -> mfresh w c -> mfresh w' c.
Proof.
  intros S (Hc & Rg & o & r & Ho & Nd & Ch & Pe). split; [exact Hc|]. split; [exact Rg|].
  exists o, r. split; [exact Ho|]. split; [exact Nd|].
  split; [eapply chain_mono; [eapply steps_na_mono; eauto|exact Ch]|].
  unfold pend_all in *. rewrite Forall_forall in *. intros x Hx. eapply pending_stays; eauto.
Qed.

Lemma transition_all_to w l new :
  new <> Running -> NoDup l -> (forall x, In x l -> x < length (w_st w)) ->
  (forall x, In x l -> valid (st_of w x) new = true) ->
  exists w', transition_all St w l new = Ok w' /\
    (forall x, In x l -> st_of w' x = new) /\ (forall x, ~ In x l -> st_of w' x = st_of w x).
Proof.
  intros Hn Nd Rg V. destruct (transition_all_accepts St new Hn l w Nd V) as [w' T].
  destruct (transition_all_spec St new l w w' Nd Rg T) as (A & B & _). exists w'. auto.
Qed.

(* ---- phase 1: the suspension commands ---- *)
Lemma mapply_suspends_total : forall ss w act sing,
  wlen St w -> NoDup (owns act ++ owns sing) ->
  Forall (mrunnable C w) act -> Forall csb act -> Forall (msusp w) sing ->
  Forall (suspendable act) ss -> NoDup (map su_cid ss) ->
  exists w' act' sing',
    apply_suspends C w act sing ss = Ok (w', act', sing') /\
    Forall (mrunnable C w') act' /\ Forall csb act' /\ Forall (msusp w') sing' /\
    wlen St w' /\ steps_na St w w' /\
    (forall o, ~ In o (owns act) -> st_of w' o = st_of w o) /\
    (forall x, In x act' -> In x act).
Proof.
  induction ss as [|s t IH]; intros w act sing L N Fa Fb Fs Vs Ns.
  - exists w, act, sing. split; [reflexivity|]. repeat (split; [assumption|]).
    split; [constructor|]. split; auto.
  - inversion Vs as [|? ? [c [Fc Cs]] Vt]; subst. cbn [map] in Ns. inversion Ns as [|? ? Nsc Nst]; subst.
    destruct (OomFacts.find_container_some _ _ _ Fc) as [Hin Hid].
    rewrite Forall_forall in Fa, Fb, Fs.
    pose proof (Fa c Hin) as Rc. pose proof Rc as (Hc & Hf & Hr & Rg & o & r & Ho & Nd & Ch & As & Hs).
    rewrite (Fb c Hin Cs) in Hs.
    assert (Rgx : forall x, In x (o :: r) -> x < length (w_st w)).
    { intros x Hx. eapply (remops_in_range C); eauto. rewrite Ho. exact Hx. }
    destruct (transition_all_to w (o :: r) Suspending) as (w1 & T & S1 & F1);
      [discriminate|exact Nd|exact Rgx| |].
    { intros x [<-|Hx]; [rewrite Hs; reflexivity|].
      unfold assigned_all in As. rewrite Forall_forall in As. rewrite (As x Hx). reflexivity. }
    assert (K : csuspend C w c = Ok (w1, with_susp c (suspend_ticks C (c_ram c)))).
    { unfold csuspend. change (skipn (c_opidx c) (c_ops c)) with (remops c). rewrite Ho. fold St.
      rewrite T. reflexivity. }
    set (c1 := with_susp c (suspend_ticks C (c_ram c))) in *.
    assert (Sn1 : steps_na St w w1) by (eapply transition_all_steps_na; [|exact T]; discriminate).
    pose proof (steps_na_mono _ _ _ Sn1) as M1. pose proof (steps_na_wlen _ _ _ Sn1 L) as L1.
    assert (E1 : apply_suspends C w act sing [s]
                 = Ok (w1, remove_container (su_cid s) act, sing ++ [c1])).
    { cbn [apply_suspends]. rewrite Fc, K. reflexivity. }
    assert (NA : Forall ncompl act).
    { apply Forall_forall. intros x Hx. destruct (Fa x Hx) as (X & _). exact X. }
    assert (NS : Forall ncompl sing).
    { apply Forall_forall. intros x Hx. destruct (Fs x Hx) as (X & _). exact X. }
    destruct (apply_suspends_own _ _ _ _ _ _ _ _ E1 NA NS) as ((Ms & _) & _ & _).
    assert (N1 : NoDup (owns (remove_container (su_cid s) act) ++ owns (sing ++ [c1])))
      by (eapply msub_NoDup; eauto).
    assert (Oc : own c = o :: r) by (rewrite (own_mrunnable _ _ Rc); exact Ho).
    assert (Dis : forall x y, In x act -> x <> c -> In y (own x) -> ~ In y (o :: r)).
    { intros x y Hx Ne Hy Hy'. rewrite <- Oc in Hy'.
      eapply (owns_disjoint act x c y); eauto. eapply SafetyFacts.NoDup_app_l; eauto. }
    assert (Fa1 : Forall (mrunnable C w1) (remove_container (su_cid s) act)).
    { apply Forall_forall. intros x Hx. apply remove_container_incl in Hx. destruct Hx as [Hx Nx].
      eapply mrunnable_stable; [exact M1| |apply Fa; exact Hx].
      intros y Hy. apply F1. rewrite <- (own_mrunnable _ _ (Fa x Hx)) in Hy.
      eapply Dis; eauto. intros ->. congruence. }
    assert (Fb1 : Forall csb (remove_container (su_cid s) act)).
    { apply Forall_forall. intros x Hx. apply remove_container_incl in Hx. apply Fb. tauto. }
    assert (Fs1 : Forall (msusp w1) (sing ++ [c1])).
    { apply Forall_app. split.
      - apply Forall_forall. intros x Hx. eapply msusp_stable; [exact M1| |apply Fs; exact Hx].
        intros y Hy. apply F1. rewrite <- (own_msusp _ _ (Fs x Hx)) in Hy. rewrite <- Oc. intros Hy'.
        eapply (NoDup_app_disj _ _ y N); [eapply own_in_owns; eauto|eapply own_in_owns; eauto].
      - constructor; [|constructor]. split; [exact Hc|]. split; [exact Rg|]. exists o, r.
        split; [exact Ho|]. split; [exact Nd|]. split; [eapply chain_mono; eauto|].
        apply Forall_forall. exact S1. }
    assert (Vt1 : Forall (suspendable (remove_container (su_cid s) act)) t).
    { rewrite Forall_forall in *. intros s' Hs'. destruct (Vt s' Hs') as (c' & Fc' & Cs').
      exists c'. split; [|exact Cs']. apply find_remove_keep; [exact Fc'|].
      intros E. apply Nsc. rewrite <- E. apply in_map. exact Hs'. }
    destruct (IH w1 _ _ L1 N1 Fa1 Fb1 Fs1 Vt1 Nst) as (w' & act' & sing' & E2 & A1 & A2 & A3 & A4 & A5 & A6 & A7).
    exists w', act', sing'. split.
    { cbn [apply_suspends]. rewrite Fc, K. cbn [bind]. exact E2. }
    split; [exact A1|]. split; [exact A2|]. split; [exact A3|]. split; [exact A4|].
    split; [eapply steps_na_trans; eauto|]. split.
    + intros y Hy. rewrite A6.
      * apply F1. intros Hy'. apply Hy. rewrite <- Oc in Hy'. eapply own_in_owns; eauto.
      * intros Hy'. apply Hy. eapply msub_In; [apply msub_owns_filter|exact Hy'].
    + intros x Hx. apply A7 in Hx. apply remove_container_incl in Hx. tauto.
Qed.

Lemma xsteps_steps_na w w' : xsteps C w w' -> steps_na St w w'.
Proof.
  induction 1 as [w|w op new w1 w2 L X T R IH]; [constructor|].
  econstructor; [|exact T|exact IH]. destruct X as [->|[->| ->]]; discriminate.
Qed.

(* ---- phase 3: the suspending containers ---- *)
Lemma mtick_suspending_total : forall sing w,
  wlen St w -> NoDup (owns sing) -> Forall (msusp w) sing ->
  exists w',
    tick_suspending C w sing = Ok (w', map susp_dec sing) /\
    wlen St w' /\ steps_na St w w' /\
    (forall o, ~ In o (owns sing) -> st_of w' o = st_of w o) /\
    Forall (fun c => if is_suspended (susp_dec c) then mfresh w' (susp_dec c)
                     else msusp w' (susp_dec c)) sing.
Proof.
  induction sing as [|c t IH]; intros w L N F.
  - exists w. split; [reflexivity|]. split; [exact L|]. split; [constructor|]. split; [reflexivity|constructor].
  - inversion F as [|? ? Fc Ft]; subst. rewrite owns_cons in N.
    pose proof Fc as (Hc & Rg & o & r & Ho & Nd & Ch & Su).
    assert (Oc : own c = o :: r) by (rewrite (own_msusp _ _ Fc); exact Ho).
    assert (Rgx : forall x, In x (o :: r) -> x < length (w_st w)).
    { intros x Hx. eapply (remops_in_range C); eauto. rewrite Ho. exact Hx. }
    assert (X : exists w1, csuspend_tick C w c = Ok (w1, susp_dec c) /\ steps_na St w w1 /\
               (forall x, ~ In x (o :: r) -> st_of w1 x = st_of w x) /\
               (if is_suspended (susp_dec c) then pend_all w1 (o :: r) else w1 = w)).
    { unfold csuspend_tick, is_suspended, susp_dec. cbn [with_susp c_susp_left]. cbv zeta.
      destruct (c_susp_left c - 1 =? 0)%Z.
      - destruct (transition_all_to w (o :: r) Pending) as (w1 & T & S1 & F1);
          [discriminate|exact Nd|exact Rgx| |].
        { intros x Hx. unfold susp_all in Su. rewrite Forall_forall in Su. rewrite (Su x Hx). reflexivity. }
        exists w1. change (skipn (c_opidx c) (c_ops c)) with (remops c). rewrite Ho. fold St. rewrite T.
        split; [reflexivity|]. split; [eapply transition_all_steps_na; [|exact T]; discriminate|].
        split; [exact F1|]. apply Forall_forall. exact S1.
      - exists w. split; [reflexivity|]. split; [constructor|]. split; [reflexivity|reflexivity]. }
    destruct X as (w1 & E1 & Sn1 & F1 & P1).
    pose proof (steps_na_mono _ _ _ Sn1) as M1. pose proof (steps_na_wlen _ _ _ Sn1 L) as L1.
    assert (Ft1 : Forall (msusp w1) t).
    { rewrite Forall_forall in *. intros x Hx. eapply msusp_stable; [exact M1| |apply Ft; exact Hx].
      intros y Hy. apply F1. rewrite <- Oc. intros Hy'.
      rewrite <- (own_msusp _ _ (Ft x Hx)) in Hy.
      eapply (NoDup_app_disj _ _ y N); [exact Hy'|eapply own_in_owns; eauto]. }
    destruct (IH w1 L1 (SafetyFacts.NoDup_app_r _ _ N) Ft1) as (w2 & E2 & L2 & Sn2 & F2 & A2).
    exists w2. split.
    { cbn [tick_suspending map]. rewrite E1. cbn [bind]. rewrite E2. reflexivity. }
    split; [exact L2|]. split; [eapply steps_na_trans; eauto|]. split.
    + intros y Hy. rewrite F2.
      * apply F1. intros Hy'. apply Hy. rewrite owns_cons, Oc. apply in_or_app. left. exact Hy'.
      * intros Hy'. apply Hy. rewrite owns_cons. apply in_or_app. right. exact Hy'.
    + constructor; [|exact A2].
      assert (Keep : forall y, In y (o :: r) -> st_of w2 y = st_of w1 y).
      { intros y Hy. apply F2. intros Hy'. rewrite <- Oc in Hy.
        eapply (NoDup_app_disj _ _ y N); eauto. }
      pose proof (steps_na_mono _ _ _ Sn2) as M2.
      assert (Ch2 : chain C w2 (o :: r)).
      { eapply chain_mono; [exact M2|]. eapply chain_mono; eauto. }
      destruct (is_suspended (susp_dec c)).
      * split; [exact Hc|]. split; [exact Rg|]. exists o, r. split; [exact Ho|]. split; [exact Nd|].
        split; [exact Ch2|]. unfold pend_all in *. rewrite Forall_forall in *.
        intros y Hy. rewrite Keep by exact Hy. apply P1. exact Hy.
      * subst w1. split; [exact Hc|]. split; [exact Rg|]. exists o, r. split; [exact Ho|].
        split; [exact Nd|]. split; [exact Ch2|]. unfold susp_all in *. rewrite Forall_forall in *.
        intros y Hy. rewrite Keep by exact Hy. apply Su. exact Hy.
Qed.

(* ---- one pool ---- *)
Definition spool_inv (w : world) (next : nat) (p : pool) : Prop :=
  Forall (mrunnable C w) (p_active p) /\ Forall csb (p_active p) /\
  Forall (msusp w) (p_suspending p) /\ ids_ok next p.

Lemma spool_inv_live w next p : spool_inv w next p -> pool_live p.
Proof.
  intros (Fa & _ & Fs & _). split.
  - eapply Forall_impl; [|exact Fa]. intros c (Hc & _). exact Hc.
  - eapply Forall_impl; [|exact Fs]. intros c (Hc & _). exact Hc.
Qed.

Lemma spool_inv_ok w next p : spool_inv w next p -> pool_ok St p.
Proof.
  intros (Fa & _ & Fs & _). split.
  - eapply Forall_impl; [|exact Fa]. intros c. apply mrunnable_range.
  - eapply Forall_impl; [|exact Fs]. intros c (_ & Rg & _). exact Rg.
Qed.

(* what a pool tick does to the suspended list: the containers [done] whose suspension ended are appended;
   their operators were owned before, and they stem from suspending or active containers *)
Definition fresh_rel (w : world) (p p' : pool) : Prop :=
  exists done,
    p_suspended p' = p_suspended p ++ done /\ Forall (mfresh w) done /\ msub (owns done) (pown p) /\
    (forall d, In d done -> exists x, (In x (p_suspending p) \/ In x (p_active p)) /\
                 c_ops d = c_ops x /\ c_error d = c_error x /\ c_id d = c_id x) /\
    (forall c, In c (p_suspending p) -> In (susp_dec c) (p_suspending p') \/ In (susp_dec c) done).

Lemma fresh_rel_mono w w' p p' : steps_na St w w' -> fresh_rel w p p' -> fresh_rel w' p p'.
Proof.
  intros S (done & A & B & D). exists done. split; [exact A|]. split; [|exact D].
  eapply Forall_impl; [|exact B]. intros c. apply mfresh_steps_na. exact S.
Qed.

Lemma owns_map_susp_dec l : owns (map susp_dec l) = owns l.
Proof. induction l as [|c t IH]; [reflexivity|]. cbn [map]. rewrite !owns_cons, IH. reflexivity. Qed.

Lemma spool_tick_total w next p ss asgs :
  wlen St w -> spool_inv w next p -> Forall (masg_ready C w) asgs ->
  NoDup (pown p ++ aops asgs) ->
  Forall (suspendable (p_active p)) ss -> NoDup (map su_cid ss) ->
  (asgs = [] \/ verify_assignments C p asgs = Ok tt) ->
  (forall a, In a asgs -> opcount_ok C a = true) ->
  exists w' next' p' res,
    pool_tick C w next p ss asgs = Ok (w', next', p', res) /\ spool_inv w' next' p' /\
    steps_na St w w' /\ fresh_rel w' p p'.
Proof.
  intros L (Fa & Fb & Fs & Hi) Fr N Vs Ns V O. unfold pown in N.
  assert (N0 : NoDup (owns (p_active p) ++ owns (p_suspending p))) by (eapply SafetyFacts.NoDup_app_l; exact N).
  destruct (mapply_suspends_total ss w _ _ L N0 Fa Fb Fs Vs Ns)
    as (w1 & act1 & sing1 & E1 & A1 & B1 & S1 & L1 & Sn1 & F1 & I1).
  set (cons1 := match ss with [] => p_consumed p | _ => reconcile C act1 end).
  assert (P1 : match ss with
               | [] => Ok (w, p_active p, p_suspending p, p_consumed p)
               | _ =>
                   do _ <- verify_suspends (p_active p) ss;
                   do r <- apply_suspends C w (p_active p) (p_suspending p) ss;
                   let '(w', act, sing) := r in Ok (w', act, sing, reconcile C act)
               end = Ok (w1, act1, sing1, cons1)).
  { unfold cons1. destruct ss as [|s0 t0].
    - cbn in E1. inversion E1; subst. reflexivity.
    - apply verify_suspends_iff in Vs. rewrite Vs. cbn [bind]. rewrite E1. reflexivity. }
  assert (NA : Forall ncompl (p_active p)).
  { eapply Forall_impl; [|exact Fa]. intros c (Hc & _). exact Hc. }
  assert (NS : Forall ncompl (p_suspending p)).
  { eapply Forall_impl; [|exact Fs]. intros c (Hc & _). exact Hc. }
  destruct (apply_suspends_own _ _ _ _ _ _ _ _ E1 NA NS) as ((Ms1 & _) & _ & _).
  assert (N13 : NoDup ((owns act1 ++ owns sing1) ++ aops asgs)).
  { eapply msub_NoDup; [|exact N]. intros x. specialize (Ms1 x). rewrite !cnt_app in *. lia. }
  assert (Nsg : NoDup (owns sing1)).
  { eapply msub_NoDup; [|exact N13]. intros x. rewrite !cnt_app. lia. }
  (* phase 3 *)
  destruct (mtick_suspending_total sing1 w1 L1 Nsg S1) as (w3 & E3 & L3 & Sn3 & F3 & A3).
  pose proof (steps_na_mono _ _ _ Sn1) as M1. pose proof (steps_na_mono _ _ _ Sn3) as M3.
  assert (M13 : mono_w w w3) by (eapply mono_w_trans; eauto).
  (* phase 2 *)
  set (act2 := act1 ++ news next asgs).
  destruct (apply_assignments_ok C asgs next (p_avail_cpu p) (p_avail_ram p) act1 O)
    as (acpu2 & aram2 & Ea).
  assert (E2 : exists next2 acpu2' aram2',
             match asgs with
             | [] => Ok (next, p_avail_cpu p, p_avail_ram p, act1)
             | _ => do _ <- verify_assignments C p asgs;
                    apply_assignments C next (p_avail_cpu p) (p_avail_ram p) act1 asgs
             end = Ok (next2, acpu2', aram2', act2)).
  { destruct asgs as [|a0 t].
    - unfold act2. cbn [news]. rewrite app_nil_r. eauto.
    - destruct V as [V|V]; [discriminate|]. rewrite V. cbn [bind]. rewrite Ea. eauto. }
  destruct E2 as (next2 & acpu2' & aram2' & E2).
  assert (Fr3 : Forall (masg_ready C w3) asgs).
  { rewrite Forall_forall in *. intros a Ha. eapply masg_ready_stable; [exact M13| |apply Fr; exact Ha].
    intros o Ho. assert (Hoa : In o (aops asgs)) by (unfold aops; apply in_flat_map; eauto).
    apply in_cnt in Hoa. rewrite F3, F1.
    - reflexivity.
    - apply cnt0_not_in. pose proof (nodup_cnt _ o N) as X. rewrite !cnt_app in X. lia.
    - apply cnt0_not_in. pose proof (nodup_cnt _ o N13) as X. rewrite !cnt_app in X. lia. }
  assert (A13 : Forall (mrunnable C w3) act1).
  { rewrite Forall_forall in *. intros x Hx. eapply mrunnable_stable; [exact M3| |apply A1; exact Hx].
    intros o Ho. apply F3. rewrite <- (own_mrunnable _ _ (A1 x Hx)) in Ho.
    assert (Hoa : In o (owns act1)) by (eapply own_in_owns; eauto). apply in_cnt in Hoa.
    apply cnt0_not_in. pose proof (nodup_cnt _ o N13) as X. rewrite !cnt_app in X. lia. }
  assert (F2 : Forall (mrunnable C w3) act2).
  { unfold act2. apply Forall_app. split; [exact A13|apply mnews_runnable; exact Fr3]. }
  assert (N2 : NoDup (owns act2)).
  { unfold act2. rewrite owns_app, news_owns. eapply msub_NoDup; [|exact N13].
    intros x. rewrite !cnt_app. lia. }
  assert (I2 : NoDup (map c_id act2)).
  { unfold act2. rewrite map_app, news_ids. destruct Hi as [Nl Bl].
    pose proof (LedgerFacts.apply_suspends_ids _ _ _ _ _ _ _ _ (ids_ok_active _ _ (conj Nl Bl)) E1) as Pm.
    assert (Nl1 : NoDup (map c_id act1)).
    { unfold live in Nl. rewrite map_app in Nl.
      pose proof (Permutation_NoDup (Permutation_sym Pm) Nl) as X. eapply LedgerFacts.NoDup_app_l; eauto. }
    apply ConserveFacts.NoDup_app_intro; [exact Nl1|apply seq_NoDup|].
    intros x Hx Hq. apply in_seq in Hq. apply in_map_iff in Hx. destruct Hx as [c [<- Hc]].
    assert (Hl : In c (live p)) by (unfold live; apply in_or_app; left; apply I1; exact Hc).
    specialize (Bl c Hl). lia. }
  assert (R2 : conts_in_range St act2).
  { eapply Forall_impl; [|exact F2]. intros c. apply mrunnable_range. }
  (* phases 4 and 5 *)
  destruct (mtick_active_total C Hscript act2 w3 cons1 L3 N2 F2) as (w4 & cons4 & act4 & E4 & A4 & X4).
  destruct (tick_active_steps_in _ _ _ _ _ _ _ E4 R2 L3) as [_ O4].
  pose proof (xsteps_wlen _ _ _ X4 L3) as L4.
  assert (R4 : conts_in_range St act4) by (eapply conts_in_range_map; eauto).
  destruct (tick_active_own _ _ _ _ _ _ _ E4) as (Ms4 & Fr4 & _).
  assert (N4 : NoDup (owns act4)) by (eapply msub_NoDup; eauto).
  assert (I4 : NoDup (map c_id act4)).
  { rewrite ids_keys, (tick_active_keys _ _ _ _ _ _ _ E4), <- ids_keys. exact I2. }
  destruct (moom_killer_total C (p_max_ram p) w4 cons4 act4 L4 N4 I4 A4)
    as (w5 & cons5 & act5 & E5 & A5 & X5).
  destruct (oom_killer_own _ _ _ _ _ _ _ _ E5) as (_ & Fr5 & _).
  assert (Sn35 : steps_na St w3 w5).
  { eapply steps_na_trans; apply xsteps_steps_na; eauto. }
  assert (Keep35 : forall o, ~ In o (owns act2) -> st_of w5 o = st_of w3 o).
  { intros o Ho. rewrite Fr5, Fr4; [reflexivity|exact Ho|].
    intros Hi4. apply Ho. eapply msub_In; eauto. }
  assert (E : exists p',
            pool_tick C w next p ss asgs
              = Ok (w5, next2, p', map (result_of (p_id p)) (filter c_completed act5)) /\
            p_suspending p' = filter (fun c => negb (is_suspended c)) (map susp_dec sing1) /\
            p_active p' = filter (fun c => negb (c_completed c)) act5 /\
            p_suspended p' = p_suspended p ++ filter is_suspended (map susp_dec sing1)).
  { eexists. split.
    - unfold pool_tick. eapply bind_ok; [exact P1|]. cbv beta iota.
      eapply bind_ok; [exact E2|]. cbv beta iota.
      eapply bind_ok; [exact E3|]. cbv beta iota zeta.
      eapply bind_ok; [exact E4|]. cbv beta iota.
      eapply bind_ok; [exact E5|]. cbv beta iota. reflexivity.
    - cbn [upd_pool p_suspending p_active p_suspended]. repeat split; reflexivity. }
  destruct E as (p' & E & Hs' & Ha' & Hd').
  assert (SingKeep : forall c, In c sing1 -> forall o, In o (remops c) -> st_of w5 o = st_of w3 o).
  { intros c Hc o Ho. apply Keep35. unfold act2. rewrite owns_app, news_owns.
    rewrite Forall_forall in S1. rewrite <- (own_msusp _ _ (S1 c Hc)) in Ho.
    assert (Hoa : In o (owns sing1)) by (eapply own_in_owns; eauto). apply in_cnt in Hoa.
    apply cnt0_not_in. pose proof (nodup_cnt _ o N13) as X. rewrite !cnt_app in *. lia. }
  eexists w5, next2, p', _. split; [exact E|]. split; [|split].
  - split; [|split; [|split]].
    + rewrite Ha'. apply Forall_forall. intros x Hx. apply filter_In in Hx. destruct Hx as [Hx Hc].
      rewrite Forall_forall in A5. destruct (A5 x Hx) as [[X _]|X]; [rewrite X in Hc; discriminate|exact X].
    + apply Forall_forall. intros c' Hc' Hcs.
      assert (Hent : forall c, In c (p_active p) -> c_completed c = false /\ c_frozen c = false).
      { intros c Hc. rewrite Forall_forall in Fa. destruct (Fa c Hc) as (X & Y & _). auto. }
      destruct (suspendable_only_between_operators _ _ _ _ _ _ _ _ _ _ Hent E c' Hc') as (_ & _ & X).
      destruct (X Hcs) as (c0 & _ & _ & _ & _ & _ & Er). exact Er.
    + rewrite Hs'. apply Forall_forall. intros x Hx. apply filter_In in Hx. destruct Hx as [Hx Hn].
      apply in_map_iff in Hx. destruct Hx as [c [<- Hc]]. rewrite Forall_forall in A3.
      specialize (A3 c Hc). apply negb_true_iff in Hn. rewrite Hn in A3.
      eapply msusp_stable; [eapply steps_na_mono; exact Sn35| |exact A3].
      intros o Ho. apply (SingKeep c Hc). exact Ho.
    + apply (ConserveFacts.pool_tick_ids _ _ _ _ _ _ _ _ _ _ E Hi).
  - eapply steps_na_trans; [exact Sn1|]. eapply steps_na_trans; eauto.
  - destruct (LedgerFacts.apply_suspends_incl _ _ _ _ _ _ _ _ E1) as (_ & _ & J2 & J3).
    exists (filter is_suspended (map susp_dec sing1)). split; [exact Hd'|]. split; [|split; [|split]].
    + apply Forall_forall. intros c Hc.
      apply filter_In in Hc. destruct Hc as [Hc Hz]. apply in_map_iff in Hc. destruct Hc as [c0 [<- Hc0]].
      rewrite Forall_forall in A3. specialize (A3 c0 Hc0). rewrite Hz in A3.
      eapply mfresh_steps_na; eauto.
    + intros x. pose proof (msub_owns_filter is_suspended (map susp_dec sing1) x) as X1.
      rewrite owns_map_susp_dec in X1. specialize (Ms1 x). unfold pown. rewrite !cnt_app in *. lia.
    + intros d Hd. apply filter_In in Hd. destruct Hd as [Hd _]. apply in_map_iff in Hd.
      destruct Hd as [y [<- Hy]]. destruct (J3 y Hy) as [Hs|(c0 & Hc0 & ->)].
      * exists y. split; [left; exact Hs|]. repeat split; reflexivity.
      * exists c0. split; [right; exact Hc0|]. repeat split; reflexivity.
    + intros c Hc. apply J2 in Hc. rewrite Hs'.
      destruct (is_suspended (susp_dec c)) eqn:Z.
      * right. apply filter_In. split; [apply in_map; exact Hc|exact Z].
      * left. apply filter_In. split; [apply in_map; exact Hc|rewrite Z; reflexivity].
Qed.

(* ---- all pools ---- *)
Lemma spool_inv_stable w next w' next' q :
  mono_w w w' -> next <= next' -> (forall o, In o (pown q) -> st_of w' o = st_of w o) ->
  spool_inv w next q -> spool_inv w' next' q.
Proof.
  intros M Ln F (Fa & Fb & Fs & Hi). split; [|split; [exact Fb|split; [|eapply ids_ok_mono; eauto]]].
  - rewrite Forall_forall in *. intros c Hc. eapply mrunnable_stable; [exact M| |apply Fa, Hc].
    intros o Ho. apply F. unfold pown. apply in_or_app. left.
    rewrite <- (own_mrunnable _ _ (Fa c Hc)) in Ho. eapply own_in_owns; eauto.
  - rewrite Forall_forall in *. intros c Hc. eapply msusp_stable; [exact M| |apply Fs, Hc].
    intros o Ho. apply F. unfold pown. apply in_or_app. right.
    rewrite <- (own_msusp _ _ (Fs c Hc)) in Ho. eapply own_in_owns; eauto.
Qed.

Lemma spools_tick_total ss asgs : forall ps w next,
  wlen St w -> Forall (spool_inv w next) ps ->
  Forall (masg_ready C w) (rel asgs ps) ->
  NoDup (flat_map pown ps ++ aops (rel asgs ps)) ->
  (forall p, In p ps -> Forall (suspendable (p_active p)) (mine_s p ss) /\ NoDup (map su_cid (mine_s p ss))) ->
  (forall p, In p ps -> mine_of p asgs = [] \/ verify_assignments C p (mine_of p asgs) = Ok tt) ->
  (forall a, In a asgs -> opcount_ok C a = true) ->
  exists w' next' ps' res,
    pools_tick C w next ps ss asgs = Ok (w', next', ps', res) /\
    Forall (spool_inv w' next') ps' /\ next <= next' /\ steps_na St w w' /\
    Forall2 (fresh_rel w') ps ps'.
Proof.
  induction ps as [|p t IH]; intros w next L F Fr N Vs V O.
  - cbn [pools_tick]. eexists _, _, _, _. split; [reflexivity|]. split; [constructor|].
    split; [lia|]. split; constructor.
  - inversion F as [|? ? Fp Ft]; subst. unfold rel in Fr, N. cbn [flat_map] in Fr, N.
    fold (rel asgs t) in Fr, N.
    apply Forall_app in Fr. destruct Fr as [Frp Frt]. rewrite aops_app in N.
    assert (N' : NoDup ((pown p ++ aops (mine_of p asgs)) ++ (flat_map pown t ++ aops (rel asgs t)))).
    { eapply Permutation_NoDup; [|exact N]. rewrite <- !app_assoc. apply Permutation_app_head.
      rewrite !app_assoc. apply Permutation_app_tail. apply Permutation_app_comm. }
    assert (Op0 : forall a, In a (mine_of p asgs) -> opcount_ok C a = true).
    { intros a Ha. apply filter_In in Ha. apply O. tauto. }
    destruct (Vs p (or_introl eq_refl)) as [Vs1 Vs2].
    destruct (spool_tick_total w next p (mine_s p ss) (mine_of p asgs) L Fp Frp
                (SafetyFacts.NoDup_app_l _ _ N') Vs1 Vs2 (V p (or_introl eq_refl)) Op0)
      as (w1 & next1 & p1 & res1 & E1 & PI1 & Sn1 & Fh1).
    destruct (pool_tick_own _ _ _ _ _ _ _ _ _ _ E1 (spool_inv_live _ _ _ Fp)) as [St1 [Lv1 _]].
    pose proof (steps_na_mono _ _ _ Sn1) as M1. pose proof (steps_na_wlen _ _ _ Sn1 L) as L1.
    destruct Fp as (Fap & Fbp & Fsp & Hip).
    destruct (ConserveFacts.pool_tick_ids _ _ _ _ _ _ _ _ _ _ E1 Hip) as (_ & Hn1 & _).
    assert (Ln1 : next <= next1) by lia.
    assert (F1 : forall o, In o (flat_map pown t ++ aops (rel asgs t)) -> st_of w1 o = st_of w o).
    { intros o Ho. apply (Step_frame _ _ _ _ St1). intros Hin. eapply NoDup_app_disj; eauto. }
    assert (Ft1 : Forall (spool_inv w1 next1) t).
    { rewrite Forall_forall in *. intros q Hq. eapply spool_inv_stable; [exact M1|exact Ln1| |apply Ft, Hq].
      intros o Ho. apply F1. apply in_or_app. left. apply in_flat_map. exists q. auto. }
    assert (Frt1 : Forall (masg_ready C w1) (rel asgs t)).
    { rewrite Forall_forall in *. intros a Ha. eapply masg_ready_stable; [exact M1| |apply Frt, Ha].
      intros o Ho. apply F1. apply in_or_app. right. unfold aops. apply in_flat_map. exists a. auto. }
    destruct (IH w1 next1 L1 Ft1 Frt1 (SafetyFacts.NoDup_app_r _ _ N'))
      as (w2 & next2 & t2 & res2 & E2 & PI2 & Ln2 & Sn2 & Fh2).
    { intros q Hq. apply Vs. right. exact Hq. }
    { intros q Hq. apply V. right. exact Hq. }
    { exact O. }
    cbn [pools_tick]. cbv zeta. unfold mine_s, mine_of in E1. rewrite E1. cbn [bind].
    rewrite E2. cbn [bind]. eexists _, _, _, _. split; [reflexivity|].
    split; [|split; [lia|split; [eapply steps_na_trans; eauto|]]].
    + constructor; [|exact PI2].
      assert (Lt1 : Forall pool_live t).
      { eapply Forall_impl; [|exact Ft1]. intros q. apply spool_inv_live. }
      destruct (pools_tick_own _ _ _ _ _ _ _ _ _ _ E2 Lt1) as [St2 _].
      eapply spool_inv_stable; [eapply steps_na_mono; exact Sn2|exact Ln2| |exact PI1].
      intros o Ho. apply (Step_frame _ _ _ _ St2). intros Hin. apply in_step_source in Hin.
      destruct St1 as (Ms1 & _). eapply NoDup_app_disj; [exact N'| |exact Hin].
      eapply msub_In; eauto.
    + constructor; [|exact Fh2]. eapply fresh_rel_mono; eauto.
Qed.

(* ---- the executor half of a round, with suspensions ---- *)
Definition sloop_inv (np : nat) (e : estate) : Prop :=
  inv C e /\ own_inv e /\ Forall (spool_inv (e_world e) (e_next e)) (e_pools e) /\
  map p_id (e_pools e) = seq 0 np.

Lemma sloop_inv_init np cpu ram : sloop_inv np (init_estate C np cpu ram).
Proof.
  split; [apply inv_init|]. split; [apply own_inv_init|]. split.
  - unfold init_estate. cbn [e_pools e_world e_next]. apply Forall_forall. intros p Hp.
    apply in_map_iff in Hp. destruct Hp as [i [<- _]]. split; [constructor|]. split; [constructor|].
    split; [constructor|]. split; [constructor|intros ? []].
  - unfold init_estate. cbn [e_pools]. rewrite map_map. cbn [new_pool p_id]. apply map_id.
Qed.

Lemma exec_round_ok_s np e w' susps asgs :
  sloop_inv np e ->
  wlen St w' -> mono_w (e_world e) w' -> mk_assignments C (e_world e) asgs = Ok w' ->
  Forall (masg_ready C w') asgs ->
  (forall x, assignable (st_of (e_world e) x) = false -> st_of w' x = st_of (e_world e) x) ->
  checks_pass_s C (e_pools e) susps asgs ->
  exists e2 res,
    exec_tick C {| e_world := w'; e_pools := e_pools e; e_next := e_next e |} susps asgs = Ok (e2, res) /\
    sloop_inv np e2 /\ steps_na St w' (e_world e2) /\
    Forall2 (fresh_rel (e_world e2)) (e_pools e) (e_pools e2).
Proof.
  intros (Iv & Ow & Pi & Hseq) L' M' Emk Fr Frame (Ck0 & Ck1 & Cks & Ck2 & Ck3).
  destruct Iv as [L Rg]. pose proof Ow as (Nid & Plv & [Ns Ab]).
  assert (Ra : forall a, In a asgs -> ops_in_range St (a_ops a)).
  { intros a Ha. rewrite Forall_forall in Fr. destruct (Fr a Ha) as (_ & R & _). exact R. }
  assert (Pi' : Forall (spool_inv w' (e_next e)) (e_pools e)).
  { rewrite Forall_forall in *. intros q Hq. eapply spool_inv_stable; [exact M'|apply le_n| |apply Pi, Hq].
    intros o Ho. apply Frame. assert (B : busy (st_of (e_world e) o)).
    { apply Ab. unfold sown. apply in_flat_map. exists q. auto. }
    apply busy_not_assignable in B. exact B. }
  assert (Frel : Forall (masg_ready C w') (rel asgs (e_pools e))).
  { rewrite Forall_forall in *. intros a Ha. apply Fr. eapply rel_incl; eauto. }
  assert (Nrel : NoDup (flat_map pown (e_pools e) ++ aops (rel asgs (e_pools e)))).
  { destruct (mk_assignments_good _ _ _ _ _ Emk Ra L (conj Ns Ab)) as [Ng _].
    eapply msub_NoDup; [|exact Ng]. intros x. rewrite cnt_rel.
    apply (pending_msub (e_pools e) asgs Nid x). }
  destruct (spools_tick_total susps asgs (e_pools e) w' (e_next e) L' Pi' Frel Nrel Cks Ck2 Ck3)
    as (w2 & next2 & ps2 & res & Ept & Pi2 & _ & Sn2 & Fh2).
  set (e2 := {| e_world := w2; e_pools := ps2; e_next := next2 |}).
  assert (Eex : exec_tick C {| e_world := w'; e_pools := e_pools e; e_next := e_next e |} susps asgs
                = Ok (e2, res)).
  { unfold exec_tick. cbv zeta. cbn [e_pools e_world e_next]. rewrite Ck0, Ck1. cbn [negb andb].
    rewrite Ept. reflexivity. }
  assert (Est : exec_step C e susps asgs = Ok (e2, res)).
  { unfold exec_step. rewrite Emk. cbn [bind]. exact Eex. }
  exists e2, res. split; [exact Eex|].
  destruct (exec_step_steps_in _ _ _ _ _ _ Est (conj L Rg) Ra) as [_ Iv2].
  split; [|split; [exact Sn2|exact Fh2]].
  split; [exact Iv2|]. split; [eapply exec_step_own_inv; eauto; split; assumption|].
  split; [exact Pi2|]. cbn [e2 e_pools].
  destruct (pools_tick_static _ _ _ _ _ _ _ _ _ _ Ept) as [Ids _]. rewrite Ids. exact Hseq.
Qed.

End MultiSusp.

(* ------------------------------------------------------------------------------------------ *)
(* 2. the scheduler half in multi-operator mode                                                 *)
(* ------------------------------------------------------------------------------------------ *)

(* ---- where the live containers and the results of a pool tick come from ---- *)
Lemma pool_tick_live_origin C w next p ss asgs w' next' p' res :
  pool_tick C w next p ss asgs = Ok (w', next', p', res) ->
  forall c', In c' (p_active p') \/ In c' (p_suspending p') ->
    (exists c, (In c (p_active p) \/ In c (p_suspending p)) /\
               c_ops c' = c_ops c /\ c_error c' = c_error c /\ c_id c' = c_id c) \/
    (exists a, In a asgs /\ c_ops c' = a_ops a /\ c_error c' = false).
Proof.
  intros H c' Hc'. apply LedgerFacts.pool_tick_inv in H.
  destruct H as (w1 & act1 & sing1 & cons1 & acpu2 & aram2 & act2 & w3 & sing3 & w4 & cons4 & act4
                 & cons5 & act5 & E1 & E2 & E3 & E4 & E5 & -> & _).
  apply LedgerFacts.phase1_facts in E1. destruct E1 as (_ & I1 & _ & I3 & _).
  apply LedgerFacts.phase2_spec in E2. destruct E2 as (_ & -> & _).
  apply tick_suspending_spec in E3. destruct E3 as [-> _].
  cbn [pool_after upd_pool p_active p_suspending] in Hc'. destruct Hc' as [Hc'|Hc'].
  - apply filter_In in Hc'. destruct Hc' as [Hc5 Hn]. apply negb_true_iff in Hn.
    destruct (oom_killer_alive _ _ _ _ _ _ _ _ _ E5 Hc5 Hn) as [Hc4 _].
    apply tick_active_spec in E4. destruct E4 as (_ & _ & F2).
    destruct (Forall2_In_right _ _ _ _ F2 Hc4) as (c2 & Hc2 & wa & ca & wb & cb & _ & K & _).
    apply ctick_cases in K. destruct K as [(K1 & K2 & _) Kc].
    assert (Ke : c_error c' = c_error c2).
    { destruct Kc as [(_ & _ & _ & ->)|[(_ & _ & _ & _ & ->)|(_ & _ & op & w1' & _ & _ & [X|X])]];
        try reflexivity.
      - destruct X as (_ & _ & _ & X & _). exact X.
      - destruct X as (_ & _ & _ & _ & [(_ & X & _)|(_ & _ & X & _)]); [congruence|exact X]. }
    apply in_app_or in Hc2. destruct Hc2 as [Hc2|Hc2].
    + left. exists c2. split; [left; apply I1; exact Hc2|]. auto.
    + right. apply new_containers_In in Hc2. destruct Hc2 as (a & Ha & Eo & _ & _ & _ & _ & _ & Ee).
      exists a. split; [exact Ha|]. split; congruence.
  - apply filter_In in Hc'. destruct Hc' as [Hc' _]. apply in_map_iff in Hc'. destruct Hc' as [y [<- Hy]].
    left. destruct (I3 y Hy) as [Hs|(c0 & Hc0 & ->)].
    + exists y. split; [right; exact Hs|]. repeat split; reflexivity.
    + exists c0. split; [left; exact Hc0|]. repeat split; reflexivity.
Qed.

Lemma Forall2_In_left {A B} (R : A -> B -> Prop) l l' a :
  Forall2 R l l' -> In a l -> exists b, In b l' /\ R a b.
Proof.
  intros F. induction F as [|x y l l' Hxy F IH]; intros H; [destruct H|].
  destruct H as [<-|H].
  - exists y. split; [left; reflexivity | exact Hxy].
  - destruct (IH H) as (b & Hb & Rb). exists b. split; [right; exact Hb | exact Rb].
Qed.

Lemma Forall2_msub {A B} (R : A -> B -> Prop) (h : A -> list nat) (g : B -> list nat) l l' :
  (forall a b, R a b -> msub (g b) (h a)) -> Forall2 R l l' -> msub (flat_map g l') (flat_map h l).
Proof.
  intros H F. induction F as [|a b l l' Hab F IH]; [apply msub_refl|]. cbn [flat_map].
  intros x. specialize (H a b Hab x). specialize (IH x). rewrite !cnt_app. lia.
Qed.

(* ---- an operator that becomes PENDING during an executor tick was released by a container whose
        suspension ended ---- *)
Lemma apply_suspends_steps_t C : forall ss w act sing w' act' sing',
  apply_suspends C w act sing ss = Ok (w', act', sing') -> steps_t (cf_static C) (eq Suspending) w w'.
Proof.
  induction ss as [|s t IH]; intros w act sing w' act' sing' H; cbn [apply_suspends] in H.
  - inversion H; subst. constructor.
  - destruct (find_container (su_cid s) act) as [c|]; [|discriminate].
    bok H r1 K. destruct r1 as [w1 c1]. apply csuspend_ok in K. destruct K as [T _].
    eapply steps_t_trans; [eapply transition_all_steps_t; [reflexivity|exact T]|eapply IH; eauto].
Qed.

Lemma tick_suspending_back C : forall sing w w' sing' o,
  tick_suspending C w sing = Ok (w', sing') -> st_of w' o = Pending -> st_of w o <> Pending ->
  exists y, In y sing /\ (c_susp_left y - 1 = 0)%Z /\ In o (remops y).
Proof.
  induction sing as [|c t IH]; intros w w' sing' o H Hp1 Hp0; cbn [tick_suspending] in H.
  - inversion H; subst. contradiction.
  - bok H r1 E1. destruct r1 as [w1 c1]. bok H r2 E2. destruct r2 as [w2 t2]. inversion H; subst.
    destruct (ostate_eqb (st_of w1 o) Pending) eqn:Q.
    + apply ostate_eqb_eq in Q. apply csuspend_tick_ok in E1. destruct E1 as [_ [[Z T]|[_ ->]]]; [|contradiction].
      exists c. split; [left; reflexivity|]. split; [exact Z|].
      destruct (in_dec Nat.eq_dec o (remops c)) as [Hin|Hn]; [exact Hin|exfalso].
      apply Hp0. rewrite <- (transition_all_frame _ _ _ _ _ T o Hn). exact Q.
    + apply ostate_eqb_neq in Q. destruct (IH _ _ _ _ E2 Hp1 Q) as (y & Hy & Z & Ho).
      exists y. split; [right; exact Hy|auto].
Qed.

Lemma pool_tick_released C w next p ss asgs w' next' p' res o :
  pool_tick C w next p ss asgs = Ok (w', next', p', res) ->
  st_of w' o = Pending -> st_of w o <> Pending ->
  exists d, In d (p_suspended p') /\ In o (remops d) /\
            exists x, (In x (p_active p) \/ In x (p_suspending p)) /\ c_id d = c_id x.
Proof.
  intros H Hp1 Hp0. apply LedgerFacts.pool_tick_inv in H.
  destruct H as (w1 & act1 & sing1 & cons1 & acpu2 & aram2 & act2 & w3 & sing3 & w4 & cons4 & act4
                 & cons5 & act5 & E1 & _ & E3 & E4 & E5 & -> & _).
  assert (P3 : st_of w3 o = Pending).
  { eapply steps_t_back; [eapply tick_active_steps_t; exact E4| |].
    - intros [X|[X|X]]; discriminate.
    - eapply steps_t_back; [eapply oom_killer_steps_t; exact E5|discriminate|exact Hp1]. }
  pose proof (LedgerFacts.phase1_facts _ _ _ _ _ _ _ _ E1) as (_ & _ & _ & I3 & _).
  assert (P1 : st_of w1 o <> Pending).
  { intros X. apply Hp0. apply LedgerFacts.phase1_inv in E1.
    destruct E1 as [(_ & -> & _)|(_ & _ & A & _)]; [exact X|].
    eapply steps_t_back; [eapply apply_suspends_steps_t; exact A|discriminate|exact X]. }
  pose proof (tick_suspending_spec _ _ _ _ _ E3) as [Es _].
  destruct (tick_suspending_back _ _ _ _ _ _ E3 P3 P1) as (y & Hy & Z & Ho).
  exists (susp_dec y). split; [|split; [exact Ho|]].
  - cbn [pool_after upd_pool p_suspended]. apply in_or_app. right. apply filter_In. rewrite Es.
    split; [apply in_map; exact Hy|]. unfold is_suspended, susp_dec. cbn [with_susp c_susp_left].
    apply Z.eqb_eq. exact Z.
  - destruct (I3 y Hy) as [Hs|(c0 & Hc0 & ->)].
    + exists y. split; [right; exact Hs|reflexivity].
    + exists c0. split; [left; exact Hc0|reflexivity].
Qed.

Lemma pools_tick_released C ss asgs : forall ps w next w' next' ps' res o,
  pools_tick C w next ps ss asgs = Ok (w', next', ps', res) ->
  st_of w' o = Pending -> st_of w o <> Pending ->
  exists p p' d, In p ps /\ In p' ps' /\ In d (p_suspended p') /\ In o (remops d) /\
                 exists x, (In x (p_active p) \/ In x (p_suspending p)) /\ c_id d = c_id x.
Proof.
  induction ps as [|p t IH]; intros w next w' next' ps' res o H Hp1 Hp0; cbn [pools_tick] in H.
  - inversion H; subst. contradiction.
  - cbv zeta in H. bok H r1 E1. destruct r1 as [[[w1 next1] p1] res1].
    bok H r2 E2. destruct r2 as [[[w2 next2] t2] res2]. inversion H; subst.
    destruct (ostate_eqb (st_of w1 o) Pending) eqn:Q.
    + apply ostate_eqb_eq in Q. destruct (pool_tick_released _ _ _ _ _ _ _ _ _ _ _ E1 Q Hp0) as (d & Hd & Ho & X).
      exists p, p1, d. split; [left; reflexivity|]. split; [left; reflexivity|]. auto.
    + apply ostate_eqb_neq in Q. destruct (IH _ _ _ _ _ _ _ E2 Hp1 Q) as (p0 & p0' & d & A & B & D).
      exists p0, p0', d. split; [right; exact A|]. split; [right; exact B|exact D].
Qed.

(* a live container and a suspended one never share an id *)
Lemma cnt_flat_map_one {A} (f : A -> list nat) x : forall l c,
  In c l -> cnt x (f c) <= cnt x (flat_map f l).
Proof.
  induction l as [|h t IH]; intros c Hc; [destruct Hc|]. cbn [flat_map]. rewrite cnt_app.
  destruct Hc as [->|Hc]; [lia|]. specialize (IH c Hc). lia.
Qed.

Lemma live_susp_ids ps p p1 x y :
  NoDup (all_ids ps) -> In p ps -> In p1 ps ->
  In x (p_active p) \/ In x (p_suspending p) -> In y (p_suspended p1) -> c_id x <> c_id y.
Proof.
  intros N Hp Hp1 Hx Hy E. pose proof (nodup_cnt _ (c_id x) N) as X. unfold all_ids in X.
  assert (Cx : 1 <= cnt (c_id x) (map c_id (p_active p ++ p_suspending p))).
  { apply in_cnt. apply in_map. apply in_or_app. exact Hx. }
  assert (Cy : 1 <= cnt (c_id x) (map c_id (p_suspended p1))).
  { apply in_cnt. rewrite E. apply in_map. exact Hy. }
  assert (Pi : forall q, cnt (c_id x) (pool_ids q) =
                 cnt (c_id x) (map c_id (p_active q ++ p_suspending q)) + cnt (c_id x) (map c_id (p_suspended q))).
  { intros q. unfold pool_ids, pool_conts. rewrite !map_app, !cnt_app. lia. }
  destruct (in_split _ _ Hp) as (l1 & l2 & ->).
  rewrite flat_map_app in X. cbn [flat_map] in X. rewrite !cnt_app in X.
  apply in_app_or in Hp1. destruct Hp1 as [H1|[<-|H1]].
  - pose proof (cnt_flat_map_one pool_ids (c_id x) l1 p1 H1) as Y. rewrite !Pi in *. lia.
  - rewrite !Pi in *. lia.
  - pose proof (cnt_flat_map_one pool_ids (c_id x) l2 p1 H1) as Y. rewrite !Pi in *. lia.
Qed.

Section MultiMode.
Variable C : cfg.
Let St := cf_static C.
Hypothesis Hscript : forall op cpu, cf_script C op cpu <> [].
Hypothesis Hmulti : cf_multi C = true.
Hypothesis SK : static_ok St.
Hypothesis OK : ClosedLoopFacts.ops_known St.
Hypothesis TP : order_topo St.

Lemma SKm_orders : orders_nodup St.
Proof. intros k. apply SK. Qed.
Lemma SKm_range : pipes_in_range St.
Proof. intros k o Io. destruct SK as [_ SO]. destruct (SO _ _ Io) as (_ & R & _). exact R. Qed.
Lemma SKm_pipe k o : In o (pd_order (pipe_of St k)) -> op_pipe St o = k.
Proof. intros Io. destruct SK as [_ SO]. destruct (SO _ _ Io) as (E & _). exact E. Qed.
Lemma SKm_disjoint k k' o :
  In o (pd_order (pipe_of St k)) -> In o (pd_order (pipe_of St k')) -> k = k'.
Proof. intros I1 I2. rewrite <- (SKm_pipe _ _ I1). apply SKm_pipe. exact I2. Qed.

(* the operator list [l] belongs to pipeline [k] and holds all its unfinished operators *)
Definition holds (w : world) (k : nat) (l : list nat) : Prop :=
  (forall o, In o l -> In o (pd_order (pipe_of St k))) /\
  (forall o, In o (pd_order (pipe_of St k)) -> In o l \/ st_of w o = Completed).

Lemma holds_mono w w' k l : mono_w w w' -> holds w k l -> holds w' k l.
Proof.
  intros [_ M] [H1 H2]. split; [exact H1|]. intros o Io.
  destruct (H2 o Io) as [X|X]; [left; exact X|right; apply M; exact X].
Qed.

Lemma holds_suffix w k l1 l2 :
  holds w k (l1 ++ l2) -> (forall o, In o l1 -> st_of w o = Completed) -> holds w k l2.
Proof.
  intros [H1 H2] Hc. split.
  - intros o Ho. apply H1. apply in_or_app. right. exact Ho.
  - intros o Io. destruct (H2 o Io) as [X|X]; [|right; exact X].
    apply in_app_or in X. destruct X as [X|X]; [right; apply Hc; exact X|left; exact X].
Qed.

(* a queued job of the multi-operator mode *)
Definition mjob (w : world) (j : job) : Prop :=
  jgood C j /\ NoDup (j_ops j) /\ (forall o, In o (j_ops j) -> assignable (st_of w o) = true) /\
  chain C w (j_ops j) /\ (exists k, holds w k (j_ops j)) /\
  (retry_err j = true -> forall o, In o (j_ops j) -> st_of w o = Failed).

Lemma mjob_stable w w' j :
  mono_w w w' -> (forall o, In o (j_ops j) -> st_of w' o = st_of w o) -> mjob w j -> mjob w' j.
Proof.
  intros M F (G & Nd & As & Ch & (k & Hk) & Rf). split; [exact G|]. split; [exact Nd|]. split.
  { intros o Ho. rewrite (F o Ho). apply As. exact Ho. }
  split; [eapply chain_mono; eauto|]. split; [exists k; eapply holds_mono; eauto|].
  intros E o Ho. rewrite (F o Ho). apply Rf; assumption.
Qed.

(* a chain of Assignment constructions from such jobs *)
Inductive masgs : world -> list asg -> world -> Prop :=
| ma_nil w : masgs w [] w
| ma_cons w a l w1 w' :
    args_ok a -> ops_in_range St (a_ops a) -> NoDup (a_ops a) ->
    (forall o, In o (a_ops a) -> assignable (st_of w o) = true) -> chain C w (a_ops a) ->
    (exists k, holds w k (a_ops a)) ->
    mk_assignment C w a = Ok w1 -> masgs w1 l w' -> masgs w (a :: l) w'.

Lemma masgs_app w l1 w1 l2 w2 : masgs w l1 w1 -> masgs w1 l2 w2 -> masgs w (l1 ++ l2) w2.
Proof.
  induction 1 as [w|w a l w1 w' A1 A2 A3 A4 A5 A6 A7 P IH]; intros X; cbn [app];
    [exact X | econstructor; eauto].
Qed.

Lemma masgs_facts : forall w l w', masgs w l w' -> wlen St w ->
  wlen St w' /\ mono_w w w' /\ mk_assignments C w l = Ok w' /\ Forall (masg_ready C w') l /\
  (forall x, assignable (st_of w x) = false -> st_of w' x = st_of w x) /\
  (forall x, ~ In x (aops l) -> st_of w' x = st_of w x) /\
  (forall a, In a l -> exists k, holds w' k (a_ops a)) /\
  steps_t St (eq Assigned) w w'.
Proof.
  induction 1 as [w|w a l w1 w' AO Ra Nd As Ch Hk Mk P IH]; intros L.
  - split; [exact L|]. split; [apply mono_w_refl|]. split; [reflexivity|]. split; [constructor|].
    split; [reflexivity|]. split; [reflexivity|]. split; [intros ? []|constructor].
  - pose proof (mk_assignment_steps_in _ _ _ _ Mk Ra L) as S1.
    pose proof (steps_in_wlen _ _ _ S1 L) as L1. pose proof (steps_in_mono C _ _ S1) as M1.
    destruct (IH L1) as (L' & M' & E' & F' & Fr' & Fx' & Hk' & T').
    pose proof Mk as Mk0. rewrite (mk_assignment_args_ok C w a AO) in Mk0.
    assert (S1a : forall o, In o (a_ops a) -> st_of w1 o = Assigned).
    { intros o Ho. eapply transition_all_set; eauto. unfold wlen in L. fold St in L. rewrite L.
      unfold ops_in_range in Ra. rewrite Forall_forall in Ra. apply Ra. exact Ho. }
    split; [exact L'|]. split; [eapply mono_w_trans; eauto|]. split.
    { cbn [mk_assignments]. rewrite Mk. cbn [bind]. exact E'. }
    split; [|split; [|split; [|split]]].
    + constructor; [|exact F']. destruct AO as (A1 & A2 & A3).
      split; [exact A3|]. split; [exact Ra|]. split; [intros E; rewrite E in A1; discriminate|].
      split; [exact Nd|]. split.
      * apply Forall_forall. intros o Ho. rewrite (Fr' o); [apply S1a; exact Ho|].
        rewrite (S1a o Ho). reflexivity.
      * eapply chain_mono; [|exact Ch]. eapply mono_w_trans; eauto.
    + intros x Hx. pose proof (mk_assignment_frame C _ _ _ x Mk Hx) as F1.
      rewrite (Fr' x); [exact F1|]. rewrite F1. exact Hx.
    + intros x Hx. cbn [aops flat_map] in Hx. rewrite Fx'.
      * eapply transition_all_frame; eauto. intros Hi. apply Hx. apply in_or_app. left. exact Hi.
      * intros Hi. apply Hx. apply in_or_app. right. exact Hi.
    + intros a' [<-|Ha']; [|apply Hk'; exact Ha'].
      destruct Hk as [k Hk]. exists k. eapply holds_mono; [|exact Hk]. eapply mono_w_trans; eauto.
    + eapply steps_t_trans; [|exact T']. eapply transition_all_steps_t; [reflexivity|exact Mk0].
Qed.

(* the scan of a class queue in multi-operator mode never fails *)
Lemma pr_scan_multi : forall queue w st oom,
  wlen St w -> (forall j, In j queue -> mjob w j) -> NoDup (flat_map j_ops queue) ->
  exists n st' w' asgs oom',
    pr_scan C w st queue oom = Ok (n, st', w', asgs, oom') /\
    masgs w asgs w' /\
    (forall x, ~ In x (flat_map j_ops (firstn n queue)) -> st_of w' x = st_of w x).
Proof.
  induction queue as [|j rest IH]; intros w st oom L G N.
  - exists 0, st, w, [], oom. split; [reflexivity|]. split; [constructor | reflexivity].
  - rewrite pr_scan_cons.
    destruct (max_ram_pool st 0 None 0%Q) as [pid|] eqn:M.
    2:{ exists 0, st, w, [], oom. split; [reflexivity|]. split; [constructor | reflexivity]. }
    destruct (max_ram_pool_some _ _ M) as (_ & Pc & Pr).
    cbv zeta. cbn [flat_map] in N.
    assert (Gr : forall j0, In j0 rest -> mjob w j0) by (intros j0 Hj0; apply G; right; exact Hj0).
    pose proof (SafetyFacts.NoDup_app_r _ _ N) as Nr.
    destruct (pr_nofit (nth pid st dummy_stat) j).
    { destruct (IH w st oom L Gr Nr) as (n & st' & w' & asgs & oom' & E & SA & Fr).
      rewrite E. exists (S n), st', w', asgs, oom'. split; [reflexivity|]. split; [exact SA|].
      intros x Hx. apply Fr. intros Hin. apply Hx. cbn [firstn flat_map]. apply in_or_app. right. exact Hin. }
    destruct (pr_cut C (nth pid st dummy_stat) j).
    { destruct (IH w st (oom + 1)%Z L Gr Nr) as (n & st' & w' & asgs & oom' & E & SA & Fr).
      rewrite E. exists (S n), st', w', asgs, oom'. split; [reflexivity|]. split; [exact SA|].
      intros x Hx. apply Fr. intros Hin. apply Hx. cbn [firstn flat_map]. apply in_or_app. right. exact Hin. }
    destruct (G j (or_introl eq_refl)) as (Gj & Ndj & Asj & Chj & Hkj & _).
    pose proof (jgood_args_ok C (nth pid st dummy_stat) j pid Gj Pc Pr) as AO.
    set (a := mk_asg j pid (fst (pr_size C (nth pid st dummy_stat) j)) (snd (pr_size C (nth pid st dummy_stat) j))) in *.
    destruct (get_ops_assignable_ok St (j_ops j) w Ndj Asj) as [w1 T].
    assert (MA : mk_assignment C w a = Ok w1).
    { rewrite (mk_assignment_args_ok C w a AO). exact T. }
    destruct Gj as (_ & Rj & _).
    pose proof (mk_assignment_steps_in _ _ _ _ MA Rj L) as S1.
    pose proof (steps_in_wlen _ _ _ S1 L) as L1. pose proof (steps_in_mono C _ _ S1) as M1.
    assert (Gr1 : forall j0, In j0 rest -> mjob w1 j0).
    { intros j0 Hj0. eapply mjob_stable; [exact M1| |apply Gr; exact Hj0].
      intros o' Ho'. eapply transition_all_frame; [exact T|]. intros Hin.
      eapply (NoDup_app_disj _ _ o' N); [exact Hin|]. apply in_flat_map. exists j0. auto. }
    destruct (IH w1 (set_stat st pid (ps_take (nth pid st dummy_stat) (a_cpu a) (a_ram a))) oom L1 Gr1 Nr)
      as (n & st' & w' & asgs & oom' & E & SA & Fr).
    rewrite MA. cbn [bind]. rewrite E.
    exists (S n), st', w', (a :: asgs), oom'. split; [reflexivity|]. split.
    + eapply ma_cons; [exact AO|exact Rj|exact Ndj|exact Asj|exact Chj|exact Hkj|exact MA|exact SA].
    + intros x Hx. cbn [firstn flat_map] in Hx. rewrite Fr.
      * eapply transition_all_frame; [exact T|]. intros Hin. apply Hx. apply in_or_app. left. exact Hin.
      * intros Hin. apply Hx. apply in_or_app. right. exact Hin.
Qed.

(* ---- the re-queue loop, exactly ---- *)
Definition notreq (s : sstate) (c : container) : bool := negb (memb (c_id c) (ss_requeued s)).
Definition fresh_of (s : sstate) (p : pool) : list container := filter (notreq s) (p_suspended p).
Definition fresh_conts (e : estate) (s : sstate) : list container := flat_map (fresh_of s) (e_pools e).
Definition fresh_ops (e : estate) (s : sstate) : list nat := flat_map remops (fresh_conts e s).

(* the job filed for a suspended container: the noted one, or one built now *)
Definition rq_job (w : world) (m : list (nat * job)) (c : container) (j : job) : Prop :=
  match assoc_find (c_id c) m with
  | Some j0 => j = j0
  | None => exists pid j0, job_of_container w pid c = Ok j0 /\ j = job_with_pipe C j0
  end.

Lemma assoc_find_del_other {A} k k' (m : list (nat * A)) :
  k <> k' -> assoc_find k (assoc_del k' m) = assoc_find k m.
Proof.
  intros Ne. unfold assoc_del. induction m as [|[a x] t IH]; [reflexivity|].
  cbn [filter fst assoc_find]. destruct (Nat.eqb a k') eqn:E'; cbn [negb].
  - apply Nat.eqb_eq in E'. subst a. assert (X : Nat.eqb k' k = false) by (apply Nat.eqb_neq; congruence).
    rewrite X. exact IH.
  - cbn [assoc_find]. destruct (Nat.eqb a k); [reflexivity|exact IH].
Qed.

Lemma Forall2_impl_in {A B} (R R' : A -> B -> Prop) l l' :
  (forall a b, In a l -> R a b -> R' a b) -> Forall2 R l l' -> Forall2 R' l l'.
Proof.
  intros H F. induction F as [|a b l l' Hab F IH]; [constructor|].
  constructor; [apply H; [left; reflexivity|exact Hab]|]. apply IH. intros a0 b0 Ha0. apply H. right. exact Ha0.
Qed.

Lemma pr_requeue_exact w pid : forall cs s s',
  pr_requeue C w pid cs s = Ok s' -> NoDup (map c_id cs) ->
  exists lq,
    (forall p, queue_of s' p = queue_of s p ++ filter (is_class p) lq) /\
    Forall2 (rq_job w (ss_suspending s)) (filter (notreq s) cs) lq /\
    (forall id, In id (ss_requeued s') <-> In id (ss_requeued s) \/ In id (map c_id cs)) /\
    (forall k, ~ In k (map c_id cs) -> assoc_find k (ss_suspending s') = assoc_find k (ss_suspending s)).
Proof.
  induction cs as [|c t IH]; intros s s' H N.
  - cbn in H. inversion H; subst. exists []. split; [intros p; cbn; rewrite app_nil_r; reflexivity|].
    split; [constructor|]. split; [intros id; cbn; tauto|reflexivity].
  - cbn [map] in N. inversion N as [|? ? Nc Nt]; subst. cbn [pr_requeue] in H. cbn [filter]. unfold notreq at 1.
    destruct (memb (c_id c) (ss_requeued s)) eqn:Mb; cbn [negb].
    + destruct (IH _ _ H Nt) as (lq & Q & F2 & Rq & Sm). exists lq. split; [exact Q|]. split; [exact F2|].
      split.
      * intros id. rewrite Rq. cbn [map In]. apply memb_In in Mb. split; [tauto|].
        intros [X|[<-|X]]; auto.
      * intros k Hk. apply Sm. intros X. apply Hk. right. exact X.
    + apply memb_false in Mb. bok H j J.
      set (s1 := {| ss_queue := ss_queue s; ss_fail := ss_fail s; ss_q := ss_q s; ss_i := ss_i s;
                    ss_b := ss_b s; ss_suspending := assoc_del (c_id c) (ss_suspending s);
                    ss_requeued := ss_requeued s ++ [c_id c]; ss_oom := ss_oom s |}) in *.
      destruct (IH _ _ H Nt) as (lq & Q & F2 & Rq & Sm).
      rewrite push_job_suspending, push_job_requeued in *. cbn [s1 ss_suspending ss_requeued] in *.
      exists (j :: lq). split; [|split; [|split]].
      * intros p. rewrite Q, queue_of_push_own.
        destruct p; cbn [queue_of ss_q ss_i ss_b s1]; rewrite <- app_assoc, filter_one_app; reflexivity.
      * constructor.
        -- unfold rq_job. destruct (assoc_find (c_id c) (ss_suspending s)) as [j'|].
           ++ inversion J. reflexivity.
           ++ unfold bind in J. destruct (job_of_container w pid c) as [j0|] eqn:JC; [|discriminate J].
              inversion J. exists pid, j0. auto.
        -- assert (Ef : filter (notreq (push_job s1 j (j_prio j))) t = filter (notreq s) t).
           { apply filter_ext_in. intros x Hx. unfold notreq. rewrite push_job_requeued. cbn [s1 ss_requeued].
             f_equal. unfold memb. rewrite existsb_app. cbn [existsb].
             assert (X : Nat.eqb (c_id x) (c_id c) = false).
             { apply Nat.eqb_neq. intros E. apply Nc. rewrite <- E. apply in_map. exact Hx. }
             rewrite X. cbn. apply orb_false_r. }
           rewrite Ef in F2. eapply Forall2_impl_in; [|exact F2].
           intros a b Ha R. apply filter_In in Ha. destruct Ha as [Ha _]. unfold rq_job in *.
           rewrite assoc_find_del_other in R; [exact R|]. intros E. apply Nc. rewrite <- E. apply in_map. exact Ha.
      * intros id. rewrite Rq, in_app_iff. cbn [map In]. tauto.
      * intros k Hk. rewrite Sm by (intros X; apply Hk; right; exact X).
        apply assoc_find_del_other. intros E. apply Hk. left. auto.
Qed.

Lemma flat_map_ext_in' {A B} (f g : A -> list B) l :
  (forall a, In a l -> f a = g a) -> flat_map f l = flat_map g l.
Proof.
  induction l as [|a t IH]; intros H; [reflexivity|]. cbn [flat_map].
  rewrite (H a (or_introl eq_refl)), IH; [reflexivity|]. intros x Hx. apply H. right. exact Hx.
Qed.

Lemma pr_requeue_pools_exact w : forall ps s s',
  pr_requeue_pools C w ps s = Ok s' -> NoDup (map c_id (flat_map p_suspended ps)) ->
  exists lq,
    (forall p, queue_of s' p = queue_of s p ++ filter (is_class p) lq) /\
    Forall2 (rq_job w (ss_suspending s)) (flat_map (fresh_of s) ps) lq /\
    (forall id, In id (ss_requeued s') <-> In id (ss_requeued s) \/ In id (map c_id (flat_map p_suspended ps))) /\
    (forall k, ~ In k (map c_id (flat_map p_suspended ps)) ->
       assoc_find k (ss_suspending s') = assoc_find k (ss_suspending s)).
Proof.
  induction ps as [|p t IH]; intros s s' H N.
  - cbn in H. inversion H; subst. exists []. split; [intros q; cbn; rewrite app_nil_r; reflexivity|].
    split; [constructor|]. split; [intros id; cbn; tauto|reflexivity].
  - cbn [pr_requeue_pools] in H. bok H sa A. cbn [flat_map] in N. rewrite map_app in N.
    pose proof (LedgerFacts.NoDup_app_l _ _ N) as Np. pose proof (LedgerFacts.NoDup_app_r _ _ N) as Nt.
    destruct (pr_requeue_exact _ _ _ _ _ A Np) as (l1 & Q1 & F1 & R1 & S1).
    destruct (IH _ _ H Nt) as (l2 & Q2 & F2 & R2 & S2).
    exists (l1 ++ l2). split; [|split; [|split]].
    + intros q. rewrite Q2, Q1, filter_app', app_assoc. reflexivity.
    + cbn [flat_map]. apply Forall2_app; [exact F1|].
      assert (Ef : flat_map (fresh_of sa) t = flat_map (fresh_of s) t).
      { apply flat_map_ext_in'. intros q Hq. unfold fresh_of. apply filter_ext_in. intros x Hx.
        unfold notreq. f_equal.
        destruct (memb (c_id x) (ss_requeued sa)) eqn:M1; destruct (memb (c_id x) (ss_requeued s)) eqn:M2; try reflexivity.
        - apply memb_In in M1. apply memb_false in M2. apply R1 in M1. destruct M1 as [M1|M1]; [contradiction|].
          exfalso. eapply (LedgerFacts.NoDup_app_disjoint _ _ (c_id x) N); [exact M1|].
          apply in_map. apply in_flat_map. eauto.
        - apply memb_false in M1. apply memb_In in M2. exfalso. apply M1. apply R1. left. exact M2. }
      rewrite Ef in F2. eapply Forall2_impl_in; [|exact F2]. intros a b Ha R.
      unfold rq_job in *. rewrite S1 in R; [exact R|]. intros X.
      apply in_flat_map in Ha. destruct Ha as [q [Hq Ha]]. unfold fresh_of in Ha. apply filter_In in Ha.
      eapply (LedgerFacts.NoDup_app_disjoint _ _ (c_id a) N); [exact X|].
      apply in_map. apply in_flat_map. exists q. tauto.
    + intros id. rewrite R2, R1. cbn [flat_map]. rewrite map_app, in_app_iff. tauto.
    + intros k Hk. cbn [flat_map] in Hk. rewrite map_app, in_app_iff in Hk.
      rewrite S2, S1; [reflexivity| |]; tauto.
Qed.

(* ---- the jobs filed for new or changed pipelines ---- *)
Definition mnew_ops (w : world) (s : sstate) (k : nat) : list nat :=
  filter (fun o => negb (memb o (queued_ops s))) (get_ops St w k assignable false).

Lemma pr_new_jobs_multi_ops w s results newp :
  flat_map j_ops (pr_new_jobs C w s results newp) = flat_map (mnew_ops w s) (pr_proc C results newp).
Proof.
  unfold pr_new_jobs. cbv zeta. fold (pr_proc C results newp). rewrite Hmulti.
  rewrite flat_map_flat_map. apply flat_map_ext. intros p. unfold mnew_ops. change (S_of C) with St.
  destruct (filter _ (get_ops St w p assignable false)) as [|o t]; [reflexivity|].
  cbn [flat_map j_ops]. apply app_nil_r.
Qed.

Lemma pr_new_jobs_multi_in w s results newp j :
  In j (pr_new_jobs C w s results newp) ->
  exists k o t, In k (pr_proc C results newp) /\ j_ops j = mnew_ops w s k /\ mnew_ops w s k = o :: t /\
                j_retry j = assoc_find o (retry_info w results).
Proof.
  intros Hj. unfold pr_new_jobs in Hj. cbv zeta in Hj. fold (pr_proc C results newp) in Hj.
  rewrite Hmulti in Hj. apply in_flat_map in Hj. destruct Hj as [k [Hk Hj]].
  change (S_of C) with St in Hj. fold (mnew_ops w s k) in Hj.
  destruct (mnew_ops w s k) as [|o t] eqn:E; [destruct Hj|]. destruct Hj as [<-|[]].
  exists k, o, t. cbn [j_ops j_retry]. auto.
Qed.

(* a pipeline nobody holds: its operators are finished or free, none is queued, none is reserved for a
   suspended container *)
Definition quiet (w : world) (s : sstate) (fr : list nat) (k : nat) : Prop :=
  forall o, In o (pd_order (pipe_of St k)) ->
    (st_of w o = Completed \/ assignable (st_of w o) = true) /\ ~ In o (queued_ops s) /\ ~ In o fr.

Definition unfinished (w : world) (k : nat) : list nat :=
  filter (fun o => assignable (st_of w o)) (pd_order (pipe_of St k)).

Lemma mnew_ops_quiet w s fr k : quiet w s fr k -> mnew_ops w s k = unfinished w k.
Proof.
  intros Q. unfold mnew_ops, unfinished, get_ops. rewrite ConserveFacts.filter_all.
  - apply filter_ext. intros o. cbn [negb orb]. apply andb_true_r.
  - intros o Ho. apply filter_In in Ho. destruct Ho as [Ho _]. destruct (Q o Ho) as (_ & Nq & _).
    apply negb_true_iff. apply memb_false. exact Nq.
Qed.

Lemma filter_split {A} (f : A -> bool) : forall L l1 x l2, filter f L = l1 ++ x :: l2 ->
  exists L1 L2, L = L1 ++ x :: L2 /\ filter f L1 = l1.
Proof.
  induction L as [|a t IH]; intros l1 x l2 E; cbn [filter] in E.
  - destruct l1; discriminate.
  - destruct (f a) eqn:Fa.
    + destruct l1 as [|y l1]; cbn [app] in E; inversion E; subst.
      * exists [], t. split; reflexivity.
      * destruct (IH _ _ _ H1) as (L1 & L2 & -> & E1). exists (y :: L1), L2. cbn [app filter].
        rewrite Fa, E1. split; reflexivity.
    + destruct (IH _ _ _ E) as (L1 & L2 & -> & E1). exists (a :: L1), L2. cbn [app filter].
      rewrite Fa. split; [reflexivity|exact E1].
Qed.

Lemma unfinished_chain w s fr k : quiet w s fr k -> chain C w (unfinished w k).
Proof.
  intros Q l1 o l2 E p Hp. unfold unfinished in E. apply filter_split in E.
  destruct E as (L1 & L2 & EL & E1). pose proof (TP k L1 o L2 EL p Hp) as Hin.
  assert (Hpk : In p (pd_order (pipe_of St k))) by (rewrite EL; apply in_or_app; left; exact Hin).
  destruct (Q p Hpk) as ([X|X] & _); [left; exact X|right].
  rewrite <- E1. apply filter_In. split; assumption.
Qed.

Lemma unfinished_holds w s fr k : quiet w s fr k -> holds w k (unfinished w k).
Proof.
  intros Q. split.
  - intros o Ho. apply filter_In in Ho. tauto.
  - intros o Ho. destruct (Q o Ho) as ([X|X] & _); [right; exact X|left]. apply filter_In. auto.
Qed.

(* failed results: every operator of their pipelines is COMPLETED or FAILED *)
Definition res_failed_all (w : world) (results : list result) : Prop :=
  forall r, In r results -> r_err r = true -> forall o k, In o (r_ops r) -> In o (pd_order (pipe_of St k)) ->
    forall o', In o' (pd_order (pipe_of St k)) -> st_of w o' = Completed \/ st_of w o' = Failed.

Lemma new_job_mjob w s fr results newp j :
  (forall k, In k (pr_proc C results newp) -> quiet w s fr k) ->
  Forall rpos results -> res_failed_all w results ->
  In j (pr_new_jobs C w s results newp) ->
  mjob w j /\ exists k, In k (pr_proc C results newp) /\ j_ops j = unfinished w k.
Proof.
  intros PQ Hr RF Hj. pose proof (pr_new_jobs_good C w s results newp j SKm_range Hr Hj) as G.
  destruct (pr_new_jobs_multi_in _ _ _ _ _ Hj) as (k & o & t & Hk & Eo & En & Er).
  pose proof (PQ k Hk) as Q. rewrite (mnew_ops_quiet _ _ _ _ Q) in Eo, En.
  split; [|exists k; auto]. split; [exact G|]. rewrite Eo. split.
  { unfold unfinished. apply NoDup_filter_nat. apply SK. }
  split; [intros x Hx; unfold unfinished in Hx; apply filter_In in Hx; tauto|].
  split; [eapply unfinished_chain; eauto|]. split; [exists k; eapply unfinished_holds; eauto|].
  intros Re x Hx. unfold retry_err in Re. rewrite Er in Re.
  destruct (assoc_find o (retry_info w results)) as [rs|] eqn:F; [|discriminate].
  apply retry_info_from_err in F. destruct F as (r & Hr0 & _ & He & Hin).
  assert (Hok : In o (pd_order (pipe_of St k))).
  { assert (X : In o (unfinished w k)) by (rewrite En; left; reflexivity).
    unfold unfinished in X. apply filter_In in X. tauto. }
  unfold unfinished in Hx. apply filter_In in Hx. destruct Hx as [Hxk Hxa].
  destruct (RF r Hr0 He o k Hin Hok x Hxk) as [X|X]; [rewrite X in Hxa; discriminate|exact X].
Qed.

Lemma new_jobs_nodup w s results newp :
  NoDup (flat_map j_ops (pr_new_jobs C w s results newp)).
Proof.
  rewrite pr_new_jobs_multi_ops. apply NoDup_flat_map_intro.
  - apply pr_proc_NoDup.
  - intros k _. unfold mnew_ops, get_ops. apply NoDup_filter_nat. apply NoDup_filter_nat. apply SK.
  - intros x y z _ _ Ne Hx Hy. unfold mnew_ops, get_ops in Hx, Hy.
    apply filter_In in Hx. destruct Hx as [Hx _]. apply filter_In in Hx. destruct Hx as [Hx _].
    apply filter_In in Hy. destruct Hy as [Hy _]. apply filter_In in Hy. destruct Hy as [Hy _].
    apply Ne. eapply SKm_disjoint; eauto.
Qed.

(* ---- container ids are unique over all lists of all pools ---- *)
Lemma all_ids_map ps : all_ids ps = map c_id (flat_map pool_conts ps).
Proof.
  unfold all_ids, pool_ids. induction ps as [|p t IH]; [reflexivity|]. cbn [flat_map].
  rewrite map_app, IH. reflexivity.
Qed.

Lemma conts_id_inj ps p p' c c' :
  NoDup (all_ids ps) -> In p ps -> In p' ps -> In c (pool_conts p) -> In c' (pool_conts p') ->
  c_id c = c_id c' -> c = c'.
Proof.
  intros N Hp Hp' Hc Hc' E. rewrite all_ids_map in N.
  apply (NoDup_map_inj c_id _ c c' N); [apply in_flat_map; eauto|apply in_flat_map; eauto|exact E].
Qed.

Lemma not_completed_remops w c :
  (forall o, In o (firstn (c_opidx c) (c_ops c)) -> st_of w o = Completed) ->
  (forall o, In o (remops c) -> st_of w o <> Completed) ->
  not_completed_ops w (c_ops c) = remops c.
Proof.
  intros Hp Hr. unfold not_completed_ops, remops.
  rewrite <- (firstn_skipn (c_opidx c) (c_ops c)) at 1. rewrite filter_app'.
  assert (E1 : filter (fun o => negb (ostate_eqb (st_of w o) Completed)) (firstn (c_opidx c) (c_ops c)) = []).
  { induction (firstn (c_opidx c) (c_ops c)) as [|a t IH]; [reflexivity|]. cbn [filter].
    rewrite (Hp a (or_introl eq_refl)). cbn. apply IH. intros o Ho. apply Hp. right. exact Ho. }
  rewrite E1. cbn [app]. apply ConserveFacts.filter_all. intros o Ho.
  apply negb_true_iff. apply ostate_eqb_neq. apply Hr. exact Ho.
Qed.

Lemma all_ids_suspended_nodup : forall ps, NoDup (all_ids ps) -> NoDup (map c_id (flat_map p_suspended ps)).
Proof.
  intros ps N. rewrite all_ids_map in N.
  assert (G : forall ps, msub (map c_id (flat_map p_suspended ps)) (map c_id (flat_map pool_conts ps))).
  { induction ps0 as [|p t IH]; [apply msub_refl|]. cbn [flat_map]. unfold pool_conts at 1.
    rewrite !map_app. intros x. specialize (IH x). rewrite !cnt_app. lia. }
  eapply msub_NoDup; [apply G|exact N].
Qed.

(* the bookkeeping entry of a container: its remaining operators, and it is not the retry of a failure *)
Definition cont_entry (e : estate) (cid : nat) (j : job) : Prop :=
  exists p c, In p (e_pools e) /\ (In c (p_suspending p) \/ In c (p_suspended p)) /\
              c_id c = cid /\ j_ops j = remops c /\ retry_err j = false.

Definition prefix_done (w : world) (c : container) : Prop :=
  forall o, In o (firstn (c_opidx c) (c_ops c)) -> st_of w o = Completed.

Lemma cgood_prefix w c : cgood C w c -> prefix_done w c.
Proof. intros [[(_ & Hp & _) _] _]. exact Hp. Qed.

Lemma Forall2_flat_map_eq {A B} (f : A -> list nat) (g : B -> list nat) (R : A -> B -> Prop) l l' :
  (forall a b, In a l -> R a b -> g b = f a) -> Forall2 R l l' -> flat_map g l' = flat_map f l.
Proof.
  intros H F. induction F as [|a b l l' Hab F IH]; [reflexivity|]. cbn [flat_map].
  rewrite (H a b (or_introl eq_refl) Hab), IH; [reflexivity|]. intros a0 b0 Ha0. apply H. right. exact Ha0.
Qed.

Lemma mfresh_not_completed w c o : mfresh C w c -> In o (remops c) -> st_of w o <> Completed.
Proof.
  intros (_ & _ & o0 & r & Ho & _ & _ & Pe) Hin. rewrite Ho in Hin. unfold pend_all in Pe.
  rewrite Forall_forall in Pe. rewrite (Pe o Hin). discriminate.
Qed.

(* the job filed for a suspended container awaiting its re-queue *)
Lemma rq_job_facts w e s m c j :
  NoDup (all_ids (e_pools e)) ->
  (forall cid j0, In (cid, j0) m -> cont_entry e cid j0) ->
  In c (fresh_conts e s) -> prefix_done w c -> mfresh C w c -> c_error c = false ->
  rq_job w m c j -> j_ops j = remops c /\ retry_err j = false.
Proof.
  intros Nid Gm Hc Hp Hf He R. unfold rq_job in R.
  unfold fresh_conts in Hc. apply in_flat_map in Hc. destruct Hc as [p [Hp0 Hc]].
  unfold fresh_of in Hc. apply filter_In in Hc. destruct Hc as [Hc _].
  destruct (assoc_find (c_id c) m) as [j0|] eqn:F.
  - subst j. apply assoc_find_In in F. destruct (Gm _ _ F) as (p1 & c1 & Hp1 & Hc1 & Eid & Eo & Er).
    assert (c1 = c).
    { eapply (conts_id_inj (e_pools e) p1 p); eauto; unfold pool_conts; rewrite !in_app_iff; tauto. }
    subst c1. auto.
  - destruct R as (pid & j0 & J & ->). apply job_of_container_fields in J.
    destruct J as (E1 & _ & _ & E4). cbn [job_with_pipe j_ops j_retry]. split.
    + rewrite E1. apply not_completed_remops; [exact Hp|]. intros o Ho. eapply mfresh_not_completed; eauto.
    + unfold retry_err. cbn [job_with_pipe j_retry]. rewrite E4. cbn. exact He.
Qed.

Lemma fresh_job_mjob w c j :
  jgood C j -> mfresh C w c -> prefix_done w c -> (exists k, holds w k (c_ops c)) ->
  j_ops j = remops c -> retry_err j = false -> mjob w j.
Proof.
  intros G (Hc & Rg & o & r & Ho & Nd & Ch & Pe) Hp [k Hk] Eo Er.
  split; [exact G|]. rewrite Eo, Ho. split; [exact Nd|]. split.
  { intros x Hx. unfold pend_all in Pe. rewrite Forall_forall in Pe. rewrite (Pe x Hx). reflexivity. }
  split; [exact Ch|]. split.
  - exists k. rewrite <- Ho. unfold remops. eapply holds_suffix; [|exact Hp].
    rewrite firstn_skipn. exact Hk.
  - intros X. congruence.
Qed.

(* a scanned job: its operators got an assignment, or it was the retry of a failure (all FAILED) *)
Lemma scanned_gone_m queue w st oom n st' w' asgs oom' o :
  pr_scan C w st queue oom = Ok (n, st', w', asgs, oom') -> (forall j, In j queue -> mjob w j) ->
  In o (flat_map j_ops (firstn n queue)) ->
  (exists a, In a asgs /\ In o (a_ops a)) \/ st_of w o = Failed.
Proof.
  intros E G Ho. apply in_flat_map in Ho. destruct Ho as [j [Hj Hoj]].
  assert (Hjq : In j queue) by (eapply PriorityFacts.In_firstn; eauto).
  destruct (G j Hjq) as (_ & _ & _ & _ & _ & Rf).
  apply pr_scan_rel in E. apply pr_rel_sub in E.
  destruct (retry_err j) eqn:RE; [right; apply Rf; [reflexivity|exact Hoj]|].
  destruct (scan_sub_In_l _ _ _ E Hj RE) as (a & Ha & Fa & _). left. exists a.
  split; [exact Ha|]. rewrite Fa. exact Hoj.
Qed.

Lemma new_jobs_cover_m s e results newp fr k o :
  In k (pr_proc C results newp) -> quiet (e_world e) s fr k ->
  In o (pd_order (pipe_of St k)) -> assignable (st_of (e_world e) o) = true ->
  In o (flat_map j_ops (pr_jobs C s e results newp)).
Proof.
  intros Hk Q Ho As.
  assert (X : In o (flat_map j_ops (pr_new_jobs C (e_world e) s results newp))).
  { rewrite pr_new_jobs_multi_ops. apply in_flat_map. exists k. split; [exact Hk|].
    rewrite (mnew_ops_quiet _ _ _ _ Q). unfold unfinished. apply filter_In. auto. }
  unfold pr_jobs. destruct newp as [|k0 newp']; [destruct results as [|r0 results']|]; exact X.
Qed.

(* what the scheduler relies on, multi-operator mode *)
Definition msched_inv (w : world) (e : estate) (s : sstate) : Prop :=
  (forall q j, In j (queue_of s q) -> mjob w j) /\
  NoDup (queued_ops s ++ fresh_ops e s) /\
  (forall c, In c (fresh_conts e s) -> mfresh C w c /\ (exists k, holds w k (c_ops c)) /\ c_error c = false) /\
  (forall cid j, In (cid, j) (ss_suspending s) -> cont_entry e cid j) /\
  (forall p c, In p (e_pools e) -> In c (p_suspending p) -> c_error c = false).

(* one round in multi-operator mode never fails *)
Lemma multi_round s e results newp :
  wlen St (e_world e) -> pools_cgood C e -> sched_good C s -> Forall rpos results ->
  NoDup (all_ids (e_pools e)) ->
  Forall (spool_inv C (e_world e) (e_next e)) (e_pools e) ->
  msched_inv (e_world e) e s ->
  (forall k, In k (pr_proc C results newp) -> quiet (e_world e) s (fresh_ops e s) k) ->
  res_failed_all (e_world e) results ->
  exists s' w' susps asgs,
    priority_step C s e results newp = Ok (s', w', susps, asgs) /\
    masgs (e_world e) asgs w' /\
    (forall q j, In j (queue_of s' q) -> mjob w' j) /\ NoDup (queued_ops s') /\
    (forall cid j, In (cid, j) (ss_suspending s') -> cont_entry e cid j) /\
    (forall o, In o (queued_ops s') -> In o (queued_ops s) \/ In o (fresh_ops e s) \/
               exists k, In k (pr_proc C results newp) /\ In o (pd_order (pipe_of St k))) /\
    (forall o, In o (queued_ops s) \/ In o (fresh_ops e s) \/
               In o (flat_map j_ops (pr_jobs C s e results newp)) ->
       In o (queued_ops s') \/ st_of w' o <> Pending) /\
    (forall o, In o (aops asgs) -> In o (queued_ops s) \/ In o (fresh_ops e s) \/
               exists k, In k (pr_proc C results newp) /\ In o (pd_order (pipe_of St k))) /\
    (forall id, In id (ss_requeued s') ->
       In id (ss_requeued s) \/ In id (map c_id (flat_map p_suspended (e_pools e)))).
Proof.
  intros L Gc Gs Hr Nid Sp (Gq & Nq & Hf & Nm & Er) PQ RF. set (w := e_world e) in *.
  set (jobs := pr_jobs C s e results newp).
  assert (JP : forall j, In j jobs -> prio_of_pipe C (j_pipe j) = j_prio j).
  { intros j Hj. unfold jobs, pr_jobs in Hj. symmetry.
    destruct newp as [|k newp]; [destruct results as [|r results]; [destruct Hj|]|];
      eapply pr_new_jobs_prio; eauto. }
  assert (Jn : forall j, In j jobs -> mjob w j /\ exists k, In k (pr_proc C results newp) /\ j_ops j = unfinished w k).
  { intros j Hj. unfold jobs, pr_jobs in Hj.
    destruct newp as [|k newp]; [destruct results as [|r results]; [destruct Hj|]|];
      eapply new_job_mjob; eauto. }
  assert (Nj : NoDup (flat_map j_ops jobs)).
  { unfold jobs, pr_jobs.
    destruct newp as [|k newp]; [destruct results as [|r results]; [constructor|]|];
      apply new_jobs_nodup. }
  assert (Jq : forall o, In o (flat_map j_ops jobs) ->
             ~ In o (queued_ops s) /\ ~ In o (fresh_ops e s) /\
             exists k, In k (pr_proc C results newp) /\ In o (pd_order (pipe_of St k))).
  { intros o Ho. apply in_flat_map in Ho. destruct Ho as [j [Hj Hoj]].
    destruct (Jn j Hj) as [_ (k & Hk & Ek)]. rewrite Ek in Hoj. unfold unfinished in Hoj.
    apply filter_In in Hoj. destruct Hoj as [Hok _]. destruct (PQ k Hk o Hok) as (_ & A & B).
    split; [exact A|]. split; [exact B|]. exists k. auto. }
  pose proof (fold_push_queue (fun j => prio_of_pipe C (j_pipe j)) jobs s JP) as N. cbv zeta in N.
  rewrite priority_step_eq. cbv zeta. fold jobs. fold w.
  set (s1 := fold_left _ jobs s) in *.
  destruct N as [N1 [N2 [N3 [N4 _]]]].
  (* the suspending containers are noted *)
  destruct (note_suspending_pools C w (e_pools e) (ss_suspending s1)) as [m|er] eqn:NS.
  2:{ exfalso. apply note_suspending_pools_err in NS. destruct NS as (p & c & Hp & Hc & E).
      rewrite Forall_forall in Sp. destruct (Sp p Hp) as (_ & _ & Fs & _). rewrite Forall_forall in Fs.
      destruct (Fs c Hc) as (_ & _ & o & r & Ho & _ & _ & Su).
      revert E. eapply (not_completed_nonempty w (c_ops c) o).
      - eapply In_skipn. unfold remops in Ho. rewrite Ho. left. reflexivity.
      - unfold susp_all in Su. inversion Su as [|? ? So _]; subst. rewrite So. discriminate. }
  rewrite N2 in NS. cbn [bind].
  assert (Cg : forall p c, In p (e_pools e) -> In c (pool_conts p) -> cgood C w c).
  { intros p c Hp Hc. unfold pools_cgood in Gc. rewrite Forall_forall in Gc. specialize (Gc p Hp).
    rewrite Forall_forall in Gc. apply Gc. exact Hc. }
  assert (Gm : forall cid j0, In (cid, j0) m -> cont_entry e cid j0).
  { intros cid j0 Hin.
    destruct (note_suspending_pools_spec _ _ _ _ _ NS (cid, j0) Hin) as [Hold|(p & c & Hp & Hc & Eid & Nj0)].
    - apply Nm. exact Hold.
    - cbn [fst snd] in Eid, Nj0. exists p, c. split; [exact Hp|]. split; [left; exact Hc|].
      split; [symmetry; exact Eid|]. apply noted_job_fields in Nj0. destruct Nj0 as (E1 & _ & _ & E4).
      rewrite Forall_forall in Sp. destruct (Sp p Hp) as (_ & _ & Fs & _). rewrite Forall_forall in Fs.
      destruct (Fs c Hc) as (_ & _ & o & r & Ho & _ & _ & Su). split.
      + rewrite E1. apply not_completed_remops.
        * apply cgood_prefix. apply (Cg p c Hp). unfold pool_conts. rewrite !in_app_iff. auto.
        * intros x Hx. rewrite Ho in Hx. unfold susp_all in Su. rewrite Forall_forall in Su.
          rewrite (Su x Hx). discriminate.
      + unfold retry_err. rewrite E4. cbn. eapply Er; eauto. }
  (* the suspended containers are re-queued *)
  set (s2 := {| ss_queue := ss_queue s1; ss_fail := ss_fail s1; ss_q := ss_q s1; ss_i := ss_i s1;
                ss_b := ss_b s1; ss_suspending := m; ss_requeued := ss_requeued s1; ss_oom := ss_oom s1 |}).
  assert (Efr : forall p, fresh_of s2 p = fresh_of s p).
  { intros p. unfold fresh_of, notreq. cbn [s2 ss_requeued]. rewrite N4. reflexivity. }
  destruct (pr_requeue_pools C w (e_pools e) s2) as [s3|er] eqn:RQ.
  2:{ exfalso. apply pr_requeue_pools_err in RQ. destruct RQ as (p & c & Hp & Hc & Nn & E).
      cbn [s2 ss_requeued] in Nn. rewrite N4 in Nn.
      assert (Hfc : In c (fresh_conts e s)).
      { unfold fresh_conts. apply in_flat_map. exists p. split; [exact Hp|]. unfold fresh_of.
        apply filter_In. split; [exact Hc|]. unfold notreq. apply negb_true_iff. apply memb_false. exact Nn. }
      destruct (Hf c Hfc) as (Mf & _). pose proof Mf as (_ & _ & o & r & Ho & _).
      revert E. eapply (not_completed_nonempty w (c_ops c) o).
      - eapply In_skipn. unfold remops in Ho. rewrite Ho. left. reflexivity.
      - eapply mfresh_not_completed; eauto. rewrite Ho. left. reflexivity. }
  cbn [bind].
  destruct (pr_requeue_pools_exact _ _ _ _ RQ (all_ids_suspended_nodup _ Nid)) as (lq & Q3 & F2 & R3 & S3).
  cbn [s2 ss_suspending ss_requeued] in F2, S3, R3. rewrite N4 in R3.
  assert (Efc : flat_map (fresh_of s2) (e_pools e) = fresh_conts e s).
  { unfold fresh_conts. apply flat_map_ext. exact Efr. }
  rewrite Efc in F2.
  (* jobs for suspended containers *)
  destruct (pr_pre_good C s e results newp m [] SKm_range L Gs Hr Gc NS) as [Gmj Gpj]; [intros ? []|].
  assert (Lqf : forall c j, In c (fresh_conts e s) -> rq_job w m c j ->
              j_ops j = remops c /\ retry_err j = false /\ mjob w j).
  { intros c j Hc R. destruct (Hf c Hc) as (Mf & Hk & Hce).
    assert (Hpc : exists p, In p (e_pools e) /\ In c (pool_conts p)).
    { unfold fresh_conts in Hc. apply in_flat_map in Hc. destruct Hc as [p [Hp Hc]]. exists p.
      split; [exact Hp|]. unfold fresh_of in Hc. apply filter_In in Hc. unfold pool_conts.
      rewrite !in_app_iff. tauto. }
    destruct Hpc as (p & Hp & Hcp). pose proof (Cg p c Hp Hcp) as Gcc.
    destruct (rq_job_facts w e s m c j Nid Gm Hc (cgood_prefix _ _ Gcc) Mf Hce R) as [Eo Erj].
    split; [exact Eo|]. split; [exact Erj|].
    apply (fresh_job_mjob w c j); auto; [|apply cgood_prefix; exact Gcc].
    unfold rq_job in R. destruct (assoc_find (c_id c) m) as [j0|] eqn:F.
    - subst j. apply assoc_find_In in F. apply (Gmj _ F).
    - destruct R as (pid & j0 & J & ->). eapply (noted_job_good C w pid c); [exact L|exact Gcc|].
      exists j0. auto. }
  assert (Elq : flat_map j_ops lq = fresh_ops e s).
  { unfold fresh_ops. eapply Forall2_flat_map_eq; [|exact F2]. intros c j Hc R. apply (Lqf c j Hc R). }
  assert (Glq : forall j, In j lq -> mjob w j).
  { intros j Hj. destruct (Forall2_In_right _ _ _ _ F2 Hj) as (c & Hc & R). apply (Lqf c j Hc R). }
  (* the queues the scans start from *)
  assert (Q : forall p, queue_of s3 p = queue_of s p ++ filter (is_class p) (jobs ++ lq)).
  { intros p. rewrite Q3. transitivity (queue_of s1 p ++ filter (is_class p) lq); [destruct p; reflexivity|].
    rewrite N1, !filter_app', <- !app_assoc. reflexivity. }
  assert (Q1 : forall q j, In j (queue_of s3 q) -> mjob w j).
  { intros q j Hj. rewrite Q in Hj. apply in_app_or in Hj. destruct Hj as [Hj|Hj]; [eapply Gq; eauto|].
    apply filter_In in Hj. destruct Hj as [Hj _]. apply in_app_or in Hj.
    destruct Hj as [Hj|Hj]; [apply Jn; exact Hj|apply Glq; exact Hj]. }
  set (A := flat_map j_ops (ss_q s3)). set (B := flat_map j_ops (ss_i s3)). set (D := flat_map j_ops (ss_b s3)).
  set (allops := queued_ops s ++ flat_map j_ops jobs ++ fresh_ops e s).
  assert (Cn : forall x, cnt x (A ++ B ++ D) = cnt x allops).
  { intros x. unfold A, B, D, allops.
    change (ss_q s3) with (queue_of s3 Query). change (ss_i s3) with (queue_of s3 Interactive).
    change (ss_b s3) with (queue_of s3 Batch). rewrite !Q. unfold queued_ops. cbn [queue_of].
    rewrite <- Elq. rewrite !flat_map_app, !cnt_app.
    pose proof (cnt_class_split x (jobs ++ lq)) as X. rewrite !flat_map_app, !cnt_app in X. lia. }
  assert (Nall : NoDup allops).
  { unfold allops. apply (NoDup_count_occ Nat.eq_dec). intros x. fold (cnt x (queued_ops s ++ flat_map j_ops jobs ++ fresh_ops e s)).
    rewrite !cnt_app. pose proof (nodup_cnt _ x Nq) as X1. rewrite cnt_app in X1.
    pose proof (nodup_cnt _ x Nj) as X2.
    destruct (in_dec Nat.eq_dec x (flat_map j_ops jobs)) as [Hin|Hn].
    - destruct (Jq x Hin) as (A1 & A2 & _).
      assert (cnt x (queued_ops s) = 0) by (destruct (cnt x (queued_ops s)) eqn:E0; [reflexivity|exfalso; apply A1; apply cnt_In; lia]).
      assert (cnt x (fresh_ops e s) = 0) by (destruct (cnt x (fresh_ops e s)) eqn:E0; [reflexivity|exfalso; apply A2; apply cnt_In; lia]).
      lia.
    - assert (cnt x (flat_map j_ops jobs) = 0) by (destruct (cnt x (flat_map j_ops jobs)) eqn:E0; [reflexivity|exfalso; apply Hn; apply cnt_In; lia]).
      lia. }
  assert (N1' : NoDup (A ++ B ++ D)).
  { eapply msub_NoDup; [|exact Nall]. intros x. rewrite Cn. lia. }
  assert (NA : NoDup A) by (eapply msub_NoDup; [|exact N1']; intros x; rewrite !cnt_app; lia).
  assert (NB : NoDup B) by (eapply msub_NoDup; [|exact N1']; intros x; rewrite !cnt_app; lia).
  assert (ND : NoDup D) by (eapply msub_NoDup; [|exact N1']; intros x; rewrite !cnt_app; lia).
  (* the three scans *)
  destruct (pr_scan_multi (ss_q s3) w (snapshot e) (ss_oom s3) L (Q1 Query) NA)
    as (n1 & st1 & w1 & a1 & o1 & E1 & SA1 & Fr1).
  destruct (masgs_facts _ _ _ SA1 L) as (L1 & M1 & _ & _ & _ & _ & _ & T1).
  set (Af := flat_map j_ops (firstn n1 (ss_q s3))) in *.
  set (As := flat_map j_ops (skipn n1 (ss_q s3))).
  assert (EA : A = Af ++ As) by (unfold A, Af, As; rewrite <- flat_map_app, firstn_skipn; reflexivity).
  assert (G2 : forall j, In j (ss_i s3) -> mjob w1 j).
  { intros j Hj. eapply mjob_stable; [exact M1| |apply (Q1 Interactive); exact Hj].
    intros o Ho. apply Fr1. apply cnt0_not_in.
    assert (Hb : In o B) by (unfold B; apply in_flat_map; eauto).
    pose proof (nodup_cnt _ o N1') as X. rewrite EA, !cnt_app in X. apply in_cnt in Hb. lia. }
  destruct (pr_scan_multi (ss_i s3) w1 st1 o1 L1 G2 NB)
    as (n2 & st2 & w2 & a2 & o2 & E2 & SA2 & Fr2).
  destruct (masgs_facts _ _ _ SA2 L1) as (L2 & M2 & _ & _ & _ & _ & _ & T2).
  set (Bf := flat_map j_ops (firstn n2 (ss_i s3))) in *.
  set (Bs := flat_map j_ops (skipn n2 (ss_i s3))).
  assert (EB : B = Bf ++ Bs) by (unfold B, Bf, Bs; rewrite <- flat_map_app, firstn_skipn; reflexivity).
  assert (G3 : forall j, In j (ss_b s3) -> mjob w2 j).
  { intros j Hj.
    assert (Hd : forall o, In o (j_ops j) -> In o D) by (intros o Ho; unfold D; apply in_flat_map; eauto).
    eapply (mjob_stable w w2); [eapply mono_w_trans; [exact M1|exact M2]| |apply (Q1 Batch); exact Hj].
    intros o Ho. specialize (Hd o Ho). apply in_cnt in Hd.
    pose proof (nodup_cnt _ o N1') as X. rewrite EA, EB, !cnt_app in X.
    rewrite Fr2 by (apply cnt0_not_in; lia). apply Fr1. apply cnt0_not_in. lia. }
  destruct (pr_scan_multi (ss_b s3) w2 st2 o2 L2 G3 ND)
    as (n3 & st3 & w3 & a3 & o3 & E3 & SA3 & Fr3).
  destruct (masgs_facts _ _ _ SA3 L2) as (L3 & M3 & _ & _ & _ & _ & _ & T3).
  set (Df := flat_map j_ops (firstn n3 (ss_b s3))) in *.
  set (Ds := flat_map j_ops (skipn n3 (ss_b s3))).
  assert (ED : D = Df ++ Ds) by (unfold D, Df, Ds; rewrite <- flat_map_app, firstn_skipn; reflexivity).
  rewrite E1. cbn [bind]. cbv beta iota. rewrite E2. cbn [bind]. cbv beta iota. rewrite E3. cbn [bind]. cbv beta iota.
  assert (SAall : masgs w (a1 ++ a2 ++ a3) w3) by (eapply masgs_app; [exact SA1|]; eapply masgs_app; eauto).
  destruct (masgs_facts _ _ _ SAall L) as (_ & _ & _ & Rall & _).
  eexists _, _, _, _. split; [reflexivity|]. split; [exact SAall|].
  assert (Keep : forall o, In o (As ++ Bs ++ Ds) -> st_of w3 o = st_of w o).
  { intros o Ho. apply in_cnt in Ho. rewrite !cnt_app in Ho.
    pose proof (nodup_cnt _ o N1') as X. rewrite EA, EB, ED, !cnt_app in X.
    rewrite Fr3 by (apply cnt0_not_in; lia). rewrite Fr2 by (apply cnt0_not_in; lia).
    apply Fr1. apply cnt0_not_in. lia. }
  assert (M03 : mono_w w w3) by (eapply mono_w_trans; [exact M1|]; eapply mono_w_trans; eauto).
  assert (Prov : forall o, In o (A ++ B ++ D) -> In o (queued_ops s) \/ In o (fresh_ops e s) \/
                   exists k, In k (pr_proc C results newp) /\ In o (pd_order (pipe_of St k))).
  { intros o HoA. apply cnt_In in HoA. rewrite Cn in HoA. apply cnt_In in HoA. unfold allops in HoA.
    rewrite !in_app_iff in HoA. destruct HoA as [X|[X|X]]; [left; exact X| |right; left; exact X].
    right. right. apply (Jq o X). }
  split; [|split; [|split; [|split; [|split; [|split]]]]].
  7:{ cbn [ss_requeued]. intros id Hid. apply R3. exact Hid. }
  - intros q j Hj. destruct q; cbn [queue_of ss_q ss_i ss_b] in Hj.
    + eapply mjob_stable; [exact M03| |apply (Q1 Query); eapply In_skipn; exact Hj].
      intros o Ho. apply Keep. apply in_or_app. left. unfold As. apply in_flat_map. eauto.
    + eapply mjob_stable; [exact M03| |apply (Q1 Interactive); eapply In_skipn; exact Hj].
      intros o Ho. apply Keep. apply in_or_app. right. apply in_or_app. left. unfold Bs. apply in_flat_map. eauto.
    + eapply mjob_stable; [exact M03| |apply (Q1 Batch); eapply In_skipn; exact Hj].
      intros o Ho. apply Keep. apply in_or_app. right. apply in_or_app. right. unfold Ds. apply in_flat_map. eauto.
  - unfold queued_ops. cbn [ss_q ss_i ss_b]. fold As Bs Ds.
    eapply msub_NoDup; [|exact N1']. intros x. rewrite EA, EB, ED, !cnt_app. lia.
  - cbn [ss_suspending]. intros cid j Hin. apply Gm.
    apply pr_requeue_pools_spec in RQ. destruct RQ as [lq' [_ [_ [_ [_ [_ [R6 _]]]]]]].
    apply R6 in Hin. exact Hin.
  - intros o Ho. unfold queued_ops in Ho. cbn [ss_q ss_i ss_b] in Ho. fold As Bs Ds in Ho.
    assert (HoA : In o (A ++ B ++ D)).
    { rewrite EA, EB, ED. rewrite !in_app_iff in *. tauto. }
    apply cnt_In in HoA. rewrite Cn in HoA. apply cnt_In in HoA. unfold allops in HoA.
    rewrite !in_app_iff in HoA. destruct HoA as [X|[X|X]]; [left; exact X| |right; left; exact X].
    right. right. apply (Jq o X).
  - intros o Ho.
    assert (HoA : In o (A ++ B ++ D)).
    { apply cnt_In. rewrite Cn. apply cnt_In. unfold allops. rewrite !in_app_iff. tauto. }
    assert (Gone : forall ai wi, In ai [a1; a2; a3] ->
              ((exists a, In a ai /\ In o (a_ops a)) \/
               (st_of wi o = Failed /\ steps_t St (eq Assigned) wi w3)) ->
              st_of w3 o <> Pending).
    { intros ai wi Hai [(a & Ha & Ea)|[Hff St3]].
      - assert (Hin : In a (a1 ++ a2 ++ a3)).
        { destruct Hai as [<-|[<-|[<-|[]]]]; rewrite !in_app_iff; auto. }
        rewrite Forall_forall in Rall. destruct (Rall a Hin) as (_ & _ & _ & _ & Sa & _).
        unfold assigned_all in Sa. rewrite Forall_forall in Sa. rewrite (Sa o Ea). discriminate.
      - intros X. assert (Y : st_of wi o = Pending) by (eapply steps_t_back; [exact St3| |exact X]; discriminate).
        congruence. }
    rewrite EA, EB, ED, !in_app_iff in HoA.
    destruct HoA as [[HoA|HoA]|[[HoA|HoA]|[HoA|HoA]]].
    + right. apply (Gone a1 w); [left; reflexivity|].
      destruct (scanned_gone_m _ _ _ _ _ _ _ _ _ o E1 (Q1 Query) HoA) as [X|X]; [left; exact X|right].
      split; [exact X|]. eapply steps_t_trans; [exact T1|]. eapply steps_t_trans; eauto.
    + left. unfold queued_ops. cbn [ss_q ss_i ss_b]. fold As. rewrite !in_app_iff. auto.
    + right. apply (Gone a2 w1); [right; left; reflexivity|].
      destruct (scanned_gone_m _ _ _ _ _ _ _ _ _ o E2 G2 HoA) as [X|X]; [left; exact X|right].
      split; [exact X|]. eapply steps_t_trans; eauto.
    + left. unfold queued_ops. cbn [ss_q ss_i ss_b]. fold Bs. rewrite !in_app_iff. auto.
    + right. apply (Gone a3 w2); [right; right; left; reflexivity|].
      destruct (scanned_gone_m _ _ _ _ _ _ _ _ _ o E3 G3 HoA) as [X|X]; [left; exact X|right].
      split; [exact X | exact T3].
    + left. unfold queued_ops. cbn [ss_q ss_i ss_b]. fold Ds. rewrite !in_app_iff. auto.
  - intros o Ho. apply Prov.
    assert (X : forall queue w0 st0 oo n st' w'' al oo', pr_scan C w0 st0 queue oo = Ok (n, st', w'', al, oo') ->
                In o (aops al) -> In o (flat_map j_ops queue)).
    { intros queue w0 st0 oo n st' w'' al oo' E Hin. apply pr_scan_rel in E. apply pr_rel_sub in E.
      unfold aops in Hin. apply in_flat_map in Hin. destruct Hin as [a [Ha Hoa]].
      destruct (scan_sub_In_r _ _ _ E Ha) as (j & Hj & Fo & _). apply in_flat_map. exists j.
      split; [eapply PriorityFacts.In_firstn; eauto|]. rewrite <- Fo. exact Hoa. }
    rewrite !aops_app, !in_app_iff in Ho. rewrite !in_app_iff.
    destruct Ho as [Ho|[Ho|Ho]]; [left; eapply X; eauto|right; left; eapply X; eauto|right; right; eapply X; eauto].
Qed.


(* ------------------------------------------------------------------------------------------ *)
(* 3. the one-holder invariant and the closed loop                                              *)
(* ------------------------------------------------------------------------------------------ *)

Definition arrived (s : sim) : list nat := map fst (sm_arrival s).

(* a live container holds all unfinished operators of its pipeline *)
Definition live_ok (w : world) (c : container) : Prop :=
  (exists k, holds w k (c_ops c)) /\ NoDup (c_ops c) /\ c_error c = false.

(* the pipeline of a result of the last tick has no holder *)
Definition res_quiet (w : world) (e : estate) (ss : sstate) (r : result) : Prop :=
  exists k, (forall o, In o (r_ops r) -> In o (pd_order (pipe_of St k))) /\ r_ops r <> [] /\
            quiet w ss (fresh_ops e ss) k /\
            (forall o, In o (r_ops r) -> st_of w o = Completed \/ st_of w o = Failed).

(* no PENDING operator of an arrived pipeline is lost: it is queued, or it belongs to a suspended container
   awaiting its re-queue, or its pipeline has a result of the tick just executed *)
Definition mnolost (s : sim) : Prop :=
  forall k o, In k (arrived s) -> In o (pd_order (pipe_of St k)) ->
    st_of (e_world (sm_exec s)) o = Pending ->
    In o (queued_ops (sm_sched s)) \/ In o (fresh_ops (sm_exec s) (sm_sched s)) \/
    exists r o', In r (sm_results s) /\ In o' (r_ops r) /\ op_pipe St o' = k.

Definition mp_extra (s : sim) : Prop :=
  Forall (spool_inv C (e_world (sm_exec s)) (e_next (sm_exec s))) (e_pools (sm_exec s)) /\
  msched_inv (e_world (sm_exec s)) (sm_exec s) (sm_sched s) /\
  (forall p c, In p (e_pools (sm_exec s)) -> In c (p_active p) \/ In c (p_suspending p) ->
     live_ok (e_world (sm_exec s)) c) /\
  (forall r, In r (sm_results s) -> res_quiet (e_world (sm_exec s)) (sm_exec s) (sm_sched s) r) /\
  res_failed_all (e_world (sm_exec s)) (sm_results s) /\
  (forall k, ~ In k (arrived s) -> forall o, In o (pd_order (pipe_of St k)) ->
     st_of (e_world (sm_exec s)) o = Pending /\ ~ In o (queued_ops (sm_sched s)) /\
     ~ In o (fresh_ops (sm_exec s) (sm_sched s))) /\
  (forall id, In id (ss_requeued (sm_sched s)) ->
     In id (map c_id (flat_map p_suspended (e_pools (sm_exec s))))) /\
  mnolost s.

Definition mp_inv (np : nat) (s : sim) : Prop := pr_inv C np s /\ mp_extra s.

Lemma fresh_conts_init np cpu ram s : fresh_conts (init_estate C np cpu ram) s = [].
Proof.
  unfold fresh_conts, init_estate. cbn [e_pools]. induction (seq 0 np) as [|i t IH]; [reflexivity|].
  cbn [map flat_map]. rewrite IH. reflexivity.
Qed.

Lemma mp_inv_init np cpu ram : (0 <= cpu)%Z -> (0 <= ram)%Q -> mp_inv np (init_sim C np cpu ram).
Proof.
  intros Hc Hr. split; [apply pr_inv_init; assumption|].
  unfold mp_extra, init_sim. cbn [sm_exec sm_sched sm_results].
  destruct (sloop_inv_init C np cpu ram) as (_ & _ & Sp & _).
  split; [exact Sp|]. split.
  { unfold msched_inv, fresh_ops. rewrite fresh_conts_init. cbn [flat_map]. rewrite app_nil_r.
    split; [intros [] j []|]. split; [constructor|]. split; [intros c []|]. split; [intros cid j []|].
    intros p c Hp Hcc. unfold init_estate in Hp. cbn [e_pools] in Hp. apply in_map_iff in Hp.
    destruct Hp as [i [<- _]]. destruct Hcc. }
  split.
  { intros p c Hp Hcc. unfold init_estate in Hp. cbn [e_pools] in Hp. apply in_map_iff in Hp.
    destruct Hp as [i [<- _]]. destruct Hcc as [[]|[]]. }
  split; [intros r []|]. split; [intros r []|].
  split.
  { intros k _ o _. unfold fresh_ops. rewrite fresh_conts_init. cbn [init_estate e_world].
    split; [apply st_of_init|]. split; intros []. }
  split; [intros id []|]. intros k o [].
Qed.

Lemma filter_none {A} (f : A -> bool) l : (forall x, In x l -> f x = false) -> filter f l = [].
Proof.
  induction l as [|a t IH]; intros H; [reflexivity|]. cbn [filter]. rewrite (H a (or_introl eq_refl)).
  apply IH. intros x Hx. apply H. right. exact Hx.
Qed.

Lemma Forall2_msub_in {A B} (R : A -> B -> Prop) (h : A -> list nat) (g : B -> list nat) l l' :
  (forall a b, In a l -> R a b -> msub (g b) (h a)) -> Forall2 R l l' -> msub (flat_map g l') (flat_map h l).
Proof.
  intros H F. induction F as [|a b l l' Hab F IH]; [apply msub_refl|]. cbn [flat_map].
  intros x. pose proof (H a b (or_introl eq_refl) Hab x) as X.
  assert (Y : msub (flat_map g l') (flat_map h l)) by (apply IH; intros a0 b0 Ha0; apply H; right; exact Ha0).
  specialize (Y x). rewrite !cnt_app. lia.
Qed.

Lemma remops_filter_msub (f : container -> bool) l :
  Forall ncompl l -> msub (flat_map remops (filter f l)) (owns l).
Proof.
  induction 1 as [|c t Hc F IH]; [apply msub_refl|]. cbn [filter]. rewrite owns_cons.
  assert (E : own c = remops c) by (unfold own, remops; rewrite Hc; reflexivity).
  destruct (f c); cbn [flat_map]; intros x; specialize (IH x); rewrite ?cnt_app, ?E; lia.
Qed.

Lemma queued_ops_in (s0 : sstate) x :
  In x (queued_ops s0) <-> exists q j, In j (queue_of s0 q) /\ In x (j_ops j).
Proof.
  unfold queued_ops. rewrite !in_app_iff, !in_flat_map. split.
  - intros [(j & A & B)|[(j & A & B)|(j & A & B)]];
      [exists Query, j|exists Interactive, j|exists Batch, j]; auto.
  - intros (q & j & A & B). destruct q; cbn [queue_of] in A; eauto.
Qed.

Lemma multi_tick_ok np t s newp :
  mp_inv np s -> NoDup newp -> (forall p, In p newp -> ~ In p (arrived s)) ->
  exists s' lg, sim_tick C APriority t s newp = Ok (s', lg) /\ mp_inv np s' /\
    sm_arrival s' = sm_arrival s ++ map (fun p => (p, t)) newp.
Proof.
  intros [Ipr (Sp & Ms & Hl & Rq & Rf & Na & Rs0 & Nl)] Nn Dn.
  pose proof Ipr as (Hseq & Iv & Ow & Ids & Gc & Hnn & Fr & Gs & Hr).
  destruct Iv as [L Rg]. pose proof Ow as (Npid & Plv & [Ns Ab]).
  set (e := sm_exec s) in *. set (w := e_world e) in *. set (ss := sm_sched s) in *.
  assert (PQ : forall k, In k (pr_proc C (sm_results s) newp) -> quiet w ss (fresh_ops e ss) k).
  { intros k Hk. unfold pr_proc in Hk. apply pr_proc_In in Hk. destruct Hk as [Hk|(r & o & Hr0 & Ho & Ek)].
    - intros o Ho. destruct (Na k (Dn k Hk) o Ho) as (A & B & D).
      split; [right; rewrite A; reflexivity|auto].
    - destruct (Rq r Hr0) as (k0 & Hk0 & _ & Q & _). change (S_of C) with St in Ek.
      rewrite (SKm_pipe _ _ (Hk0 o Ho)) in Ek. subst k0. exact Q. }
  destruct (multi_round ss e (sm_results s) newp L Gc Gs Hr (proj1 Ids) Sp Ms PQ Rf)
    as (ss' & w' & susps & asgs & Sch & SA & Gq' & Nq' & Nm' & Prov & K1 & Pa & Rqg).
  destruct (masgs_facts _ _ _ SA L) as (L' & M' & Emk & Fr' & Frame & Fx & Hka & Ta).
  assert (Hops : forall a, In a asgs -> opsP C (a_ops a)).
  { intros a Ha. rewrite Forall_forall in Fr'. destruct (Fr' a Ha) as (_ & _ & Ne & _).
    split; [exact Ne|]. intros X. rewrite Hmulti in X. discriminate. }
  pose proof (priority_round_checks C _ _ _ _ _ _ _ _ np Sch Hseq (proj1 Ids) Hnn Hops) as Ck.
  assert (Sl : sloop_inv C np e) by (split; [split; assumption|]; split; [exact Ow|]; split; assumption).
  destruct (exec_round_ok_s C Hscript np e w' susps asgs Sl L' M' Emk Fr' Frame Ck)
    as (e2 & res & Eex & Sl2 & Sn2 & Fh2).
  assert (Dn' : forall p, In p newp -> ~ In p (map fst (sm_arrival s))) by exact Dn.
  pose proof (record_arrivals_ok t newp (sm_arrival s) Nn Dn') as Era.
  destruct (sim_tick C APriority t s newp) as [[s' lg]|er] eqn:ET.
  2:{ exfalso. pose proof (sim_tick_cases C APriority t s newp) as X. rewrite ET in X.
      cbn [sched_step] in X. fold e ss in X.
      destruct X as [[_ X]|[X|(ss0 & w0 & su0 & as0 & X1 & X2)]].
      - rewrite Era in X. discriminate.
      - rewrite Sch in X. discriminate.
      - rewrite Sch in X1. inversion X1; subst. rewrite Eex in X2. discriminate. }
  exists s', lg. split; [reflexivity|].
  pose proof (pr_tick_inv C SKm_range np t s newp s' lg Ipr ET) as Ipr'.
  apply sim_tick_ok_inv in ET. destruct ET as (w0 & su0 & as0 & X1 & X2 & _ & _ & _ & _ & X7).
  cbn [sched_step] in X1. fold e ss in X1, X2. rewrite Sch in X1.
  injection X1 as Y1 Y2 Y3 Y4. subst w0 su0 as0.
  rewrite Eex in X2. inversion X2 as [[Ee Er]].
  assert (Earr : sm_arrival s' = sm_arrival s ++ map (fun p => (p, t)) newp)
    by (rewrite Era in X7; inversion X7; reflexivity).
  split; [|exact Earr]. split; [exact Ipr'|].
  unfold mp_extra, mnolost, arrived. rewrite <- Ee, <- Y1, <- Er, Earr. clear X2 X7.
  set (w2 := e_world e2) in *. set (ps2 := e_pools e2) in *.
  destruct Sl2 as (_ & Ow2 & Sp2 & _).
  pose proof (steps_na_mono _ _ _ Sn2) as M2.
  (* basic facts about the round *)
  assert (Bw : forall o, In o (sown e) -> busy (st_of w' o)).
  { intros o Ho. rewrite Frame; [apply Ab; exact Ho|]. apply busy_not_assignable. apply Ab. exact Ho. }
  assert (Ra : forall a, In a asgs -> ops_in_range St (a_ops a)).
  { intros a Ha. rewrite Forall_forall in Fr'. destruct (Fr' a Ha) as (_ & R & _). exact R. }
  destruct (mk_assignments_good _ _ _ _ _ Emk Ra L (conj Ns Ab)) as [Ng _].
  destruct (priority_requeue_once _ _ _ _ _ _ _ _ _ Sch) as (R7 & _).
  assert (Cg : forall p c, In p (e_pools e) -> In c (pool_conts p) -> cgood C w c).
  { intros p c Hp Hc. unfold pools_cgood in Gc. rewrite Forall_forall in Gc. specialize (Gc p Hp).
    rewrite Forall_forall in Gc. apply Gc. exact Hc. }
  assert (Stw : steps St w w').
  { apply steps_in_steps. eapply mk_assignments_steps_in; eauto. }
  (* the pools, one after the other: origins and result shapes *)
  assert (Est : exec_step C e susps asgs = Ok (e2, res)).
  { unfold exec_step. rewrite Emk. cbn [bind]. exact Eex. }
  pose proof Est as PT. apply ConserveFacts.exec_step_inv in PT. destruct PT as (w0 & Emk0 & PT).
  rewrite Emk in Emk0. inversion Emk0; subst w0. clear Emk0.
  set (Pre := fun (w0 : world) (p : pool) =>
                In p (e_pools e) /\ wlen St w0 /\
                forall c, In c (p_active p) -> cinv (opsP C) w0 c /\ c_completed c = false /\ NoDup (c_ops c)).
  set (Rel := fun (_ : world) (p p' : pool) =>
                forall c', In c' (p_active p') \/ In c' (p_suspending p') ->
                  (exists c, (In c (p_active p) \/ In c (p_suspending p)) /\
                             c_ops c' = c_ops c /\ c_error c' = c_error c /\ c_id c' = c_id c) \/
                  (exists a, In a asgs /\ c_ops c' = a_ops a /\ c_error c' = false)).
  set (Rs := fun (w0 : world) (r : result) =>
               ((exists p c, In p (e_pools e) /\ In c (p_active p) /\ r_ops r = c_ops c /\ r_cid r = c_id c) \/
                (exists a, In a asgs /\ r_ops r = a_ops a)) /\
               (forall o, In o (r_ops r) -> st_of w0 o = Completed \/ st_of w0 o = Failed)).
  assert (Lift : steps_na St w' w2 /\ Forall2 (Rel w2) (e_pools e) ps2 /\ Forall (Rs w2) res).
  { apply (pools_tick_lift C susps asgs Pre Rel Rs) with (next := e_next e) (next' := e_next e2).
    - intros w1 w3 p S13 (A & B & D). split; [exact A|]. split; [eapply steps_na_wlen; eauto|].
      intros c Hc. destruct (D c Hc) as (D1 & D2 & D3). split; [eapply cinv_steps; eauto|auto].
    - intros w1 w3 p p' _ X. exact X.
    - intros w1 w3 r S13 [X Y]. split; [exact X|]. intros o Ho.
      destruct (Y o Ho) as [Z|Z]; [left; eapply steps_na_completed; eauto|right; eapply failed_stays; eauto].
    - intros w1 n1 p w3 n3 p3 res3 (Pin & Lw & Pc) PTk.
      split; [eapply pool_tick_steps_na; eauto|]. split.
      + intros c' Hc'. destruct (pool_tick_live_origin _ _ _ _ _ _ _ _ _ _ PTk c' Hc') as [X|(a & Ha & X)];
          [left; exact X|right]. exists a. split; [|exact X]. unfold mine_a in Ha. apply filter_In in Ha. tauto.
      + assert (Hact : forall c, In c (p_active p) -> active_ok w1 c /\ NoDup (c_ops c)).
        { intros c Hc. destruct (Pc c Hc) as (D1 & D2 & D3). split; [|exact D3].
          apply (cinv_active_ok _ _ _ D1 D2). }
        assert (Hasg : forall a, In a (mine_a p asgs) ->
                         NoDup (a_ops a) /\ forall x, In x (a_ops a) -> x < length (w_st w1)).
        { intros a Ha. unfold mine_a in Ha. apply filter_In in Ha. destruct Ha as [Ha _].
          rewrite Forall_forall in Fr'. destruct (Fr' a Ha) as (_ & Rga & _ & Nda & _).
          split; [exact Nda|]. intros x Hx. unfold wlen in Lw. rewrite Lw.
          unfold ops_in_range in Rga. rewrite Forall_forall in Rga. apply Rga. exact Hx. }
        destruct (result_shape _ _ _ _ _ _ _ _ _ _ Hact Hasg PTk) as [Hsh _].
        apply Forall_forall. intros r Hr0. split.
        * destruct (result_of_one_container _ _ _ _ _ _ _ _ _ _ _ PTk Hr0) as (_ & c & Hc & Eid & Eops & _).
          destruct Hc as [Hc|Hc]; [left; exists p, c; auto|right].
          apply new_containers_In in Hc. destruct Hc as (a & Ha & Eo & _).
          exists a. split; [unfold mine_a in Ha; apply filter_In in Ha; tauto|congruence].
        * destruct (Hsh r Hr0) as [Hs1 Hs2]. intros o Ho. destruct (r_err r).
          -- destruct (Hs2 eq_refl) as (k & _ & Hk1 & Hk2).
             rewrite <- (firstn_skipn k (r_ops r)) in Ho. apply in_app_or in Ho.
             destruct Ho as [Ho|Ho]; [left; apply Hk1; exact Ho|right; apply Hk2; exact Ho].
          -- left. apply Hs1; [reflexivity|exact Ho].
    - exact PT.
    - apply Forall_forall. intros p Hp. split; [exact Hp|]. split; [exact L'|]. intros c Hc.
      assert (Hcp : In c (pool_conts p)) by (unfold pool_conts; apply in_or_app; left; exact Hc).
      destruct (Cg p c Hp Hcp) as [[I N] _]. split; [eapply cinv_steps_live; eauto|]. split; [exact N|].
      apply (Hl p c Hp). left. exact Hc. }
  destruct Lift as (_ & F2 & Rres).
  destruct Ms as (Gq & Nq & Hf & Nm & Erq).
  assert (Mw2 : mono_w w w2) by (eapply mono_w_trans; eauto).
  (* the containers whose suspension ended in this tick *)
  assert (FreshP : forall p p', In p (e_pools e) -> fresh_rel C w2 p p' ->
            exists done, p_suspended p' = p_suspended p ++ done /\
                         fresh_of ss' p' = filter (notreq ss') done /\ Forall (mfresh C w2) done /\
                         msub (owns done) (pown p) /\
                         (forall d, In d done -> exists x, (In x (p_suspending p) \/ In x (p_active p)) /\
                            c_ops d = c_ops x /\ c_error d = c_error x /\ c_id d = c_id x)).
  { intros p p' Hp (done & A & B & D & E0 & _). exists done. split; [exact A|]. split; [|auto].
    unfold fresh_of. rewrite A, filter_app'. rewrite filter_none; [reflexivity|].
    intros c Hc. unfold notreq. apply negb_false_iff. apply memb_In. eapply R7; eauto. }
  assert (FreshC : forall c, In c (fresh_conts e2 ss') ->
            mfresh C w2 c /\ exists p x, In p (e_pools e) /\ (In x (p_suspending p) \/ In x (p_active p)) /\
                                          c_ops c = c_ops x /\ c_error c = c_error x).
  { intros c Hc. unfold fresh_conts in Hc. apply in_flat_map in Hc. destruct Hc as [p' [Hp' Hc]].
    destruct (Forall2_In_right _ _ _ _ Fh2 Hp') as (p & Hp & FR).
    destruct (FreshP p p' Hp FR) as (done & _ & Ef & Fm & _ & Or). rewrite Ef in Hc.
    apply filter_In in Hc. destruct Hc as [Hc _]. rewrite Forall_forall in Fm. split; [apply Fm; exact Hc|].
    destruct (Or c Hc) as (x & Hx & E1 & E2 & _). exists p, x. auto. }
  assert (FreshM : msub (fresh_ops e2 ss') (sown e)).
  { unfold fresh_ops, fresh_conts, sown. rewrite flat_map_flat_map.
    eapply Forall2_msub_in; [|exact Fh2]. intros p p' Hp FR.
    destruct (FreshP p p' Hp FR) as (done & _ & Ef & Fm & Msd & _). rewrite Ef.
    eapply msub_trans; [|exact Msd]. apply remops_filter_msub.
    eapply Forall_impl; [|exact Fm]. intros c (X & _). exact X. }
  assert (Qas : forall x, In x (queued_ops ss') -> assignable (st_of w' x) = true).
  { intros x Hx. apply queued_ops_in in Hx. destruct Hx as (q & j & Hj & Hxj).
    destruct (Gq' q j Hj) as (_ & _ & As & _). apply As. exact Hxj. }
  (* the results of this tick *)
  assert (ResK : forall r, In r res ->
            exists k, holds w' k (r_ops r) /\ r_ops r <> [] /\
                      (forall o, In o (r_ops r) -> assignable (st_of w' o) = false) /\
                      (forall o, In o (r_ops r) -> st_of w2 o = Completed \/ st_of w2 o = Failed)).
  { intros r Hr0. rewrite Forall_forall in Rres. destruct (Rres r Hr0) as [Or Sh].
    destruct Or as [(p & c & Hp & Hc & Eo & _)|(a & Ha & Eo)].
    - destruct (Hl p c Hp (or_introl Hc)) as ((k & Hk) & _ & _).
      assert (Hcp : In c (pool_conts p)) by (unfold pool_conts; apply in_or_app; left; exact Hc).
      pose proof (Cg p c Hp Hcp) as Gcc. pose proof (cgood_prefix _ _ Gcc) as Pd.
      destruct Gcc as [[(Pops & _) Ncc] _].
      exists k. rewrite Eo. split; [exact (holds_mono _ _ _ _ M' Hk)|]. split; [apply Pops|]. split; [|rewrite <- Eo; exact Sh].
      intros o Ho. rewrite <- (firstn_skipn (c_opidx c) (c_ops c)) in Ho. apply in_app_or in Ho.
      destruct Ho as [Ho|Ho].
      + destruct M' as [_ Mc]. rewrite (Mc o (Pd o Ho)). reflexivity.
      + apply busy_not_assignable. apply Bw. unfold sown. apply in_flat_map. exists p. split; [exact Hp|].
        unfold pown. apply in_or_app. left. eapply own_in_owns; [exact Hc|]. unfold own. rewrite Ncc. exact Ho.
    - destruct (Hka a Ha) as (k & Hk). rewrite Forall_forall in Fr'.
      destruct (Fr' a Ha) as (_ & _ & Ne & _ & Asg & _).
      exists k. rewrite Eo. split; [exact Hk|]. split; [exact Ne|]. split; [|rewrite <- Eo; exact Sh].
      intros o Ho. unfold assigned_all in Asg. rewrite Forall_forall in Asg. rewrite (Asg o Ho). reflexivity. }
  split; [exact Sp2|]. split; [|split; [|split; [|split; [|split; [|split]]]]].
  - (* the scheduler's view *)
    assert (HL2 : forall p' c', In p' ps2 -> In c' (p_active p') \/ In c' (p_suspending p') -> live_ok w2 c').
    { intros p' c' Hp' Hc'. destruct (Forall2_In_right _ _ _ _ F2 Hp') as (p & Hp & RL).
      destruct (RL c' Hc') as [(c & Hc & E1 & E2 & _)|(a & Ha & E1 & E2)].
      - destruct (Hl p c Hp Hc) as ((k & Hk) & Nd & Ec). split; [exists k; rewrite E1; exact (holds_mono _ _ _ _ Mw2 Hk)|].
        split; [rewrite E1; exact Nd|congruence].
      - destruct (Hka a Ha) as (k & Hk). rewrite Forall_forall in Fr'. destruct (Fr' a Ha) as (_ & _ & _ & Nd & _).
        split; [exists k; rewrite E1; exact (holds_mono _ _ _ _ M2 Hk)|]. split; [rewrite E1; exact Nd|exact E2]. }
    split; [|split; [|split; [|split]]].
    + intros q j Hj. eapply mjob_stable; [exact M2| |apply (Gq' q j Hj)].
      intros o Ho. eapply assignable_stays; [exact Sn2|]. destruct (Gq' q j Hj) as (_ & _ & As & _). apply As. exact Ho.
    + apply (NoDup_count_occ Nat.eq_dec). intros x. fold (cnt x (queued_ops ss' ++ fresh_ops e2 ss')).
      rewrite cnt_app. pose proof (nodup_cnt _ x Nq') as X1. pose proof (FreshM x) as X2.
      pose proof (nodup_cnt _ x Ns) as X3.
      destruct (in_dec Nat.eq_dec x (queued_ops ss')) as [Hin|Hn].
      * assert (cnt x (sown e) = 0).
        { destruct (cnt x (sown e)) eqn:E0; [reflexivity|exfalso].
          assert (Hs : In x (sown e)) by (apply cnt_In; lia). apply Bw in Hs. apply busy_not_assignable in Hs.
          pose proof (Qas x Hin) as Y. unfold assignable in Y. congruence. }
        lia.
      * assert (cnt x (queued_ops ss') = 0) by (destruct (cnt x (queued_ops ss')) eqn:E0; [reflexivity|exfalso; apply Hn; apply cnt_In; lia]).
        lia.
    + intros c Hc. destruct (FreshC c Hc) as (Mf & p & x & Hp & Hx & E1 & E2). split; [exact Mf|].
      assert (Hx' : In x (p_active p) \/ In x (p_suspending p)) by tauto.
      destruct (Hl p x Hp Hx') as ((k & Hk) & _ & Ec).
      split; [exists k; rewrite E1; exact (holds_mono _ _ _ _ Mw2 Hk)|congruence].
    + intros cid j Hin. destruct (Nm' cid j Hin) as (p & c & Hp & Hc & Eid & Eo & Erj).
      destruct (Forall2_In_left _ _ _ _ Fh2 Hp) as (p' & Hp' & (done & A & _ & _ & _ & Mv)).
      destruct Hc as [Hc|Hc].
      * destruct (Mv c Hc) as [X|X].
        -- exists p', (susp_dec c). split; [exact Hp'|]. split; [left; exact X|]. auto.
        -- exists p', (susp_dec c). split; [exact Hp'|]. split; [right; rewrite A; apply in_or_app; right; exact X|]. auto.
      * exists p', c. split; [exact Hp'|]. split; [right; rewrite A; apply in_or_app; left; exact Hc|]. auto.
    + intros p' c' Hp' Hc'. apply (HL2 p' c' Hp' (or_intror Hc')).
  - (* live containers hold their pipelines *)
    intros p' c' Hp' Hc'. destruct (Forall2_In_right _ _ _ _ F2 Hp') as (p & Hp & RL).
    destruct (RL c' Hc') as [(c & Hc & E1 & E2 & _)|(a & Ha & E1 & E2)].
    + destruct (Hl p c Hp Hc) as ((k & Hk) & Nd & Ec). split; [exists k; rewrite E1; exact (holds_mono _ _ _ _ Mw2 Hk)|].
      split; [rewrite E1; exact Nd|congruence].
    + destruct (Hka a Ha) as (k & Hk). rewrite Forall_forall in Fr'. destruct (Fr' a Ha) as (_ & _ & _ & Nd & _).
      split; [exists k; rewrite E1; exact (holds_mono _ _ _ _ M2 Hk)|]. split; [rewrite E1; exact Nd|exact E2].
  - (* the pipelines of the results are quiet *)
    intros r Hr0. destruct (ResK r Hr0) as (k & Hk & Ne & Na' & Sh). exists k.
    pose proof (holds_mono _ _ _ _ M2 Hk) as Hk2.
    split; [apply Hk|]. split; [exact Ne|]. split; [|exact Sh].
    intros o' Ho'. split; [|split].
    + destruct Hk2 as [_ H2]. destruct (H2 o' Ho') as [X|X]; [|left; exact X].
      destruct (Sh o' X) as [Y|Y]; [left; exact Y|right; rewrite Y; reflexivity].
    + intros Hq. pose proof (Qas o' Hq) as As. destruct Hk as [_ H2]. destruct (H2 o' Ho') as [X|X].
      * rewrite (Na' o' X) in As. discriminate.
      * rewrite X in As. discriminate.
    + intros Hfo. unfold fresh_ops in Hfo. apply in_flat_map in Hfo. destruct Hfo as [cf [Hcf Ho'f]].
      destruct (FreshC cf Hcf) as (Mf & _). pose proof Mf as (_ & _ & o0 & r0 & Eo0 & _ & _ & Pe).
      rewrite Eo0 in Ho'f. unfold pend_all in Pe. rewrite Forall_forall in Pe. pose proof (Pe o' Ho'f) as Pp.
      destruct Hk2 as [_ H2]. destruct (H2 o' Ho') as [X|X]; [|congruence].
      destruct (Sh o' X) as [Y|Y]; congruence.
  - (* failed results *)
    intros r Hr0 He o k Ho Hok o' Ho'. destruct (ResK r Hr0) as (k0 & Hk & _ & _ & Sh).
    pose proof (holds_mono _ _ _ _ M2 Hk) as [H1 H2].
    assert (k0 = k) by (eapply SKm_disjoint; [apply H1; exact Ho|exact Hok]). subst k0.
    destruct (H2 o' Ho') as [X|X]; [apply Sh; exact X|left; exact X].
  - (* pipelines that have not arrived are untouched *)
    intros k Hk o Ho. rewrite map_app, in_app_iff in Hk.
    assert (Hk1 : ~ In k (arrived s)) by (intros X; apply Hk; left; exact X).
    assert (Hk2 : ~ In k newp).
    { intros X. apply Hk. right. rewrite map_map. cbn [fst]. rewrite map_id. exact X. }
    destruct (Na k Hk1 o Ho) as (A & B & D).
    assert (NotProc : ~ In k (pr_proc C (sm_results s) newp)).
    { intros X. unfold pr_proc in X. apply pr_proc_In in X. destruct X as [X|(r & o2 & Hr0 & Ho2 & Ek)]; [contradiction|].
      destruct (Rq r Hr0) as (k0 & Hk0 & _ & _ & Sh). change (S_of C) with St in Ek.
      rewrite (SKm_pipe _ _ (Hk0 o2 Ho2)) in Ek. subst k0.
      destruct (Na k Hk1 o2 (Hk0 o2 Ho2)) as (A2 & _). destruct (Sh o2 Ho2) as [Y|Y]; congruence. }
    assert (NotIn : forall (P : Prop), (In o (queued_ops ss) \/ In o (fresh_ops e ss) \/
                       exists k', In k' (pr_proc C (sm_results s) newp) /\ In o (pd_order (pipe_of St k'))) -> False).
    { intros _ [X|[X|(k' & Hk' & Hok')]]; [contradiction|contradiction|].
      assert (k' = k) by (eapply SKm_disjoint; eauto). subst k'. contradiction. }
    assert (Pw' : st_of w' o = Pending).
    { rewrite Fx; [exact A|]. intros X. apply (NotIn True). apply Pa. exact X. }
    split; [eapply pending_stays; eauto|]. split.
    + intros X. apply (NotIn True). apply Prov. exact X.
    + intros X. apply (msub_In _ _ _ FreshM) in X. apply Ab in X. fold w in X. rewrite A in X.
      destruct X as [X|[X|X]]; discriminate.
  - (* re-queued ids are ids of suspended containers *)
    intros id Hid.
    assert (Grow : forall id0, In id0 (map c_id (flat_map p_suspended (e_pools e))) ->
                               In id0 (map c_id (flat_map p_suspended ps2))).
    { intros id0 H0. apply in_map_iff in H0. destruct H0 as [c [<- Hc]]. apply in_flat_map in Hc.
      destruct Hc as [p [Hp Hc]]. destruct (Forall2_In_left _ _ _ _ Fh2 Hp) as (p' & Hp' & (done & A & _)).
      apply in_map. apply in_flat_map. exists p'. split; [exact Hp'|]. rewrite A. apply in_or_app. left. exact Hc. }
    apply Grow. destruct (Rqg id Hid) as [X|X]; [apply Rs0; exact X|exact X].
  - (* no PENDING operator is lost *)
    intros k o Hk Ho Hp2. rewrite map_app, in_app_iff in Hk.
    destruct (ostate_eqb (st_of w' o) Pending) eqn:Q.
    + apply ostate_eqb_eq in Q.
      assert (Hp0 : st_of w o = Pending) by (eapply steps_t_back; [exact Ta|discriminate|exact Q]).
      assert (Hproc : In o (queued_ops ss) \/ In o (fresh_ops e ss) \/ In k (pr_proc C (sm_results s) newp)).
      { destruct Hk as [Hk|Hk].
        - destruct (Nl k o Hk Ho Hp0) as [X|[X|(r & o' & Hr0 & Ho' & Ek)]]; [tauto|tauto|].
          right. right. unfold pr_proc. apply pr_proc_In. right. exists r, o'. auto.
        - right. right. unfold pr_proc. apply pr_proc_In. left. rewrite map_map in Hk. cbn [fst] in Hk.
          rewrite map_id in Hk. exact Hk. }
      assert (Cover : In o (queued_ops ss) \/ In o (fresh_ops e ss) \/
                      In o (flat_map j_ops (pr_jobs C ss e (sm_results s) newp))).
      { destruct Hproc as [X|[X|X]]; [tauto|tauto|]. right. right.
        eapply new_jobs_cover_m; [exact X|apply PQ; exact X|exact Ho|]. fold w. rewrite Hp0. reflexivity. }
      destruct (K1 o Cover) as [X|X]; [left; exact X|contradiction].
    + apply ostate_eqb_neq in Q. right. left.
      destruct (pools_tick_released _ _ _ _ _ _ _ _ _ _ _ PT Hp2 Q) as (p & p' & d & Hp & Hp' & Hd & Hod & x & Hx & Eid).
      unfold fresh_ops, fresh_conts. apply in_flat_map. exists d. split; [|exact Hod].
      apply in_flat_map. exists p'. split; [exact Hp'|]. unfold fresh_of. apply filter_In. split; [exact Hd|].
      unfold notreq. apply negb_true_iff. apply memb_false. intros Hin.
      assert (Hs : In (c_id d) (map c_id (flat_map p_suspended (e_pools e)))).
      { destruct (Rqg _ Hin) as [X|X]; [apply Rs0; exact X|exact X]. }
      apply in_map_iff in Hs. destruct Hs as [y [Ey Hy]]. apply in_flat_map in Hy. destruct Hy as [p1 [Hp1 Hy]].
      apply (live_susp_ids (e_pools e) p p1 x y (proj1 Ids) Hp Hp1 Hx Hy). congruence.
Qed.

Lemma multi_run_total np : forall arrivals t s,
  mp_inv np s -> NoDup (concat arrivals) ->
  (forall p, In p (concat arrivals) -> ~ In p (arrived s)) ->
  exists sf logs, sim_run C APriority t s arrivals = (sf, logs, None) /\
                  length logs = length arrivals /\ mp_inv np sf /\
                  arrived sf = arrived s ++ concat arrivals.
Proof.
  induction arrivals as [|newp r IH]; intros t s Li N D; cbn [sim_run].
  - exists s, []. split; [reflexivity|]. split; [reflexivity|]. split; [exact Li|].
    cbn. rewrite app_nil_r. reflexivity.
  - cbn [concat] in N, D. apply ConserveFacts.NoDup_app_inv in N. destruct N as (N1 & N2 & N3).
    destruct (multi_tick_ok np t s newp Li N1) as (s1 & lg & E & Li1 & Ea).
    { intros p Hp. apply D. apply in_or_app. left. exact Hp. }
    assert (Ea' : arrived s1 = arrived s ++ newp).
    { unfold arrived. rewrite Ea, map_app, map_map. cbn [fst]. rewrite map_id. reflexivity. }
    rewrite E. destruct (IH (t + 1)%Z s1 Li1 N2) as (sf & logs & R & Len & If & Arr).
    { intros p Hp Hin. rewrite Ea' in Hin. apply in_app_or in Hin. destruct Hin as [Hin|Hin].
      - apply (D p); [apply in_or_app; right; exact Hp|exact Hin].
      - apply (N3 p Hin Hp). }
    rewrite R. exists sf, (lg :: logs). split; [reflexivity|]. split; [cbn [length]; lia|].
    split; [exact If|]. rewrite Arr, Ea'. cbn [concat]. rewrite app_assoc. reflexivity.
Qed.

(* what the invariant says about who holds which operator *)
Lemma mp_inv_holders np s :
  mp_inv np s ->
  NoDup (queued_ops (sm_sched s) ++ fresh_ops (sm_exec s) (sm_sched s) ++ sown (sm_exec s)) /\
  (forall q j, In j (queue_of (sm_sched s) q) ->
     NoDup (j_ops j) /\
     (forall o, In o (j_ops j) -> st_of (e_world (sm_exec s)) o = Pending \/ st_of (e_world (sm_exec s)) o = Failed) /\
     chain C (e_world (sm_exec s)) (j_ops j) /\
     exists k, holds (e_world (sm_exec s)) k (j_ops j)) /\
  (forall p c, In p (e_pools (sm_exec s)) -> In c (p_active p) \/ In c (p_suspending p) ->
     exists k, holds (e_world (sm_exec s)) k (c_ops c)) /\
  (forall c, In c (fresh_conts (sm_exec s) (sm_sched s)) ->
     (forall o, In o (remops c) -> st_of (e_world (sm_exec s)) o = Pending) /\
     exists k, holds (e_world (sm_exec s)) k (c_ops c)).
Proof.
  intros [Ipr (Sp & (Gq & Nq & Hf & _) & Hl & _)].
  destruct Ipr as (_ & _ & (_ & _ & [Ns Ab]) & _).
  split; [|split; [|split]].
  - apply (NoDup_count_occ Nat.eq_dec). intros x.
    fold (cnt x (queued_ops (sm_sched s) ++ fresh_ops (sm_exec s) (sm_sched s) ++ sown (sm_exec s))).
    rewrite !cnt_app. pose proof (nodup_cnt _ x Nq) as X1. rewrite cnt_app in X1.
    pose proof (nodup_cnt _ x Ns) as X2.
    destruct (in_dec Nat.eq_dec x (sown (sm_exec s))) as [Hin|Hn].
    + pose proof (Ab x Hin) as B.
      assert (cnt x (queued_ops (sm_sched s)) = 0).
      { destruct (cnt x (queued_ops (sm_sched s))) eqn:E0; [reflexivity|exfalso].
        assert (Hq : In x (queued_ops (sm_sched s))) by (apply cnt_In; lia).
        apply queued_ops_in in Hq. destruct Hq as (q & j & Hj & Hxj). destruct (Gq q j Hj) as (_ & _ & As & _).
        apply busy_not_assignable in B. pose proof (As x Hxj) as Y. unfold assignable in Y. congruence. }
      assert (cnt x (fresh_ops (sm_exec s) (sm_sched s)) = 0).
      { destruct (cnt x (fresh_ops (sm_exec s) (sm_sched s))) eqn:E0; [reflexivity|exfalso].
        assert (Hq : In x (fresh_ops (sm_exec s) (sm_sched s))) by (apply cnt_In; lia).
        unfold fresh_ops in Hq. apply in_flat_map in Hq. destruct Hq as [c [Hc Hxc]].
        destruct (Hf c Hc) as ((_ & _ & o & r & Ho & _ & _ & Pe) & _). rewrite Ho in Hxc.
        unfold pend_all in Pe. rewrite Forall_forall in Pe. rewrite (Pe x Hxc) in B.
        destruct B as [B|[B|B]]; discriminate. }
      lia.
    + assert (cnt x (sown (sm_exec s)) = 0) by (destruct (cnt x (sown (sm_exec s))) eqn:E0; [reflexivity|exfalso; apply Hn; apply cnt_In; lia]).
      lia.
  - intros q j Hj. destruct (Gq q j Hj) as (_ & Nd & As & Ch & Hk & _). split; [exact Nd|].
    split; [intros o Ho; apply assignable_cases; apply As; exact Ho|]. split; [exact Ch|exact Hk].
  - intros p c Hp Hc. destruct (Hl p c Hp Hc) as (Hk & _). exact Hk.
  - intros c Hc. destruct (Hf c Hc) as ((_ & _ & o & r & Ho & _ & _ & Pe) & Hk & _). split; [|exact Hk].
    intros x Hx. rewrite Ho in Hx. unfold pend_all in Pe. rewrite Forall_forall in Pe. apply Pe. exact Hx.
Qed.

End MultiMode.

(* P3: the closed loop for multi-operator containers *)
Theorem priority_multi_runs_to_end C l np cpu ram arrivals :
  cf_static C = mk_static l -> dags_wf l ->
  (forall op c, cf_script C op c <> []) -> cf_multi C = true ->
  (0 <= cpu)%Z -> (0 <= ram)%Q -> NoDup (concat arrivals) ->
  exists sf logs,
    sim_run C APriority 0%Z (init_sim C np cpu ram) arrivals = (sf, logs, None) /\
    length logs = length arrivals.
Proof.
  intros E W Hs Hm Hc Hr Na.
  assert (SK : static_ok (cf_static C)) by (rewrite E; apply static_ok_mk_static, W).
  assert (TP : order_topo (cf_static C)) by (rewrite E; apply mk_static_order_topo, W).
  destruct (multi_run_total C Hs Hm SK TP np arrivals 0%Z (init_sim C np cpu ram))
    as (sf & logs & R & Len & _).
  - apply mp_inv_init; assumption.
  - exact Na.
  - intros p _ [].
  - exists sf, logs. auto.
Qed.

(* P4: who holds what, multi-operator mode, in the final state of every run.
   No operator is held twice -- not by two queued jobs, not by a job and a container, not by two
   containers, not by a queued job and a suspended container awaiting its re-queue.  Every holder (queued
   job, live container, suspended container awaiting re-queue) holds ALL unfinished operators of one
   pipeline, in a dependency-closed order; queued operators are PENDING or FAILED. *)
Theorem priority_multi_queues C l np cpu ram arrivals :
  cf_static C = mk_static l -> dags_wf l ->
  (forall op c, cf_script C op c <> []) -> cf_multi C = true ->
  (0 <= cpu)%Z -> (0 <= ram)%Q -> NoDup (concat arrivals) ->
  exists sf logs,
    sim_run C APriority 0%Z (init_sim C np cpu ram) arrivals = (sf, logs, None) /\
    NoDup (queued_ops (sm_sched sf) ++ fresh_ops (sm_exec sf) (sm_sched sf) ++ sown (sm_exec sf)) /\
    (forall q j, In j (queue_of (sm_sched sf) q) ->
       NoDup (j_ops j) /\
       (forall o, In o (j_ops j) ->
          st_of (e_world (sm_exec sf)) o = Pending \/ st_of (e_world (sm_exec sf)) o = Failed) /\
       chain C (e_world (sm_exec sf)) (j_ops j) /\
       exists k, holds C (e_world (sm_exec sf)) k (j_ops j)) /\
    (forall p c, In p (e_pools (sm_exec sf)) -> In c (p_active p) \/ In c (p_suspending p) ->
       exists k, holds C (e_world (sm_exec sf)) k (c_ops c)) /\
    (forall c, In c (fresh_conts (sm_exec sf) (sm_sched sf)) ->
       (forall o, In o (remops c) -> st_of (e_world (sm_exec sf)) o = Pending) /\
       exists k, holds C (e_world (sm_exec sf)) k (c_ops c)).
Proof.
  intros E W Hs Hm Hc Hr Na.
  assert (SK : static_ok (cf_static C)) by (rewrite E; apply static_ok_mk_static, W).
  assert (TP : order_topo (cf_static C)) by (rewrite E; apply mk_static_order_topo, W).
  destruct (multi_run_total C Hs Hm SK TP np arrivals 0%Z (init_sim C np cpu ram))
    as (sf & logs & R & _ & If & _).
  - apply mp_inv_init; assumption.
  - exact Na.
  - intros p _ [].
  - exists sf, logs. split; [exact R|]. exact (mp_inv_holders C np sf If).
Qed.

(* P4: nothing PENDING is lost, multi-operator mode: in the final state of every run, every PENDING operator
   of an arrived pipeline is in a queued job, or belongs to a suspended container awaiting its re-queue
   (which the next round files: C12_resume_offered), or its pipeline has a result of the tick just executed
   (the next round files a job with all its unfinished operators).  FAILED operators are not covered: the
   retry of a failed container can be dropped for good (C12_retry_dropped, C12_never_lost_failed_refuted). *)
Theorem priority_multi_no_loss C l np cpu ram arrivals :
  cf_static C = mk_static l -> dags_wf l ->
  (forall op c, cf_script C op c <> []) -> cf_multi C = true ->
  (0 <= cpu)%Z -> (0 <= ram)%Q -> NoDup (concat arrivals) ->
  exists sf logs,
    sim_run C APriority 0%Z (init_sim C np cpu ram) arrivals = (sf, logs, None) /\
    forall k o, In k (concat arrivals) -> In o (pd_order (pipe_of (cf_static C) k)) ->
      st_of (e_world (sm_exec sf)) o = Pending ->
      In o (queued_ops (sm_sched sf)) \/ In o (fresh_ops (sm_exec sf) (sm_sched sf)) \/
      exists r o', In r (sm_results sf) /\ In o' (r_ops r) /\ op_pipe (cf_static C) o' = k.
Proof.
  intros E W Hs Hm Hc Hr Na.
  assert (SK : static_ok (cf_static C)) by (rewrite E; apply static_ok_mk_static, W).
  assert (TP : order_topo (cf_static C)) by (rewrite E; apply mk_static_order_topo, W).
  destruct (multi_run_total C Hs Hm SK TP np arrivals 0%Z (init_sim C np cpu ram))
    as (sf & logs & R & _ & [_ (_ & _ & _ & _ & _ & _ & _ & Nl)] & Arr).
  - apply mp_inv_init; assumption.
  - exact Na.
  - intros p _ [].
  - exists sf, logs. split; [exact R|]. intros k o Hk. apply Nl. rewrite Arr. cbn. exact Hk.
Qed.

(* ... and for either container mode *)
Theorem priority_runs_to_end C l np cpu ram arrivals :
  cf_static C = mk_static l -> dags_wf l ->
  (forall op c, cf_script C op c <> []) ->
  (0 <= cpu)%Z -> (0 <= ram)%Q -> NoDup (concat arrivals) ->
  exists sf logs,
    sim_run C APriority 0%Z (init_sim C np cpu ram) arrivals = (sf, logs, None) /\
    length logs = length arrivals.
Proof.
  intros E W Hs Hc Hr Na. destruct (cf_multi C) eqn:Hm.
  - eapply priority_multi_runs_to_end; eauto.
  - destruct (priority_single_runs_to_end C l np cpu ram arrivals E W Hs Hm Hc Hr Na)
      as (sf & logs & R & Len & _). exists sf, logs. auto.
Qed.

(* ------------------------------------------------------------------------------------------ *)
(* non-vacuity                                                                                  *)
(* ------------------------------------------------------------------------------------------ *)
Module MultiExamples.
Import RunExamples.

(* per tick: (suspensions, assignments as (priority, operators, cpu, ram), results as (container, failed));
   then the outcome, the suspension counter, the re-queued containers *)
Definition show2 (r : sim * list tick_log * option err) :=
  let '(s, logs, e) := r in
  (map (fun l => (map su_cid (tl_susp l),
                  map (fun a => (a_prio a, a_ops a, a_cpu a, Qred (a_ram a))) (tl_asgs l),
                  map (fun x => (r_cid x, r_err x)) (tl_results l))) logs,
   e, sm_nsusp s, ss_requeued (sm_sched s)).

(* multi-operator mode, one pool of 2 CPUs / 40 GB: batch container 0 holds operators [0; 1] with 4 GB;
   it is preempted for the query job in tick 2 at the boundary after operator 0, suspends for two ticks
   (4 GB / 20 at 10 ticks/s), is released at the end of tick 3, re-queued in tick 4 (container 0
   recorded) and its remaining operator [1] runs again in a new container; the run reaches its end *)
Example ex_preempt_two_ticks :
  show2 (sim_run (exC true) APriority 0%Z (init_sim (exC true) 1 2%Z 40%Q)
                 [[0; 1]; []; [2]; []; []; []; []; []; []; []]) =
  ([([], [(Batch, [0; 1], 1%Z, 4%Q); (Batch, [2; 3], 1%Z, 36%Q)], []);
    ([], [], []);
    ([0], [], []);
    ([], [], [(1, false)]);
    ([], [(Query, [4], 1%Z, 4%Q); (Batch, [1], 1%Z, 36%Q)], []);
    ([], [], [(2, false); (3, false)]);
    ([], [], []); ([], [], []); ([], [], []); ([], [], [])], None, 1%Z, [0]).
Proof. vm_compute. reflexivity. Qed.

(* the closed-loop theorem applies to this configuration *)
Example ex_multi_total :
  exists sf logs,
    sim_run (exC true) APriority 0%Z (init_sim (exC true) 1 2%Z 40%Q)
            [[0; 1]; []; [2]; []; []; []; []; []; []; []] = (sf, logs, None) /\ length logs = 10.
Proof.
  apply (priority_multi_runs_to_end (exC true) exL); try reflexivity.
  - exact exL_wf.
  - intros op c. discriminate.
  - lia.
  - lra.
  - cbn. repeat constructor; cbn; intuition discriminate.
Qed.

(* the three kinds of holders: after four ticks of that run the query operator 4 is queued (PENDING), operator
   1 is PENDING and belongs to suspended container 0, which is not re-queued yet, and nothing is live *)
Example ex_holders :
  (let '(sf, _, e) := sim_run (exC true) APriority 0%Z (init_sim (exC true) 1 2%Z 40%Q) [[0; 1]; []; [2]; []] in
   (e, queued_ops (sm_sched sf), fresh_ops (sm_exec sf) (sm_sched sf), sown (sm_exec sf),
    map (st_of (e_world (sm_exec sf))) [0; 1; 2; 3; 4], ss_requeued (sm_sched sf)))
  = (None, [4], [1], [], [Completed; Pending; Completed; Completed; Pending], []).
Proof. vm_compute. reflexivity. Qed.

End MultiExamples.
