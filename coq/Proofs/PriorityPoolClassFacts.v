(* C16 at run level, audit point B/P1: pool isolation by the class of the PIPELINE, not by the priority tag.

   Per round the scheduler sorts jobs by their tag [j_prio] / [a_prio] (Proofs/PriorityPoolFacts.v,
   [pp_pool_by_class]); the results it is handed are arbitrary there, so a failed result tagged Query that
   carries operators of a Batch pipeline would be retried on pool 0. In a RUN the tag is copied
     pipeline --(new_job)--> job --(pp_scan)--> assignment --(new_container)--> container
              --(result_of)--> result --(fail_job)--> job ...
   so it stays the priority of the pipeline of every operator it travels with. This file proves that, as an
   invariant [cls_inv] of the simulator loop under priority-pool, and concludes that every assignment of
   every tick and every container of every reachable state sits on the pool of its pipeline's class.

   The only hypothesis on the static data is [ops_belong]: the operators listed for pipeline k are operators
   of pipeline k (true of [mk_static] with well-formed DAGs, [ops_belong_mk_static]). Nothing is assumed
   about pool sizes, the container mode, scripts or the workload: the statements hold for every run, also
   for one that stops with an error (for the ticks it completed). *)
From Coq Require Import ZArith QArith List Bool Arith Lia.
Import ListNotations.
From Eudoxia Require Import Num.Rnd64 Model.Types Model.Dag Model.Lifecycle Model.Container Model.Pool
  Model.Executor Model.Sched Model.Simulator
  Proofs.ListFacts Proofs.LifecycleFacts Proofs.ConserveFacts Proofs.ExecLifeFacts Proofs.OomFacts
  Proofs.SafetyFacts Proofs.PriorityPoolFacts Proofs.PriorityPoolRunFacts Proofs.LedgerFacts.
Close Scope Q_scope.
Close Scope Z_scope.

(* ------------------------------------------------------------------------------------------ *)
(* 1. vocabulary                                                                                *)
(* ------------------------------------------------------------------------------------------ *)

(* the class of an operator: the priority of the pipeline it belongs to *)
Definition op_class (C : cfg) (o : nat) : prio := pd_prio (pipe_of (cf_static C) (op_pipe (cf_static C) o)).

(* a tag that is the class of every operator it travels with *)
Definition tag_ok (C : cfg) (pr : prio) (ops : list nat) : Prop := forall o, In o ops -> pr = op_class C o.

(* the pool priority-pool reserves for a class *)
Definition pool_of_class (pr : prio) : nat := match pr with Batch => 1 | _ => 0 end.

(* the operators listed for pipeline k belong to pipeline k *)
Definition ops_belong (C : cfg) : Prop :=
  forall k o, In o (pd_order (pipe_of (cf_static C) k)) -> op_pipe (cf_static C) o = k.

Lemma ops_belong_mk_static C l : cf_static C = mk_static l -> dags_wf l -> ops_belong C.
Proof. intros E W k o. rewrite E. apply mk_static_op_pipe. exact W. Qed.

Definition jtag (C : cfg) (p : prio) (j : job) : Prop := j_prio j = p /\ tag_ok C p (j_ops j).

Definition atag (C : cfg) (a : asg) : Prop :=
  tag_ok C (a_prio a) (a_ops a) /\ a_pool a = Z.of_nat (pool_of_class (a_prio a)).

Definition ctag (C : cfg) (pid : nat) (c : container) : Prop :=
  tag_ok C (c_prio c) (c_ops c) /\ pid = pool_of_class (c_prio c).

Definition rtag (C : cfg) (r : result) : Prop := tag_ok C (r_prio r) (r_ops r).

(* the invariant: nothing is suspending or suspended (priority-pool never suspends), and every queued job,
   every live container and every result of the last tick carries the class of its operators' pipeline;
   jobs sit in the queue of that class, containers in the pool of that class *)
Definition cls_inv (C : cfg) (s : sim) : Prop :=
  (forall p, In p (e_pools (sm_exec s)) -> p_suspending p = [] /\ p_suspended p = []) /\
  (forall pr j, In j (queue_of (sm_sched s) pr) -> jtag C pr j) /\
  (forall p c, In p (e_pools (sm_exec s)) -> In c (p_active p) -> ctag C (p_id p) c) /\
  (forall r, In r (sm_results s) -> rtag C r).

Lemma cls_inv_init C np cpu ram : cls_inv C (init_sim C np cpu ram).
Proof.
  unfold cls_inv, init_sim, init_estate. cbn [sm_exec sm_sched sm_results e_pools].
  split; [|split; [|split]].
  - intros p Hp. apply in_map_iff in Hp. destruct Hp as [i [<- _]]. split; reflexivity.
  - intros pr j Hj. destruct pr; destruct Hj.
  - intros p c Hp Hc. apply in_map_iff in Hp. destruct Hp as [i [<- _]]. destruct Hc.
  - intros r [].
Qed.

(* ------------------------------------------------------------------------------------------ *)
(* 2. the scheduler round                                                                       *)
(* ------------------------------------------------------------------------------------------ *)

Lemma new_job_tag C k : ops_belong C -> jtag C (prio_of_pipe C k) (new_job C k).
Proof.
  intros B. split; [reflexivity|]. intros o Ho. cbn [new_job j_ops] in Ho.
  unfold op_class. rewrite (B k o Ho). reflexivity.
Qed.

Lemma fail_job_tag C w r : rtag C r -> jtag C (r_prio r) (fail_job C w r).
Proof.
  intros R. split; [reflexivity|]. intros o Ho. cbn [fail_job j_ops] in Ho.
  unfold not_completed_ops in Ho. apply filter_In in Ho. apply R. apply Ho.
Qed.

Lemma pp_pre_jtag C s e results newp lq p j :
  ops_belong C ->
  (forall pr j0, In j0 (queue_of s pr) -> jtag C pr j0) ->
  (forall r, In r results -> rtag C r) -> (forall j0, ~ In j0 lq) ->
  In j (pp_pre C s e results newp lq p) -> jtag C p j.
Proof.
  intros B Q R Lq H. unfold pp_pre in H. apply in_app_or in H. destruct H as [H|H]; [apply Q; exact H|].
  apply filter_In in H. destruct H as [H Cl]. unfold is_class in Cl. apply prio_eqb_eq in Cl.
  apply in_app_or in H. destruct H as [H|H]; [|apply in_app_or in H; destruct H as [H|H]].
  - apply in_map_iff in H. destruct H as [k [<- _]].
    pose proof (new_job_tag C k B) as T. cbn [new_job j_prio] in Cl. rewrite Cl in T. exact T.
  - apply in_map_iff in H. destruct H as [r [<- Hr]]. apply filter_In in Hr. destruct Hr as [Hr _].
    pose proof (fail_job_tag C (e_world e) r (R r Hr)) as T. cbn [fail_job j_prio] in Cl.
    rewrite Cl in T. exact T.
  - exfalso. exact (Lq j H).
Qed.

(* an assignment made by the scan of queue [p] on pool [pid] from tagged jobs *)
Lemma pp_rel_atag C pid p w x queue oom n x' w' asgs oom' a :
  pp_rel C pid w x queue oom n x' w' asgs oom' ->
  (forall j, In j queue -> jtag C p j) -> pid = pool_of_class p ->
  In a asgs -> atag C a.
Proof.
  intros S Q Ep Ha.
  destruct (pp_rel_from _ _ _ _ _ _ _ _ _ _ _ _ S Ha) as [j [Hj [_ [F1 [F2 F3]]]]].
  apply In_firstn in Hj. destruct (Q j Hj) as [Jp Jt].
  unfold atag. rewrite F1, F2, F3, Jp. split; [exact Jt|]. rewrite Ep. reflexivity.
Qed.

Theorem pp_step_tags C s e results newp s' w' susps asgs :
  ops_belong C ->
  (forall p, In p (e_pools e) -> p_suspended p = []) ->
  (forall pr j, In j (queue_of s pr) -> jtag C pr j) ->
  (forall r, In r results -> rtag C r) ->
  priority_pool_step C s e results newp = Ok (s', w', susps, asgs) ->
  susps = [] /\ (forall a, In a asgs -> atag C a) /\ (forall pr j, In j (queue_of s' pr) -> jtag C pr j).
Proof.
  intros B Sd Q R H. apply pp_step_inv in H.
  destruct H as (m & lq & n1 & n2 & n3 & x0a & x0b & x1a & w1 & w2 & a1 & a2 & a3 & o1 & o2 & H).
  destruct H as (_ & Lq & _ & S1 & S2 & S3 & Es & Ea & Eq & Ei & Eb & _).
  assert (Lq' : forall j0, ~ In j0 lq).
  { intros j0 Hj0. destruct (Lq j0 Hj0) as (p0 & c & Hp0 & Hc & _). rewrite (Sd p0 Hp0) in Hc. exact Hc. }
  assert (P : forall p j, In j (pp_pre C s e results newp lq p) -> jtag C p j).
  { intros p j Hj. eapply pp_pre_jtag; eauto. }
  split; [exact Es|]. split.
  - intros a Ha. subst asgs.
    apply in_app_or in Ha. destruct Ha as [Ha|Ha]; [|apply in_app_or in Ha; destruct Ha as [Ha|Ha]].
    + eapply (pp_rel_atag C 0 Query); [exact S1|apply P|reflexivity|exact Ha].
    + eapply (pp_rel_atag C 0 Interactive); [exact S2|apply P|reflexivity|exact Ha].
    + eapply (pp_rel_atag C 1 Batch); [exact S3|apply P|reflexivity|exact Ha].
  - intros pr j Hj. apply (P pr).
    destruct pr; cbn [queue_of] in Hj; [rewrite Eq in Hj|rewrite Ei in Hj|rewrite Eb in Hj];
      eapply ExecLifeFacts.In_skipn; eauto.
Qed.

(* ------------------------------------------------------------------------------------------ *)
(* 3. the executor tick: containers and results keep the operator list and the tag               *)
(* ------------------------------------------------------------------------------------------ *)

Lemma new_containers_tag asgs : forall next c,
  In c (new_containers next asgs) -> exists a, In a asgs /\ c_ops c = a_ops a /\ c_prio c = a_prio a.
Proof.
  induction asgs as [|a t IH]; intros next c H; [destruct H|].
  cbn [new_containers] in H. destruct H as [<-|H].
  - exists a. cbn. auto.
  - destruct (IH _ _ H) as [a0 [Ha0 R]]. exists a0. split; [right; exact Ha0|exact R].
Qed.

(* every container a pool holds after its tick was there before or was created in the tick *)
Lemma pool_tick_active_origin C w next p ss asgs w' next' p' res c' :
  pool_tick C w next p ss asgs = Ok (w', next', p', res) -> In c' (p_active p') ->
  exists c, (In c (p_active p) \/ In c (new_containers next asgs)) /\ same_static c c'.
Proof.
  intros H Hc. apply LedgerFacts.pool_tick_inv in H.
  destruct H as (w1 & act1 & sing1 & cons1 & acpu2 & aram2 & act2 & w3 & sing3 & w4 & cons4 & act4
                 & cons5 & act5 & E1 & E2 & _ & E4 & E5 & -> & _).
  unfold pool_after in Hc. cbv zeta in Hc. unfold upd_pool in Hc. cbn [p_active] in Hc.
  apply filter_In in Hc. destruct Hc as [Hc5 _].
  destruct (oom_killer_static _ _ _ _ _ _ _ _ _ E5 Hc5) as (c4 & Hc4 & S45).
  apply tick_active_spec in E4. destruct E4 as (_ & _ & F2).
  destruct (Forall2_In_right _ _ _ _ F2 Hc4) as (c2 & Hc2 & wa & ca & wb & cb & _ & K & _).
  apply ctick_cases in K. destruct K as [(K1 & K2 & K3 & K4 & K5 & _) _].
  apply LedgerFacts.phase1_facts in E1. destruct E1 as (_ & I1 & _).
  apply LedgerFacts.phase2_spec in E2. destruct E2 as (_ & -> & _).
  exists c2. split.
  - apply in_app_or in Hc2. destruct Hc2 as [Hc2|Hc2]; [left; apply I1; exact Hc2|right; exact Hc2].
  - eapply same_static_trans; [|exact S45]. unfold same_static. auto.
Qed.

(* without suspension commands nothing starts suspending *)
Lemma pool_tick_nosusp C w next p asgs w' next' p' res :
  pool_tick C w next p [] asgs = Ok (w', next', p', res) ->
  p_suspending p = [] -> p_suspended p = [] ->
  p_id p' = p_id p /\ p_suspending p' = [] /\ p_suspended p' = [].
Proof.
  intros H Hs Hd. apply LedgerFacts.pool_tick_inv in H.
  destruct H as (w1 & act1 & sing1 & cons1 & acpu2 & aram2 & act2 & w3 & sing3 & w4 & cons4 & act4
                 & cons5 & act5 & E1 & _ & E3 & _ & _ & -> & _).
  cbn [LedgerFacts.phase1] in E1. inversion E1; subst w1 act1 sing1 cons1. clear E1.
  rewrite Hs in E3. cbn [tick_suspending] in E3. inversion E3; subst w3 sing3. clear E3.
  unfold pool_after. cbv zeta. unfold upd_pool. cbn [p_id p_suspending p_suspended filter].
  rewrite Hd. auto.
Qed.

(* all pools, no suspension commands, tagged assignments *)
Lemma pools_tick_tags C asgs : forall ps w next w' next' ps' res,
  pools_tick C w next ps [] asgs = Ok (w', next', ps', res) ->
  (forall a, In a asgs -> atag C a) ->
  (forall p, In p ps -> p_suspending p = [] /\ p_suspended p = []) ->
  (forall p c, In p ps -> In c (p_active p) -> ctag C (p_id p) c) ->
  (forall p', In p' ps' -> p_suspending p' = [] /\ p_suspended p' = []) /\
  (forall p' c', In p' ps' -> In c' (p_active p') -> ctag C (p_id p') c') /\
  (forall r, In r res -> rtag C r).
Proof.
  induction ps as [|p t IH]; intros w next w' next' ps' res H A Sp Ct; cbn [pools_tick] in H.
  - inversion H; subst. split; [intros p' []|split; [intros p' c' []|intros r []]].
  - cbv zeta in H. cbn [filter] in H.
    apply bind_ok_inv in H. destruct H as [[[[w1 next1] p1] res1] [E1 H]].
    apply bind_ok_inv in H. destruct H as [[[[w2 next2] t2] res2] [E2 H]]. inversion H; subst. clear H.
    destruct (Sp p (or_introl eq_refl)) as [Hs Hd].
    destruct (pool_tick_nosusp _ _ _ _ _ _ _ _ _ E1 Hs Hd) as (Eid & Hs1 & Hd1).
    destruct (IH _ _ _ _ _ _ E2 A (fun q Hq => Sp q (or_intror Hq)) (fun q c Hq => Ct q c (or_intror Hq)))
      as (I1 & I2 & I3).
    (* a container of this pool, old or new, is tagged and belongs here *)
    assert (New : forall c, In c (new_containers next
                                   (filter (fun a => (a_pool a =? Z.of_nat (p_id p))%Z) asgs)) ->
                            ctag C (p_id p) c).
    { intros c Hc. destruct (new_containers_tag _ _ _ Hc) as (a & Ha & Eo & Ep).
      apply filter_In in Ha. destruct Ha as [Ha Hp]. apply Z.eqb_eq in Hp.
      destruct (A a Ha) as [T P]. unfold ctag. rewrite Eo, Ep. split; [exact T|].
      rewrite P in Hp. apply Nat2Z.inj in Hp. symmetry. exact Hp. }
    assert (Org : forall c, In c (p_active p) \/
                            In c (new_containers next
                                    (filter (fun a => (a_pool a =? Z.of_nat (p_id p))%Z) asgs)) ->
                            ctag C (p_id p) c).
    { intros c [Hc|Hc]; [apply Ct; [left; reflexivity|exact Hc]|apply New; exact Hc]. }
    split; [|split].
    + intros p' [<-|Hp']; [auto|apply I1; exact Hp'].
    + intros p' c' [<-|Hp'] Hc'; [|apply I2; assumption].
      destruct (pool_tick_active_origin _ _ _ _ _ _ _ _ _ _ _ E1 Hc') as (c & Hc & (_ & So & _ & _ & Sp')).
      destruct (Org c Hc) as [T P]. unfold ctag. rewrite Eid, So, Sp'. auto.
    + intros r Hr. apply in_app_or in Hr. destruct Hr as [Hr|Hr]; [|apply I3; exact Hr].
      destruct (result_of_one_container _ _ _ _ _ _ _ _ _ _ _ E1 Hr) as (_ & c & Hc & _ & Ro & _ & _ & Rp).
      destruct (Org c Hc) as [T _]. unfold rtag. rewrite Ro, Rp. exact T.
Qed.

(* ------------------------------------------------------------------------------------------ *)
(* 4. one tick, every run                                                                       *)
(* ------------------------------------------------------------------------------------------ *)

Theorem cls_tick C t s newp s' lg :
  ops_belong C -> cls_inv C s -> sim_tick C APriorityPool t s newp = Ok (s', lg) ->
  cls_inv C s' /\ (forall a, In a (tl_asgs lg) -> atag C a).
Proof.
  intros B (Sp & Q & Ct & R) H. apply sim_tick_ok_inv in H.
  destruct H as (arr & ss' & w' & susps & asgs & e2 & res & _ & Es & Ee & <- & <- & <- & _ & _ & _ & -> & _).
  cbn [sched_step] in Es.
  destruct (pp_step_tags C _ _ _ _ _ _ _ _ B (fun p Hp => proj2 (Sp p Hp)) Q R Es) as (-> & A & Q').
  apply exec_tick_ok_inv in Ee. destruct Ee as (_ & _ & Ee). cbn [e_world e_next e_pools] in Ee.
  destruct (pools_tick_tags C _ _ _ _ _ _ _ _ Ee A Sp Ct) as (Sp' & Ct' & R').
  split; [|exact A]. unfold cls_inv. auto.
Qed.

(* the simulator loop: an invariant of the state and a property of every tick log *)
Lemma sim_run_logs_inv C a (P : sim -> Prop) (Q : tick_log -> Prop) :
  (forall t s newp s' lg, P s -> sim_tick C a t s newp = Ok (s', lg) -> P s' /\ Q lg) ->
  forall arrivals t s sf logs oe, P s -> sim_run C a t s arrivals = (sf, logs, oe) -> P sf /\ Forall Q logs.
Proof.
  intros Hp. induction arrivals as [|newp r IH]; intros t s sf logs oe P0 H; cbn [sim_run] in H.
  - inversion H; subst. split; [exact P0|constructor].
  - destruct (sim_tick C a t s newp) as [[s1 lg]|e] eqn:E.
    + destruct (sim_run C a (t + 1)%Z s1 r) as [[sf' logs'] e'] eqn:R. inversion H; subst.
      destruct (Hp _ _ _ _ _ P0 E) as [P1 Q1]. destruct (IH _ _ _ _ _ P1 R) as [Pf Ql].
      split; [exact Pf|constructor; assumption].
    + inversion H; subst. split; [exact P0|constructor].
Qed.

Theorem cls_inv_reach C np cpu ram t s :
  ops_belong C -> sim_reach C APriorityPool 0%Z (init_sim C np cpu ram) t s -> cls_inv C s.
Proof.
  intros B R. eapply (sim_reach_inv C APriorityPool (cls_inv C)); [|exact R|apply cls_inv_init].
  intros t0 s0 newp s' lg I T. exact (proj1 (cls_tick C t0 s0 newp s' lg B I T)).
Qed.

Theorem cls_inv_run C np cpu ram arrivals sf logs oe :
  ops_belong C -> sim_run C APriorityPool 0%Z (init_sim C np cpu ram) arrivals = (sf, logs, oe) ->
  cls_inv C sf /\ Forall (fun lg => forall a, In a (tl_asgs lg) -> atag C a) logs.
Proof.
  intros B H.
  eapply (sim_run_logs_inv C APriorityPool (cls_inv C) (fun lg => forall a, In a (tl_asgs lg) -> atag C a));
    [|apply cls_inv_init|exact H].
  intros t s newp s' lg I T. exact (cls_tick C t s newp s' lg B I T).
Qed.

(* ------------------------------------------------------------------------------------------ *)
(* 5. the statements                                                                            *)
(* ------------------------------------------------------------------------------------------ *)

Lemma pool_of_class_cases pr k :
  k = pool_of_class pr -> (pr = Query \/ pr = Interactive -> k = 0) /\ (pr = Batch -> k = 1).
Proof. intros ->. destruct pr; cbn; split; intros H; try reflexivity; try discriminate; destruct H; discriminate. Qed.

(* every assignment of every tick of every priority-pool run: the tag is the priority of the pipeline of
   each of its operators, and the pool is the pool of that pipeline's class *)
Theorem pp_run_pool_by_pipeline_class C np cpu ram arrivals sf logs oe :
  ops_belong C ->
  sim_run C APriorityPool 0%Z (init_sim C np cpu ram) arrivals = (sf, logs, oe) ->
  forall lg a o, In lg logs -> In a (tl_asgs lg) -> In o (a_ops a) ->
    a_prio a = op_class C o /\
    (op_class C o = Query \/ op_class C o = Interactive -> a_pool a = 0%Z) /\
    (op_class C o = Batch -> a_pool a = 1%Z).
Proof.
  intros B H lg a o Hlg Ha Ho. destruct (cls_inv_run C np cpu ram arrivals sf logs oe B H) as [_ F].
  rewrite Forall_forall in F. destruct (F lg Hlg a Ha) as [T P]. pose proof (T o Ho) as E.
  split; [exact E|]. rewrite <- E.
  destruct (pool_of_class_cases (a_prio a) _ eq_refl) as [P0 P1]. rewrite P.
  split; intros X; [rewrite (P0 X)|rewrite (P1 X)]; reflexivity.
Qed.

(* the form asked for by the property text: two pools *)
Corollary pp_run_pool_by_pipeline_class_2 C cpu ram arrivals sf logs oe :
  ops_belong C ->
  sim_run C APriorityPool 0%Z (init_sim C 2 cpu ram) arrivals = (sf, logs, oe) ->
  forall lg a o, In lg logs -> In a (tl_asgs lg) -> In o (a_ops a) ->
    a_prio a = op_class C o /\
    (op_class C o = Query \/ op_class C o = Interactive -> a_pool a = 0%Z) /\
    (op_class C o = Batch -> a_pool a = 1%Z).
Proof. apply pp_run_pool_by_pipeline_class. Qed.

(* every container of every reachable state lives in the pool of its pipeline's class (all containers are
   active ones: nothing is ever suspending or suspended); so does every job in its queue, and every result
   of the last tick carries the class of its operators' pipeline *)
Theorem pp_reach_containers_by_pipeline_class C np cpu ram t s :
  ops_belong C -> sim_reach C APriorityPool 0%Z (init_sim C np cpu ram) t s ->
  (forall p, In p (e_pools (sm_exec s)) -> p_suspending p = [] /\ p_suspended p = []) /\
  (forall p c o, In p (e_pools (sm_exec s)) -> In c (p_active p) -> In o (c_ops c) ->
     c_prio c = op_class C o /\
     (op_class C o = Query \/ op_class C o = Interactive -> p_id p = 0) /\
     (op_class C o = Batch -> p_id p = 1)) /\
  (forall pr j o, In j (queue_of (sm_sched s) pr) -> In o (j_ops j) -> j_prio j = pr /\ pr = op_class C o) /\
  (forall r o, In r (sm_results s) -> In o (r_ops r) -> r_prio r = op_class C o).
Proof.
  intros B R. destruct (cls_inv_reach C np cpu ram t s B R) as (Sp & Q & Ct & Rt).
  split; [exact Sp|]. split; [|split].
  - intros p c o Hp Hc Ho. destruct (Ct p c Hp Hc) as [T P]. pose proof (T o Ho) as E.
    split; [exact E|]. rewrite <- E. apply pool_of_class_cases. exact P.
  - intros pr j o Hj Ho. destruct (Q pr j Hj) as [Jp Jt]. split; [exact Jp|apply Jt; exact Ho].
  - intros r o Hr Ho. apply (Rt r Hr o Ho).
Qed.

(* the state a run ends in, normally or at the tick that raised *)
Corollary pp_run_containers_by_pipeline_class C np cpu ram arrivals sf logs oe :
  ops_belong C -> sim_run C APriorityPool 0%Z (init_sim C np cpu ram) arrivals = (sf, logs, oe) ->
  forall p c o, In p (e_pools (sm_exec sf)) -> In c (p_active p) -> In o (c_ops c) ->
     c_prio c = op_class C o /\
     (op_class C o = Query \/ op_class C o = Interactive -> p_id p = 0) /\
     (op_class C o = Batch -> p_id p = 1).
Proof.
  intros B H. destruct (sim_run_reach _ _ _ _ _ _ _ _ H) as [t' R].
  exact (proj1 (proj2 (pp_reach_containers_by_pipeline_class C np cpu ram t' sf B R))).
Qed.

(* ------------------------------------------------------------------------------------------ *)
(* Examples                                                                                     *)
(* ------------------------------------------------------------------------------------------ *)
Module ClassExamples.

(* pipeline 0: Query, one operator (0); pipeline 1: Batch, chain 1 -> 2; pipeline 2: Interactive, one operator
   (3). Two pools of 10 CPUs / 10 GB: a new job gets 1 CPU / 1 GB. Operator 1 needs 2 GB in its only tick, every
   other operator half a GB: the Batch container [1; 2] is killed ("OOM") in tick 0 and retried with 2 CPUs /
   2 GB in tick 1 -- on pool 1 again; the query and the interactive container run on pool 0. *)
Definition L3 : list (prio * dag) := [(Query, [[]]); (Batch, [[]; [0]]); (Interactive, [[]])].
Definition C3 : cfg :=
  {| cf_static := mk_static L3; cf_script := fun op _ => if Nat.eqb op 1 then [2%Q] else [(1 # 2)%Q];
     cf_tps := 10%Z; cf_overcommit := false; cf_multi := true; cf_rnd := fun q => q |}.
Definition arr3 : list (list nat) := [[0; 1]; [2]; []; []; []].
Definition run3 := sim_run C3 APriorityPool 0%Z (init_sim C3 2 10%Z 10%Q) arr3.
Definition sf3 : sim := Eval vm_compute in fst (fst run3).
Definition logs3 : list tick_log := Eval vm_compute in snd (fst run3).

Lemma wf_single : wf_dag [[]].
Proof. intros j Hj. cbn in Hj. assert (j = 0) by lia. subst. split; [constructor|intros ? []]. Qed.

Lemma wf_chain2 : wf_dag [[]; [0]].
Proof.
  intros j Hj. cbn in Hj. destruct j as [|[|j]]; [| |lia].
  - split; [constructor|intros ? []].
  - split; [constructor; [intros []|constructor]|]. intros q [<-|[]]. lia.
Qed.

Lemma L3_wf : dags_wf L3.
Proof.
  unfold dags_wf, L3. constructor; [exact wf_single|]. constructor; [exact wf_chain2|].
  constructor; [exact wf_single|constructor].
Qed.

Lemma C3_belong : ops_belong C3.
Proof. apply (ops_belong_mk_static C3 L3); [reflexivity|exact L3_wf]. Qed.

Example ex_run3 : sim_run C3 APriorityPool 0%Z (init_sim C3 2 10%Z 10%Q) arr3 = (sf3, logs3, None).
Proof. vm_compute. reflexivity. Qed.

(* the theorem for this configuration, any workload (stated over an abstract workload: applying the general
   theorem directly to the concrete run makes unification evaluate the run) *)
Lemma C3_runs_tagged arrivals sf logs oe :
  sim_run C3 APriorityPool 0%Z (init_sim C3 2 10%Z 10%Q) arrivals = (sf, logs, oe) ->
  forall lg a o, In lg logs -> In a (tl_asgs lg) -> In o (a_ops a) ->
    a_prio a = op_class C3 o /\
    (op_class C3 o = Query \/ op_class C3 o = Interactive -> a_pool a = 0%Z) /\
    (op_class C3 o = Batch -> a_pool a = 1%Z).
Proof. apply pp_run_pool_by_pipeline_class_2. exact C3_belong. Qed.

(* all three classes, and an OOM retry: (operators, tag, pool) of the assignments and (operators, tag, failed)
   of the results, tick by tick *)
Example ex_three_classes_and_a_retry :
  map (fun lg => (map (fun a => (a_ops a, a_prio a, a_pool a)) (tl_asgs lg),
                  map (fun r => (r_ops r, r_prio r, r_err r)) (tl_results lg))) logs3
  = [ ([([0], Query, 0%Z); ([1; 2], Batch, 1%Z)], [([0], Query, false); ([1; 2], Batch, true)]);
      ([([3], Interactive, 0%Z); ([1; 2], Batch, 1%Z)], [([3], Interactive, false)]);
      ([], [([1; 2], Batch, false)]);
      ([], []);
      ([], []) ] /\
  map (op_class C3) [0; 1; 2; 3] = [Query; Batch; Batch; Interactive].
Proof. split; vm_compute; reflexivity. Qed.

(* the theorem applies to this run *)
Example ex_theorem_applies lg a o :
  In lg logs3 -> In a (tl_asgs lg) -> In o (a_ops a) ->
  a_prio a = op_class C3 o /\
  (op_class C3 o = Query \/ op_class C3 o = Interactive -> a_pool a = 0%Z) /\
  (op_class C3 o = Batch -> a_pool a = 1%Z).
Proof. exact (C3_runs_tagged arr3 sf3 logs3 None ex_run3 lg a o). Qed.

(* per round the tag is NOT tied to the pipeline (the results are arbitrary there): a failed result tagged Query
   that carries the operators of the Batch pipeline is retried on pool 0. [cls_inv] excludes such results. *)
Definition wF : world :=
  {| w_st := [Pending; Failed; Failed; Pending]; w_cnt := w_cnt (init_world (mk_static L3)) |}.
Definition eF : estate := {| e_world := wF; e_pools := e_pools (init_estate C3 2 10%Z 10%Q); e_next := 1 |}.
Definition rBad : result :=
  {| r_cid := 0; r_ops := [1; 2]; r_cpu := 1%Z; r_ram := 1%Q; r_prio := Query; r_pool := 1; r_err := true |}.
Example ex_per_round_tag_is_free :
  match priority_pool_step C3 init_sstate eF [rBad] [] with
  | Ok (_, _, _, asgs) => map (fun a => (a_ops a, a_prio a, a_pool a)) asgs
  | Err _ => []
  end = [([1; 2], Query, 0%Z)] /\ op_class C3 1 = Batch /\ ~ rtag C3 rBad.
Proof.
  split; [vm_compute; reflexivity|]. split; [vm_compute; reflexivity|].
  intros T. specialize (T 1 (or_introl eq_refl)). vm_compute in T. discriminate T.
Qed.

End ClassExamples.
