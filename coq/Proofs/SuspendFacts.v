(* C10: suspension only between operators, lasts RAM/20 s, returns the work intact.
   1. which suspension commands a pool accepts;
   2. when a container can be suspended;
   3. the duration;
   4. the countdown, at the container and at the pool;
   5. the operator states after the release.
   Uses the general facts of Proofs/LedgerFacts.v (the container tick by cases, the pool tick taken
   apart). Everything holds for an arbitrary [C : cfg] unless exact arithmetic is asked for. *)
From Coq Require Import ZArith QArith Qround List Bool Arith Lia Lqa Sorting.Permutation.
Import ListNotations.
Close Scope Q_scope.
From Eudoxia Require Import Num.Rnd64 Model.Types Model.Dag Model.Lifecycle Model.Container Model.Pool
  Model.Executor Proofs.ListFacts Proofs.LifecycleFacts Proofs.OomFacts Proofs.LedgerFacts.

(* ====================================================================== *)
(* 1. which commands are accepted                                         *)
(* ====================================================================== *)

Definition suspendable (act : list container) (s : susp) : Prop :=
  exists c, find_container (su_cid s) act = Some c /\ c_can_suspend c = true.

Theorem verify_suspends_iff act ss :
  verify_suspends act ss = Ok tt <-> Forall (suspendable act) ss.
Proof.
  induction ss as [|s t IH]; cbn [verify_suspends].
  - split; [constructor | reflexivity].
  - destruct (find_container (su_cid s) act) as [c|] eqn:F.
    + destruct (c_can_suspend c) eqn:Cs.
      * rewrite IH. split.
        -- intros H. constructor; [exists c; auto | exact H].
        -- intros H. inversion H; assumption.
      * split; [discriminate|]. intros H. inversion H as [|x l [c0 [F0 C0]] _]; subst.
        rewrite F in F0. inversion F0; subst. congruence.
    + split; [discriminate|]. intros H. inversion H as [|x l [c0 [F0 C0]] _]; subst.
      rewrite F in F0. discriminate.
Qed.

Lemma verify_suspends_err act ss e : verify_suspends act ss = Err e -> e = EBadSuspend.
Proof.
  induction ss as [|s t IH]; cbn [verify_suspends]; [discriminate|].
  destruct (find_container (su_cid s) act) as [c|]; [|intros H; inversion H; reflexivity].
  destruct (c_can_suspend c); [exact IH | intros H; inversion H; reflexivity].
Qed.

Corollary verify_suspends_bad act ss :
  ~ Forall (suspendable act) ss -> verify_suspends act ss = Err EBadSuspend.
Proof.
  intros H. destruct (verify_suspends act ss) as [[]|e] eqn:V.
  - exfalso. apply H. apply verify_suspends_iff. exact V.
  - apply verify_suspends_err in V. subst. reflexivity.
Qed.

Lemma find_container_none cid l : find_container cid l = None <-> ~ In cid (map c_id l).
Proof.
  unfold find_container. split.
  - intros H Hin. apply in_map_iff in Hin. destruct Hin as [c [E Hc]].
    apply (find_none _ _ H) in Hc. rewrite E, Nat.eqb_refl in Hc. discriminate.
  - intros H. destruct (find _ l) as [c|] eqn:F; [|reflexivity].
    exfalso. apply find_some in F. destruct F as [F1 F2]. apply Nat.eqb_eq in F2.
    apply H. rewrite <- F2. apply in_map. exact F1.
Qed.

(* a pool tick with a command that fails the check is refused, before anything else happens *)
Lemma pool_tick_bad_verify C w next p ss asgs :
  verify_suspends (p_active p) ss = Err EBadSuspend ->
  pool_tick C w next p ss asgs = Err EBadSuspend.
Proof.
  intros V. unfold pool_tick. destruct ss as [|s0 t]; [discriminate|].
  rewrite V. reflexivity.
Qed.

Theorem suspend_rejected C w next p ss asgs s :
  In s ss ->
  (forall c, find_container (su_cid s) (p_active p) = Some c -> c_can_suspend c = false) ->
  pool_tick C w next p ss asgs = Err EBadSuspend.
Proof.
  intros Hs Hbad. apply pool_tick_bad_verify. apply verify_suspends_bad.
  intros F. rewrite Forall_forall in F. destruct (F s Hs) as [c [Fc Cc]].
  rewrite (Hbad c Fc) in Cc. discriminate.
Qed.

(* the two ways of being wrong, spelt out *)
Corollary suspend_unknown_rejected C w next p ss asgs s :
  In s ss -> ~ In (su_cid s) (map c_id (p_active p)) ->
  pool_tick C w next p ss asgs = Err EBadSuspend.
Proof.
  intros Hs Hn. apply (suspend_rejected C w next p ss asgs s Hs).
  intros c Fc. apply find_container_none in Hn. congruence.
Qed.

Corollary suspend_not_suspendable_rejected C w next p ss asgs s c :
  In s ss -> NoDup (map c_id (p_active p)) ->
  In c (p_active p) -> c_id c = su_cid s -> c_can_suspend c = false ->
  pool_tick C w next p ss asgs = Err EBadSuspend.
Proof.
  intros Hs ND Hc Hid Hcs. apply (suspend_rejected C w next p ss asgs s Hs).
  intros c0 Fc. rewrite <- Hid, (find_container_in _ _ ND Hc) in Fc. inversion Fc; subst. exact Hcs.
Qed.

(* ---------- duplicates ---------- *)

(* the check looks at each command separately: a repeated command passes it *)
Lemma verify_suspends_dup act s t :
  verify_suspends act (s :: t) = Ok tt -> verify_suspends act (s :: s :: t) = Ok tt.
Proof.
  rewrite !verify_suspends_iff. intros H. inversion H; subst. constructor; assumption.
Qed.

Lemma apply_suspends_needs_present C : forall ss w act sing r,
  apply_suspends C w act sing ss = Ok r ->
  forall s, In s ss -> In (su_cid s) (map c_id act).
Proof.
  induction ss as [|s0 t IH]; intros w act sing r H s Hs; [destruct Hs|].
  cbn [apply_suspends] in H.
  destruct (find_container (su_cid s0) act) as [c|] eqn:F; [|discriminate].
  inv_bind H as [w1 c1] eqn K. destruct Hs as [<-|Hs].
  - apply find_container_some in F. destruct F as [F1 F2]. rewrite <- F2. apply in_map. exact F1.
  - pose proof (IH _ _ _ _ H s Hs) as Hin. apply in_map_iff in Hin.
    destruct Hin as [x [E Hx]]. apply remove_container_incl in Hx. rewrite <- E.
    apply in_map. tauto.
Qed.

(* applying the commands succeeds only if no container is named twice: the second command does not
   find the container among the active ones any more *)
Theorem apply_suspends_ok_nodup C : forall ss w act sing r,
  apply_suspends C w act sing ss = Ok r -> NoDup (map su_cid ss).
Proof.
  induction ss as [|s t IH]; intros w act sing r H; [constructor|].
  cbn [apply_suspends] in H.
  destruct (find_container (su_cid s) act) as [c|] eqn:F; [|discriminate].
  inv_bind H as [w1 c1] eqn K. cbn [map]. constructor; [|eapply IH; eauto].
  intros Hin. apply in_map_iff in Hin. destruct Hin as [s' [E Hs']].
  pose proof (apply_suspends_needs_present _ _ _ _ _ _ H s' Hs') as Hp.
  rewrite E in Hp. exact (remove_container_not_in _ _ Hp).
Qed.

Lemma csuspend_err C w c e : csuspend C w c = Err e -> e = ETransition.
Proof.
  unfold csuspend, bind.
  destruct (transition_all _ _ _ _) as [w1|e1] eqn:T; [discriminate|].
  intros H. inversion H; subst. eapply transition_all_err; eauto. discriminate.
Qed.

Lemma apply_suspends_err C : forall ss w act sing e,
  apply_suspends C w act sing ss = Err e -> e = EBadSuspend \/ e = ETransition.
Proof.
  induction ss as [|s t IH]; intros w act sing e H; [discriminate|].
  cbn [apply_suspends] in H.
  destruct (find_container (su_cid s) act) as [c|] eqn:F; [|inversion H; auto].
  destruct (csuspend C w c) as [[w1 c1]|e1] eqn:K.
  - rewrite bind_Ok in H. eapply IH; eauto.
  - cbn in H. inversion H; subst. right. eapply csuspend_err; eauto.
Qed.

(* if no suspension is refused by the state machine, the only error is EBadSuspend *)
Lemma apply_suspends_err_bad C : forall ss w act sing e,
  (forall w0 c e0, In c act -> csuspend C w0 c <> Err e0) ->
  apply_suspends C w act sing ss = Err e -> e = EBadSuspend.
Proof.
  induction ss as [|s t IH]; intros w act sing e Hok H; [discriminate|].
  cbn [apply_suspends] in H.
  destruct (find_container (su_cid s) act) as [c|] eqn:F; [|inversion H; auto].
  apply find_container_some in F. destruct F as [Fin _].
  destruct (csuspend C w c) as [[w1 c1]|e1] eqn:K.
  - rewrite bind_Ok in H. eapply IH; [|exact H].
    intros w0 c0 e0 Hc0. apply Hok. apply remove_container_incl in Hc0. tauto.
  - exfalso. exact (Hok _ _ _ Fin K).
Qed.

(* the same container named twice in a row: the first command suspends it, the second is refused *)
Lemma apply_suspends_twice C w act sing s s' t c w1 c1 :
  find_container (su_cid s) act = Some c -> csuspend C w c = Ok (w1, c1) ->
  su_cid s' = su_cid s ->
  apply_suspends C w act sing (s :: s' :: t) = Err EBadSuspend.
Proof.
  intros F K E. cbn [apply_suspends]. rewrite F, K, bind_Ok. cbv beta iota.
  rewrite E. rewrite (proj2 (find_container_none _ _) (remove_container_not_in _ _)).
  reflexivity.
Qed.

Theorem dup_suspend_rejected C w next p ss asgs :
  ~ NoDup (map su_cid ss) ->
  exists e, pool_tick C w next p ss asgs = Err e /\ (e = EBadSuspend \/ e = ETransition).
Proof.
  intros HD. unfold pool_tick.
  destruct ss as [|s0 t]; [exfalso; apply HD; constructor|].
  destruct (verify_suspends (p_active p) (s0 :: t)) as [[]|e] eqn:V.
  - rewrite bind_Ok.
    destruct (apply_suspends C w (p_active p) (p_suspending p) (s0 :: t)) as [r|e] eqn:A.
    + exfalso. apply HD. eapply apply_suspends_ok_nodup; eauto.
    + exists e. split; [reflexivity|]. eapply apply_suspends_err; eauto.
  - exists e. split; [reflexivity|]. left. eapply verify_suspends_err; eauto.
Qed.

(* and it is EBadSuspend when the state machine accepts the suspensions themselves *)
Theorem dup_suspend_rejected_bad C w next p ss asgs :
  ~ NoDup (map su_cid ss) ->
  (forall w0 c e0, In c (p_active p) -> csuspend C w0 c <> Err e0) ->
  pool_tick C w next p ss asgs = Err EBadSuspend.
Proof.
  intros HD Hok. unfold pool_tick.
  destruct ss as [|s0 t]; [exfalso; apply HD; constructor|].
  destruct (verify_suspends (p_active p) (s0 :: t)) as [[]|e] eqn:V.
  - rewrite bind_Ok.
    destruct (apply_suspends C w (p_active p) (p_suspending p) (s0 :: t)) as [r|e] eqn:A.
    + exfalso. apply HD. eapply apply_suspends_ok_nodup; eauto.
    + apply apply_suspends_err_bad in A; [|exact Hok]. subst. reflexivity.
  - apply verify_suspends_err in V. subst. reflexivity.
Qed.

(* ====================================================================== *)
(* 2. when a container can be suspended                                   *)
(* ====================================================================== *)

Theorem can_suspend_only_at_boundary C w cons c w' cons' c' :
  ctick C w cons c = Ok (w', cons', c') -> c_completed c = false ->
  c_can_suspend c' = true ->
  (c_frozen c' = true /\ c_can_suspend c = true) \/
  (c_opidx c' = S (c_opidx c) /\ c_opidx c' < length (c_ops c) /\ c_rest c' = None /\
   c_completed c' = false /\ c_frozen c' = false /\
   exists op, nth_error (c_ops c) (c_opidx c) = Some op /\ (op < length (w_st w) -> st_of w' op = Completed)).
Proof.
  intros H Hc Hs. apply ctick_cases in H. destruct H as [_ [H|[H|H]]].
  - destruct H as (Hc' & _). congruence.
  - destruct H as (_ & Hf & _ & _ & ->). left. cbn in *. auto.
  - destruct H as (_ & _ & op & w1 & Hn & Hw1 & H).
    destruct H as [(_ & _ & _ & _ & _ & Hcs & _)|(T & Ei & Er & Ef & H)].
    + left. apply Hcs. exact Hs.
    + right. destruct H as [(_ & _ & _ & Hcs)|(Hne & Ec & _ & _)]; [congruence|].
      assert (Hidx : c_opidx c < length (c_ops c)).
      { apply nth_error_Some. rewrite Hn. discriminate. }
      rewrite Ei. repeat split; auto; try lia.
      exists op. split; [exact Hn|]. intros L.
      eapply transition_st_same; [exact T|].
      destruct Hw1 as [[_ ->]|[_ T1]]; [exact L|].
      rewrite (transition_length _ _ _ _ _ T1). exact L.
Qed.

(* never before the first tick *)
Lemma fresh_cannot_suspend id ops cpu ram pr :
  c_can_suspend (new_container id ops cpu ram pr) = false.
Proof. reflexivity. Qed.

(* never in the middle of an operator: after a tick that leaves the operator unfinished (and the
   container not stuck over its limit) the flag is off *)
Lemma mid_operator_cannot_suspend C w cons c w' cons' c' :
  ctick C w cons c = Ok (w', cons', c') -> c_completed c = false ->
  c_frozen c' = false -> c_rest c' <> None -> c_can_suspend c' = false.
Proof.
  intros H Hc Hf Hr. destruct (c_can_suspend c') eqn:E; [|reflexivity]. exfalso.
  destruct (can_suspend_only_at_boundary _ _ _ _ _ _ _ H Hc E) as [[F _]|(_ & _ & R & _)];
    congruence.
Qed.

(* never after the last operator: the tick that completes the container switches the flag off *)
Lemma completed_cannot_suspend C w cons c w' cons' c' :
  ctick C w cons c = Ok (w', cons', c') -> c_completed c = false ->
  c_completed c' = true -> c_can_suspend c' = false.
Proof.
  intros H Hc Hc'. destruct (c_can_suspend c') eqn:E; [|reflexivity]. exfalso.
  destruct (can_suspend_only_at_boundary _ _ _ _ _ _ _ H Hc E) as [[F Hs]|(_ & _ & _ & X & _)];
    [|congruence].
  apply ctick_cases in H. destruct H as [_ [H|[H|H]]].
  - destruct H as (X & _). congruence.
  - destruct H as (_ & _ & _ & _ & ->). cbn in Hc'. congruence.
  - destruct H as (_ & _ & op & w1 & _ & _ & [H|H]).
    + destruct H as (_ & _ & X & _). congruence.
    + destruct H as (_ & _ & _ & X & _). congruence.
Qed.

(* a finished container stays as it is, and a killed one is finished *)
Lemma ctick_completed_noop C w cons c :
  c_completed c = true -> ctick C w cons c = Ok (w, cons, c).
Proof. intros H. unfold ctick. rewrite H. reflexivity. Qed.

Lemma ckill_completed C w cons c w' cons' c' :
  ckill C w cons c = Ok (w', cons', c') -> c_completed c' = true.
Proof. intros H. apply ckill_ok in H. destruct H as (_ & -> & _). reflexivity. Qed.

Lemma mark_completed_completed C c cons e : c_completed (fst (mark_completed C c cons e)) = true.
Proof. reflexivity. Qed.

(* finished containers leave the active list in the tick in which they finish, so a command naming
   one of them names an unknown container *)
Lemma pool_tick_active_running C w next p ss asgs w' next' p' res c :
  pool_tick C w next p ss asgs = Ok (w', next', p', res) ->
  In c (p_active p') -> c_completed c = false.
Proof.
  intros H Hc. apply pool_tick_inv in H.
  destruct H as (w1 & act1 & sing1 & cons1 & acpu2 & aram2 & act2 & w3 & sing3 & w4 & cons4 & act4
                 & cons5 & act5 & _ & _ & _ & _ & _ & -> & _).
  cbn [pool_after upd_pool p_active] in Hc. apply filter_In in Hc. destruct Hc as [_ Hc].
  apply negb_true_iff in Hc. exact Hc.
Qed.

(* ---------- the same at the pool: the state the scheduler sees ---------- *)

Lemma kill_until_fits_alive C max : forall order w cons act w' cons' act' x,
  kill_until_fits C max w cons act order = Ok (w', cons', act') ->
  In x act' -> c_completed x = false -> In x act.
Proof.
  induction order as [|cid t IH]; intros w cons act w' cons' act' x H Hx Hc.
  - cbn in H. inversion H; subst. exact Hx.
  - cbn [kill_until_fits] in H. destruct (Qleb cons max).
    + inversion H; subst. exact Hx.
    + destruct (find_container cid act) as [c|] eqn:F; [|discriminate].
      inv_bind H as [[w1 cons1] c1] eqn K.
      apply ckill_ok in K. destruct K as (_ & -> & _).
      pose proof (IH _ _ _ _ _ _ _ H Hx Hc) as Hr. apply replace_container_In in Hr.
      destruct Hr as [->|Hr]; [discriminate Hc | exact Hr].
Qed.

(* a survivor of the OOM killer is an untouched container within its limit *)
Lemma oom_killer_alive C max w cons act w' cons' act' x :
  oom_killer C max w cons act = Ok (w', cons', act') ->
  In x act' -> c_completed x = false -> In x act /\ Qltb (c_ram x) (c_mem x) = false.
Proof.
  intros H Hx Hc. apply oom_killer_inv in H. destruct H as (w1 & cons1 & act1 & K1 & K2).
  pose proof (kill_until_fits_alive _ _ _ _ _ _ _ _ _ _ K2 Hx Hc) as H1.
  apply kill_over_limit_spec in K1. destruct K1 as (-> & _).
  apply in_map_kill_when_alive in H1; [|exact Hc]. exact H1.
Qed.

Lemma new_containers_fresh asgs : forall next c,
  In c (new_containers next asgs) ->
  c_completed c = false /\ c_frozen c = false /\ c_can_suspend c = false /\ c_opidx c = 0 /\
  c_rest c = None /\ next <= c_id c < next + length asgs.
Proof.
  induction asgs as [|a t IH]; intros next c H; [destruct H|].
  cbn [new_containers] in H. destruct H as [<-|H].
  - cbn. repeat split; lia.
  - destruct (IH _ _ H) as (H1 & H2 & H3 & H4 & H5 & H6). cbn [length]. repeat split; auto; lia.
Qed.

(* C10, first sentence. What a scheduler finds after a pool tick: every active container is running
   (not finished, not stuck); one that can be suspended has, in this very tick, finished an operator
   and has another one left, not yet started. ([c] is the container as it entered the tick: active
   before, or created in this tick from an assignment.) A container stuck over its limit does not
   survive the tick (the OOM killer takes it), so the "frozen" case of the container-level theorem
   never reaches the scheduler. *)
Theorem suspendable_only_between_operators C w next p ss asgs w' next' p' res :
  (forall c, In c (p_active p) -> c_completed c = false /\ c_frozen c = false) ->
  pool_tick C w next p ss asgs = Ok (w', next', p', res) ->
  forall c', In c' (p_active p') ->
    c_completed c' = false /\ c_frozen c' = false /\
    (c_can_suspend c' = true ->
     exists c, (In c (p_active p) \/ In c (new_containers next asgs)) /\
               c_id c = c_id c' /\ c_ops c = c_ops c' /\
               c_opidx c' = S (c_opidx c) /\ c_opidx c' < length (c_ops c') /\ c_rest c' = None).
Proof.
  intros Hent H c' Hc'. apply pool_tick_inv in H.
  destruct H as (w1 & act1 & sing1 & cons1 & acpu2 & aram2 & act2 & w3 & sing3 & w4 & cons4 & act4
                 & cons5 & act5 & E1 & E2 & _ & E4 & E5 & -> & _).
  cbn [pool_after upd_pool p_active] in Hc'. apply filter_In in Hc'. destruct Hc' as [Hc5 Hnc].
  apply negb_true_iff in Hnc.
  destruct (oom_killer_alive _ _ _ _ _ _ _ _ _ E5 Hc5 Hnc) as [Hc4 Hlim].
  apply tick_active_spec in E4. destruct E4 as (_ & _ & F2).
  destruct (Forall2_In_right _ _ _ _ F2 Hc4) as (c & Hc2 & wa & ca & wb & cb & _ & K & _).
  apply phase1_facts in E1. destruct E1 as (_ & I1 & _).
  apply phase2_spec in E2. destruct E2 as (_ & -> & _).
  assert (Hc : c_completed c = false /\ c_frozen c = false /\
               (In c (p_active p) \/ In c (new_containers next asgs))).
  { apply in_app_or in Hc2. destruct Hc2 as [Hc2|Hc2].
    - destruct (Hent c (I1 c Hc2)) as [X Y]. auto.
    - pose proof (new_containers_fresh _ _ _ Hc2) as (X & Y & _). auto. }
  destruct Hc as (Hcc & Hcf & Horigin).
  pose proof (ctick_cases _ _ _ _ _ _ _ K) as [(Eid & Eops & _) Hcases].
  assert (Hfr : c_frozen c' = false).
  { destruct (c_frozen c') eqn:Ef; [|reflexivity]. exfalso.
    destruct Hcases as [H|[H|H]].
    - destruct H as (X & _). congruence.
    - destruct H as (_ & X & _). congruence.
    - destruct H as (_ & _ & op & w1' & _ & _ & [H|H]).
      + destruct H as (_ & _ & _ & _ & _ & _ & Hov). rewrite (Hov eq_refl) in Hlim. discriminate.
      + destruct H as (_ & _ & _ & X & _). congruence. }
  split; [exact Hnc|]. split; [exact Hfr|]. intros Hcs.
  destruct (can_suspend_only_at_boundary _ _ _ _ _ _ _ K Hcc Hcs) as [[X _]|B]; [congruence|].
  destruct B as (B1 & B2 & B3 & _).
  exists c. rewrite Eops. split; [exact Horigin|]. split; [symmetry; exact Eid|].
  split; [reflexivity|]. split; [exact B1|]. split; [exact B2 | exact B3].
Qed.

(* ====================================================================== *)
(* 3. the duration                                                        *)
(* ====================================================================== *)

Theorem suspend_ticks_ge_1 C ram : (1 <= suspend_ticks C ram)%Z.
Proof. unfold suspend_ticks. apply Z.le_max_l. Qed.

Lemma floorQ_Qfloor x : floorQ x = Qfloor x.
Proof. destruct x. reflexivity. Qed.

Lemma floorQ_proper x y : (x == y)%Q -> floorQ x = floorQ y.
Proof. intros H. rewrite !floorQ_Qfloor. apply Qfloor_comp. exact H. Qed.

(* int() and math.floor agree on non-negative numbers *)
Lemma truncQ_floorQ x : (0 <= x)%Q -> truncQ x = floorQ x.
Proof.
  intros H. unfold truncQ, floorQ. apply Z.quot_div_nonneg; [|reflexivity].
  unfold Qle in H. cbn in H. lia.
Qed.

Lemma inject_Z_nonzero z : (z <> 0)%Z -> ~ (inject_Z z == 0)%Q.
Proof. intros H E. unfold Qeq in E. cbn in E. lia. Qed.

(* exact arithmetic: floor(ram/20 * ticks_per_second) ticks, at least one *)
Theorem suspend_ticks_exact C ram :
  (forall x, (cf_rnd C x == x)%Q) -> (0 <= ram)%Q -> (0 < cf_tps C)%Z ->
  suspend_ticks C ram = Z.max 1 (floorQ (ram / 20 * inject_Z (cf_tps C))%Q).
Proof.
  intros Ex Hr Ht. unfold suspend_ticks. f_equal.
  assert (Hv : (cf_rnd C (cf_rnd C (ram / 20) / cf_rnd C (1 / inject_Z (cf_tps C)))
                == ram / 20 * inject_Z (cf_tps C))%Q).
  { rewrite Ex. rewrite (Ex (ram / 20)%Q). rewrite (Ex (1 / inject_Z (cf_tps C))%Q).
    field. apply inject_Z_nonzero. lia. }
  rewrite truncQ_floorQ.
  - apply floorQ_proper. exact Hv.
  - rewrite Hv. apply Qmult_le_0_compat.
    + apply Qle_shift_div_l; [reflexivity|]. rewrite Qmult_0_l. exact Hr.
    + unfold Qle. cbn. lia.
Qed.

(* the float computation on three allocations *)
Definition cfg64 (tps : Z) : cfg :=
  {| cf_static := {| s_ops := []; s_pipes := [] |}; cf_script := fun _ _ => []; cf_tps := tps;
     cf_overcommit := false; cf_multi := false; cf_rnd := rnd64 |}.

Example suspend_10GB_1tps : suspend_ticks (cfg64 1) 10 = 1%Z.
Proof. vm_compute. reflexivity. Qed.
Example suspend_40GB_1tps : suspend_ticks (cfg64 1) 40 = 2%Z.
Proof. vm_compute. reflexivity. Qed.
Example suspend_64GB_10tps : suspend_ticks (cfg64 10) 64 = 32%Z.
Proof. vm_compute. reflexivity. Qed.

(* ====================================================================== *)
(* 4. the countdown                                                       *)
(* ====================================================================== *)

(* everything but the counter *)
Definition same_but_susp (c c' : container) : Prop :=
  c_id c' = c_id c /\ c_ops c' = c_ops c /\ c_cpu c' = c_cpu c /\ c_ram c' = c_ram c /\
  c_prio c' = c_prio c /\ c_opidx c' = c_opidx c /\ c_rest c' = c_rest c /\
  c_frozen c' = c_frozen c /\ c_mem c' = c_mem c /\ c_can_suspend c' = c_can_suspend c /\
  c_completed c' = c_completed c /\ c_error c' = c_error c /\ c_ticks c' = c_ticks c.

Lemma same_but_susp_with c z : same_but_susp c (with_susp c z).
Proof. unfold same_but_susp. cbn. repeat split. Qed.

Lemma same_but_susp_refl c : same_but_susp c c.
Proof. unfold same_but_susp. repeat split. Qed.

Lemma same_but_susp_trans a b c : same_but_susp a b -> same_but_susp b c -> same_but_susp a c.
Proof. unfold same_but_susp. intros H1 H2. repeat split; try (etransitivity; [apply H2 | apply H1]). Qed.

Theorem suspend_duration C w c w1 c1 :
  csuspend C w c = Ok (w1, c1) ->
  c_susp_left c1 = suspend_ticks C (c_ram c) /\ same_but_susp c c1 /\
  transition_all (cf_static C) w (skipn (c_opidx c) (c_ops c)) Suspending = Ok w1.
Proof.
  intros H. apply csuspend_ok in H. destruct H as [T ->].
  split; [reflexivity|]. split; [apply same_but_susp_with | exact T].
Qed.

(* one tick of a suspending container: the counter goes down by one, nothing else changes in the
   container (no progress, allocation kept); the world changes only when the counter reaches 0, and
   then exactly by the return of the unfinished operators to PENDING *)
Theorem csuspend_tick_spec C w c w' c' :
  csuspend_tick C w c = Ok (w', c') ->
  c_susp_left c' = (c_susp_left c - 1)%Z /\ same_but_susp c c' /\
  ((c_susp_left c <> 1)%Z /\ w' = w \/
   (c_susp_left c = 1)%Z /\
   transition_all (cf_static C) w (skipn (c_opidx c) (c_ops c)) Pending = Ok w').
Proof.
  intros H. apply csuspend_tick_ok in H. destruct H as [-> H].
  split; [reflexivity|]. split; [apply same_but_susp_with|].
  destruct H as [[E T]|[E ->]]; [right | left]; split; auto; lia.
Qed.

Lemma csuspend_tick_idle C w c :
  (c_susp_left c <> 1)%Z -> csuspend_tick C w c = Ok (w, with_susp c (c_susp_left c - 1)).
Proof.
  intros H. unfold csuspend_tick. destruct (c_susp_left c - 1 =? 0)%Z eqn:E; [|reflexivity].
  apply Z.eqb_eq in E. lia.
Qed.

(* n successive ticks *)
Fixpoint susp_iter (C : cfg) (w : world) (c : container) (n : nat) : res (world * container) :=
  match n with
  | 0 => Ok (w, c)
  | S k => do wc <- csuspend_tick C w c; let '(w', c') := wc in susp_iter C w' c' k
  end.

Lemma susp_iter_spec C : forall n w c w' c',
  susp_iter C w c n = Ok (w', c') ->
  c_susp_left c' = (c_susp_left c - Z.of_nat n)%Z /\ same_but_susp c c'.
Proof.
  induction n as [|n IH]; intros w c w' c' H.
  - cbn in H. inversion H; subst. split; [cbn; lia | apply same_but_susp_refl].
  - cbn [susp_iter] in H. inv_bind H as [w1 c1] eqn K.
    apply csuspend_tick_spec in K. destruct K as (E1 & S1 & _).
    apply IH in H. destruct H as [E2 S2]. split; [lia|].
    eapply same_but_susp_trans; eauto.
Qed.

(* before the last tick nothing happens to the world, and no tick fails *)
Lemma susp_iter_idle C : forall n w c,
  (Z.of_nat n < c_susp_left c)%Z ->
  exists c', susp_iter C w c n = Ok (w, c').
Proof.
  induction n as [|n IH]; intros w c H.
  - exists c. reflexivity.
  - cbn [susp_iter]. rewrite csuspend_tick_idle by lia. rewrite bind_Ok. cbv beta iota.
    apply IH. cbn [with_susp c_susp_left]. lia.
Qed.

Theorem suspension_lasts C w c w1 c1 :
  csuspend C w c = Ok (w1, c1) ->
  let D := suspend_ticks C (c_ram c) in
  (* during the first D-1 ticks: not released, nothing happens *)
  (forall k, (Z.of_nat k < D)%Z ->
     exists ck, susp_iter C w1 c1 k = Ok (w1, ck) /\ is_suspended ck = false /\
                same_but_susp c ck) /\
  (* the D-th tick releases it *)
  (forall k wk ck, Z.of_nat k = D -> susp_iter C w1 c1 k = Ok (wk, ck) ->
     is_suspended ck = true /\ same_but_susp c ck).
Proof.
  intros H D. apply suspend_duration in H. destruct H as (E & S & _). fold D in E. split.
  - intros k Hk. destruct (susp_iter_idle C k w1 c1) as [ck Hck]; [lia|].
    exists ck. split; [exact Hck|]. apply susp_iter_spec in Hck. destruct Hck as [E2 S2].
    split; [|eapply same_but_susp_trans; eauto].
    unfold is_suspended. apply Z.eqb_neq. lia.
  - intros k wk ck Hk Hck. apply susp_iter_spec in Hck. destruct Hck as [E2 S2].
    split; [|eapply same_but_susp_trans; eauto].
    unfold is_suspended. apply Z.eqb_eq. lia.
Qed.

(* ---------- at the pool ---------- *)

Lemma find_remove_other cid cid0 l c :
  find_container cid (remove_container cid0 l) = Some c -> find_container cid l = Some c.
Proof.
  unfold find_container, remove_container. induction l as [|h t IH]; [discriminate|].
  cbn [filter find]. destruct (Nat.eqb (c_id h) cid0) eqn:E0; cbn [negb].
  - intros H. pose proof H as H0. apply IH in H.
    destruct (Nat.eqb (c_id h) cid) eqn:E; [|exact H].
    (* h has both ids, so cid = cid0, and the filtered list holds nobody with that id *)
    exfalso. apply Nat.eqb_eq in E0. apply Nat.eqb_eq in E.
    apply find_some in H0. destruct H0 as [H1 H2]. apply filter_In in H1. destruct H1 as [_ H1].
    apply Nat.eqb_eq in H2. apply negb_true_iff in H1. apply Nat.eqb_neq in H1. congruence.
  - cbn [find]. destruct (Nat.eqb (c_id h) cid); [auto | exact IH].
Qed.

(* every accepted command moves its container, with the counter set, to the suspending list *)
Lemma apply_suspends_moves C : forall ss w act sing w' act' sing' s,
  apply_suspends C w act sing ss = Ok (w', act', sing') -> In s ss ->
  exists c, find_container (su_cid s) act = Some c /\
            In (with_susp c (suspend_ticks C (c_ram c))) sing' /\
            ~ In (su_cid s) (map c_id act').
Proof.
  induction ss as [|s0 t IH]; intros w act sing w' act' sing' s H Hs; [destruct Hs|].
  cbn [apply_suspends] in H.
  destruct (find_container (su_cid s0) act) as [c|] eqn:F; [|discriminate].
  inv_bind H as [w1 c1] eqn K. apply csuspend_ok in K. destruct K as [_ ->].
  pose proof (apply_suspends_incl _ _ _ _ _ _ _ _ H) as (_ & I1 & I2 & _).
  destruct Hs as [<-|Hs].
  - exists c. split; [exact F|]. split.
    + apply I2. apply in_or_app. right. left. reflexivity.
    + intros Hin. apply in_map_iff in Hin. destruct Hin as [x [E Hx]]. apply I1 in Hx.
      apply remove_container_incl in Hx. destruct Hx as [_ N]. contradiction.
  - destruct (IH _ _ _ _ _ _ s H Hs) as (c0 & F0 & Hin & Hn).
    exists c0. split; [eapply find_remove_other; eauto | auto].
Qed.

Lemma is_suspended_dec c :
  is_suspended (susp_dec c) = (c_susp_left c =? 1)%Z.
Proof.
  unfold is_suspended, susp_dec. cbn [with_susp c_susp_left].
  destruct (c_susp_left c =? 1)%Z eqn:E.
  - apply Z.eqb_eq in E. apply Z.eqb_eq. lia.
  - apply Z.eqb_neq in E. apply Z.eqb_neq. lia.
Qed.

(* where a container of the suspending list (after phase 1) is at the end of the pool tick *)
Lemma pool_tick_suspending_fate C w next p ss asgs w' next' p' res :
  pool_tick C w next p ss asgs = Ok (w', next', p', res) ->
  exists w1 act1 sing1 cons1,
    phase1 C w p ss = Ok (w1, act1, sing1, cons1) /\
    p_suspending p' = filter (fun c => negb (is_suspended c)) (map susp_dec sing1) /\
    p_suspended p' = p_suspended p ++ filter is_suspended (map susp_dec sing1) /\
    (forall c, In c sing1 ->
       if (c_susp_left c =? 1)%Z then In (susp_dec c) (p_suspended p')
       else In (susp_dec c) (p_suspending p')).
Proof.
  intros H. apply pool_tick_inv in H.
  destruct H as (w1 & act1 & sing1 & cons1 & acpu2 & aram2 & act2 & w3 & sing3 & w4 & cons4 & act4
                 & cons5 & act5 & E1 & _ & E3 & _ & _ & -> & _).
  apply tick_suspending_spec in E3. destruct E3 as [-> _].
  exists w1, act1, sing1, cons1. split; [exact E1|].
  cbn [pool_after upd_pool p_suspending p_suspended]. split; [reflexivity|]. split; [reflexivity|].
  intros c Hc. pose proof (is_suspended_dec c) as E.
  destruct (c_susp_left c =? 1)%Z.
  - apply in_or_app. right. apply filter_In. split; [apply in_map; exact Hc | exact E].
  - apply filter_In. split; [apply in_map; exact Hc | rewrite E; reflexivity].
Qed.

(* the tick in which the command is accepted: the container leaves the active list and is already
   one tick into its suspension *)
Theorem suspend_accepted_tick C w next p ss asgs w' next' p' res s :
  pool_tick C w next p ss asgs = Ok (w', next', p', res) -> In s ss ->
  exists c, find_container (su_cid s) (p_active p) = Some c /\ c_can_suspend c = true /\
    let D := suspend_ticks C (c_ram c) in
    (D = 1%Z -> In (with_susp c 0) (p_suspended p')) /\
    (D <> 1%Z -> In (with_susp c (D - 1)) (p_suspending p')) /\
    (* it has left the active list: whoever is active under that id afterwards is a new container *)
    (forall x, In x (p_active p') -> c_id x = su_cid s -> next <= c_id x).
Proof.
  intros H Hs.
  destruct (pool_tick_suspending_fate _ _ _ _ _ _ _ _ _ _ H)
    as (w1 & act1 & sing1 & cons1 & E1 & _ & _ & Hfate).
  pose proof H as H0. apply pool_tick_inv in H0.
  destruct H0 as (w1' & act1' & sing1' & cons1' & acpu2 & aram2 & act2 & w3 & sing3 & w4 & cons4
                  & act4 & cons5 & act5 & E1' & E2 & _ & E4 & E5 & Ep & _).
  rewrite E1 in E1'. inversion E1'; subst w1' act1' sing1' cons1'. clear E1'.
  apply phase1_inv in E1. destruct E1 as [(-> & _)|(_ & V & A & _)]; [destruct Hs|].
  rewrite verify_suspends_iff, Forall_forall in V. destruct (V s Hs) as (c & Fc & Cs).
  destruct (apply_suspends_moves _ _ _ _ _ _ _ _ s A Hs) as (c0 & Fc0 & Hin & Hout).
  rewrite Fc in Fc0. inversion Fc0; subst c0. clear Fc0.
  exists c. split; [exact Fc|]. split; [exact Cs|]. intros D.
  specialize (Hfate _ Hin). cbn [with_susp c_susp_left] in Hfate. fold D in Hfate.
  unfold susp_dec in Hfate. cbn [with_susp c_susp_left c_id c_ops c_cpu c_ram c_prio c_opidx c_rest
    c_frozen c_mem c_can_suspend c_completed c_error c_ticks] in Hfate. fold D in Hfate.
  split; [|split].
  - intros E. rewrite E in Hfate. cbn in Hfate. exact Hfate.
  - intros E. apply Z.eqb_neq in E. rewrite E in Hfate. exact Hfate.
  - intros x Hx Hid.
    (* an active container with that id after the tick can only be a new one *)
    subst p'. cbn [pool_after upd_pool p_active] in Hx. apply filter_In in Hx. destruct Hx as [Hx _].
    apply (in_map c_id) in Hx.
    apply oom_killer_facts in E5. destruct E5 as [_ I5].
    apply tick_active_spec in E4. destruct E4 as (_ & I4 & _).
    apply phase2_spec in E2. destruct E2 as (_ & -> & _).
    rewrite I5, I4, map_app, new_containers_ids in Hx. apply in_app_or in Hx.
    destruct Hx as [Hx|Hx]; [rewrite Hid in Hx; contradiction|].
    apply in_seq in Hx. lia.
Qed.

(* a container that is already suspending: the counter goes down by one per pool tick, nothing else
   in it changes, and at 0 it moves to the suspended list *)
Theorem suspending_countdown C w next p ss asgs w' next' p' res c :
  pool_tick C w next p ss asgs = Ok (w', next', p', res) -> In c (p_suspending p) ->
  ((c_susp_left c = 1)%Z -> In (with_susp c 0) (p_suspended p')) /\
  ((c_susp_left c <> 1)%Z -> In (with_susp c (c_susp_left c - 1)) (p_suspending p')).
Proof.
  intros H Hc.
  destruct (pool_tick_suspending_fate _ _ _ _ _ _ _ _ _ _ H)
    as (w1 & act1 & sing1 & cons1 & E1 & _ & _ & Hfate).
  apply phase1_facts in E1. destruct E1 as (_ & _ & I2 & _).
  specialize (Hfate c (I2 c Hc)). unfold susp_dec in Hfate. split; intros E.
  - rewrite E in Hfate. cbn in Hfate. exact Hfate.
  - apply Z.eqb_neq in E. rewrite E in Hfate. exact Hfate.
Qed.

(* ---------- what is freed ---------- *)

Lemma fold_ram_sum l : forall a,
  (fold_left (fun a c => (a + c_ram c)%Q) l a == a + sumQ (map c_ram l))%Q.
Proof.
  induction l as [|c t IH]; intros a; cbn [fold_left map sumQ]; [ring|].
  rewrite IH. ring.
Qed.

(* The available resources after a pool tick: what the new assignments take, plus exactly the
   allocations of the containers whose suspension ended ([done]) and of those that finished ([fin]).
   While a container is suspending nothing of it is given back. *)
Theorem pool_tick_avail C w next p ss asgs w' next' p' res :
  pool_tick C w next p ss asgs = Ok (w', next', p', res) ->
  exists done fin,
    p_suspended p' = p_suspended p ++ done /\
    res = map (result_of (p_id p)) fin /\
    (forall d, In d done ->
       exists c, d = with_susp c 0 /\ c_susp_left c = 1%Z /\
                 (In c (p_suspending p) \/
                  exists c0, In c0 (p_active p) /\ c = with_susp c0 (suspend_ticks C (c_ram c0)))) /\
    p_avail_cpu p' =
      (p_avail_cpu p - sumZ (map a_cpu asgs) + sumZ (map c_cpu done) + sumZ (map c_cpu fin))%Z /\
    (p_avail_ram p' ==
       p_avail_ram p - sumQ (map a_ram asgs) + sumQ (map c_ram done) + sumQ (map c_ram fin))%Q.
Proof.
  intros H. apply pool_tick_inv in H.
  destruct H as (w1 & act1 & sing1 & cons1 & acpu2 & aram2 & act2 & w3 & sing3 & w4 & cons4 & act4
                 & cons5 & act5 & E1 & E2 & E3 & _ & _ & -> & ->).
  apply tick_suspending_spec in E3. destruct E3 as [-> _].
  apply phase2_spec in E2. destruct E2 as (_ & _ & -> & Er & _).
  apply phase1_facts in E1. destruct E1 as (_ & _ & _ & I3 & _).
  exists (filter is_suspended (map susp_dec sing1)), (filter c_completed act5).
  cbn [pool_after upd_pool p_suspended p_avail_cpu p_avail_ram].
  split; [reflexivity|]. split; [reflexivity|]. split; [|split; [reflexivity|]].
  - intros d Hd. apply filter_In in Hd. destruct Hd as [Hd Hs].
    apply in_map_iff in Hd. destruct Hd as [c [<- Hc]].
    rewrite is_suspended_dec in Hs. apply Z.eqb_eq in Hs.
    exists c. split; [unfold susp_dec; rewrite Hs; reflexivity|]. split; [exact Hs|].
    apply I3. exact Hc.
  - rewrite !fold_ram_sum, Er. ring.
Qed.

Lemma oom_killer_nil C max w cons : oom_killer C max w cons [] = Ok (w, cons, []).
Proof.
  unfold oom_killer. cbn [kill_over_limit]. rewrite bind_Ok. cbv beta iota.
  destruct (Qleb cons max); reflexivity.
Qed.

(* the simplest case: an idle pool with one suspending container in its last tick *)
Corollary suspend_release_frees C w next p w' next' p' res c :
  p_active p = [] -> p_suspending p = [c] -> (c_susp_left c = 1)%Z ->
  pool_tick C w next p [] [] = Ok (w', next', p', res) ->
  p_suspending p' = [] /\ p_suspended p' = p_suspended p ++ [with_susp c 0] /\ res = [] /\
  p_avail_cpu p' = (p_avail_cpu p + c_cpu c)%Z /\ (p_avail_ram p' == p_avail_ram p + c_ram c)%Q /\
  transition_all (cf_static C) w (skipn (c_opidx c) (c_ops c)) Pending = Ok w'.
Proof.
  intros Ha Hs Hl H. apply pool_tick_inv in H.
  destruct H as (w1 & act1 & sing1 & cons1 & acpu2 & aram2 & act2 & w3 & sing3 & w4 & cons4 & act4
                 & cons5 & act5 & E1 & E2 & E3 & E4 & E5 & -> & ->).
  cbn in E1. inversion E1; subst w1 act1 sing1 cons1. clear E1.
  cbn in E2. inversion E2; subst next' acpu2 aram2 act2. clear E2.
  rewrite Ha in E4. cbn in E4. inversion E4; subst w4 cons4 act4. clear E4.
  rewrite oom_killer_nil in E5. inversion E5; subst w' cons5 act5. clear E5.
  rewrite Hs in E3. cbn [tick_suspending] in E3.
  inv_bind E3 as [wa ca] eqn K. cbn in E3. inversion E3; subst w3 sing3. clear E3.
  apply csuspend_tick_ok in K. destruct K as [-> [[_ T]|[N _]]]; [|lia].
  rewrite Hl. cbn [pool_after upd_pool p_suspending p_suspended p_avail_cpu p_avail_ram].
  change (1 - 1)%Z with 0%Z.
  cbn [filter is_suspended with_susp c_susp_left Z.eqb negb map c_cpu c_ram sumZ fold_left].
  split; [reflexivity|]. split; [reflexivity|]. split; [reflexivity|].
  split; [lia|]. split; [reflexivity | exact T].
Qed.

(* ====================================================================== *)
(* 5. the operator states after the release                               *)
(* ====================================================================== *)

Lemma valid_to_pending a : valid a Pending = true -> a = Suspending.
Proof. destruct a; cbn; intros H; try discriminate; reflexivity. Qed.

Lemma valid_to_suspending a : valid a Suspending = true -> a = Assigned.
Proof. destruct a; cbn; intros H; try discriminate; reflexivity. Qed.

Lemma NoDup_skipn {A} n (l : list A) : NoDup l -> NoDup (skipn n l).
Proof. intros H. rewrite <- (firstn_skipn n l) in H. eapply NoDup_app_r; eauto. Qed.

Lemma In_skipn {A} n (l : list A) x : In x (skipn n l) -> In x l.
Proof. intros H. rewrite <- (firstn_skipn n l). apply in_or_app. right. exact H. Qed.

Lemma In_firstn {A} n (l : list A) x : In x (firstn n l) -> In x l.
Proof. intros H. rewrite <- (firstn_skipn n l). apply in_or_app. left. exact H. Qed.

Lemma NoDup_firstn_skipn_disjoint {A} n (l : list A) x :
  NoDup l -> In x (firstn n l) -> In x (skipn n l) -> False.
Proof. intros H. rewrite <- (firstn_skipn n l) in H. apply NoDup_app_disjoint. exact H. Qed.

(* the suspension itself succeeds only at a boundary of the state machine: the unfinished operators
   were all ASSIGNED (none was running), and they become SUSPENDING; nothing else changes *)
Theorem csuspend_states C w c w1 c1 :
  NoDup (c_ops c) -> (forall o, In o (c_ops c) -> o < length (w_st w)) ->
  csuspend C w c = Ok (w1, c1) ->
  (forall o, In o (skipn (c_opidx c) (c_ops c)) -> st_of w o = Assigned /\ st_of w1 o = Suspending) /\
  (forall o, ~ In o (skipn (c_opidx c) (c_ops c)) -> st_of w1 o = st_of w o) /\
  length (w_st w1) = length (w_st w).
Proof.
  intros ND R H. apply csuspend_ok in H. destruct H as [T _].
  pose proof (transition_all_steps _ _ _ _ _ T) as St. apply steps_length in St.
  apply transition_all_spec in T.
  - destruct T as (A1 & A2 & A3). split; [|split; [exact A2 | exact St]].
    intros o Ho. split; [apply valid_to_suspending; apply A3; exact Ho | apply A1; exact Ho].
  - apply NoDup_skipn. exact ND.
  - intros o Ho. apply R. eapply In_skipn; eauto.
Qed.

(* the last tick of a suspension: the unfinished operators (which were SUSPENDING) are PENDING,
   every other operator is untouched *)
Theorem csuspend_tick_release C w c w' c' :
  NoDup (c_ops c) -> (forall o, In o (c_ops c) -> o < length (w_st w)) ->
  (c_susp_left c = 1)%Z -> csuspend_tick C w c = Ok (w', c') ->
  is_suspended c' = true /\
  (forall o, In o (skipn (c_opidx c) (c_ops c)) -> st_of w o = Suspending /\ st_of w' o = Pending) /\
  (forall o, ~ In o (skipn (c_opidx c) (c_ops c)) -> st_of w' o = st_of w o).
Proof.
  intros ND R Hl H. apply csuspend_tick_ok in H. destruct H as [-> [[_ T]|[N _]]]; [|lia].
  split; [unfold is_suspended; cbn; rewrite Hl; reflexivity|].
  apply transition_all_spec in T.
  - destruct T as (A1 & A2 & A3). split; [|exact A2].
    intros o Ho. split; [apply valid_to_pending; apply A3; exact Ho | apply A1; exact Ho].
  - apply NoDup_skipn. exact ND.
  - intros o Ho. apply R. eapply In_skipn; eauto.
Qed.

(* the whole countdown, with nothing else happening to the world in between *)
Lemma susp_iter_release C : forall n w c w' c',
  Z.of_nat (S n) = c_susp_left c -> susp_iter C w c (S n) = Ok (w', c') ->
  transition_all (cf_static C) w (skipn (c_opidx c) (c_ops c)) Pending = Ok w'.
Proof.
  induction n as [|n IH]; intros w c w' c' E H.
  - cbn [susp_iter] in H. inv_bind H as [w1 c1] eqn K. cbn in H. inversion H; subst.
    apply csuspend_tick_ok in K. destruct K as [_ [[_ T]|[N _]]]; [exact T | lia].
  - remember (S n) as m. cbn [susp_iter] in H. inv_bind H as [w1 c1] eqn K. subst m.
    apply csuspend_tick_ok in K. destruct K as [-> [[Z0 _]|[_ ->]]]; [lia|].
    apply IH in H; [exact H|]. cbn [with_susp c_susp_left]. lia.
Qed.

(* Assignment.__init__ accepts a duplicate-free list of assignable operators *)
Lemma mk_assignment_accepts C w a :
  a_ops a <> [] -> (0 < a_cpu a)%Z -> (0 < a_ram a)%Q -> NoDup (a_ops a) ->
  (forall o, In o (a_ops a) -> assignable (st_of w o) = true) ->
  exists w', mk_assignment C w a = Ok w'.
Proof.
  intros Hne Hc Hr ND Ha. unfold mk_assignment.
  destruct (a_ops a) as [|o t] eqn:Eo; [congruence|]. cbn [length Nat.eqb].
  destruct (a_cpu a <=? 0)%Z eqn:E1; [apply Z.leb_le in E1; lia|].
  destruct (Qleb (a_ram a) 0) eqn:E2.
  { unfold Qleb in E2. apply Qle_bool_iff in E2. exfalso. exact (Qlt_not_le _ _ Hr E2). }
  apply transition_all_accepts; [discriminate | exact ND | exact Ha].
Qed.

(* S5: suspend at a boundary, wait out the suspension: the finished operators are still COMPLETED,
   the unfinished ones are PENDING again and a new assignment of them is accepted *)
Theorem suspend_release_states C w c w1 c1 w2 c2 :
  NoDup (c_ops c) -> (forall o, In o (c_ops c) -> o < length (w_st w)) ->
  (forall o, In o (firstn (c_opidx c) (c_ops c)) -> st_of w o = Completed) ->
  (forall o, In o (skipn (c_opidx c) (c_ops c)) -> st_of w o = Assigned) ->
  csuspend C w c = Ok (w1, c1) ->
  susp_iter C w1 c1 (Z.to_nat (suspend_ticks C (c_ram c))) = Ok (w2, c2) ->
  is_suspended c2 = true /\ same_but_susp c c2 /\
  (forall o, In o (skipn (c_opidx c) (c_ops c)) -> st_of w2 o = Pending) /\
  (forall o, In o (firstn (c_opidx c) (c_ops c)) -> st_of w2 o = Completed) /\
  (forall o, ~ In o (skipn (c_opidx c) (c_ops c)) -> st_of w2 o = st_of w o) /\
  (forall cpu ram pr pl, c_opidx c < length (c_ops c) -> (0 < cpu)%Z -> (0 < ram)%Q ->
     exists w3, mk_assignment C w2 {| a_ops := skipn (c_opidx c) (c_ops c); a_cpu := cpu;
                                      a_ram := ram; a_prio := pr; a_pool := pl |} = Ok w3).
Proof.
  intros ND R Hpre Hrest Hs Hi.
  pose proof (suspend_ticks_ge_1 C (c_ram c)) as HD.
  assert (HZ : Z.of_nat (Z.to_nat (suspend_ticks C (c_ram c))) = suspend_ticks C (c_ram c))
    by (apply Z2Nat.id; lia).
  pose proof (suspension_lasts _ _ _ _ _ Hs) as HL. cbv zeta in HL. destruct HL as [_ Hlast].
  destruct (Hlast _ _ _ HZ Hi) as [Hsus Hsame].
  destruct (csuspend_states _ _ _ _ _ ND R Hs) as (B1 & B2 & BL).
  pose proof (suspend_duration _ _ _ _ _ Hs) as (El & Sb & _).
  destruct Sb as (_ & Eops & _ & _ & _ & Eidx & _).
  destruct (Z.to_nat (suspend_ticks C (c_ram c))) as [|n] eqn:En; [lia|].
  apply susp_iter_release in Hi; [|rewrite HZ; symmetry; exact El].
  rewrite Eops, Eidx in Hi. apply transition_all_spec in Hi.
  - destruct Hi as (A1 & A2 & _).
    assert (Hp : forall o, In o (skipn (c_opidx c) (c_ops c)) -> st_of w2 o = Pending) by exact A1.
    split; [exact Hsus|]. split; [exact Hsame|]. split; [exact Hp|]. split; [|split].
    + intros o Ho.
      assert (Hn : ~ In o (skipn (c_opidx c) (c_ops c))).
      { intros Hk. exact (NoDup_firstn_skipn_disjoint _ _ _ ND Ho Hk). }
      rewrite (A2 _ Hn), (B2 _ Hn). apply Hpre. exact Ho.
    + intros o Hn. rewrite (A2 _ Hn), (B2 _ Hn). reflexivity.
    + intros cpu ram pr pl Hidx Hc Hr. apply mk_assignment_accepts; cbn [a_ops a_cpu a_ram]; auto.
      * intros E. assert (L : length (skipn (c_opidx c) (c_ops c)) = 0) by (rewrite E; reflexivity).
        rewrite skipn_length in L. lia.
      * apply NoDup_skipn. exact ND.
      * intros o Ho. rewrite (Hp o Ho). reflexivity.
  - apply NoDup_skipn. exact ND.
  - intros o Ho. rewrite BL. apply R. eapply In_skipn; eauto.
Qed.

