(* C05, executor part: the container state machine [ctick] (Model/Container.v) for an arbitrary
   script function.

   Setting (Section ContainerRun): a configuration [C], a fresh container
   [c0 = new_container id ops cpu ram pr] and a world [w0] in which every operator of [ops] is
   ASSIGNED, [ops] has no duplicates, is in range, and is ordered compatibly with the dependencies
   (every parent of the k-th operator is COMPLETED in [w0] or occurs earlier in [ops]).
   [scr k] is the script (per-tick memory demand) of the k-th operator, [L k] its length,
   [off k = L 0 + .. + L (k-1)], [total = off (length ops)].  [cticks C n] is the n-fold [ctick].

   Not needed (hence not assumed): [length (w_st w0) = length (s_ops S)]; the pipeline counters
   [w_cnt] are left unconstrained.  Container fields are characterised exactly through [mk]
   (Leibniz equality, also for [c_mem]); only the pool counter goes through [cf_rnd] and is
   tracked by [acct] (= "cons == cons0 + c_mem" whenever [cf_rnd] is exact).

   Main results
     run_success / run_success_fields / run_success_at : (a) the success run, tick by tick
     run_oom / frozen_run / ckill_frozen / oom_theorem  : (b) OOM in exactly the first offending tick
     exact_accounting / exact_accounting_oom            : (c) pool counter under exact rounding
     run_completed                                      : after completion [ctick] is the identity
     ex_success / ex_oom                                : non-vacuity on a concrete 2-operator case *)
From Coq Require Import ZArith QArith Qabs List Bool Arith Lia Lqa.
Import ListNotations.
Close Scope Q_scope.
From Eudoxia Require Import Num.Rnd64 Model.Types Model.Dag Model.Lifecycle Model.Container.
From Eudoxia Require Import Proofs.ListFacts Proofs.LifecycleFacts.

(* ---------- generic list facts ---------- *)

Lemma nth_skipn_add {A} (l : list A) k i d : nth i (skipn k l) d = nth (k + i) l d.
Proof.
  revert l; induction k as [|k IH]; intros l; [reflexivity|].
  destruct l as [|h t]; [destruct i; reflexivity|]. cbn [skipn plus nth]. apply IH.
Qed.

Lemma skipn_cons_nth {A} (l : list A) j d : j < length l -> skipn j l = nth j l d :: skipn (S j) l.
Proof.
  revert j; induction l as [|h t IH]; intros j Hj; cbn [length] in Hj; [lia|].
  destruct j as [|j]; [reflexivity|]. cbn [skipn nth]. rewrite (IH j) by lia. reflexivity.
Qed.

Lemma NoDup_skipn {A} (l : list A) k : NoDup l -> NoDup (skipn k l).
Proof.
  revert l; induction k as [|k IH]; intros l H; [exact H|].
  destruct l as [|h t]; [exact H|]. cbn [skipn]. apply IH. inversion H; assumption.
Qed.

Lemma cr_Qltb_false a b : (b <= a)%Q -> Qltb a b = false.
Proof. intros H. unfold Qltb. apply Qle_bool_iff in H. rewrite H. reflexivity. Qed.

Lemma cr_Qltb_true a b : (a < b)%Q -> Qltb a b = true.
Proof.
  intros H. unfold Qltb. destruct (Qle_bool b a) eqn:E; [|reflexivity].
  apply Qle_bool_iff in E. exfalso. apply (Qlt_not_le _ _ H E).
Qed.

(* ---------- iteration of [ctick] ---------- *)

Fixpoint cticks (C : cfg) (n : nat) (w : world) (cons : Q) (c : container) : res (world * Q * container) :=
  match n with
  | O => Ok (w, cons, c)
  | S n' =>
      match ctick C w cons c with
      | Ok (w', cons', c') => cticks C n' w' cons' c'
      | Err e => Err e
      end
  end.

Lemma run_add C a b w cons c :
  cticks C (a + b) w cons c =
  match cticks C a w cons c with
  | Ok (w', cons', c') => cticks C b w' cons' c'
  | Err e => Err e
  end.
Proof.
  revert w cons c; induction a as [|a IH]; intros w cons c; [reflexivity|].
  cbn [plus cticks]. destruct (ctick C w cons c) as [[[w' cons'] c']|e]; [apply IH | reflexivity].
Qed.

Lemma run_S_last C n w cons c :
  cticks C (S n) w cons c =
  match cticks C n w cons c with
  | Ok (w', cons', c') => ctick C w' cons' c'
  | Err e => Err e
  end.
Proof.
  replace (S n) with (n + 1) by lia. rewrite run_add.
  destruct (cticks C n w cons c) as [[[w' cons'] c']|e]; [|reflexivity].
  cbn [cticks]. destruct (ctick C w' cons' c') as [[[w2 cons2] c2]|e]; reflexivity.
Qed.

(* a list of operators to FAILED (the loop of kill) *)
Lemma transition_all_failed S l : forall w,
  NoDup l ->
  (forall o, In o l -> (st_of w o = Running \/ st_of w o = Assigned) /\ o < length (w_st w)) ->
  exists w', transition_all S w l Failed = Ok w' /\
    (forall o, In o l -> st_of w' o = Failed) /\
    (forall o, ~ In o l -> st_of w' o = st_of w o) /\
    length (w_st w') = length (w_st w).
Proof.
  induction l as [|a t IH]; intros w Hnd Hst.
  - exists w. cbn. repeat split; auto. intros o [].
  - inversion Hnd as [|a' t' Hna Hndt]; subst a' t'.
    destruct (Hst a (or_introl eq_refl)) as [Ha La].
    assert (T : transition S w a Failed = Ok (world_after S w a Failed)).
    { apply transition_ok. split; [|split; [discriminate | reflexivity]].
      destruct Ha as [-> | ->]; reflexivity. }
    set (w1 := world_after S w a Failed) in *.
    destruct (IH w1 Hndt) as (w' & Hw' & HF & HO & HL).
    { intros o Ho. destruct (Hst o (or_intror Ho)) as [Hso Lo].
      assert (Hne : o <> a) by (intros ->; contradiction).
      rewrite (transition_st_other _ _ _ _ _ o T Hne), (transition_length _ _ _ _ _ T).
      split; assumption. }
    exists w'. cbn [transition_all bind]. rewrite T. cbn [bind]. split; [exact Hw'|].
    split; [|split].
    + intros o [<- | Ho]; [|apply HF; exact Ho].
      rewrite (HO a Hna). apply (transition_st_same _ _ _ _ _ T La).
    + intros o Ho. rewrite HO by (intros H; apply Ho; right; exact H).
      apply (transition_st_other _ _ _ _ _ o T). intros ->. apply Ho. left. reflexivity.
    + rewrite HL. apply (transition_length _ _ _ _ _ T).
Qed.

Section ContainerRun.
Variable C : cfg.
Variable id : nat.
Variable ops : list nat.
Variable cpu : Z.
Variable ram : Q.
Variable pr : prio.
Variable w0 : world.
Variable cons0 : Q.

Let Sx := cf_static C.

(* a container of this assignment, by its mutable fields *)
Definition mk (k : nat) (rest : option (list Q)) (fr : bool) (mem : Q) (cs compl er : bool) (T : Z)
  : container :=
  {| c_id := id; c_ops := ops; c_cpu := cpu; c_ram := ram; c_prio := pr; c_opidx := k;
     c_rest := rest; c_frozen := fr; c_mem := mem; c_can_suspend := cs;
     c_completed := compl; c_error := er; c_ticks := T; c_susp_left := 0%Z |}.

Definition c0 : container := new_container id ops cpu ram pr.

Lemma c0_mk : c0 = mk 0 None false 0%Q false false false 0%Z.
Proof. reflexivity. Qed.

Definition scr (k : nat) : list Q := cf_script C (nth k ops 0) cpu.
Definition L (k : nat) : nat := length (scr k).
Fixpoint off (k : nat) : nat := match k with O => 0 | S k' => off k' + L k' end.
Definition total : nat := off (length ops).

(* set_current_memory_usage on the pool counter *)
Definition upd (cons mem m : Q) : Q := cf_rnd C (cons + cf_rnd C (m - mem))%Q.

(* the pool counter moved by exactly the container's memory, if rounding is exact *)
Definition acct (cons mem : Q) : Prop :=
  (forall x, cf_rnd C x == x)%Q -> (cons == cons0 + mem)%Q.

Lemma acct_init : acct cons0 0%Q.
Proof. intros _. ring. Qed.

Lemma acct_upd cons mem m : acct cons mem -> acct (upd cons mem m) m.
Proof.
  intros H Hid. unfold upd. rewrite (Hid (cons + cf_rnd C (m - mem))%Q), (Hid (m - mem)%Q), (H Hid).
  ring.
Qed.

(* ---------- single ticks ---------- *)

Lemma nth_error_ops k : k < length ops -> nth_error ops k = Some (nth k ops 0).
Proof. intros H. apply nth_error_nth'. exact H. Qed.

Lemma tick_mid w cons k m m' r mem cs T :
  k < length ops -> (m <= ram)%Q ->
  ctick C w cons (mk k (Some (m :: m' :: r)) false mem cs false false T)
  = Ok (w, upd cons mem m, mk k (Some (m' :: r)) false m false false false (T + 1)%Z).
Proof.
  intros Hk Hm. unfold ctick. cbn [mk c_completed c_frozen c_ops c_opidx c_rest].
  rewrite (nth_error_ops k Hk). cbn [bind].
  unfold set_mem. cbn [mk c_ram c_mem]. rewrite (cr_Qltb_false _ _ Hm). reflexivity.
Qed.

Lemma tick_oom w cons k m r mem cs T :
  k < length ops -> (ram < m)%Q ->
  ctick C w cons (mk k (Some (m :: r)) false mem cs false false T)
  = Ok (w, upd cons mem m, mk k (Some (m :: r)) true m cs false false (T + 1)%Z).
Proof.
  intros Hk Hm. unfold ctick. cbn [mk c_completed c_frozen c_ops c_opidx c_rest].
  rewrite (nth_error_ops k Hk). cbn [bind].
  unfold set_mem. cbn [mk c_ram c_mem]. rewrite (cr_Qltb_true _ _ Hm). reflexivity.
Qed.

Lemma tick_last_nonfinal w w2 cons k m mem cs T :
  S k < length ops -> (m <= ram)%Q ->
  transition Sx w (nth k ops 0) Completed = Ok w2 ->
  ctick C w cons (mk k (Some [m]) false mem cs false false T)
  = Ok (w2, upd cons mem m, mk (S k) None false m true false false (T + 1)%Z).
Proof.
  intros Hk Hm Htr. unfold ctick. cbn [mk c_completed c_frozen c_ops c_opidx c_rest].
  rewrite (nth_error_ops k) by lia. cbn [bind].
  unfold set_mem. cbn [mk c_ram c_mem]. rewrite (cr_Qltb_false _ _ Hm).
  fold Sx. rewrite Htr. cbn [bind].
  replace (S k =? length ops) with false by (symmetry; apply Nat.eqb_neq; lia).
  reflexivity.
Qed.

Lemma tick_last_final w w2 cons k m mem cs T :
  S k = length ops -> (m <= ram)%Q ->
  transition Sx w (nth k ops 0) Completed = Ok w2 ->
  ctick C w cons (mk k (Some [m]) false mem cs false false T)
  = Ok (w2, upd (upd cons mem m) m 0%Q, mk (S k) None false 0%Q false true false (T + 1)%Z).
Proof.
  intros Hk Hm Htr. unfold ctick. cbn [mk c_completed c_frozen c_ops c_opidx c_rest].
  rewrite (nth_error_ops k) by lia. cbn [bind].
  unfold set_mem. cbn [mk c_ram c_mem]. rewrite (cr_Qltb_false _ _ Hm).
  fold Sx. rewrite Htr. cbn [bind].
  replace (S k =? length ops) with true by (symmetry; apply Nat.eqb_eq; exact Hk).
  reflexivity.
Qed.

(* the first tick of an operator: RUNNING, then as if the script had already been fetched *)
Lemma tick_first w w1 cons k mem cs T :
  k < length ops ->
  transition Sx w (nth k ops 0) Running = Ok w1 ->
  ctick C w cons (mk k None false mem cs false false T)
  = ctick C w1 cons (mk k (Some (scr k)) false mem cs false false T).
Proof.
  intros Hk Htr. unfold ctick. cbn [mk c_completed c_frozen c_ops c_opidx c_rest c_cpu].
  rewrite (nth_error_ops k Hk). fold Sx. rewrite Htr. cbn [bind]. fold (scr k).
  reflexivity.
Qed.

Lemma tick_frozen w cons k rest mem cs T :
  ctick C w cons (mk k rest true mem cs false false T)
  = Ok (w, cons, mk k rest true mem cs false false (T + 1)%Z).
Proof. reflexivity. Qed.

Lemma tick_completed w cons c : c_completed c = true -> ctick C w cons c = Ok (w, cons, c).
Proof. intros H. unfold ctick. rewrite H. reflexivity. Qed.

(* after completion nothing moves any more *)
Lemma run_completed n w cons c : c_completed c = true -> cticks C n w cons c = Ok (w, cons, c).
Proof.
  intros H. induction n as [|n IH]; [reflexivity|]. cbn [cticks]. rewrite (tick_completed _ _ _ H).
  exact IH.
Qed.

(* a frozen container only counts ticks *)
Lemma frozen_run n w cons k rest mem cs T :
  cticks C n w cons (mk k rest true mem cs false false T)
  = Ok (w, cons, mk k rest true mem cs false false (T + Z.of_nat n)%Z).
Proof.
  revert T; induction n as [|n IH]; intros T.
  - cbn [cticks]. rewrite Z.add_0_r. reflexivity.
  - cbn [cticks]. rewrite tick_frozen, IH. do 3 f_equal. lia.
Qed.

(* ---------- inside one operator ---------- *)

(* i ticks from a position inside operator k whose remaining script is r: all demands fit *)
Lemma run_some k : k < length ops -> forall i r w cons mem cs T,
  i < length r ->
  (forall i', i' < i -> (nth i' r 0 <= ram)%Q) ->
  acct cons mem ->
  exists cons' mem' cs',
    cticks C i w cons (mk k (Some r) false mem cs false false T)
    = Ok (w, cons', mk k (Some (skipn i r)) false mem' cs' false false (T + Z.of_nat i)%Z)
    /\ acct cons' mem'
    /\ (i = 0 -> mem' = mem /\ cs' = cs)
    /\ (0 < i -> mem' = nth (i - 1) r 0%Q /\ cs' = false).
Proof.
  intros Hk. induction i as [|i IH]; intros r w cons mem cs T Hi Hfit Hac.
  - exists cons, mem, cs. cbn [cticks skipn]. rewrite Z.add_0_r.
    repeat split; auto; lia.
  - destruct r as [|m [|m' r]]; cbn [length] in Hi; try lia.
    assert (Hm : (m <= ram)%Q) by (apply (Hfit 0); lia).
    destruct (IH (m' :: r) w (upd cons mem m) m false (T + 1)%Z) as (cons' & mem' & cs' & Hr & Ha & H0 & H1).
    { cbn [length]. lia. }
    { intros i' Hi'. apply (Hfit (S i')). lia. }
    { apply acct_upd. exact Hac. }
    exists cons', mem', cs'. cbn [cticks]. rewrite (tick_mid _ _ _ _ _ _ _ _ _ Hk Hm), Hr.
    split; [replace (T + Z.of_nat (S i))%Z with (T + 1 + Z.of_nat i)%Z by lia; reflexivity|].
    split; [exact Ha|]. split; [lia|]. intros _.
    destruct i as [|i].
    + destruct (H0 eq_refl) as [-> ->]. split; reflexivity.
    + destruct H1 as [-> ->]; [lia|]. split; [|reflexivity].
      cbn [Nat.sub nth]. rewrite Nat.sub_0_r. reflexivity.
Qed.

(* ---------- the world along the run ---------- *)

Hypothesis Hassigned : forall o, In o ops -> st_of w0 o = Assigned.
Hypothesis Hnodup : NoDup ops.
Hypothesis Hrange : forall o, In o ops -> o < length (w_st w0).
Hypothesis Hdeps : forall k, k < length ops -> forall p, In p (op_parents Sx (nth k ops 0)) ->
  st_of w0 p = Completed \/ exists i, i < k /\ nth i ops 0 = p.
Hypothesis Hne : forall k, k < length ops -> scr k <> [].

(* operators before position k COMPLETED, the k-th RUNNING or still ASSIGNED, later ones ASSIGNED,
   every other operator as in w0 *)
Definition Wst (k : nat) (running : bool) (w : world) : Prop :=
  length (w_st w) = length (w_st w0) /\
  (forall i, i < k -> i < length ops -> st_of w (nth i ops 0) = Completed) /\
  (k < length ops -> st_of w (nth k ops 0) = if running then Running else Assigned) /\
  (forall i, k < i -> i < length ops -> st_of w (nth i ops 0) = Assigned) /\
  (forall o, ~ In o ops -> st_of w o = st_of w0 o).

Lemma Wst_init : Wst 0 false w0.
Proof.
  split; [reflexivity|]. split; [intros i Hi; lia|]. split; [|split].
  - intros H. apply Hassigned, nth_In, H.
  - intros i _ Hi. apply Hassigned, nth_In, Hi.
  - reflexivity.
Qed.

Lemma ops_inj i j : i < length ops -> j < length ops -> nth i ops 0 = nth j ops 0 -> i = j.
Proof. intros Hi Hj. apply (proj1 (NoDup_nth ops 0) Hnodup i j Hi Hj). Qed.

Lemma Wst_start k w : k < length ops -> Wst k false w ->
  exists w1, transition Sx w (nth k ops 0) Running = Ok w1 /\ Wst k true w1.
Proof.
  intros Hk (Hl & Hb & Hc & Ha & Ho).
  set (op := nth k ops 0).
  assert (Hin : In op ops) by (apply nth_In; exact Hk).
  assert (T : transition Sx w op Running = Ok (world_after Sx w op Running)).
  { apply transition_ok. split; [|split; [|reflexivity]].
    - fold op in Hc. rewrite (Hc Hk). reflexivity.
    - intros _. apply parents_complete_spec. intros p Hp.
      destruct (Hdeps k Hk p Hp) as [Hp0 | (i & Hi & <-)].
      + rewrite Ho; [exact Hp0|]. intros Hpin. rewrite (Hassigned p Hpin) in Hp0. discriminate.
      + apply Hb; lia. }
  exists (world_after Sx w op Running). split; [exact T|].
  split; [rewrite (transition_length _ _ _ _ _ T); exact Hl|].
  split; [|split; [|split]].
  - intros i Hi Hil. rewrite (transition_st_other _ _ _ _ _ _ T); [apply Hb; assumption|].
    intros E. apply ops_inj in E; lia.
  - intros _. apply (transition_st_same _ _ _ _ _ T). rewrite Hl. apply Hrange, Hin.
  - intros i Hi Hil. rewrite (transition_st_other _ _ _ _ _ _ T); [apply Ha; assumption|].
    intros E. apply ops_inj in E; lia.
  - intros o Hno. rewrite (transition_st_other _ _ _ _ _ _ T); [apply Ho; exact Hno|].
    intros ->. contradiction.
Qed.

Lemma Wst_finish k w : k < length ops -> Wst k true w ->
  exists w2, transition Sx w (nth k ops 0) Completed = Ok w2 /\ Wst (S k) false w2.
Proof.
  intros Hk (Hl & Hb & Hc & Ha & Ho).
  set (op := nth k ops 0).
  assert (Hin : In op ops) by (apply nth_In; exact Hk).
  assert (T : transition Sx w op Completed = Ok (world_after Sx w op Completed)).
  { apply transition_ok. split; [|split; [discriminate|reflexivity]].
    fold op in Hc. rewrite (Hc Hk). reflexivity. }
  exists (world_after Sx w op Completed). split; [exact T|].
  split; [rewrite (transition_length _ _ _ _ _ T); exact Hl|].
  split; [|split; [|split]].
  - intros i Hi Hil. destruct (Nat.eq_dec i k) as [->|Nik].
    + apply (transition_st_same _ _ _ _ _ T). rewrite Hl. apply Hrange, Hin.
    + rewrite (transition_st_other _ _ _ _ _ _ T); [apply Hb; lia|].
      intros E. apply ops_inj in E; lia.
  - intros Hk'. rewrite (transition_st_other _ _ _ _ _ _ T); [apply Ha; lia|].
    intros E. apply ops_inj in E; lia.
  - intros i Hi Hil. rewrite (transition_st_other _ _ _ _ _ _ T); [apply Ha; lia|].
    intros E. apply ops_inj in E; lia.
  - intros o Hno. rewrite (transition_st_other _ _ _ _ _ _ T); [apply Ho; exact Hno|].
    intros ->. contradiction.
Qed.

(* ---------- one whole operator from a boundary ---------- *)

(* the state after tick j (0-based) of operator k, reached at container time T' *)
Definition post (k j : nat) (T' : Z) (w : world) (c : container) : Prop :=
  (S j < L k ->
     c = mk k (Some (skipn (S j) (scr k))) false (nth j (scr k) 0%Q) false false false T'
     /\ Wst k true w) /\
  (S j = L k -> S k < length ops ->
     c = mk (S k) None false (nth j (scr k) 0%Q) true false false T'
     /\ Wst (S k) false w) /\
  (S j = L k -> S k = length ops ->
     c = mk (S k) None false 0%Q false true false T'
     /\ Wst (S k) false w).

Lemma run_first n w w1 cons k mem cs T :
  k < length ops -> transition Sx w (nth k ops 0) Running = Ok w1 ->
  cticks C (S n) w cons (mk k None false mem cs false false T)
  = cticks C (S n) w1 cons (mk k (Some (scr k)) false mem cs false false T).
Proof. intros Hk Htr. cbn [cticks]. rewrite (tick_first _ _ _ _ _ _ _ Hk Htr). reflexivity. Qed.

Lemma op_run k w cons mem cs T j :
  k < length ops -> Wst k false w -> acct cons mem -> j < L k ->
  (forall j', j' <= j -> (nth j' (scr k) 0 <= ram)%Q) ->
  exists w' cons' c',
    cticks C (S j) w cons (mk k None false mem cs false false T) = Ok (w', cons', c')
    /\ acct cons' (c_mem c')
    /\ post k j (T + Z.of_nat (S j))%Z w' c'.
Proof.
  intros Hk HW Hac Hj Hfit.
  destruct (Wst_start k w Hk HW) as (w1 & Htr & HW1).
  rewrite (run_first _ _ _ _ _ _ _ _ Hk Htr).
  rewrite run_S_last.
  destruct (run_some k Hk j (scr k) w1 cons mem cs T Hj) as (cons1 & mem1 & cs1 & Hr & Ha1 & _ & _).
  { intros i' Hi'. apply Hfit. lia. }
  { exact Hac. }
  rewrite Hr.
  rewrite (skipn_cons_nth (scr k) j 0%Q Hj).
  assert (Hm : (nth j (scr k) 0 <= ram)%Q) by (apply Hfit; lia).
  assert (HT : (T + Z.of_nat j + 1 = T + Z.of_nat (S j))%Z) by lia.
  assert (Hlen : length (skipn (S j) (scr k)) = L k - S j) by apply skipn_length.
  destruct (skipn (S j) (scr k)) as [|m' r'] eqn:Esk; cbn [length] in Hlen.
  - (* last tick of the operator *)
    destruct (Wst_finish k w1 Hk HW1) as (w2 & Htr2 & HW2).
    destruct (Nat.eq_dec (S k) (length ops)) as [Hfin | Hnf].
    + rewrite (tick_last_final _ _ _ _ _ _ _ _ Hfin Hm Htr2), HT.
      eexists _, _, _. split; [reflexivity|]. split.
      * cbn [mk c_mem]. apply acct_upd, acct_upd, Ha1.
      * split; [intros; lia|]. split; [intros; lia|]. intros _ _. split; [reflexivity | exact HW2].
    + assert (Hk' : S k < length ops) by lia.
      rewrite (tick_last_nonfinal _ _ _ _ _ _ _ _ Hk' Hm Htr2), HT.
      eexists _, _, _. split; [reflexivity|]. split.
      * cbn [mk c_mem]. apply acct_upd, Ha1.
      * split; [intros; lia|]. split; [|intros; lia]. intros _ _. split; [reflexivity | exact HW2].
  - rewrite (tick_mid _ _ _ _ _ _ _ _ _ Hk Hm), HT.
    eexists _, _, _. split; [reflexivity|]. split.
    + cbn [mk c_mem]. apply acct_upd, Ha1.
    + split; [|split; intros; lia]. intros _. split; [rewrite Esk; reflexivity | exact HW1].
Qed.

(* ---------- the operators one after the other ---------- *)

Lemma L_pos k : k < length ops -> 0 < L k.
Proof.
  intros Hk. unfold L. specialize (Hne k Hk). destruct (scr k); [congruence | cbn; lia].
Qed.

(* position (k', j') lies strictly before position (k, j) *)
Definition before (k j k' j' : nat) : Prop :=
  (k' < k /\ j' < L k') \/ (k' = k /\ j' < j).

Lemma boundary k : k < length ops ->
  (forall k' j', k' < k -> j' < L k' -> (nth j' (scr k') 0 <= ram)%Q) ->
  exists w cons mem cs,
    cticks C (off k) w0 cons0 c0 = Ok (w, cons, mk k None false mem cs false false (Z.of_nat (off k)))
    /\ Wst k false w /\ acct cons mem.
Proof.
  induction k as [|k IH]; intros Hk Hfit.
  - exists w0, cons0, 0%Q, false. cbn [off cticks]. split; [reflexivity|].
    split; [apply Wst_init | apply acct_init].
  - destruct IH as (w & cons & mem & cs & Hr & HW & Hac); [lia | intros; apply Hfit; lia |].
    assert (Hk0 : k < length ops) by lia.
    pose proof (L_pos k Hk0) as HL.
    destruct (op_run k w cons mem cs (Z.of_nat (off k)) (L k - 1) Hk0 HW Hac) as
      (w' & cons' & c' & Hr' & Hac' & _ & Hp & _); [lia | intros; apply Hfit; lia |].
    replace (S (L k - 1)) with (L k) in * by lia.
    destruct (Hp eq_refl Hk) as [-> HW'].
    cbn [off]. rewrite run_add, Hr, Hr'.
    eexists _, _, _, _. split; [|split; [exact HW' | exact Hac']].
    do 3 f_equal. lia.
Qed.

(* (a) success run, by position: after tick j of operator k *)
Theorem run_success k j :
  k < length ops -> j < L k ->
  (forall k' j', before k (S j) k' j' -> (nth j' (scr k') 0 <= ram)%Q) ->
  exists w cons c,
    cticks C (off k + S j) w0 cons0 c0 = Ok (w, cons, c)
    /\ acct cons (c_mem c)
    /\ post k j (Z.of_nat (off k + S j)) w c.
Proof.
  intros Hk Hj Hfit.
  destruct (boundary k Hk) as (w & cons & mem & cs & Hr & HW & Hac).
  { intros k' j' Hk' Hj'. apply Hfit. left. split; assumption. }
  destruct (op_run k w cons mem cs (Z.of_nat (off k)) j Hk HW Hac Hj) as (w' & cons' & c' & Hr' & Hac' & Hp).
  { intros j' Hj'. apply Hfit. right. split; [reflexivity | lia]. }
  exists w', cons', c'. rewrite run_add, Hr, Hr'. split; [reflexivity|]. split; [exact Hac'|].
  replace (Z.of_nat (off k + S j)) with (Z.of_nat (off k) + Z.of_nat (S j))%Z by lia.
  exact Hp.
Qed.

(* ---------- arithmetic of positions ---------- *)

Lemma off_le a b : a <= b -> off a <= off b.
Proof. induction 1; [lia|]. cbn [off]. lia. Qed.

Lemma off_lt a b : a < b -> b <= length ops -> off a < off b.
Proof.
  intros Hab Hb. induction Hab as [|b Hab IH].
  - cbn [off]. pose proof (L_pos a ltac:(lia)). lia.
  - cbn [off]. specialize (IH ltac:(lia)). lia.
Qed.

Lemma pos_total k j : k < length ops -> j < L k ->
  (off k + S j = total <-> S j = L k /\ S k = length ops).
Proof.
  intros Hk Hj. unfold total. split.
  - intros E. destruct (Nat.eq_dec (S k) (length ops)) as [Hf|Hf].
    + rewrite <- Hf in E. cbn [off] in E. lia.
    + pose proof (off_lt (S k) (length ops) ltac:(lia) (le_n _)) as H. cbn [off] in H. lia.
  - intros [E1 E2]. rewrite <- E2. cbn [off]. lia.
Qed.

Lemma pos_le_total k j : k < length ops -> j < L k -> off k + S j <= total.
Proof.
  intros Hk Hj. unfold total.
  pose proof (off_le (S k) (length ops) ltac:(lia)) as H. cbn [off] in H. lia.
Qed.

(* every tick 0 < t <= total is tick j of operator k for exactly one position *)
Lemma locate_upto n : n <= length ops -> forall t, 0 < t <= off n ->
  exists k j, k < n /\ j < L k /\ t = off k + S j.
Proof.
  induction n as [|n IH]; intros Hn t Ht; cbn [off] in Ht; [lia|].
  destruct (le_lt_dec t (off n)) as [Hle | Hgt].
  - destruct (IH ltac:(lia) t ltac:(lia)) as (k & j & Hk & Hj & E). exists k, j. repeat split; auto.
  - exists n, (t - off n - 1). repeat split; lia.
Qed.

Lemma locate t : 0 < t <= total -> exists k j, k < length ops /\ j < L k /\ t = off k + S j.
Proof. apply locate_upto. apply le_n. Qed.

Lemma locate_unique k j k' j' :
  k < length ops -> j < L k -> k' < length ops -> j' < L k' ->
  off k + S j = off k' + S j' -> k = k' /\ j = j'.
Proof.
  intros Hk Hj Hk' Hj' E.
  destruct (lt_eq_lt_dec k k') as [[Hlt | ->] | Hgt].
  - pose proof (off_le (S k) k' ltac:(lia)) as H. cbn [off] in H. lia.
  - split; [reflexivity | lia].
  - pose proof (off_le (S k') k ltac:(lia)) as H. cbn [off] in H. lia.
Qed.

(* (a) success run, by fields *)
Definition all_fit : Prop := forall k j, k < length ops -> j < L k -> (nth j (scr k) 0 <= ram)%Q.

Theorem run_success_fields k j :
  all_fit -> k < length ops -> j < L k ->
  let t := off k + S j in
  exists w cons c,
    cticks C t w0 cons0 c0 = Ok (w, cons, c)
    /\ c_ticks c = Z.of_nat t
    /\ c_frozen c = false /\ c_error c = false
    /\ (c_completed c = true <-> t = total)
    /\ (c_can_suspend c = true <-> (S j = L k /\ S k < length ops))
    /\ (t <> total -> c_mem c = nth j (scr k) 0%Q)
    /\ (t = total -> c_mem c = 0%Q)
    /\ (forall i, i < k -> st_of w (nth i ops 0) = Completed)
    /\ st_of w (nth k ops 0) = (if S j =? L k then Completed else Running)
    /\ (forall i, k < i -> i < length ops -> st_of w (nth i ops 0) = Assigned)
    /\ (forall o, ~ In o ops -> st_of w o = st_of w0 o)
    /\ acct cons (c_mem c).
Proof.
  intros Hfit Hk Hj t.
  destruct (run_success k j Hk Hj) as (w & cons & c & Hr & Hac & Hp1 & Hp2 & Hp3).
  { intros k' j' [[Hk' Hj'] | [-> Hj']]; apply Hfit; auto; lia. }
  exists w, cons, c. split; [exact Hr|].
  pose proof (pos_total k j Hk Hj) as Htot. fold t in Htot.
  destruct (lt_eq_lt_dec (S j) (L k)) as [[Hlt | Heq] | Hgt]; [| |lia].
  - destruct (Hp1 Hlt) as [-> (Hl & Hb & Hc & Ha & Ho)]. cbn [mk c_ticks c_frozen c_error c_completed c_can_suspend c_mem].
    replace (S j =? L k) with false by (symmetry; apply Nat.eqb_neq; lia).
    repeat split; auto; try lia; try discriminate.
    intros i Hi. apply Hb; lia.
  - destruct (Nat.eq_dec (S k) (length ops)) as [Hfin | Hnf].
    + destruct (Hp3 Heq Hfin) as [-> (Hl & Hb & Hc & Ha & Ho)].
      cbn [mk c_ticks c_frozen c_error c_completed c_can_suspend c_mem].
      replace (S j =? L k) with true by (symmetry; apply Nat.eqb_eq; lia).
      assert (Et : t = total) by (apply Htot; split; assumption).
      repeat split; auto; try lia; try discriminate;
        try (intros i Hi; apply Hb; lia); try (apply Hb; lia).
    + destruct (Hp2 Heq ltac:(lia)) as [-> (Hl & Hb & Hc & Ha & Ho)].
      cbn [mk c_ticks c_frozen c_error c_completed c_can_suspend c_mem].
      replace (S j =? L k) with true by (symmetry; apply Nat.eqb_eq; lia).
      assert (Et : t <> total) by (intros E; apply Htot in E; lia).
      repeat split; auto; try lia; try discriminate;
        try (intros i Hi; apply Hb; lia); try (apply Hb; lia).
      intros i Hi Hil. destruct (Nat.eq_dec i (S k)) as [->|Ni]; [apply Hc; lia | apply Ha; lia].
Qed.

(* (a) success run, by time: every 0 < t <= total *)
Theorem run_success_at t :
  all_fit -> 0 < t <= total ->
  exists k j w cons c,
    k < length ops /\ j < L k /\ t = off k + S j
    /\ cticks C t w0 cons0 c0 = Ok (w, cons, c)
    /\ c_ticks c = Z.of_nat t
    /\ c_frozen c = false /\ c_error c = false
    /\ (c_completed c = true <-> t = total)
    /\ (c_can_suspend c = true <-> (S j = L k /\ S k < length ops))
    /\ (t <> total -> c_mem c = nth j (scr k) 0%Q)
    /\ (t = total -> c_mem c = 0%Q)
    /\ (forall i, i < k -> st_of w (nth i ops 0) = Completed)
    /\ st_of w (nth k ops 0) = (if S j =? L k then Completed else Running)
    /\ (forall i, k < i -> i < length ops -> st_of w (nth i ops 0) = Assigned)
    /\ (forall o, ~ In o ops -> st_of w o = st_of w0 o)
    /\ acct cons (c_mem c).
Proof.
  intros Hfit Ht. destruct (locate t Ht) as (k & j & Hk & Hj & ->).
  destruct (run_success_fields k j Hfit Hk Hj) as (w & cons & c & H).
  exists k, j, w, cons, c. split; [exact Hk|]. split; [exact Hj|]. split; [reflexivity|]. exact H.
Qed.

(* the container completes at exactly [total] ticks, without error, and stays there *)
Corollary run_success_total n :
  all_fit -> 0 < length ops ->
  exists w cons c,
    cticks C (total + n) w0 cons0 c0 = Ok (w, cons, c)
    /\ c_completed c = true /\ c_error c = false /\ c_mem c = 0%Q
    /\ c_ticks c = Z.of_nat total
    /\ (forall i, i < length ops -> st_of w (nth i ops 0) = Completed)
    /\ acct cons 0%Q.
Proof.
  intros Hfit Hops.
  assert (Ht : 0 < total <= total).
  { split; [|lia]. unfold total. pose proof (off_lt 0 (length ops) Hops (le_n _)) as H. cbn [off] in H. lia. }
  destruct (run_success_at total Hfit Ht) as
    (k & j & w & cons & c & Hk & Hj & E & Hr & Htk & _ & Her & Hcp & _ & _ & Hm & Hb & Hc & _ & _ & Hac).
  symmetry in E. pose proof (proj1 (pos_total k j Hk Hj) E) as [E1 E2].
  exists w, cons, c. rewrite run_add, Hr.
  rewrite (run_completed n w cons c (proj2 Hcp eq_refl)).
  rewrite (Hm eq_refl) in Hac.
  repeat split; auto.
  - apply Hcp. reflexivity.
  - intros i Hi. destruct (Nat.eq_dec i k) as [->|Ni].
    + rewrite Hc. replace (S j =? L k) with true by (symmetry; apply Nat.eqb_eq; lia). reflexivity.
    + apply Hb. lia.
Qed.

(* (c) exact accounting along the success run *)
Corollary exact_accounting t :
  (forall x, cf_rnd C x == x)%Q -> all_fit -> 0 < t <= total ->
  exists w cons c, cticks C t w0 cons0 c0 = Ok (w, cons, c) /\ (cons == cons0 + c_mem c)%Q.
Proof.
  intros Hid Hfit Ht.
  destruct (run_success_at t Hfit Ht) as (k & j & w & cons & c & H).
  exists w, cons, c. split; [apply H|]. apply H. exact Hid.
Qed.

(* ---------- (b) OOM ---------- *)

Theorem run_oom k j :
  k < length ops -> j < L k ->
  (ram < nth j (scr k) 0)%Q ->
  (forall k' j', before k j k' j' -> (nth j' (scr k') 0 <= ram)%Q) ->
  exists w cons cs,
    cticks C (off k + S j) w0 cons0 c0
    = Ok (w, cons, mk k (Some (skipn j (scr k))) true (nth j (scr k) 0%Q) cs false false
                      (Z.of_nat (off k + S j)))
    /\ Wst k true w /\ acct cons (nth j (scr k) 0%Q).
Proof.
  intros Hk Hj Hoom Hfit.
  destruct (boundary k Hk) as (w & cons & mem & cs & Hr & HW & Hac).
  { intros k' j' Hk' Hj'. apply Hfit. left. split; assumption. }
  destruct (Wst_start k w Hk HW) as (w1 & Htr & HW1).
  destruct (run_some k Hk j (scr k) w1 cons mem cs (Z.of_nat (off k)) Hj) as (cons1 & mem1 & cs1 & Hr1 & Ha1 & _ & _).
  { intros i' Hi'. apply Hfit. right. split; [reflexivity | exact Hi']. }
  { exact Hac. }
  exists w1, (upd cons1 mem1 (nth j (scr k) 0%Q)), cs1.
  rewrite run_add, Hr, (run_first _ _ _ _ _ _ _ _ Hk Htr).
  rewrite run_S_last, Hr1.
  rewrite (skipn_cons_nth (scr k) j 0%Q Hj).
  rewrite (tick_oom _ _ _ _ _ _ _ _ Hk Hoom).
  split; [|split; [exact HW1 | apply acct_upd, Ha1]].
  do 3 f_equal. lia.
Qed.

(* kill("OOM") of a container stuck in operator k *)
Lemma ckill_frozen k w cons rest fr mem cs T :
  k < length ops -> Wst k true w -> acct cons mem ->
  exists w' cons' c',
    ckill C w cons (mk k rest fr mem cs false false T) = Ok (w', cons', c')
    /\ (forall i, i < k -> st_of w' (nth i ops 0) = Completed)
    /\ (forall i, k <= i -> i < length ops -> st_of w' (nth i ops 0) = Failed)
    /\ (forall o, ~ In o ops -> st_of w' o = st_of w0 o)
    /\ c_completed c' = true /\ c_error c' = true /\ c_mem c' = 0%Q
    /\ c_ticks c' = T
    /\ acct cons' 0%Q.
Proof.
  intros Hk (Hl & Hb & Hc & Ha & Ho) Hac.
  assert (Hsk : forall o, In o (skipn k ops) -> exists i, k <= i /\ i < length ops /\ nth i ops 0 = o).
  { intros o Hin. destruct (In_nth _ _ 0 Hin) as (i & Hi & E). rewrite skipn_length in Hi.
    exists (k + i). rewrite nth_skipn_add in E. repeat split; [lia | lia | exact E]. }
  destruct (transition_all_failed Sx (skipn k ops) w (NoDup_skipn ops k Hnodup)) as (w' & Htr & HF & HO & HL).
  { intros o Hin. destruct (Hsk o Hin) as (i & Hki & Hil & <-). split.
    - destruct (Nat.eq_dec i k) as [->|Ni]; [left; apply Hc; exact Hk | right; apply Ha; lia].
    - rewrite Hl. apply Hrange, nth_In, Hil. }
  unfold ckill. cbn [mk c_completed c_opidx c_ops]. fold Sx. rewrite Htr. cbn [bind].
  unfold mark_completed, set_mem. cbn [mk c_mem c_id c_ops c_cpu c_ram c_prio c_opidx c_rest c_frozen
    c_can_suspend c_completed c_error c_ticks c_susp_left].
  eexists _, _, _. split; [reflexivity|].
  cbn [c_completed c_error c_mem c_ticks].
  split; [|split; [|split; [|repeat split]]].
  - intros i Hi. rewrite HO; [apply Hb; lia|].
    intros Hin. destruct (Hsk _ Hin) as (i' & Hki & Hil & E). apply ops_inj in E; lia.
  - intros i Hki Hil. apply HF.
    replace i with (k + (i - k)) by lia. rewrite <- nth_skipn_add. apply nth_In.
    rewrite skipn_length. lia.
  - intros o Hno. rewrite HO; [apply Ho; exact Hno|].
    intros Hin. destruct (Hsk _ Hin) as (i' & _ & Hil & <-). apply Hno, nth_In, Hil.
  - apply (acct_upd cons mem 0%Q Hac).
Qed.

(* (b) all together *)
Theorem oom_theorem k j :
  k < length ops -> j < L k ->
  (ram < nth j (scr k) 0)%Q ->
  (forall k' j', before k j k' j' -> (nth j' (scr k') 0 <= ram)%Q) ->
  let T := off k + S j in
  exists w cons cF,
    (* frozen after exactly T ticks, in operator k, holding the offending demand *)
    cticks C T w0 cons0 c0 = Ok (w, cons, cF)
    /\ c_frozen cF = true /\ c_completed cF = false /\ c_error cF = false
    /\ c_mem cF = nth j (scr k) 0%Q /\ c_opidx cF = k /\ c_ticks cF = Z.of_nat T
    /\ (forall i, i < k -> st_of w (nth i ops 0) = Completed)
    /\ st_of w (nth k ops 0) = Running
    /\ (forall i, k < i -> i < length ops -> st_of w (nth i ops 0) = Assigned)
    /\ acct cons (c_mem cF)
    (* further ticks only count *)
    /\ (forall n, exists cn,
          cticks C (T + n) w0 cons0 c0 = Ok (w, cons, cn)
          /\ c_ticks cn = Z.of_nat (T + n)
          /\ cn = mk (c_opidx cF) (c_rest cF) (c_frozen cF) (c_mem cF) (c_can_suspend cF)
                     (c_completed cF) (c_error cF) (c_ticks cn))
    (* the executor's kill: earlier operators COMPLETED, current and later FAILED *)
    /\ (forall n cn, cticks C (T + n) w0 cons0 c0 = Ok (w, cons, cn) ->
        exists w' cons' c',
          ckill C w cons cn = Ok (w', cons', c')
          /\ (forall i, i < k -> st_of w' (nth i ops 0) = Completed)
          /\ (forall i, k <= i -> i < length ops -> st_of w' (nth i ops 0) = Failed)
          /\ c_completed c' = true /\ c_error c' = true /\ c_mem c' = 0%Q
          /\ acct cons' 0%Q).
Proof.
  intros Hk Hj Hoom Hfit T.
  destruct (run_oom k j Hk Hj Hoom Hfit) as (w & cons & cs & Hr & HW & Hac). fold T in Hr.
  eexists w, cons, _. split; [exact Hr|].
  cbn [mk c_frozen c_completed c_error c_mem c_opidx c_ticks c_rest c_can_suspend].
  pose proof HW as (Hl & Hb & Hc & Ha & Ho).
  assert (Hrun : forall n, cticks C (T + n) w0 cons0 c0
            = Ok (w, cons, mk k (Some (skipn j (scr k))) true (nth j (scr k) 0%Q) cs false false
                              (Z.of_nat T + Z.of_nat n)%Z)).
  { intros n. rewrite run_add, Hr. apply frozen_run. }
  repeat split; auto.
  - intros i Hi. apply Hb; lia.
  - intros n. eexists. split; [apply Hrun|]. cbn [mk c_ticks]. split; [lia | reflexivity].
  - intros n cn Hn. rewrite Hrun in Hn. inversion Hn as [E]. clear Hn.
    destruct (ckill_frozen k w cons (Some (skipn j (scr k))) true (nth j (scr k) 0%Q) cs
                (Z.of_nat T + Z.of_nat n)%Z Hk HW Hac)
      as (w' & cons' & c' & Hkl & H1 & H2 & _ & H4 & H5 & H6 & _ & H8).
    exists w', cons', c'. repeat split; assumption.
Qed.

(* (c) for the OOM run *)
Corollary exact_accounting_oom k j :
  (forall x, cf_rnd C x == x)%Q ->
  k < length ops -> j < L k ->
  (ram < nth j (scr k) 0)%Q ->
  (forall k' j', before k j k' j' -> (nth j' (scr k') 0 <= ram)%Q) ->
  exists w cons c, cticks C (off k + S j) w0 cons0 c0 = Ok (w, cons, c)
    /\ (cons == cons0 + c_mem c)%Q.
Proof.
  intros Hid Hk Hj Hoom Hfit.
  destruct (run_oom k j Hk Hj Hoom Hfit) as (w & cons & cs & Hr & _ & Hac).
  eexists w, cons, _. split; [exact Hr|]. cbn [mk c_mem]. apply Hac, Hid.
Qed.

End ContainerRun.

(* ---------- non-vacuity: a concrete 2-operator container, scripts [1;2] and [3] ---------- *)

Definition exS : static :=
  {| s_ops := [ {| od_pipe := 0; od_parents := [] |}; {| od_pipe := 0; od_parents := [0] |} ];
     s_pipes := [ mk_pdef 0 Batch [[]; [0]] ] |}.
Definition exw0 : world :=
  {| w_st := [Assigned; Assigned]; w_cnt := [[0; 2; 0; 0; 0; 0]%Z] |}.
Definition exC : cfg :=
  {| cf_static := exS;
     cf_script := fun op _ => match op with O => [1; 2]%Q | _ => [3]%Q end;
     cf_tps := 100%Z; cf_overcommit := false; cf_multi := false; cf_rnd := rnd64 |}.

Lemma ex_assigned : forall o, In o [0; 1] -> st_of exw0 o = Assigned.
Proof. intros o [<- | [<- | []]]; reflexivity. Qed.
Lemma ex_nodup : NoDup [0; 1].
Proof.
  constructor; [intros [H | []]; discriminate|]. constructor; [intros []|]. constructor.
Qed.
Lemma ex_range : forall o, In o [0; 1] -> o < length (w_st exw0).
Proof. intros o [<- | [<- | []]]; cbn; lia. Qed.
Lemma ex_deps : forall k, k < length [0; 1] -> forall p,
  In p (op_parents (cf_static exC) (nth k [0; 1] 0)) ->
  st_of exw0 p = Completed \/ exists i, i < k /\ nth i [0; 1] 0 = p.
Proof.
  intros [|[|k]] Hk p Hp; cbn in Hk, Hp.
  - destruct Hp.
  - destruct Hp as [<- | []]. right. exists 0. split; [lia | reflexivity].
  - lia.
Qed.
Lemma ex_ne : forall k, k < length [0; 1] -> scr exC [0; 1] 1%Z k <> [].
Proof. intros [|[|k]] Hk; cbn in Hk; try lia; discriminate. Qed.

(* ram = 4: everything fits; completes after exactly 2 + 1 = 3 ticks *)
Lemma ex_fit : all_fit exC [0; 1] 1%Z 4%Q.
Proof.
  intros [|[|k]] j Hk Hj; cbn in Hk; try lia.
  - destruct j as [|[|j]]; cbn in Hj; try lia; cbn; unfold Qle; cbn; lia.
  - destruct j as [|j]; cbn in Hj; try lia; cbn; unfold Qle; cbn; lia.
Qed.

Example ex_total : total exC [0; 1] 1%Z = 3.
Proof. reflexivity. Qed.

Example ex_success : exists w cons c,
  cticks exC 3 exw0 0%Q (new_container 7 [0; 1] 1%Z 4%Q Batch) = Ok (w, cons, c)
  /\ c_completed c = true /\ c_error c = false /\ c_mem c = 0%Q /\ c_ticks c = 3%Z
  /\ (forall i, i < 2 -> st_of w (nth i [0; 1] 0) = Completed).
Proof.
  destruct (run_success_total exC 7 [0; 1] 1%Z 4%Q Batch exw0 0%Q
              ex_assigned ex_nodup ex_range ex_deps ex_ne 0 ex_fit ltac:(cbn; lia))
    as (w & cons & c & Hr & H1 & H2 & H3 & H4 & H5 & _).
  exists w, cons, c. repeat split; assumption.
Qed.

(* the same by computation, tick by tick: memory 1, 2, then completed with memory 0 *)
Example ex_success_compute :
  map (fun n => match cticks exC n exw0 0%Q (new_container 7 [0; 1] 1%Z 4%Q Batch) with
                | Ok (w, cn, c) =>
                    Some (w_st w, (Qred cn, Qred (c_mem c)), (c_can_suspend c, c_completed c, c_error c), c_ticks c)
                | Err _ => None
                end) [1; 2; 3; 4]
  = [ Some ([Running; Assigned],     (1%Q, 1%Q), (false, false, false), 1%Z);
      Some ([Completed; Assigned],   (2%Q, 2%Q), (true, false, false),  2%Z);
      Some ([Completed; Completed],  (0%Q, 0%Q), (false, true, false),  3%Z);
      Some ([Completed; Completed],  (0%Q, 0%Q), (false, true, false),  3%Z) ].
Proof. vm_compute. reflexivity. Qed.

(* ram = 5/2: the first offending position is (operator 1, tick 0), reached after 2 + 0 + 1 ticks *)
Example ex_oom : exists w cons cF,
  cticks exC 3 exw0 0%Q (new_container 7 [0; 1] 1%Z (5 # 2)%Q Batch) = Ok (w, cons, cF)
  /\ c_frozen cF = true /\ c_mem cF = 3%Q /\ c_opidx cF = 1
  /\ st_of w 0 = Completed /\ st_of w 1 = Running
  /\ exists w' cons' c', ckill exC w cons cF = Ok (w', cons', c')
       /\ st_of w' 0 = Completed /\ st_of w' 1 = Failed
       /\ c_completed c' = true /\ c_error c' = true /\ c_mem c' = 0%Q.
Proof.
  destruct (oom_theorem exC 7 [0; 1] 1%Z (5 # 2)%Q Batch exw0 0%Q
              ex_assigned ex_nodup ex_range ex_deps ex_ne 1 0)
    as (w & cons & cF & Hr & H1 & _ & _ & H4 & H5 & _ & H7 & H8 & _ & _ & _ & Hkill).
  - cbn; lia.
  - cbn; lia.
  - cbn. unfold Qlt; cbn; lia.
  - intros k' j' [[Hk' Hj'] | [-> Hj']]; [|lia].
    destruct k' as [|k']; [|lia]. destruct j' as [|[|j']]; cbn in Hj'; try lia; cbn; unfold Qle; cbn; lia.
  - exists w, cons, cF. split; [exact Hr|]. split; [exact H1|]. split; [exact H4|]. split; [exact H5|].
    split; [apply (H7 0); lia|]. split; [exact H8|].
    destruct (Hkill 0 cF) as (w' & cons' & c' & Hk & K1 & K2 & K3 & K4 & K5 & _).
    { rewrite Nat.add_0_r. exact Hr. }
    exists w', cons', c'. split; [exact Hk|]. split; [apply (K1 0); lia|].
    split; [apply (K2 1); cbn; lia|]. repeat split; assumption.
Qed.

Example ex_oom_compute :
  match cticks exC 5 exw0 0%Q (new_container 7 [0; 1] 1%Z (5 # 2)%Q Batch) with
  | Ok (w, cn, c) =>
      (w_st w, Qred cn, Qred (c_mem c), c_frozen c, c_ticks c) = ([Completed; Running], 3%Q, 3%Q, true, 5%Z)
      /\ match ckill exC w cn c with
         | Ok (w', cons', c') =>
             (w_st w', Qred cons', c_completed c', c_error c') = ([Completed; Failed], 0%Q, true, true)
         | Err _ => False
         end
  | Err _ => False
  end.
Proof. vm_compute. split; reflexivity. Qed.

